#!/bin/bash
# usage: tools/muttest.sh <CHECK-ID> <name> <python-snippet-file>   (snippet edits files relative to the worktree)
# Applies a mutation to a scratch worktree of /repo HEAD, runs the check against it, removes the worktree.
set -u
ID=$1; NAME=$2; SNIP=$3
WT=/tmp/wt-mut-$NAME
git -C /repo worktree remove --force $WT 2>/dev/null
git -C /repo worktree add -q --detach $WT HEAD || exit 2
(cd $WT && python3 $SNIP) || { echo "MUTATION-FAILED-TO-APPLY $NAME"; git -C /repo worktree remove --force $WT; exit 2; }
(cd $WT && GOFLAGS=-mod=mod GOTOOLCHAIN=local go build ./... ) || { echo "MUTANT-DOES-NOT-COMPILE $NAME"; git -C /repo worktree remove --force $WT; exit 2; }
VERIF_REPO=$WT /verif/check $ID > /tmp/mut-$NAME.out 2>&1
rc=$?
echo "MUTANT $NAME check=$ID exit=$rc $(grep -c '^VIOLATION' /tmp/mut-$NAME.out) violations; sigs: $(grep -o 'sig=[^:]*' /tmp/mut-$NAME.out | sort | uniq -c | sort -rn | head -4 | tr '\n' ';')"
git -C /repo worktree remove --force $WT
rm -rf /verif/.build/alt-$(echo "$WT" | md5sum | cut -c1-10)
exit 0
