#!/bin/bash
# process_seed.sh <PROP> <id>  e.g. C01 c01f — confirmation (builds, suite, demo with/without) and the check at seeds 1,2,3
PROP=$1; id=$2
cd /verif
tools/confirm_seed.sh /tmp/seed-$id /tmp/seed-$id-out
for s in 1 2 3; do
  out=$(VERIF_SEED=$s VERIF_REPO=/tmp/seed-$id ./check $PROP 2>&1); code=$?
  echo "DETECT $id seed=$s exit=$code violations=$(echo "$out" | grep -c '^VIOLATION') :: $(echo "$out" | grep -o 'sig=[^:]*' | sort | uniq -c | sort -rn | head -3 | tr '\n' ';')"
done
