#!/bin/bash
# Runs the repository's pinned Go test suite with the verif guard OFF, under a
# clean HOME (the sandbox's /root/.gitconfig sets init.defaultBranch=main, with
# which several fixtures of the pinned suite fail).
set -u
export GOFLAGS=-mod=mod GOPROXY=off GOSUMDB=off GOTOOLCHAIN=local
export GOPATH=${GOPATH:-/root/go} GOCACHE=${GOCACHE:-/root/.cache/go-build}
H=$(mktemp -d /tmp/verif-baseline-home.XXXXXX)
trap 'rm -rf "$H"' EXIT
printf '[user]\n\tname = Baseline\n\temail = baseline@example.com\n' > "$H/.gitconfig"
mkdir -p "$H/tmp"
export HOME=$H XDG_CONFIG_HOME=$H/xdg GIT_CONFIG_NOSYSTEM=1 TMPDIR=$H/tmp
cd "${REPO_DIR:-/repo}" && go test -json -vet=off -count=1 -timeout 25m ./... > "${BASELINE_JSON:-/dev/null}" 2>/dev/null
rc=$?
if [ -n "${BASELINE_JSON:-}" ]; then
  python3 - "$BASELINE_JSON" <<'PY'
import json,sys
p=f=0
for l in open(sys.argv[1]):
    try: e=json.loads(l)
    except: continue
    if e.get('Test') and e.get('Action')=='pass': p+=1
    if e.get('Test') and e.get('Action')=='fail': f+=1; print('FAIL',e['Package'],e['Test'])
print('passed',p,'failed',f)
PY
fi
exit $rc
