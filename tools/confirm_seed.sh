#!/bin/bash
# confirm_seed.sh <worktree-with-change> <out-dir>   — the lead's own confirmation of a seeded change:
# both tag variants build, the pinned suite passes with the change, the demonstration fails with it and
# passes without it. Prints one summary line; leaves the worktree with the change applied.
WT=$1; OUT=$2
export GOFLAGS=-mod=mod GOPROXY=off GOSUMDB=off GOTOOLCHAIN=local
cd "$WT" || exit 2
b1=fail; b2=fail
go build ./... >/dev/null 2>&1 && b1=ok
go build -tags verif ./... >/dev/null 2>&1 && b2=ok
J=$(mktemp /tmp/confirm-XXXX.json)
suite=$(REPO_DIR=$WT BASELINE_JSON=$J /verif/tools/baseline_off.sh | tail -1); rm -f "$J"
demo=$(python3 -c "import json,sys;print(json.load(open('$OUT/meta.json')).get('how_to_run_demo',''))")
rundemo() { if [ -f "$OUT/demo.sh" ]; then (cd /tmp && timeout 900 bash "$OUT/demo.sh" "$WT" >/dev/null 2>&1; echo $?); else echo nodemo; fi; }
with=$(rundemo)
git apply -R "$OUT/patch.diff" || { echo "cannot reverse patch"; exit 2; }
without=$(rundemo)
git apply "$OUT/patch.diff"
echo "CONFIRM $(basename $WT): build=$b1 build-verif=$b2 suite=[$suite] demo-with-change=exit$with demo-pristine=exit$without"
