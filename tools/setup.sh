#!/bin/bash
# Builds the framework offline from files on disk: git-lfs (hooks on) and every harness driver.
set -u
export GOFLAGS=-mod=mod GOPROXY=off GOSUMDB=off GOTOOLCHAIN=local
export GOPATH=${GOPATH:-/root/go} GOCACHE=${GOCACHE:-/root/.cache/go-build}
cd /verif
mkdir -p .build/bin .build/bin-race .build/h evidence replay
cat /repo/go.sum harness/go.sum.extra 2>/dev/null | sort -u > harness/go.sum
(cd /repo && go build -tags verif -o /verif/.build/bin/git-lfs .) || exit 1
(cd /repo && go build -race -tags verif -o /verif/.build/bin-race/git-lfs .) || exit 1
(cd harness && go build -tags verif ./... ) || exit 1
(cd harness && go vet -tags verif ./evid ./sbx ./ptrspec >/dev/null 2>&1; true)
echo setup ok
