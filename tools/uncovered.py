#!/usr/bin/env python3
"""uncovered.py <file> ... — prints the source of statement blocks the coverage survey (tools/coverage.sh) never executed."""
import json,sys
blocks=json.load(open('/verif/.build/cover/blocks.json'))
for f in sys.argv[1:]:
    src=open('/repo/'+f).read().split('\n')
    unc=sorted((int(k.split(':')[1]),int(k.split(':')[2])) for k,v in blocks.items() if k.startswith(f+':') and v==0)
    # merge adjacent
    merged=[]
    for s,e in unc:
        if merged and s<=merged[-1][1]+1: merged[-1][1]=max(merged[-1][1],e)
        else: merged.append([s,e])
    print(f'=== {f}: {len(merged)} uncovered regions')
    for s,e in merged:
        print(f'--- {s}-{e}')
        for i in range(s-1,min(e,s+11)):
            print(f'{i+1:5d} {src[i]}')
        if e>s+11: print('      ...')
