#!/bin/bash
# mkseed.sh <PID> <suffix>  — creates /tmp/seed-<id> worktree of /repo HEAD and the prompt /tmp/seed-<id>.prompt.txt
# (the prompt holds only the property text, the seeding rules and one-line summaries of ideas already taken).
set -e
PID=$1; SUF=$2; FLAVOR=${3:-fault}; id=$(echo "$PID" | tr A-Z a-z)$SUF
WT=/tmp/seed-$id
git -C /repo worktree add -q --detach "$WT" HEAD
python3 - "$PID" "$id" "$WT" "$FLAVOR" <<'PY'
import json,sys,glob,os
pid,id_,wt,flavor=sys.argv[1:5]
prop=None
for l in open('/verif/properties.jsonl'):
    p=json.loads(l)
    if p['id']==pid: prop=p
text=json.dumps({k:prop[k] for k in ('id','title','statement','quantifier','anchors')},indent=1)
taken=[]
for m in sorted(glob.glob('/verif/seeded/*/meta.json')):
    j=json.load(open(m))
    if j.get('property')==pid: taken.append('- '+j.get('summary','')[:300])
t=open('/verif/tools/seed-prompt.template.txt').read()
t=t.replace('@WT@',wt).replace('@ID@',id_).replace('@PID@',pid).replace('@PROP@',text)
if taken:
    t+='\n\nIdeas already used by earlier contributors for this property (pick a DIFFERENT mechanism and a different code site):\n'+'\n'.join(taken)+'\n'
if flavor=='fault':
    t+='\nPrefer, this time, a defect whose trigger is a fault, crash point, interleaving, retry path, or a rarely used option/configuration rather than a plain odd input.\n'
else:
    t+='\nThis time make it a MUTATION-STYLE change inside one of the functions named under "mechanism"/"files" in the anchors: a single small edit of the kind mutation testing makes or a hurried contributor slips in - a comparison operator or boundary (< vs <=, off by one), a negated or dropped condition, && vs ||, a swapped argument or variable of the same type, a missing break/continue/return, a wrong default, a check moved after the action it guards. It must still need a specific (not exotic) input or sequence to show, keep the existing tests green, and stay within the stated property. Also export TMPDIR=/tmp/seedhome-'+id_+'/tmp (create it) when running the test suite.\n'
open(f'/tmp/seed-{id_}.prompt.txt','w').write(t)
print(f'/tmp/seed-{id_}.prompt.txt')
PY
