#!/bin/bash
# mkseed.sh <PID> <suffix>  — creates /tmp/seed-<id> worktree of /repo HEAD and the prompt /tmp/seed-<id>.prompt.txt
# (the prompt holds only the property text, the seeding rules and one-line summaries of ideas already taken).
set -e
PID=$1; SUF=$2; id=$(echo "$PID" | tr A-Z a-z)$SUF
WT=/tmp/seed-$id
git -C /repo worktree add -q --detach "$WT" HEAD
python3 - "$PID" "$id" "$WT" <<'PY'
import json,sys,glob,os
pid,id_,wt=sys.argv[1:4]
prop=None
for l in open('/verif/properties.jsonl'):
    p=json.loads(l)
    if p['id']==pid: prop=p
text=json.dumps({k:prop[k] for k in ('id','title','statement','quantifier','anchors')},indent=1)
taken=[]
for m in sorted(glob.glob('/verif/seeded/*/meta.json')):
    j=json.load(open(m))
    if j.get('property')==pid: taken.append('- '+j.get('summary','')[:300])
t=open('/verif/tools/seed-prompt.template.txt').read()
t=t.replace('@WT@',wt).replace('@ID@',id_).replace('@PID@',pid).replace('@PROP@',text)
if taken:
    t+='\n\nIdeas already used by earlier contributors for this property (pick a DIFFERENT mechanism and a different code site):\n'+'\n'.join(taken)+'\n'
t+='\nPrefer, this time, a defect whose trigger is a fault, crash point, interleaving, retry path, or a rarely used option/configuration rather than a plain odd input.\n'
open(f'/tmp/seed-{id_}.prompt.txt','w').write(t)
print(f'/tmp/seed-{id_}.prompt.txt')
PY
