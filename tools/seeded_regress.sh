#!/bin/bash
# seeded_regress.sh [name-glob] — re-applies every kept seeded change (seeded/<name>/patch.diff) to a scratch
# worktree of /repo HEAD, runs the property's quick check against it at seeds 1 and 2, removes the worktree.
# Prints one line per change: CAUGHT (exit 1 with a VIOLATION line at some seed) or MISSED.
cd /verif
glob=${1:-*}
for d in seeded/$glob/; do
  n=$(basename $d); prop=$(python3 -c "import json;print(json.load(open('$d/meta.json'))['property'])")
  wt=/tmp/regress-$n
  git -C /repo worktree add -q --detach $wt HEAD 2>/dev/null || { echo "$n: cannot create worktree"; continue; }
  if ! git -C $wt apply $PWD/$d/patch.diff 2>/dev/null && ! git -C $wt apply --3way $PWD/$d/patch.diff 2>/dev/null; then echo "$n ($prop): PATCH-NO-LONGER-APPLIES (the code it changed was altered by a later fix: commit)"; git -C /repo worktree remove --force $wt; continue; fi
  res=MISSED; seeds=""
  for s in 1 2 3; do
    out=$(VERIF_SEED=$s VERIF_REPO=$wt ./check $prop 2>&1); code=$?
    if [ $code = 1 ] && echo "$out" | grep -q '^VIOLATION'; then res=CAUGHT; seeds="$seeds $s"; break; fi
    [ $code = 2 ] && res="INFRA(exit2)"
  done
  echo "$n ($prop): $res seed:$seeds"
  git -C /repo worktree remove --force $wt; rm -rf /verif/.build/alt-$(echo "$wt" | md5sum | cut -c1-10)
done
