#!/bin/bash
# tools/run_all.sh [quick|thorough] [seed]  — runs every registered check once, prints one line per check.
TIER=${1:-quick}; SEED=${2:-1}
cd /verif
ids=$(python3 -c "import json; print(' '.join(c['property_id'] for c in json.load(open('MANIFEST.json'))['checks']))")
[ -n "${IDS:-}" ] && ids=$IDS   # optional subset, e.g. IDS="C01 C02" tools/run_all.sh thorough 1
rc=0
for id in $ids; do
  s=$(date +%s)
  out=$(VERIF_SEED=$SEED ./check $id --tier $TIER 2>&1); code=$?
  e=$(( $(date +%s) - s ))
  echo "$id exit=$code ${e}s $(echo "$out" | grep -c '^KNOWN-FINDING') known $(echo "$out" | grep -c '^VIOLATION') violations :: $(echo "$out" | tail -1 | cut -c1-150)"
  [ $code -ne 0 ] && rc=1
  # evaluation counts of seed-1 runs feed the level texts of MANIFEST.json (tools/mkmanifest.py)
  if [ "$SEED" = 1 ] && [ $code -eq 0 ]; then
    n=$(echo "$out" | tail -1 | grep -o 'evaluations=[0-9]*' | cut -d= -f2)
    [ -n "$n" ] && python3 - "$id" "$TIER" "$n" <<'PY'
import json,sys,os
p='/verif/tools/counts.json'
c=json.load(open(p)) if os.path.exists(p) else {}
c.setdefault(sys.argv[1],{})[sys.argv[2]]=int(sys.argv[3])
json.dump(c,open(p,'w'),indent=1,sort_keys=True)
PY
  fi
done
python3-vt tools/validate.py | grep -v '^ok'
exit $rc
