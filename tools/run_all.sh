#!/bin/bash
# tools/run_all.sh [quick|thorough] [seed]  — runs every registered check once, prints one line per check.
TIER=${1:-quick}; SEED=${2:-1}
cd /verif
ids=$(python3 -c "import json; print(' '.join(c['property_id'] for c in json.load(open('MANIFEST.json'))['checks']))")
rc=0
for id in $ids; do
  s=$(date +%s)
  out=$(VERIF_SEED=$SEED ./check $id --tier $TIER 2>&1); code=$?
  e=$(( $(date +%s) - s ))
  echo "$id exit=$code ${e}s $(echo "$out" | grep -c '^KNOWN-FINDING') known $(echo "$out" | grep -c '^VIOLATION') violations :: $(echo "$out" | tail -1 | cut -c1-150)"
  [ $code -ne 0 ] && rc=1
done
python3-vt tools/validate.py | grep -v '^ok'
exit $rc
