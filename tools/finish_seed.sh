#!/bin/bash
# finish_seed.sh <PROP> <id> <name> <yes|after-strengthening> "<note>" — keep + remove worktree and scratch files
PROP=$1; id=$2; name=$3; caught=$4; note=$5
cd /verif
python3 tools/keep_seed.py $PROP $name /tmp/seed-$id-out $caught "$note" | tail -1
git -C /repo worktree remove --force /tmp/seed-$id
rm -rf /tmp/seed-$id-out /tmp/seedhome-$id /tmp/seed-$id.prompt.txt /tmp/seed-$id-demo /verif/.build/alt-$(echo "/tmp/seed-$id" | md5sum | cut -c1-10)
