#!/usr/bin/env python3
"""Regenerates /verif/MANIFEST.json from the table below (single source of truth)."""
import json, os, subprocess

HOME_CLEAN = "/verif/tools/baseline_off.sh"

# id -> (category, technique, level text, level_note, design_ref)
CHECKS = {
 "C07": ("exploration",
         "runtime monitor: generated pointers/mutants/random bytes through the real encoder+decoder, post-condition oracle from an independent spec formatter",
         "Held on {q} (quick) / {t} (thorough) evaluations, seed 1: seeded inputs (valid pointers with 0-4 extensions, every mutation operator, random bytes) through the real decoder/encoder in both accepted and rejected outcomes, hostile io.Reader delivery (1-byte chunks, early errors), file delivery (regular file, symlink, FIFO), and independence of successive decode results; panics are caught per input. Exploration is the right level: the domain is byte strings, the oracle is a total function of input and output.",
         "Trusts harness/ptrspec as the transcription of docs/spec.md; valid pointers are < 1024 bytes with ascending distinct extension priorities.",
         "DESIGN.md §5 C07"),
 "C06": ("fault_enumeration",
         "runtime monitor: real TransferQueue under -race with scripted batch server + scripted adapter, seeded yields; boundary-history oracle (termination by quiescence, conservation, delivery counts) + hooked pending counter",
         "Held on {q} (quick) / {t} (thorough) evaluations, seed 1: seeded fault scripts over 24 themes (21 with a scripted fake adapter incl. every single-fault kind named in the property, lost/truncated local upload files for one/some/every object of a batch; 3 with the built-in basic adapter doing real HTTP transfers), GOMAXPROCS 1/2/4/16 and seeded yields at hook points, under -race; a child process per slice of cases so a panic is attributed to its case. Fault enumeration by themes is the right level: the property quantifies over server/adapter behaviours and schedules.",
         "Schedules are sampled (race detector + yields), not enumerated. Hang verdict needs 20 s of logical quiescence. Fake adapter stands for any adapter behaviour; the real adapters are exercised by C02.",
         "DESIGN.md §5 C06"),
 "C15": ("fault_enumeration",
         "runtime monitor: same harness as C06; oracle over adapter attempt record and hook events (attempt counts, overlap, sound lower bounds for Retry-After, logged computed back-off values, expired actions)",
         "Held on {q} (quick) / {t} (thorough) evaluations, seed 1: seeded failure scripts x maxretries {1,2,3,8} x maxretrydelay {0,1,default} x concurrency 1-8, plus the themes deferred-plus-backoff, transfer-deferred-then-batch-deferred and action-expires-while-queued (built-in adapter, server-side expiry stamps). Lower bounds on waits are measured from stamps taken before the answer is released (sound under load); upper bounds are judged on the delay value the code computed (hook); the two elapsed-time clauses are confirmed by re-running the case twice.",
         "Back-off sleeps are scaled by 0.01 through the verif hook (the unscaled value is what is logged and judged); actions expiring within 5 s are exercised but not judged; the expiry clause fires only for a request arriving after the advertised expiry (a correct client stops 5 s earlier).",
         "DESIGN.md §5 C15"),
 "C03": ("exploration",
         "runtime monitor: generated histories pushed through the real pre-push hook / git lfs push against an in-driver fake LFS server (or file:// standalone remote); brute-force reference model over plain git plumbing vs server store",
         "Held on {q} (quick) / {t} (thorough) evaluations, seed 1: seeded histories x 4-8 push steps each (branch/--all/--tags/forced/deleted refs/delete+update in one push/second clone/two remotes/lfs push of one or several refs/missing-object clause with and without allowincompletepush and a refused upload/stale tracking ref with server-side garbage collection/re-pointed remote) x batch sizes x {http, file:// standalone} x eight transient-fault modes (PUT 503/reset, batch 429, exhausted object in a failed batch, lost upload + verify, expired upload action); after every successful step every pointer of every commit reachable on the remote is looked up in the server store (SHA-256 checked).",
         "Family-a invariant assumes the fake server never loses objects. Git 2.39.5. The re-pointed-remote scenario is a recorded known finding (known_findings.txt).",
         "DESIGN.md §5 C03"),
 "C17": ("exploration",
         "runtime monitor: a `git` shim records argv+stdin of every `git credential` exchange; generated credential maps through the real creds helper in-process plus end-to-end runs of the git-lfs binary against a raw TCP server; oracle = multiset equality of protocol lines / refusal with no process started",
         "Held on {q} (quick) / {t} (thorough) evaluations, seed 1: generated credential maps through the real creds helper in-process (a `git` shim records argv+stdin of every exchange) plus end-to-end runs of the binary with percent-encoded URL parts, raw WWW-Authenticate headers and askpass programs (GIT_ASKPASS / core.askpass / SSH_ASKPASS) x 19 scope shapes of credential.protectProtocol.",
         "Keys are the protocol's fixed attribute names (values are adversarial). Header bytes that Go's HTTP client itself rejects never reach git-lfs and are decided by the in-process part.",
         "DESIGN.md §5 C17"),
 "C01": ("exploration",
         "runtime monitor: generated contents through one-shot filters fed by a drain-aware chunked pipe writer, an independent filter-process client, git add/checkout/hash-object and the merge driver; byte-equality + SHA-256 oracle, pointer parsed by an independent spec parser",
         "Held on {q} (quick) / {t} (thorough) evaluations, seed 1: seeded cases covering every size class x content class (incl. pointer look-alikes and 14 kinds of complete pointer-shaped texts that are not pointers) x mode (one-shot, filter-process, git add/checkout, hash-object, merge driver) x working-tree state, with no / one / two chained pointer extensions; extension programs that fail or change between clean and smudge; GIT_LFS_PROGRESS targets; RLIMIT_FSIZE write faults; stored object changing length between clean and smudge.",
         "Inputs are non-pointers by construction (pointer pass-through is C08). Pipe chunking waits until the child drained the pipe, which is a legal OS schedule. Three chained extensions are refused by the pinned tree (counted, not judged). Store damage that keeps the length is not generated (smudge does not re-hash; C02/C13 cover store integrity).",
         "DESIGN.md §5 C01"),
 "C19": ("exploration",
         "runtime monitor: track/untrack sequences on generated names/patterns; oracle = Git's own check-attr compared with a twin repository holding the C-quoted pattern, attribute-table frame check, byte idempotence",
         "Held on {q} (quick) / {t} (thorough) evaluations, seed 1: seeded sequences (length 1-8) over names with spaces, tabs, quotes, #, !, glob characters, backslashes, non-ASCII, nested directories, pre-existing .gitattributes variants, start directories reached through symlinks, explicit work trees (GIT_DIR + GIT_WORK_TREE, --work-tree, core.worktree), several arguments per command, `./x` spellings; recorded known findings are reproduced and attributed by trigger coordinates.",
         "Git 2.39.5 is the authority on attribute matching; `--filename N` without slash is allowed to match d/**/N (Git's basename rule). Pattern mode is generated without backslashes.",
         "DESIGN.md §5 C19"),
 "C20": ("exploration",
         "runtime monitor: install/update/uninstall (and implicit hook installers) sequences over generated hook/config pre-states; oracle = before/after snapshots of hook bytes/modes and `git config --show-origin` per scope against a data table of every hook text git-lfs ever generated",
         "Held on {q} (quick) / {t} (thorough) evaluations, seed 1: seeded sequences of length 1-6 over 23 hook content classes x 4 hooks x 6 config stores (incl. values set in included files) x 5 filter value classes x core.hooksPath forms x worktree layouts and scopes, plus errno injection (strace -P) on hook and config writes.",
         "A custom global value living only in $XDG_CONFIG_HOME/git/config while ~/.gitconfig exists is exercised but not judged (Git 2.39 `config --global` does not read it; outside the quantifier's scope list). uninstall removing the filter.lfs section is its documented purpose.",
         "DESIGN.md §5 C20"),
 "C02": ("fault_enumeration",
         "runtime monitor: real transfer queue with the real basic-download and custom-transfer adapters (in-process, -race) against a scripted fake server / scripted transfer agent; SHA-256 of the final path vs reported outcome; two concurrent race-instrumented fetch processes + observers checked with porcupine against a write-once register",
         "Held on {q} (quick) / {t} (thorough) evaluations, seed 1: Part A: full table of (.part state x first GET answer class) pairs and agent misbehaviours plus seeded fault scripts over 22 GET fault classes (in-process, -race); Part B: two-process histories (porcupine, nondeterministic write-once register, 60 s checker timeout => inconclusive); Part C: the pure-SSH adapter against a scripted fake ssh peer (24 get-object answer classes, batch answer classes); Part D: the built-in standalone file agent with damaged sources; Part E: store on another filesystem with injected write errors.",
         "tus is out of the property's scope. Success = delivered on the queue's Watch channel (in-process) / exit 0 (process level). The two-process part samples schedules.",
         "DESIGN.md §5 C02"),
 "C08": ("exploration",
         "runtime monitor: inputs classified by construction (pointers beyond dispute / content beyond dispute) through one-shot filters fed by drain-aware chunked pipes, an independent filter-process client, and Git-level skip-smudge checkout + add/stash/commit; byte-equality, object-count and index-blob-id oracles",
         "Held on {q} (quick) / {t} (thorough) evaluations, seed 1: seeded cases over confirmed class-P spellings, pointer extensions up to and beyond 1024 bytes, class-N contents incl. complete malformed pointer texts, all chunk plans incl. a first write ending exactly at / in the middle of the pointer text, packet sizes 1..65516, with and without a configured LFS extension, reference-store coordinate, spool-area faults and GIT_LFS_PROGRESS targets for the pass-through, object-SET comparison around every clean, plus Git-level scenarios (skip-smudge checkout, add/stash/commit, delay-capable checkout of non-pointer blobs of 1 B - 300 kB).",
         "Debatable inputs (pointer + trailing white space < 1024, unknown sorted keys) are exercised but not judged (they belong to C07). smudge --skip re-encoding non-canonical pointers is observed, not judged.",
         "DESIGN.md §5 C08"),
 "C09": ("fault_enumeration",
         "runtime monitor: SIGKILL injected at every discovered (verif crash point, scenario-wide ordinal), at enumerated/sampled N-th write/rename/link/unlink/openat syscalls of git-lfs (strace inject) and at the first syscalls touching each known store path (strace -P); storage oracle + re-run convergence; write-discipline trace specification over strace logs of uninterrupted runs",
         "Held on {q} (quick) / {t} (thorough) evaluations, seed 1: scenarios {git add via filter-process, one-shot clean, fetch with resume parts (a third / one byte short / complete / over-long / other bytes; server honouring or ignoring Range), pull, checkout, migrate import, fsck repair, prune, reference store on the same / another filesystem, standalone custom transfer agent}: one SIGKILL per discovered (crash point, scenario-wide ordinal) up to a cap, strace-injected SIGKILL at N-th write/rename/link/unlink/openat, write-discipline trace check on uninterrupted runs. After every kill every file under lfs/objects hashes to its name, leftovers are confined to tmp/incomplete/bad (nothing foreign anywhere below the Git directory), the re-run exits like the uninterrupted run and ends in the golden object/bad sets.",
         "SIGKILL only (no power loss). Between hooked points the strace sweep samples at syscall granularity (when=N counts per thread). For commands that write working-tree files an extra self-consistent object after the re-run (Git cleaning a truncated work file) is tolerated and counted.",
         "DESIGN.md §5 C09"),
 "C12": ("exploration",
         "runtime monitor: migrate import/export on generated histories; oracle = structural commit correspondence + resolved-content/mode equality + representation-change selection check + ref/tag retargeting + Git's own check-attr, all over plain git plumbing and an independent pointer parser",
         "Held on {q} (quick) / {t} (thorough) evaluations, seed 1: generated repositories over 12 migrate modes (include/exclude, --above, --everything, include-ref/exclude-ref, --fixup, --no-rewrite, export, export-after-import round trip) with merges incl. octopus, orphan branches, annotated/lightweight/nested tags, symlinks, executables, nested .gitattributes, raw commit encodings, histories that already use LFS midway, unusual commit date layouts, lfs.fetchinclude/fetchexclude set (must not matter; migrate info differential); recorded known findings are reproduced and attributed by trigger.",
         "Own matcher restricted to four unambiguous pattern forms; annotated-tag messages differing only in the final newline are counted, not judged, unless the tag was not selected; an --exclude pattern that un-tracks an existing LFS file is observed only.",
         "DESIGN.md §5 C12"),
 "C04": ("exploration",
         "runtime monitor: generated source repositories pushed to a fake LFS server, then seeded consumer scenarios (clone, skip-smudge clone + fetch/pull/checkout, include/exclude, reference store, pre-seeded objects, edited/deleted/replaced/read-only work files); reference model + own gitignore matcher cross-checked against git check-ignore; pre/post SHA-256 snapshots of every work file and object",
         "Held on {q} (quick) / {t} (thorough) evaluations, seed 1: scenarios: clone, skip-smudge clone + fetch/pull/checkout in many option shapes (--all, --recent, --refetch, several refs, --dry-run, --json, checkout --to), include/exclude, reference store, pre-seeded objects, edited/deleted/replaced/read-only work files, wide trees with duplicated content across batches, download fault modes incl. an exhausted object in a failed batch call; every selected pointer path has a hash-valid object and (clone/pull/checkout) the original bytes, excluded/skipped paths stay the recorded pointer, and pull/checkout never touch a work file whose bytes were not the recorded pointer.",
         "Selection follows gitignore semantics for 11 generated pattern forms only; a deleted work file may be recreated; git lfs checkout of an object that is only in a reference store is not judged; driver runs as root (read-only bit cannot block writes).",
         "DESIGN.md §5 C04"),
 "C13": ("exploration",
         "runtime monitor: fsck runs over generated repositories with seeded object corruption (deletion, truncation, extension, bit flip, replacement) and non-pointer blobs under tracked patterns; oracle = reference model over plain git plumbing, Git's check-attr on a temporary index, own SHA-256/inode snapshots of the store",
         "Held on {q} (quick) / {t} (thorough) evaluations, seed 1: fsck runs over {no argument, commit, range} x {default, --objects, --pointers} x {dry-run, real} on generated repositories with seeded object corruption and planted pointer problems (11 kinds x file mode 100644/100755, nested .gitattributes, .gitattributes >= 1024 bytes, fetchinclude/fetchexclude set, repeated repair rounds): exit status, named oids/paths, byte-identical move to lfs/bad, intact objects untouched (bytes and inode), dry-run changes nothing; recorded known findings attributed by trigger.",
         "Range semantics use the weakest reading; oids named only by non-canonical pointer text, objects reached through both excluded and non-excluded paths, and index-only pointer problems are not judged.",
         "DESIGN.md §5 C13"),
 "C10": ("fault_enumeration",
         "runtime monitor: six in-driver listeners (two origins on 127.0.0.1 as http and https, one on 127.0.0.2, `localhost` aliases) with scripted redirect graphs and 401 sequences; every credential any source can supply (helper, netrc, URL userinfo, askpass, cache, extraheader, ssh authenticate, batch-issued action headers) encodes the origin it was issued for; per-request equality oracle, https->http refusal, constant hop cut-off; in-process lfsapi.Client/tq volume plus the real binary",
         "Held on {q} (quick) / {t} (thorough) evaluations, seed 1: cases over redirect depth 0-4 and loops, statuses 301/302/303/307/308, Location forms (absolute, scheme-relative, path-absolute, relative, empty, missing, malformed) x spellings (scheme/host case, default ports written or left out on an origin bound to :80/:443, trailing dot, userinfo, raw white space), hop relations {same origin, other port, other host, other host name, scheme up, scheme down}, nine credential sources, 401 scripts; in-process lfsapi.Client/tq volume plus the real binary; observed cut-off = 3 requests per walk, identical on every loop.",
         "netrc credentials are keyed by host name only (format has no scheme/port); multistage helpers are injected in-process (git 2.39.5 drops authtype/state); suffix-related host names cannot be built without DNS.",
         "DESIGN.md §5 C10"),
 "C05": ("exploration",
         "runtime monitor: prune runs on generated repository states (explicit commit dates far from every window edge, stashes of four shapes, extra worktrees, staged files, detached HEAD, partially pushed branches, tag-only commits) under attribute spellings and ambient Git configurations; store diff vs a deliberately weak must-retain lower bound computed with plain git plumbing; --verify-remote vs the fake server's store; --dry-run",
         "Held on {q} (quick) / {t} (thorough) evaluations, seed 1: prune runs (plain and through git lfs fetch --prune) over generated repository states (explicit commit dates far from every window edge, stashes of four shapes, linked worktrees {present, staged file, detached, directory removed, removed+locked, removed+pruned}, index states {staged then edited/deleted/replaced/stat-dirty, intent-to-add}, partially pushed branches, tag-only commits) incl. repositories damaged after the oracle was computed (a scan that cannot complete gives prune no licence to delete) x flags {--recent, --force, --verify-remote, --verify-unreachable, --when-unverified, --dry-run} and their config equivalents x windows {0,1,3,7} x fetchexclude/fetchinclude.",
         "must-retain is a lower bound (prune keeping more is never flagged): stashes count for what they add to their base commit, commits reachable only from a detached HEAD are not demanded, recent previous versions only for pointer-to-pointer replacements by non-merge commits. Commit ages {0.5,1.5,2.5,5,9,12,30} days keep >= 12 h from every window sum.",
         "DESIGN.md §5 C05"),
 "C14": ("exploration",
         "runtime monitor: generated request programs (Git's client grammar, length 1-40, with and without the delay capability) against one real `git-lfs filter-process` through an independent pkt-line client and a scripted fake server; grammar check, differential against one-shot filters in a twin repository, exactly-once announcement of delayed blobs, bounded emptiness of list_available_blobs in rounds, real-Git delay-capable checkouts, race-instrumented binary in the thorough tier",
         "Held on {q} (quick) / {t} (thorough) evaluations, seed 1: generated request programs (Git's client grammar, length 1-40, with and without the delay capability, include/exclude settings) against one real `git-lfs filter-process` through an independent pkt-line client and a scripted fake server, plus real-Git delay-capable checkouts: every success answer compared with the expected content (a share also against a real one-shot run), every delayed blob announced exactly once and retrieved, bounded emptiness of list_available_blobs, failure equivalence with the one-shot filter; race-instrumented binary in the thorough tier.",
         "Hang verdicts use wall-clock only after logical quiescence (request fully written and object settled at the fake server / nothing in flight) with 20-90 s watchdogs; other timeouts are inconclusive. Git-lfs never sends status=error/abort; end-of-stream with non-zero exit is accepted exactly where the one-shot twin fails.",
         "DESIGN.md §5 C14"),
 "C11": ("exploration",
         "runtime monitor: differential twins (repository with generated .lfsconfig L vs the same with L restricted to the documented allow-list, parsed from the man page by the driver) over env/ls-files/status/fetch/pull/add/checkout/push/locks; sentinel programs, sentinel proxy and sentinel listeners for every value position that could name a program or endpoint; precedence of git config over .lfsconfig",
         "Held on {q} (quick) / {t} (thorough) evaluations, seed 1: generated .lfsconfig files (about 135 unsafe and 10 allow-listed key templates; random case/section spellings, duplicates, includes, embedded newlines, override blocks, extension priorities) in work tree / index / HEAD / bare repository: differential twins over env/ls-files/status/fetch/pull/add/checkout/push/locks, sentinel programs / proxy / listeners for every value position that could name a program or endpoint, precedence of Git's own configuration (all scopes, bare keys) over .lfsconfig; failing mixtures are minimised key by key; recorded known findings.",
         "stderr is not compared (the 'unsafe keys ignored' warning legitimately differs); https-only keys cannot show an effect against the plain-http listener; listener bound to 192.0.2.2 so that a proxy setting would be effective.",
         "DESIGN.md §5 C11"),
 "C18": ("exploration",
         "runtime monitor: every request logged by the fake LFS server during push/fetch/pull/prune --verify-remote/lock scenarios is validated against the published JSON schemas (gojsonschema, loaded from docs/api/schemas at run time) and three schemas transcribed from the docs, header rules, reference-model membership of oids/sizes, and offer-vs-usage equality by the unique token of each action; single-field corruptions of valid responses; hash_algo clause",
         "Held on {q} (quick) / {t} (thorough) evaluations, seed 1: cases logging every request of push/fetch/pull/prune --verify-remote/lock scenarios (hostile ref names, paths, lock ids, cursors, limits, detached HEAD, insteadOf aliases, action Authorization and 401 answers, chunked-transfer offers): schema validations, header checks, offer/usage comparisons (method, URL, headers), every single-field corruption of valid batch/lock responses (and the batch ones again with a transient storage fault, so the retry path builds a second request), unsupported hash_algo never acted upon.",
         "ref is optional per the docs (ref oddities such as HEAD or a raw sha are not flagged); unlock URL compared on decoded paths; lock paths that are not valid UTF-8 are not generated (JSON cannot carry them).",
         "DESIGN.md §5 C18"),
 "C16": ("exploration",
         "runtime monitor: two users (two clones, X-Verif-User header) run seeded sequences of lock/unlock/locks/checkout/commit/merge/push against the fake server's lock API with scripted answers (409, 403, 404/501, 5xx, pagination); oracles at every quiescent point: push verdict vs the server's lock table at verify time, write bits vs a sequence-defined expected cache, `locks --local/--cached --json` vs that cache, unlock guard vs uncommitted changes; race-instrumented pushes",
         "Held on {q} (quick) / {t} (thorough) evaluations, seed 1: sequences of length 1-30 by two users (a second clone of one user in some cases) of lock/unlock/locks (all listing option shapes)/checkout/commit/merge/push/lose-the-lock-cache against the fake server's lock API with scripted answers (409, 403, 404/501, 5xx, pagination, faults on later pages or later refs of a push's verify listing); judged pushes, write-bit checks, cache comparisons and unlock-guard checks at every quiescent point; every 4th case pushes with the -race binary. Recorded known findings.",
         "Files not covered by a flag-fixing command since the last ownership change are not judged (a client cannot know about a foreign change); after a verified push both the unchanged and the replaced cache are accepted; locksverify unset is warning-only and not judged.",
         "DESIGN.md §5 C16"),
}

NOT_YET = {}

# evaluations per tier at seed 1 (tools/counts.json, written from the evidence of the last full runs)
try:
    COUNTS = json.load(open("/verif/tools/counts.json"))
except FileNotFoundError:
    COUNTS = {}

def main():
    ids = [json.loads(l)["id"] for l in open("/verif/properties.jsonl")]
    checks = []
    for i in ids:
        if i not in CHECKS:
            continue
        cat, tech, text, note, ref = CHECKS[i]
        cnt = COUNTS.get(i, {})
        text = text.replace("{q}", str(cnt.get("quick", "n/a"))).replace("{t}", str(cnt.get("thorough", "n/a")))
        nk = sum(1 for l in open("/verif/known_findings.txt") if l.startswith("finding:") and ("property=%s " % i) in l)
        if nk:
            text += " %d recorded known finding%s (known_findings.txt)." % (nk, "" if nk == 1 else "s")
        checks.append({
            "property_id": i,
            "quick_cmd": f"./check {i} --tier quick",
            "thorough_cmd": f"./check {i} --tier thorough",
            "evidence_file": f"/verif/evidence/{i}.json",
            "replay_cmd_template": f"./check {i} --replay {{path}}",
            "engine": ENGINE.get(i, "e2e"),
            "level_claimed": {"category": cat, "text": text, "design_ref": ref},
            "level_note": note,
            "technique": tech,
        })
    na = [{"property_id": i, "reason": NOT_YET.get(i, "check not built yet in this session; planned monitor described in DESIGN.md §5 (runtime monitoring applies)")} for i in ids if i not in CHECKS]
    try:
        commits = open("/verif/MANIFEST.hooks").read().split()
    except FileNotFoundError:
        commits = []
    m = {
        "version": 1,
        "setup_cmd": "./tools/setup.sh",
        "hooks": {
            "guard": "verif",
            "enable": "go build -tags verif (done by ./check from /repo's working tree on every run)",
            "baseline_off_cmd": HOME_CLEAN,
            "source_commits": commits,
            "add_only": True,
        },
        "engines": [
            {"name": "codec", "path": "harness/cmd/c07, harness/cmd/c17", "serves_properties": ["C07", "C17"], "kind_free_text": "in-process generators against lfs pointer codec and creds, independent spec oracle"},
            {"name": "tqmon", "path": "harness/tqmon", "serves_properties": ["C06", "C15", "C02"], "kind_free_text": "in-process transfer-queue harness (real manifest/API client over HTTP to scripted server, scripted or real adapters), race detector, verif hook trace"},
            {"name": "e2e", "path": "harness/sbx, harness/fakelfs, harness/histgen", "serves_properties": ["C01", "C03", "C04", "C05", "C08", "C09", "C10", "C11", "C12", "C13", "C14", "C16", "C18", "C19", "C20"], "kind_free_text": "process-level scenario driver: git-lfs built from /repo with -tags verif, isolated HOME, scripted fake LFS server, reference model over git plumbing"},
        ],
        "checks": checks,
        "not_applicable": na,
        "notes": "Technique family: runtime monitoring. Exit 0 = held on what was observed; exit 1 + VIOLATION line = violation; exit 2 = infrastructure/inconclusive (no verdict). known_findings.txt lists genuine defects recorded rather than repaired.",
    }
    json.dump(m, open("/verif/MANIFEST.json", "w"), indent=1)
    print("wrote MANIFEST.json:", len(checks), "checks,", len(na), "not claimed")

ENGINE = {"C01": "e2e", "C07": "codec", "C17": "codec", "C06": "tqmon", "C15": "tqmon", "C02": "tqmon"}

if __name__ == "__main__":
    main()
