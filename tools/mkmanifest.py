#!/usr/bin/env python3
"""Regenerates /verif/MANIFEST.json from the table below (single source of truth)."""
import json, os, subprocess

HOME_CLEAN = "/verif/tools/baseline_off.sh"

# id -> (category, technique, level text, level_note, design_ref)
CHECKS = {
 "C07": ("exploration",
         "runtime monitor: generated pointers/mutants/random bytes through the real encoder+decoder, post-condition oracle from an independent spec formatter",
         "Held on >=1M (quick) / 40M (thorough) seeded inputs covering every mutation operator in both accepted and rejected outcomes; panics are caught per input. Exploration is the right level: the domain is byte strings, the oracle is a total function of input and output.",
         "Trusts harness/ptrspec as the transcription of docs/spec.md; valid pointers are < 1024 bytes with ascending distinct extension priorities.",
         "DESIGN.md §5 C07"),
 "C06": ("fault_enumeration",
         "runtime monitor: real TransferQueue under -race with scripted batch server + scripted adapter, seeded yields; boundary-history oracle (termination by quiescence, conservation, delivery counts) + hooked pending counter",
         "Held on 432 (quick) / 6480 (thorough) seeded fault scripts over 18 fault themes incl. every single-fault kind named in the property, with GOMAXPROCS 1/2/4/16 and seeded yields; child process per 54 cases so a panic is attributed to its case. Fault enumeration by themes is the right level: the property quantifies over server/adapter behaviours and schedules.",
         "Schedules are sampled (race detector + yields), not enumerated. Hang verdict needs 20 s of logical quiescence. Fake adapter stands for any adapter behaviour; the real adapters are exercised by C02.",
         "DESIGN.md §5 C06"),
 "C15": ("fault_enumeration",
         "runtime monitor: same harness as C06; oracle over adapter attempt record and hook events (attempt counts, overlap, sound lower bounds for Retry-After, logged computed back-off values, expired actions)",
         "Held on 320 (quick) / 4000 (thorough) seeded failure scripts x maxretries {1,2,3,8} x maxretrydelay {0,1,default} x concurrency 1-8. Lower bounds on waits are measured from stamps taken before the answer is released (sound under load); upper bounds are judged on the delay value the code computed (hook), never on elapsed time.",
         "Back-off sleeps are scaled by 0.01 through the verif hook (the unscaled value is what is logged and judged); actions expiring within 5 s are exercised but not judged.",
         "DESIGN.md §5 C15"),
 "C03": ("exploration",
         "runtime monitor: generated histories pushed through the real pre-push hook / git lfs push against an in-driver fake LFS server (or file:// standalone remote); brute-force reference model over plain git plumbing vs server store",
         "Held on 40 (quick) / 400 (thorough) seeded histories x 4-8 push steps each (branch/--all/--tags/forced/deleted refs/second clone/lfs push/missing-object clause) x batch sizes x transports; after every successful step every pointer of every commit reachable on the remote is looked up in the server store (SHA-256 checked).",
         "Family-a invariant assumes the fake server never loses objects. Git 2.39.5. The re-pointed-remote scenario is a recorded known finding (known_findings.txt).",
         "DESIGN.md §5 C03"),
 "C17": ("exploration",
         "runtime monitor: a `git` shim records argv+stdin of every `git credential` exchange; generated credential maps through the real creds helper in-process plus end-to-end runs of the git-lfs binary against a raw TCP server; oracle = multiset equality of protocol lines / refusal with no process started",
         "Held on 24k (quick) / 1M (thorough) generated credential maps (4k / 40k spawning real exchanges) plus 56 / 1500 end-to-end runs with percent-encoded URL parts and raw WWW-Authenticate headers.",
         "Keys are the protocol's fixed attribute names (values are adversarial). Header bytes that Go's HTTP client itself rejects never reach git-lfs and are decided by the in-process part.",
         "DESIGN.md §5 C17"),
 "C01": ("exploration",
         "runtime monitor: generated contents through one-shot filters fed by a drain-aware chunked pipe writer, an independent filter-process client, git add/checkout/hash-object and the merge driver; byte-equality + SHA-256 oracle, pointer parsed by an independent spec parser",
         "Held on ~300 (quick) / ~3000 (thorough) seeded cases covering every size class x mode and all (size, mode, working-tree state) triples around the 1024-byte cut-off, with and without a reversible pointer extension; merged pointers shorter/equal/longer than the overwritten one.",
         "Inputs are non-pointers by construction (pointer pass-through is C08). Pipe chunking waits until the child drained the pipe, which is a legal OS schedule.",
         "DESIGN.md §5 C01"),
 "C19": ("exploration",
         "runtime monitor: track/untrack sequences on generated names/patterns; oracle = Git's own check-attr compared with a twin repository holding the C-quoted pattern, attribute-table frame check, byte idempotence",
         "Held on 176 (quick) / 5000 (thorough) seeded sequences (length 1-8) over names with spaces, tabs, quotes, #, !, glob characters, backslashes, non-ASCII, nested directories, pre-existing .gitattributes variants; 12 recorded known findings are reproduced and attributed by trigger coordinates.",
         "Git 2.39.5 is the authority on attribute matching; `--filename N` without slash is allowed to match d/**/N (Git's basename rule). Pattern mode is generated without backslashes.",
         "DESIGN.md §5 C19"),
 "C20": ("exploration",
         "runtime monitor: install/update/uninstall (and implicit hook installers) sequences over generated hook/config pre-states; oracle = before/after snapshots of hook bytes/modes and `git config --show-origin` per scope against a data table of every hook text git-lfs ever generated",
         "Held on 120 (quick) / 4080 (thorough) seeded sequences of length 1-6 over 23 hook content classes x 4 hooks x 6 config stores x 5 filter value classes x core.hooksPath forms x worktree layouts.",
         "A custom global value living only in $XDG_CONFIG_HOME/git/config while ~/.gitconfig exists is exercised but not judged (Git 2.39 `config --global` does not read it; outside the quantifier's scope list). uninstall removing the filter.lfs section is its documented purpose.",
         "DESIGN.md §5 C20"),
 "C02": ("fault_enumeration",
         "runtime monitor: real transfer queue with the real basic-download and custom-transfer adapters (in-process, -race) against a scripted fake server / scripted transfer agent; SHA-256 of the final path vs reported outcome; two concurrent race-instrumented fetch processes + observers checked with porcupine against a write-once register",
         "Held on the full table of (.part state x first GET answer class) pairs (190) and agent misbehaviours (20) plus 160 (quick) / 3000 (thorough) seeded fault scripts, and 6 / 60 two-process histories (porcupine, nondeterministic write-once register, 60 s checker timeout => inconclusive).",
         "The ssh (git-lfs-transfer) adapter is not driven: no fake ssh peer was built (see DESIGN.md limits); tus is out of the property's scope. Success = delivered on the queue's Watch channel.",
         "DESIGN.md §5 C02"),
 "C08": ("exploration",
         "runtime monitor: inputs classified by construction (pointers beyond dispute / content beyond dispute) through one-shot filters fed by drain-aware chunked pipes, an independent filter-process client, and Git-level skip-smudge checkout + add/stash/commit; byte-equality, object-count and index-blob-id oracles",
         "Held on 266 (quick) / ~4850 (thorough) seeded cases over 8 confirmed class-P spellings, pointer extensions up to and beyond 1024 bytes, all chunk plans incl. a first write ending exactly at / in the middle of the pointer text, packet sizes 1..65516, with and without a configured LFS extension, plus 8 Git-level scenarios.",
         "Debatable inputs (pointer + trailing white space < 1024, unknown sorted keys) are exercised but not judged (they belong to C07). smudge --skip re-encoding non-canonical pointers is observed, not judged.",
         "DESIGN.md §5 C08"),
 "C09": ("fault_enumeration",
         "runtime monitor: SIGKILL injected at every discovered (verif crash point, scenario-wide ordinal), at enumerated/sampled N-th write/rename/link/unlink/openat syscalls of git-lfs (strace inject) and at the first syscalls touching each known store path (strace -P); storage oracle + re-run convergence; write-discipline trace specification over strace logs of uninterrupted runs",
         "Held on 5 (quick) / 9 (thorough) scenarios: ~160-240 delivered hook kills + ~100 syscall kills (quick), all discovered points up to 400 per scenario + 600 path-directed kills (thorough). After every kill every file under lfs/objects hashes to its name, leftovers are confined to tmp/incomplete/bad, the re-run exits like the uninterrupted run and ends in the golden object/bad sets.",
         "SIGKILL only (no power loss). Between hooked points the strace sweep samples at syscall granularity (when=N counts per thread). For commands that write working-tree files an extra self-consistent object after the re-run (Git cleaning a truncated work file) is tolerated and counted.",
         "DESIGN.md §5 C09"),
 "C12": ("exploration",
         "runtime monitor: migrate import/export on generated histories; oracle = structural commit correspondence + resolved-content/mode equality + representation-change selection check + ref/tag retargeting + Git's own check-attr, all over plain git plumbing and an independent pointer parser",
         "Held on 36 (quick) / 240 (thorough) generated repositories over 12 migrate modes (include/exclude, --above, --everything, include-ref/exclude-ref, --fixup, --no-rewrite, export, export-after-import round trip) with merges incl. octopus, orphan branches, annotated/lightweight/nested tags, symlinks, executables, nested .gitattributes, raw commit encodings; 10 recorded known findings are reproduced and attributed by trigger.",
         "Own matcher restricted to four unambiguous pattern forms; annotated-tag messages differing only in the final newline are counted, not judged, unless the tag was not selected; an --exclude pattern that un-tracks an existing LFS file is observed only.",
         "DESIGN.md §5 C12"),
 "C04": ("exploration",
         "runtime monitor: generated source repositories pushed to a fake LFS server, then seeded consumer scenarios (clone, skip-smudge clone + fetch/pull/checkout, include/exclude, reference store, pre-seeded objects, edited/deleted/replaced/read-only work files); reference model + own gitignore matcher cross-checked against git check-ignore; pre/post SHA-256 snapshots of every work file and object",
         "Held on 96 (quick) / 2400 (thorough) scenarios: every selected pointer path has a hash-valid object and (clone/pull/checkout) the original bytes, excluded/skipped paths stay the recorded pointer, and pull/checkout never touch a work file whose bytes were not the recorded pointer.",
         "Selection follows gitignore semantics for 11 generated pattern forms only; a deleted work file may be recreated; git lfs checkout of an object that is only in a reference store is not judged; driver runs as root (read-only bit cannot block writes).",
         "DESIGN.md §5 C04"),
 "C13": ("exploration",
         "runtime monitor: fsck runs over generated repositories with seeded object corruption (deletion, truncation, extension, bit flip, replacement) and non-pointer blobs under tracked patterns; oracle = reference model over plain git plumbing, Git's check-attr on a temporary index, own SHA-256/inode snapshots of the store",
         "Held on 960 (quick) / 12000 (thorough) fsck runs over {no argument, commit, range} x {default, --objects, --pointers} x {dry-run, real}: exit status, named oids/paths, byte-identical move to lfs/bad, intact objects untouched (bytes and inode), dry-run changes nothing; 3 recorded known findings attributed by trigger.",
         "Range semantics use the weakest reading; oids named only by non-canonical pointer text, objects reached through both excluded and non-excluded paths, and index-only pointer problems are not judged.",
         "DESIGN.md §5 C13"),
 "C10": ("fault_enumeration",
         "runtime monitor: six in-driver listeners (two origins on 127.0.0.1 as http and https, one on 127.0.0.2, `localhost` aliases) with scripted redirect graphs and 401 sequences; every credential any source can supply (helper, netrc, URL userinfo, askpass, cache, extraheader, ssh authenticate, batch-issued action headers) encodes the origin it was issued for; per-request equality oracle, https->http refusal, constant hop cut-off; in-process lfsapi.Client/tq volume plus the real binary",
         "Held on 314 (quick) / 8064 (thorough) cases: ~2500 received requests, ~2100 authenticated ones checked per quick run over redirect depth 0-4 and loops, statuses 301/302/303/307/308, nine Location forms, six hop relations, nine credential sources; observed cut-off = 3 requests per walk, identical on every loop.",
         "netrc credentials are keyed by host name only (format has no scheme/port); multistage helpers are injected in-process (git 2.39.5 drops authtype/state); suffix-related host names cannot be built without DNS.",
         "DESIGN.md §5 C10"),
 "C05": ("exploration",
         "runtime monitor: prune runs on generated repository states (explicit commit dates far from every window edge, stashes of four shapes, extra worktrees, staged files, detached HEAD, partially pushed branches, tag-only commits) under attribute spellings and ambient Git configurations; store diff vs a deliberately weak must-retain lower bound computed with plain git plumbing; --verify-remote vs the fake server's store; --dry-run",
         "Held on ~144 (quick) / ~1600 (thorough) prune runs (plain and through git lfs fetch --prune) over 18 / 198 repositories, incl. runs on repositories damaged after the oracle was computed (unreadable stash / unpushed / HEAD-ancestor commits or trees, dangling ref: a scan that cannot complete gives prune no licence to delete) x linked-worktree states {present, staged file, detached, directory removed (prunable), removed+locked, removed+git worktree prune} x flags {--recent, --force, --verify-remote, --verify-unreachable, --when-unverified, --dry-run} x windows {0,1,3,7} x fetchexclude x 6 attribute spellings x 10 ambient configurations x cwd kinds. Every deleted object is checked against the must-retain clauses (checkout, index, stash additions, recent refs, recent previous versions, unpushed) and, with verification, against the server.",
         "must-retain is a lower bound (prune keeping more is never flagged): stashes count for what they add to their base commit, commits reachable only from a detached HEAD are not demanded, recent previous versions only for pointer-to-pointer replacements by non-merge commits. Commit ages {0.5,1.5,2.5,5,9,12,30} days keep >= 12 h from every window sum.",
         "DESIGN.md §5 C05"),
 "C14": ("exploration",
         "runtime monitor: generated request programs (Git's client grammar, length 1-40, with and without the delay capability) against one real `git-lfs filter-process` through an independent pkt-line client and a scripted fake server; grammar check, differential against one-shot filters in a twin repository, exactly-once announcement of delayed blobs, bounded emptiness of list_available_blobs in rounds, real-Git delay-capable checkouts, race-instrumented binary in the thorough tier",
         "Held on 120 programs + 6 real-Git scenarios (quick) / 3000 + 60 (thorough): ~1900 requests per quick run, every success answer compared with the expected content (35 % also against a real one-shot run), every delayed blob announced exactly once and retrieved, failure equivalence with the one-shot filter (exit 2 mid-answer).",
         "Hang verdicts use wall-clock only after logical quiescence (request fully written and object settled at the fake server / nothing in flight) with 20-90 s watchdogs; other timeouts are inconclusive. Git-lfs never sends status=error/abort; end-of-stream with non-zero exit is accepted exactly where the one-shot twin fails.",
         "DESIGN.md §5 C14"),
 "C11": ("exploration",
         "runtime monitor: differential twins (repository with generated .lfsconfig L vs the same with L restricted to the documented allow-list, parsed from the man page by the driver) over env/ls-files/status/fetch/pull/add/checkout/push/locks; sentinel programs, sentinel proxy and sentinel listeners for every value position that could name a program or endpoint; precedence of git config over .lfsconfig",
         "Held on 150 (quick) / 3000 (thorough) generated files (about 135 unsafe and 10 allow-listed key templates; random case/section spellings, duplicates, includes, embedded newlines) in work tree / index / HEAD / bare repository: ~2600 commands, ~1300 output comparisons, sentinel and precedence checks per quick run; failing mixtures are minimised key by key; 3 recorded known findings.",
         "stderr is not compared (the 'unsafe keys ignored' warning legitimately differs); https-only keys cannot show an effect against the plain-http listener; listener bound to 192.0.2.2 so that a proxy setting would be effective.",
         "DESIGN.md §5 C11"),
 "C18": ("exploration",
         "runtime monitor: every request logged by the fake LFS server during push/fetch/pull/prune --verify-remote/lock scenarios is validated against the published JSON schemas (gojsonschema, loaded from docs/api/schemas at run time) and three schemas transcribed from the docs, header rules, reference-model membership of oids/sizes, and offer-vs-usage equality by the unique token of each action; single-field corruptions of valid responses; hash_algo clause",
         "Held on 309 cases / ~3300 requests (quick) and 1950 cases / ~156000 requests (thorough): schema validations, header checks, offer/usage comparisons (method, URL, headers), ref-name and path byte equality for hostile names, cursors and limits, 240 response corruptions (no panic, following requests conform, no un-offered URL used), unsupported hash_algo never acted upon.",
         "ref is optional per the docs (ref oddities such as HEAD or a raw sha are not flagged); unlock URL compared on decoded paths; lock paths that are not valid UTF-8 are not generated (JSON cannot carry them).",
         "DESIGN.md §5 C18"),
 "C16": ("exploration",
         "runtime monitor: two users (two clones, X-Verif-User header) run seeded sequences of lock/unlock/locks/checkout/commit/merge/push against the fake server's lock API with scripted answers (409, 403, 404/501, 5xx, pagination); oracles at every quiescent point: push verdict vs the server's lock table at verify time, write bits vs a sequence-defined expected cache, `locks --local/--cached --json` vs that cache, unlock guard vs uncommitted changes; race-instrumented pushes",
         "Held on 40 (quick) / 1200 (thorough) sequences of length 1-30: ~480 commands, ~30 judged pushes, ~140 write-bit checks, ~730 cache comparisons and 16 unlock-guard checks per quick run; every 4th case pushes with the -race binary (reports touching lockVerifier count). 3 recorded known findings.",
         "Files not covered by a flag-fixing command since the last ownership change are not judged (a client cannot know about a foreign change); after a verified push both the unchanged and the replaced cache are accepted; locksverify unset is warning-only and not judged.",
         "DESIGN.md §5 C16"),
}

NOT_YET = {}

def main():
    ids = [json.loads(l)["id"] for l in open("/verif/properties.jsonl")]
    checks = []
    for i in ids:
        if i not in CHECKS:
            continue
        cat, tech, text, note, ref = CHECKS[i]
        checks.append({
            "property_id": i,
            "quick_cmd": f"./check {i} --tier quick",
            "thorough_cmd": f"./check {i} --tier thorough",
            "evidence_file": f"/verif/evidence/{i}.json",
            "replay_cmd_template": f"./check {i} --replay {{path}}",
            "engine": ENGINE.get(i, "e2e"),
            "level_claimed": {"category": cat, "text": text, "design_ref": ref},
            "level_note": note,
            "technique": tech,
        })
    na = [{"property_id": i, "reason": NOT_YET.get(i, "check not built yet in this session; planned monitor described in DESIGN.md §5 (runtime monitoring applies)")} for i in ids if i not in CHECKS]
    try:
        commits = open("/verif/MANIFEST.hooks").read().split()
    except FileNotFoundError:
        commits = []
    m = {
        "version": 1,
        "setup_cmd": "./tools/setup.sh",
        "hooks": {
            "guard": "verif",
            "enable": "go build -tags verif (done by ./check from /repo's working tree on every run)",
            "baseline_off_cmd": HOME_CLEAN,
            "source_commits": commits,
            "add_only": True,
        },
        "engines": [
            {"name": "codec", "path": "harness/cmd/c07, harness/cmd/c17", "serves_properties": ["C07", "C17"], "kind_free_text": "in-process generators against lfs pointer codec and creds, independent spec oracle"},
            {"name": "tqmon", "path": "harness/tqmon", "serves_properties": ["C06", "C15", "C02"], "kind_free_text": "in-process transfer-queue harness (real manifest/API client over HTTP to scripted server, scripted or real adapters), race detector, verif hook trace"},
            {"name": "e2e", "path": "harness/sbx, harness/fakelfs, harness/histgen", "serves_properties": ["C01", "C03", "C04", "C05", "C08", "C09", "C10", "C11", "C12", "C13", "C14", "C16", "C18", "C19", "C20"], "kind_free_text": "process-level scenario driver: git-lfs built from /repo with -tags verif, isolated HOME, scripted fake LFS server, reference model over git plumbing"},
        ],
        "checks": checks,
        "not_applicable": na,
        "notes": "Technique family: runtime monitoring. Exit 0 = held on what was observed; exit 1 + VIOLATION line = violation; exit 2 = infrastructure/inconclusive (no verdict). known_findings.txt lists genuine defects recorded rather than repaired.",
    }
    json.dump(m, open("/verif/MANIFEST.json", "w"), indent=1)
    print("wrote MANIFEST.json:", len(checks), "checks,", len(na), "not claimed")

ENGINE = {"C01": "e2e", "C07": "codec", "C17": "codec", "C06": "tqmon", "C15": "tqmon", "C02": "tqmon"}

if __name__ == "__main__":
    main()
