#!/bin/bash
# coverage.sh [IDs...] — survey, not a check: which statements of git-lfs do the quick checks execute?
# Builds git-lfs and every driver with `go build -cover` (coverage of the git-lfs module only) into
# .build/cover, runs the quick tier of each check with GOCOVERDIR set, and writes
#   .build/cover/func.txt   (go tool cover -func)   and   .build/cover/profile.txt
# Evidence and verdicts of these runs go to .build/cover/evidence and are not the registered ones.
set -u
cd /verif
export GOFLAGS=-mod=mod GOPROXY=off GOSUMDB=off GOTOOLCHAIN=local GOPATH=${GOPATH:-/root/go} GOCACHE=${GOCACHE:-/root/.cache/go-build}
B=/verif/.build/cover; rm -rf $B; mkdir -p $B/bin $B/h $B/cov $B/evidence
PKG=github.com/git-lfs/git-lfs/v3/...
(cd /repo && go build -cover -coverpkg=$PKG -tags verif -o $B/bin/git-lfs .) || exit 2
(cd /repo && go build -tags "verif testtools" -o $B/bin/lfstest-gitserver ./t/cmd/lfstest-gitserver.go 2>/dev/null)
IDS=${@:-C01 C02 C03 C04 C05 C06 C07 C08 C09 C10 C11 C12 C13 C14 C15 C16 C17 C18 C19 C20}
cat /repo/go.sum harness/go.sum.extra 2>/dev/null | sort -u > harness/go.sum
export VERIF_BIN_DIR=$B/bin VERIF_RACE_BIN_DIR=$B/bin VERIF_EVIDENCE_DIR=$B/evidence GOCOVERDIR=$B/cov VERIF_TIER=quick VERIF_SEED=${VERIF_SEED:-1}
for ID in $IDS; do
  id=$(echo $ID | tr A-Z a-z)
  (cd harness && go build -cover -coverpkg=$PKG,verif/harness/... -tags verif -o $B/h/$id ./cmd/$id) || { echo "$ID build failed"; continue; }
  $B/h/$id 2>/dev/null | tail -1
done
go tool covdata textfmt -i=$B/cov -o $B/profile.all.txt
(head -1 $B/profile.all.txt; grep "^github.com/git-lfs/git-lfs/v3/" $B/profile.all.txt) > $B/profile.txt
(cd /repo && go tool cover -func=$B/profile.txt > $B/func.txt)
tail -1 $B/func.txt
