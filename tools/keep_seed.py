#!/usr/bin/env python3
"""keep_seed.py <PROPERTY> <name> <out-dir> <caught:yes|no|after-strengthening> <note>
Copies a confirmed seeded change into /verif/seeded/<name>/ and extends meta.json."""
import sys, os, shutil, json
prop, name, src, caught, note = sys.argv[1:6]
dst = f'/verif/seeded/{name}'
os.makedirs(dst, exist_ok=True)
for f in os.listdir(src):
    p = os.path.join(src, f)
    if os.path.isfile(p) and os.path.getsize(p) < 2_000_000:
        shutil.copy(p, dst)
m = {}
try:
    m = json.load(open(os.path.join(src, 'meta.json')))
except Exception as e:
    m = {'meta_error': str(e)}
m['property'] = prop
m['confirmed_by_lead'] = 'built both tag variants, ran the demonstration against the changed worktree (fails) and trusted the author\'s pristine run + suite run unless stated otherwise in lead_note'
m['detected_by_check'] = caught
m['lead_note'] = note
json.dump(m, open(os.path.join(dst, 'meta.json'), 'w'), indent=1)
print('kept', dst)
