#!/usr/bin/env python3
# validates MANIFEST.json and evidence/*.json against the schemas in /root/.vp
import json,sys,glob
import jsonschema
ok=True
def v(path,schema):
    global ok
    try:
        jsonschema.validate(json.load(open(path)), json.load(open(schema)))
        print("ok  ",path)
    except Exception as e:
        ok=False; print("FAIL",path, str(e)[:500])
v('/verif/MANIFEST.json','/root/.vp/MANIFEST.schema.json')
for f in sorted(glob.glob('/verif/evidence/*.json')): v(f,'/root/.vp/EVIDENCE.schema.json')
m=json.load(open('/verif/MANIFEST.json'))
ids=[json.loads(l)['id'] for l in open('/verif/properties.jsonl')]
claimed={c['property_id'] for c in m['checks']}; na={n['property_id'] for n in m.get('not_applicable',[])}
import os
for c in m['checks']:
    ef=c['evidence_file']
    if os.path.exists(ef):
        lvl=json.load(open(ef)).get('level')
        if lvl!=c['level_claimed']['category']:
            ok=False; print("FAIL",c['property_id'],"evidence level",lvl,"!= manifest category",c['level_claimed']['category'])
    else:
        ok=False; print("FAIL",c['property_id'],"no evidence file",ef)
for i in ids:
    if (i in claimed)==(i in na): ok=False; print("FAIL",i,"must be claimed xor not_applicable")
sys.exit(0 if ok else 1)
