// Package sbx: isolated scratch environments for running git / git-lfs.
//
// Every child process runs with cwd inside a scratch directory, HOME and
// XDG_CONFIG_HOME inside it, GIT_CONFIG_NOSYSTEM=1, GIT_CEILING_DIRECTORIES,
// GIT_TERMINAL_PROMPT=0, and PATH starting with /verif/.build/bin.
package sbx

import (
	"bytes"
	"context"
	"crypto/sha256"
	"encoding/hex"
	"fmt"
	"io"
	"os"
	"os/exec"
	"path/filepath"
	"strings"
	"sync"
	"sync/atomic"
	"syscall"
	"time"
)

var BinDir = envOr("VERIF_BIN_DIR", "/verif/.build/bin")
var RaceBinDir = envOr("VERIF_RACE_BIN_DIR", "/verif/.build/bin-race")

func envOr(k, d string) string {
	if v := os.Getenv(k); v != "" {
		return v
	}
	return d
}

var seq int64
var baseDir string

var baseOnce sync.Once

// Base returns the per-process scratch root (created once; safe for concurrent use). RemoveBase deletes it.
func Base() string {
	baseOnce.Do(func() {
		t := os.Getenv("VERIF_TMP")
		if t == "" {
			t = os.TempDir()
		}
		d, err := os.MkdirTemp(t, "verif-scratch-")
		if err != nil {
			panic(err)
		}
		baseDir = d
		// evid.Finish (which ends the process with os.Exit, so deferred calls do not run) removes it
		os.Setenv("VERIF_SBX_BASE", d)
		// temporary files made by git-lfs code running inside the driver process (and by child
		// drivers) land below the scratch root as well, so that nothing is left behind in /tmp
		pt := filepath.Join(d, "ptmp")
		if os.MkdirAll(pt, 0o755) == nil {
			os.Setenv("TMPDIR", pt)
		}
	})
	return baseDir
}

func RemoveBase() {
	if baseDir != "" {
		chmodTree(baseDir)
		os.RemoveAll(baseDir)
	}
}

func chmodTree(d string) {
	filepath.Walk(d, func(p string, fi os.FileInfo, err error) error {
		if err == nil && fi.IsDir() && fi.Mode().Perm()&0o700 != 0o700 {
			os.Chmod(p, 0o755)
		}
		return nil
	})
}

type Env struct {
	Root  string // scratch root of this env (removed by Cleanup)
	Home  string
	Race  bool     // use the race-instrumented git-lfs
	Extra []string // extra KEY=VALUE
	// Timeout for each command; a fired watchdog marks Result.TimedOut.
	Timeout time.Duration
}

type Opt func(*Env)

func WithRace() Opt { return func(e *Env) { e.Race = true } }

// NoFilters leaves filter.lfs.* out of the global config.
func NoFilters() Opt { return func(e *Env) { e.Extra = append(e.Extra, "VERIF_SBX_NOFILTERS=1") } }

const GlobalConfig = `[user]
	name = Verif User
	email = verif@example.com
[init]
	defaultBranch = main
[protocol "file"]
	allow = always
[advice]
	detachedHead = false
[gc]
	auto = 0
`

// OneShotFilters configures filter.lfs.clean/smudge only (no long-running process filter).
func OneShotFilters() Opt { return func(e *Env) { e.Extra = append(e.Extra, "VERIF_SBX_ONESHOT=1") } }

const OneShotFilterConfig = `[filter "lfs"]
	clean = git-lfs clean -- %f
	smudge = git-lfs smudge -- %f
	required = true
`
const FilterConfig = `[filter "lfs"]
	clean = git-lfs clean -- %f
	smudge = git-lfs smudge -- %f
	process = git-lfs filter-process
	required = true
`

func New(opts ...Opt) *Env {
	n := atomic.AddInt64(&seq, 1)
	root := filepath.Join(Base(), fmt.Sprintf("e%d", n))
	e := &Env{Root: root, Home: filepath.Join(root, "home"), Timeout: 10 * time.Minute}
	for _, o := range opts {
		o(e)
	}
	must(os.MkdirAll(e.Home, 0o755))
	must(os.MkdirAll(filepath.Join(root, "xdg"), 0o755))
	must(os.MkdirAll(filepath.Join(root, "tmp"), 0o755))
	cfg := GlobalConfig
	nof, oneshot := false, false
	for _, x := range e.Extra {
		if x == "VERIF_SBX_NOFILTERS=1" {
			nof = true
		}
		if x == "VERIF_SBX_ONESHOT=1" {
			oneshot = true
		}
	}
	if oneshot {
		cfg += OneShotFilterConfig
	} else if !nof {
		cfg += FilterConfig
	}
	must(os.WriteFile(filepath.Join(e.Home, ".gitconfig"), []byte(cfg), 0o644))
	return e
}

func must(err error) {
	if err != nil {
		panic(err)
	}
}

func (e *Env) Cleanup() {
	chmodTree(e.Root)
	os.RemoveAll(e.Root)
}

// Dir returns (and creates) a sub-directory of the env root.
func (e *Env) Dir(name string) string {
	d := filepath.Join(e.Root, name)
	must(os.MkdirAll(d, 0o755))
	return d
}

func (e *Env) Environ() []string {
	bin := BinDir
	if e.Race {
		bin = RaceBinDir
	}
	env := []string{
		"HOME=" + e.Home,
		"XDG_CONFIG_HOME=" + filepath.Join(e.Root, "xdg"),
		"TMPDIR=" + filepath.Join(e.Root, "tmp"),
		"GIT_CONFIG_NOSYSTEM=1",
		"GIT_CEILING_DIRECTORIES=" + e.Root,
		"GIT_TERMINAL_PROMPT=0",
		"GIT_ASKPASS=",
		"SSH_ASKPASS=",
		"LANG=C", "LC_ALL=C",
		"GIT_LFS_FORCE_PROGRESS=0",
		"GIT_AUTHOR_NAME=Verif Author", "GIT_AUTHOR_EMAIL=author@example.com",
		"GIT_COMMITTER_NAME=Verif Committer", "GIT_COMMITTER_EMAIL=committer@example.com",
		"PATH=" + bin + ":" + BinDir + ":/usr/local/bin:/usr/bin:/bin",
	}
	if d := os.Getenv("GOCOVERDIR"); d != "" { // coverage survey builds (tools/coverage.sh) only
		env = append(env, "GOCOVERDIR="+d)
	}
	if e.Race {
		env = append(env, "GORACE=halt_on_error=0 exitcode=0 log_path="+filepath.Join(e.Root, "race.log"))
	}
	for _, x := range e.Extra {
		if x != "VERIF_SBX_NOFILTERS=1" && x != "VERIF_SBX_ONESHOT=1" {
			env = append(env, x)
		}
	}
	return env
}

type Result struct {
	Args     []string
	Dir      string
	Stdout   []byte
	Stderr   []byte
	Code     int // exit code; -1 if killed by signal
	Signal   string
	TimedOut bool
	Err      error
}

func (r Result) OK() bool { return r.Code == 0 && !r.TimedOut }

// GoCrash reports a Go runtime panic / fatal error in the child's stderr.
func (r Result) GoCrash() bool {
	s := r.Stderr
	return bytes.Contains(s, []byte("panic: ")) || bytes.Contains(s, []byte("fatal error: ")) || bytes.Contains(s, []byte("goroutine 1 [running]"))
}

func (r Result) String() string {
	return fmt.Sprintf("$ %s (dir %s) -> code=%d sig=%s timeout=%v\nstdout: %s\nstderr: %s", strings.Join(r.Args, " "), r.Dir, r.Code, r.Signal, r.TimedOut, Trunc(r.Stdout, 1500), Trunc(r.Stderr, 3000))
}

func Trunc(b []byte, n int) string {
	if len(b) <= n {
		return string(b)
	}
	return string(b[:n/2]) + "…[" + fmt.Sprint(len(b)-n) + " bytes]…" + string(b[len(b)-n/2:])
}

type RunOpt struct {
	Dir   string
	Stdin io.Reader
	Env   []string // extra KEY=VALUE for this command only
}

// Run executes name args... in dir with the isolated environment.
func (e *Env) Run(o RunOpt, name string, args ...string) Result {
	ctx, cancel := context.WithTimeout(context.Background(), e.Timeout)
	defer cancel()
	cmd := exec.CommandContext(ctx, name, args...)
	cmd.Dir = o.Dir
	if cmd.Dir == "" {
		cmd.Dir = e.Root
	}
	cmd.Env = append(e.Environ(), o.Env...)
	// resolve name against the env's PATH, not the driver's
	if !strings.Contains(name, "/") {
		if p := e.LookPath(name); p != "" {
			cmd.Path = p
			cmd.Err = nil
		}
	}
	cmd.Stdin = o.Stdin
	var so, se bytes.Buffer
	cmd.Stdout, cmd.Stderr = &so, &se
	cmd.SysProcAttr = &syscall.SysProcAttr{Setpgid: true}
	cmd.Cancel = func() error { return syscall.Kill(-cmd.Process.Pid, syscall.SIGKILL) }
	cmd.WaitDelay = 5 * time.Second
	err := cmd.Run()
	res := Result{Args: append([]string{name}, args...), Dir: cmd.Dir, Stdout: so.Bytes(), Stderr: se.Bytes(), Err: err}
	if ctx.Err() == context.DeadlineExceeded {
		res.TimedOut = true
	}
	if err != nil {
		if ee, ok := err.(*exec.ExitError); ok {
			res.Code = ee.ExitCode()
			if ws, ok := ee.Sys().(syscall.WaitStatus); ok && ws.Signaled() {
				res.Signal = ws.Signal().String()
			}
		} else {
			res.Code = -2
		}
	}
	return res
}

func (e *Env) LookPath(name string) string {
	for _, kv := range e.Environ() {
		if strings.HasPrefix(kv, "PATH=") {
			for _, d := range strings.Split(kv[5:], ":") {
				p := filepath.Join(d, name)
				if fi, err := os.Stat(p); err == nil && !fi.IsDir() && fi.Mode()&0o111 != 0 {
					return p
				}
			}
		}
	}
	return ""
}

// Git runs git in dir.
func (e *Env) Git(dir string, args ...string) Result {
	return e.Run(RunOpt{Dir: dir}, "git", args...)
}

// GitIn runs git with stdin.
func (e *Env) GitIn(dir string, stdin []byte, args ...string) Result {
	return e.Run(RunOpt{Dir: dir, Stdin: bytes.NewReader(stdin)}, "git", args...)
}

// MustGit panics (infrastructure problem) when git fails.
func (e *Env) MustGit(dir string, args ...string) string {
	r := e.Git(dir, args...)
	if !r.OK() {
		panic(fmt.Sprintf("git failed: %s", r))
	}
	return string(r.Stdout)
}

// PlainGit runs git with LFS filters disabled (used by reference models).
func (e *Env) PlainGit(dir string, args ...string) Result {
	a := append([]string{"-c", "filter.lfs.clean=", "-c", "filter.lfs.smudge=", "-c", "filter.lfs.process=", "-c", "filter.lfs.required=false"}, args...)
	return e.Run(RunOpt{Dir: dir, Env: []string{"GIT_LFS_SKIP_SMUDGE=1"}}, "git", a...)
}

func (e *Env) MustPlainGit(dir string, args ...string) string {
	r := e.PlainGit(dir, args...)
	if !r.OK() {
		panic(fmt.Sprintf("git failed: %s", r))
	}
	return string(r.Stdout)
}

// InitRepo creates a repository with LFS hooks not installed (filters come from the global config).
func (e *Env) InitRepo(name string) string {
	d := e.Dir(name)
	e.MustGit(d, "init", "-q", "-b", "main", ".")
	return d
}

func (e *Env) InitBare(name string) string {
	d := e.Dir(name)
	e.MustGit(d, "init", "-q", "--bare", "-b", "main", ".")
	return d
}

func Sha256Hex(b []byte) string {
	h := sha256.Sum256(b)
	return hex.EncodeToString(h[:])
}

func Sha256File(p string) (string, int64, error) {
	f, err := os.Open(p)
	if err != nil {
		return "", 0, err
	}
	defer f.Close()
	h := sha256.New()
	n, err := io.Copy(h, f)
	return hex.EncodeToString(h.Sum(nil)), n, err
}

// ObjectPath returns the local LFS object path for oid inside gitDir (.git).
func ObjectPath(gitDir, oid string) string {
	return filepath.Join(gitDir, "lfs", "objects", oid[0:2], oid[2:4], oid)
}

type StoreEntry struct {
	Path  string // relative to lfs/
	Size  int64
	Sha   string
	Inode uint64
	Mode  os.FileMode
}

// SnapshotLFS lists every regular file under <gitDir>/lfs with its hash.
func SnapshotLFS(gitDir string) map[string]StoreEntry {
	out := map[string]StoreEntry{}
	root := filepath.Join(gitDir, "lfs")
	filepath.Walk(root, func(p string, fi os.FileInfo, err error) error {
		if err != nil || fi.IsDir() {
			return nil
		}
		rel, _ := filepath.Rel(root, p)
		sha, n, _ := Sha256File(p)
		var ino uint64
		if st, ok := fi.Sys().(*syscall.Stat_t); ok {
			ino = st.Ino
		}
		out[rel] = StoreEntry{Path: rel, Size: n, Sha: sha, Inode: ino, Mode: fi.Mode()}
		return nil
	})
	return out
}

// BadObjects returns entries under lfs/objects whose name is not the hash of their content,
// and files that sit in lfs/objects but are not named like an object.
func BadObjects(snap map[string]StoreEntry) []StoreEntry {
	var bad []StoreEntry
	for rel, e := range snap {
		if !strings.HasPrefix(rel, "objects/") {
			continue
		}
		if filepath.Base(rel) != e.Sha {
			bad = append(bad, e)
		}
	}
	return bad
}

// WriteReplace writes a file by temp+rename (never in place: object files may be hard-linked).
func WriteReplace(p string, b []byte, mode os.FileMode) error {
	os.MkdirAll(filepath.Dir(p), 0o755)
	tmp := p + fmt.Sprintf(".verif-%d", atomic.AddInt64(&seq, 1))
	if err := os.WriteFile(tmp, b, mode); err != nil {
		return err
	}
	return os.Rename(tmp, p)
}

// FsizeWrap returns a command line that runs prog with RLIMIT_FSIZE set to limit bytes and SIGXFSZ
// ignored (python ignores it at start-up and ignored signals survive exec): every write(2) that would grow
// a REGULAR file beyond the limit fails with EFBIG, while pipes and sockets are unaffected. A cheap way to
// make "disk full / quota" strike at a chosen file size without touching the filter protocol or stdout.
func FsizeWrap(limit int64, prog string, args ...string) (string, []string) {
	script := "import os,resource,signal,sys\nn=int(sys.argv[1])\nsignal.signal(signal.SIGXFSZ, signal.SIG_IGN)\nresource.setrlimit(resource.RLIMIT_FSIZE,(n,n))\nos.execvp(sys.argv[2], sys.argv[2:])\n"
	return "/usr/bin/python3", append([]string{"-c", script, fmt.Sprint(limit), prog}, args...)
}
