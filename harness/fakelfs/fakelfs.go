// Package fakelfs: scripted fake Git LFS server (batch, storage with Range,
// verify, locks) with a complete request log. It runs inside the driver.
//
// Layout of URLs (one listener serves any number of named repositories):
//
//	LFS endpoint of repo R:  <URL>/r/R          (set lfs.url / remote.<n>.lfsurl to this)
//	  POST /r/R/objects/batch, POST /r/R/verify
//	  POST /r/R/locks, GET /r/R/locks, POST /r/R/locks/verify, POST /r/R/locks/<id>/unlock
//	storage:                 <URL>/s/R/<oid>?t=<token>   (GET with Range, PUT)
//
// The user of a request is taken from the header "X-Verif-User" (set per clone
// with http.extraheader) or from HTTP Basic credentials; default "anon".
// Every action href carries a unique token t=<batch#>.<n> so that a storage
// request identifies the batch answer that offered it.
package fakelfs

import (
	"bytes"
	"crypto/sha256"
	"encoding/hex"
	"encoding/json"
	"fmt"
	"io"
	"net"
	"net/http"
	"net/http/httptest"
	"sort"
	"strconv"
	"strings"
	"sync"
	"sync/atomic"
	"time"
)

type Request struct {
	Seq      int
	Arrive   int64 // monotonic ns
	Answer   int64 // stamp taken before the response is released
	Method   string
	Path     string
	RawQuery string
	Header   http.Header
	Body     []byte
	Repo     string
	Kind     string // batch | verify | lock-create | lock-list | lock-verify | lock-delete | storage-get | storage-put | other
	Oid      string // storage / verify
	Token    string // storage: t= query value
	User     string
	JSON     map[string]any // decoded request body when it is JSON
	Status   int            // status answered
	Note     string
}

type Offer struct {
	Token   string
	Repo    string
	Oid     string
	Op      string // download | upload | verify
	Href    string
	Header  map[string]string
	Expired bool
	Batch   int
}

// Fault lets a driver override the answer to one request.
type Fault struct {
	Status          int               // if non-zero, answer with this status and Body
	Body            []byte            // body for Status, or replacement body for storage GET
	Header          map[string]string // extra headers
	Reset           bool              // hijack and close the connection
	CloseAfter      int               // storage GET: send this many body bytes (with the full Content-Length), then cut the connection
	ReplaceBody     bool              // storage GET: send Body instead of the object (status 200/206 logic unchanged unless Status set)
	OmitObjects     map[string]bool   // batch: leave these oids out of the answer
	ObjErrors       map[string]int    // batch: answer these oids with an object error of the given code
	NoAction        map[string]bool   // batch: answer these oids without actions
	ExpiredAct      map[string]bool   // batch: actions for these oids are already expired
	HashAlgo        string            // batch: hash_algo value
	Transfer        string            // batch: transfer adapter name to announce
	IgnoreRange     bool              // storage GET: ignore Range, answer 200 with everything
	WrongRangeStart int64             // storage GET: answer 206 but with a Content-Range starting here (body from there)
	NoContentRange  bool              // storage GET: 206 without Content-Range
	DropPut         bool              // storage PUT: answer 200 but do not store
	ContentRange    string            // storage GET: literal Content-Range header value to send with a 206
	ExtraBytes      int               // storage GET: append this many junk bytes after the (ranged) body
}

type Lock struct {
	ID       string
	Path     string
	Owner    string
	LockedAt time.Time
	Ref      string
}

type Server struct {
	URL      string
	srv      *httptest.Server
	mu       sync.Mutex
	t0       time.Time
	seq      int
	log      []*Request
	objs     map[string]map[string][]byte // repo -> oid -> content
	locks    map[string][]*Lock           // repo -> locks
	lockSeq  int
	batchSeq int
	offers   map[string]*Offer
	// Hook is consulted for every request after it has been logged (may be nil).
	Hook func(r *Request) *Fault
	// WithVerify: upload actions come with a verify action.
	WithVerify bool
	// AuthHeader: if non-empty, actions carry this header name with a unique value.
	ActionHeaders bool
	// ActionAuthorization: with ActionHeaders, every action also carries its own Authorization header.
	ActionAuthorization bool
	// ActionChunked: with ActionHeaders, upload actions ask for a chunked transfer; the value is the spelling
	// of the header NAME to offer ("Transfer-Encoding", "transfer-encoding", "TRANSFER-ENCODING").
	ActionChunked string
	// ActionContentType: with ActionHeaders, upload actions also prescribe this Content-Type.
	ActionContentType string
	// LocksUnsupported: answer every locks endpoint with this status (404/501) when non-zero.
	LocksStatus int
	// PageSize for lock lists (0 = no pagination).
	PageSize int
	inflight int64
}

func New() *Server {
	s := &Server{t0: time.Now(), objs: map[string]map[string][]byte{}, locks: map[string][]*Lock{}, offers: map[string]*Offer{}}
	s.srv = httptest.NewServer(http.HandlerFunc(s.handle))
	s.URL = s.srv.URL
	return s
}

// NewOn starts the server on a specific listener address (e.g. "127.0.0.2:0").
func NewOn(addr string) (*Server, error) {
	l, err := net.Listen("tcp", addr)
	if err != nil {
		return nil, err
	}
	s := &Server{t0: time.Now(), objs: map[string]map[string][]byte{}, locks: map[string][]*Lock{}, offers: map[string]*Offer{}}
	s.srv = httptest.NewUnstartedServer(http.HandlerFunc(s.handle))
	s.srv.Listener.Close()
	s.srv.Listener = l
	s.srv.Start()
	s.URL = s.srv.URL
	return s, nil
}

// SetHook installs the fault hook (safe while requests are being served).
func (s *Server) SetHook(h func(r *Request) *Fault) {
	s.mu.Lock()
	s.Hook = h
	s.mu.Unlock()
}

func (s *Server) Close() { s.srv.CloseClientConnections(); s.srv.Close() }

func (s *Server) now() int64 { return int64(time.Since(s.t0)) }

// Endpoint returns the LFS endpoint URL for a repository name.
func (s *Server) Endpoint(repo string) string { return s.URL + "/r/" + repo }

func (s *Server) InFlight() int64 { return atomic.LoadInt64(&s.inflight) }

// Put stores an object directly (server-side seeding).
func (s *Server) Put(repo string, content []byte) string {
	h := sha256.Sum256(content)
	oid := hex.EncodeToString(h[:])
	s.mu.Lock()
	defer s.mu.Unlock()
	if s.objs[repo] == nil {
		s.objs[repo] = map[string][]byte{}
	}
	s.objs[repo][oid] = append([]byte(nil), content...)
	return oid
}

func (s *Server) Get(repo, oid string) ([]byte, bool) {
	s.mu.Lock()
	defer s.mu.Unlock()
	b, ok := s.objs[repo][oid]
	return b, ok
}

func (s *Server) Delete(repo, oid string) {
	s.mu.Lock()
	defer s.mu.Unlock()
	delete(s.objs[repo], oid)
}

// Oids lists the oids stored for repo.
func (s *Server) Oids(repo string) []string {
	s.mu.Lock()
	defer s.mu.Unlock()
	var out []string
	for k := range s.objs[repo] {
		out = append(out, k)
	}
	sort.Strings(out)
	return out
}

// Log returns a copy of the request log.
func (s *Server) Log() []*Request {
	s.mu.Lock()
	defer s.mu.Unlock()
	return append([]*Request(nil), s.log...)
}

func (s *Server) Offer(token string) *Offer {
	s.mu.Lock()
	defer s.mu.Unlock()
	return s.offers[token]
}

func (s *Server) Locks(repo string) []Lock {
	s.mu.Lock()
	defer s.mu.Unlock()
	var out []Lock
	for _, l := range s.locks[repo] {
		out = append(out, *l)
	}
	return out
}

// ForceUnlock removes a lock server-side (another user's "unlock --force" seen from outside).
func (s *Server) ForceUnlock(repo, id string) {
	s.mu.Lock()
	defer s.mu.Unlock()
	ls := s.locks[repo]
	for i, l := range ls {
		if l.ID == id {
			s.locks[repo] = append(ls[:i:i], ls[i+1:]...)
			return
		}
	}
}

func userOf(r *http.Request) string {
	if u := r.Header.Get("X-Verif-User"); u != "" {
		return u
	}
	if u, _, ok := r.BasicAuth(); ok {
		return u
	}
	return "anon"
}

func (s *Server) handle(w http.ResponseWriter, r *http.Request) {
	atomic.AddInt64(&s.inflight, 1)
	defer atomic.AddInt64(&s.inflight, -1)
	body, _ := io.ReadAll(r.Body)
	req := &Request{Arrive: s.now(), Method: r.Method, Path: r.URL.Path, RawQuery: r.URL.RawQuery, Header: r.Header.Clone(), Body: body, User: userOf(r), Kind: "other"}
	if len(r.TransferEncoding) > 0 {
		// net/http moves this header out of r.Header; keep it observable
		req.Header.Set("Transfer-Encoding", strings.Join(r.TransferEncoding, ","))
	}
	if len(body) > 0 && strings.Contains(r.Header.Get("Content-Type"), "json") {
		json.Unmarshal(body, &req.JSON)
	}
	parts := strings.Split(strings.Trim(r.URL.Path, "/"), "/")
	if len(parts) >= 2 {
		req.Repo = parts[1]
	}
	switch {
	case len(parts) >= 4 && parts[0] == "r" && parts[2] == "objects" && parts[3] == "batch" && r.Method == "POST":
		req.Kind = "batch"
	case len(parts) == 3 && parts[0] == "r" && parts[2] == "verify" && r.Method == "POST":
		req.Kind = "verify"
	case len(parts) == 3 && parts[0] == "r" && parts[2] == "locks" && r.Method == "POST":
		req.Kind = "lock-create"
	case len(parts) == 3 && parts[0] == "r" && parts[2] == "locks" && r.Method == "GET":
		req.Kind = "lock-list"
	case len(parts) == 4 && parts[0] == "r" && parts[2] == "locks" && parts[3] == "verify" && r.Method == "POST":
		req.Kind = "lock-verify"
	case len(parts) == 5 && parts[0] == "r" && parts[2] == "locks" && parts[4] == "unlock" && r.Method == "POST":
		req.Kind = "lock-delete"
	case len(parts) == 3 && parts[0] == "s" && r.Method == "GET":
		req.Kind, req.Oid, req.Token = "storage-get", parts[2], r.URL.Query().Get("t")
	case len(parts) == 3 && parts[0] == "s" && r.Method == "PUT":
		req.Kind, req.Oid, req.Token = "storage-put", parts[2], r.URL.Query().Get("t")
	}
	s.mu.Lock()
	s.seq++
	req.Seq = s.seq
	s.log = append(s.log, req)
	hook := s.Hook
	s.mu.Unlock()
	var f *Fault
	if hook != nil {
		f = hook(req)
	}
	if f == nil {
		f = &Fault{}
	}
	for k, v := range f.Header {
		w.Header().Set(k, v)
	}
	answer := func(status int, ctype string, b []byte) {
		req.Answer = s.now()
		req.Status = status
		if ctype != "" {
			w.Header().Set("Content-Type", ctype)
		}
		w.WriteHeader(status)
		w.Write(b)
	}
	jsonAnswer := func(status int, v any) {
		b, _ := json.Marshal(v)
		answer(status, "application/vnd.git-lfs+json", b)
	}
	if f.Reset {
		req.Answer = s.now()
		req.Status = -1
		if hj, ok := w.(http.Hijacker); ok {
			if conn, _, err := hj.Hijack(); err == nil {
				if tc, ok := conn.(*net.TCPConn); ok {
					tc.SetLinger(0)
				}
				conn.Close()
			}
		}
		return
	}
	if f.Status != 0 && req.Kind != "storage-get" {
		b := f.Body
		if b == nil {
			b, _ = json.Marshal(map[string]string{"message": fmt.Sprintf("verif fault status %d", f.Status)})
		}
		answer(f.Status, "application/vnd.git-lfs+json", b)
		return
	}
	switch req.Kind {
	case "batch":
		s.batch(req, f, jsonAnswer)
	case "verify":
		oid, _ := req.JSON["oid"].(string)
		req.Oid = oid
		size, _ := req.JSON["size"].(float64)
		if b, ok := s.Get(req.Repo, oid); ok && int64(len(b)) == int64(size) {
			jsonAnswer(200, map[string]any{})
		} else {
			jsonAnswer(404, map[string]string{"message": "verif: object not found on verify"})
		}
	case "storage-get":
		s.storageGet(w, r, req, f)
	case "storage-put":
		h := sha256.Sum256(body)
		if hex.EncodeToString(h[:]) != req.Oid {
			req.Note = "put-hash-mismatch"
			jsonAnswer(422, map[string]string{"message": "verif: uploaded content does not hash to the oid"})
			return
		}
		if !f.DropPut {
			s.mu.Lock()
			if s.objs[req.Repo] == nil {
				s.objs[req.Repo] = map[string][]byte{}
			}
			s.objs[req.Repo][req.Oid] = body
			s.mu.Unlock()
		}
		answer(200, "", nil)
	case "lock-create", "lock-list", "lock-verify", "lock-delete":
		if s.LocksStatus != 0 {
			jsonAnswer(s.LocksStatus, map[string]string{"message": "verif: locking not implemented"})
			return
		}
		s.lockAPI(req, parts, r, jsonAnswer)
	default:
		jsonAnswer(404, map[string]string{"message": "verif: no such endpoint " + r.URL.Path})
	}
}

func (s *Server) batch(req *Request, f *Fault, jsonAnswer func(int, any)) {
	op, _ := req.JSON["operation"].(string)
	objs, _ := req.JSON["objects"].([]any)
	s.mu.Lock()
	s.batchSeq++
	bn := s.batchSeq
	s.mu.Unlock()
	var out []map[string]any
	n := 0
	for _, x := range objs {
		o, _ := x.(map[string]any)
		oid, _ := o["oid"].(string)
		sizef, _ := o["size"].(float64)
		size := int64(sizef)
		if f.OmitObjects[oid] {
			continue
		}
		entry := map[string]any{"oid": oid, "size": size}
		if code, ok := f.ObjErrors[oid]; ok {
			entry["error"] = map[string]any{"code": code, "message": fmt.Sprintf("verif object error %d", code)}
			out = append(out, entry)
			continue
		}
		have, ok := s.Get(req.Repo, oid)
		mk := func(kind string) map[string]any {
			n++
			tok := fmt.Sprintf("%d.%d", bn, n)
			href := fmt.Sprintf("%s/s/%s/%s?t=%s", s.URL, req.Repo, oid, tok)
			if kind == "verify" {
				href = fmt.Sprintf("%s/r/%s/verify?t=%s", s.URL, req.Repo, tok)
			}
			a := map[string]any{"href": href}
			of := &Offer{Token: tok, Repo: req.Repo, Oid: oid, Op: kind, Href: href, Batch: bn}
			if s.ActionHeaders {
				of.Header = map[string]string{"X-Verif-Action": "tok-" + tok}
				if s.ActionAuthorization {
					of.Header["Authorization"] = "Token act-" + tok
				}
				if s.ActionChunked != "" && kind == "upload" {
					of.Header[s.ActionChunked] = "chunked"
				}
				if s.ActionContentType != "" && kind == "upload" {
					of.Header["Content-Type"] = s.ActionContentType
				}
				a["header"] = of.Header
			}
			if f.ExpiredAct[oid] {
				a["expires_at"] = time.Now().Add(-time.Hour).UTC().Format(time.RFC3339)
				of.Expired = true
			} else {
				a["expires_in"] = 3600
			}
			s.mu.Lock()
			s.offers[tok] = of
			s.mu.Unlock()
			return a
		}
		switch {
		case f.NoAction[oid]:
		case op == "download":
			if !ok {
				entry["error"] = map[string]any{"code": 404, "message": "verif: object does not exist on the server"}
			} else {
				entry["size"] = int64(len(have))
				entry["actions"] = map[string]any{"download": mk("download")}
			}
		case op == "upload":
			if !ok {
				acts := map[string]any{"upload": mk("upload")}
				if s.WithVerify {
					acts["verify"] = mk("verify")
				}
				entry["actions"] = acts
			}
		}
		out = append(out, entry)
	}
	resp := map[string]any{"objects": out}
	if out == nil {
		resp["objects"] = []any{}
	}
	if f.Transfer != "" {
		resp["transfer"] = f.Transfer
	} else {
		resp["transfer"] = "basic"
	}
	if f.HashAlgo != "" {
		resp["hash_algo"] = f.HashAlgo
	}
	jsonAnswer(200, resp)
}

func (s *Server) storageGet(w http.ResponseWriter, r *http.Request, req *Request, f *Fault) {
	content, ok := s.Get(req.Repo, req.Oid)
	if f.ReplaceBody {
		content, ok = f.Body, true
	}
	if f.Status != 0 && f.Status != 200 && f.Status != 206 {
		req.Answer, req.Status = s.now(), f.Status
		w.WriteHeader(f.Status)
		w.Write(f.Body)
		return
	}
	if !ok {
		req.Answer, req.Status = s.now(), 404
		w.WriteHeader(404)
		return
	}
	status := 200
	body := content
	total := int64(len(content))
	if rg := r.Header.Get("Range"); rg != "" && !f.IgnoreRange {
		var from, to int64 = 0, total - 1
		spec := strings.TrimPrefix(rg, "bytes=")
		if i := strings.Index(spec, "-"); i >= 0 {
			from, _ = strconv.ParseInt(spec[:i], 10, 64)
			if spec[i+1:] != "" {
				to, _ = strconv.ParseInt(spec[i+1:], 10, 64)
			}
		}
		if from >= total || from < 0 {
			req.Answer, req.Status = s.now(), 416
			w.Header().Set("Content-Range", fmt.Sprintf("bytes */%d", total))
			w.WriteHeader(416)
			return
		}
		if to >= total {
			to = total - 1
		}
		status = 206
		start := from
		if f.WrongRangeStart != 0 {
			start = f.WrongRangeStart
			if start < 0 {
				start = 0
			}
			if start > total {
				start = total
			}
		}
		body = content[start : to+1]
		if start > to {
			body = nil
		}
		if f.ContentRange != "" {
			w.Header().Set("Content-Range", f.ContentRange)
		} else if !f.NoContentRange {
			w.Header().Set("Content-Range", fmt.Sprintf("bytes %d-%d/%d", start, to, total))
		}
	}
	if f.Status == 200 || f.Status == 206 {
		status = f.Status
	}
	if f.ExtraBytes > 0 {
		body = append(append([]byte{}, body...), bytes.Repeat([]byte{0x5a}, f.ExtraBytes)...)
	}
	req.Answer, req.Status = s.now(), status
	w.Header().Set("Content-Type", "application/octet-stream")
	if f.CloseAfter > 0 && f.CloseAfter < len(body) {
		w.Header().Set("Content-Length", strconv.Itoa(len(body)))
		w.WriteHeader(status)
		w.Write(body[:f.CloseAfter])
		if fl, ok := w.(http.Flusher); ok {
			fl.Flush()
		}
		if hj, ok := w.(http.Hijacker); ok {
			if conn, _, err := hj.Hijack(); err == nil {
				conn.Close()
			}
		}
		return
	}
	w.Header().Set("Content-Length", strconv.Itoa(len(body)))
	w.WriteHeader(status)
	w.Write(body)
}

func lockJSON(l *Lock) map[string]any {
	return map[string]any{"id": l.ID, "path": l.Path, "locked_at": l.LockedAt.UTC().Format(time.RFC3339), "owner": map[string]any{"name": l.Owner}}
}

func (s *Server) lockAPI(req *Request, parts []string, r *http.Request, jsonAnswer func(int, any)) {
	s.mu.Lock()
	defer s.mu.Unlock()
	repo := req.Repo
	switch req.Kind {
	case "lock-create":
		path, _ := req.JSON["path"].(string)
		for _, l := range s.locks[repo] {
			if l.Path == path {
				jsonAnswer(409, map[string]any{"lock": lockJSON(l), "message": "already created lock"})
				return
			}
		}
		s.lockSeq++
		l := &Lock{ID: fmt.Sprintf("lock-%d", s.lockSeq), Path: path, Owner: req.User, LockedAt: time.Now()}
		if ref, ok := req.JSON["ref"].(map[string]any); ok {
			l.Ref, _ = ref["name"].(string)
		}
		s.locks[repo] = append(s.locks[repo], l)
		jsonAnswer(201, map[string]any{"lock": lockJSON(l)})
	case "lock-list":
		q := r.URL.Query()
		var out []map[string]any
		ls := s.locks[repo]
		start := 0
		if c := q.Get("cursor"); c != "" {
			start, _ = strconv.Atoi(c)
		}
		limit := s.PageSize
		if l := q.Get("limit"); l != "" {
			if v, err := strconv.Atoi(l); err == nil && v > 0 && (limit == 0 || v < limit) {
				limit = v
			}
		}
		next := ""
		var matching []*Lock
		for _, l := range ls {
			if p := q.Get("path"); p != "" && l.Path != p {
				continue
			}
			if id := q.Get("id"); id != "" && l.ID != id {
				continue
			}
			matching = append(matching, l)
		}
		for i := start; i < len(matching); i++ {
			if limit > 0 && len(out) >= limit {
				next = strconv.Itoa(i)
				break
			}
			out = append(out, lockJSON(matching[i]))
		}
		resp := map[string]any{"locks": out}
		if out == nil {
			resp["locks"] = []any{}
		}
		if next != "" {
			resp["next_cursor"] = next
		}
		jsonAnswer(200, resp)
	case "lock-verify":
		start := 0
		if c, ok := req.JSON["cursor"].(string); ok && c != "" {
			start, _ = strconv.Atoi(c)
		}
		limit := s.PageSize
		if lf, ok := req.JSON["limit"].(float64); ok && lf > 0 && (limit == 0 || int(lf) < limit) {
			limit = int(lf)
		}
		ours, theirs := []map[string]any{}, []map[string]any{}
		next := ""
		ls := s.locks[repo]
		for i := start; i < len(ls); i++ {
			if limit > 0 && len(ours)+len(theirs) >= limit {
				next = strconv.Itoa(i)
				break
			}
			if ls[i].Owner == req.User {
				ours = append(ours, lockJSON(ls[i]))
			} else {
				theirs = append(theirs, lockJSON(ls[i]))
			}
		}
		resp := map[string]any{"ours": ours, "theirs": theirs}
		if next != "" {
			resp["next_cursor"] = next
		}
		jsonAnswer(200, resp)
	case "lock-delete":
		id := parts[3]
		force, _ := req.JSON["force"].(bool)
		ls := s.locks[repo]
		for i, l := range ls {
			if l.ID == id {
				if l.Owner != req.User && !force {
					jsonAnswer(403, map[string]any{"message": "verif: lock belongs to " + l.Owner})
					return
				}
				s.locks[repo] = append(ls[:i:i], ls[i+1:]...)
				jsonAnswer(200, map[string]any{"lock": lockJSON(l)})
				return
			}
		}
		jsonAnswer(404, map[string]any{"message": "verif: no such lock"})
	}
}
