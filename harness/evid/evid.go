// Package evid: evidence writer, verdict bookkeeping, known-findings matcher.
//
// A driver does
//
//	r := evid.New("C07", "exploration")
//	r.Rule = "…"
//	r.Case("class-name", sample)          // once per executed case
//	r.Violation(evid.Sig{"symptom","trigger"}, "what fails", detail)
//	r.Inconclusive("why")
//	r.Finish()                            // writes evidence, prints lines, exits
//
// All methods are safe for concurrent use.
package evid

import (
	"bufio"
	"encoding/json"
	"flag"
	"fmt"
	"os"
	"path/filepath"
	"sort"
	"strconv"
	"strings"
	"sync"
	"time"
)

const VerifDir = "/verif"

type Sig struct {
	Symptom string // kind of failure observed by the oracle, e.g. "hang", "object-missing-on-server"
	Trigger string // coordinate of the generated case that caused it, e.g. "batch-omitted-object"
}

func (s Sig) String() string { return s.Symptom + "/" + s.Trigger }

type finding struct {
	prop, sig, text string
}

type Run struct {
	ID    string
	Level string
	Tier  string
	Seed  int64
	Rule  string

	Assumptions []string

	mu           sync.Mutex
	start        time.Time
	evals        int
	classes      map[string]int
	samples      []any
	maxSamples   int
	counters     map[string]int64
	extra        map[string]any
	violations   int
	violLines    []string
	known        map[string]int // sig -> count
	knownText    map[string]string
	inconclusive []string
	findings     []finding
	replaySeq    int
	minEvals     int
}

var (
	flagTier   = flag.String("tier", "", "quick|thorough (default $VERIF_TIER or quick)")
	flagReplay = flag.String("replay", "", "replay file")
)

// ReplayPath returns the --replay argument ("" if none).
func ReplayPath() string { return *flagReplay }

func New(id, level string) *Run {
	if !flag.Parsed() {
		flag.Parse()
	}
	tier := *flagTier
	if tier == "" {
		tier = os.Getenv("VERIF_TIER")
	}
	if tier != "thorough" {
		tier = "quick"
	}
	seed := int64(1)
	if s := os.Getenv("VERIF_SEED"); s != "" {
		if v, err := strconv.ParseInt(s, 10, 64); err == nil {
			seed = v
		}
	}
	r := &Run{ID: id, Level: level, Tier: tier, Seed: seed, start: time.Now(),
		classes: map[string]int{}, counters: map[string]int64{}, extra: map[string]any{},
		known: map[string]int{}, knownText: map[string]string{}, maxSamples: 6, minEvals: 1}
	r.loadFindings()
	// an evidence file from a previous run must not survive a crashed run
	os.Remove(r.evidencePath())
	// witnesses of earlier runs with the same tier and seed would be confused with this run's
	if old, _ := filepath.Glob(filepath.Join(r.replayDir(), fmt.Sprintf("%s-seed%d-*.json", r.Tier, r.Seed))); len(old) > 0 {
		for _, f := range old {
			os.Remove(f)
		}
	}
	return r
}

func (r *Run) Quick() bool    { return r.Tier == "quick" }
func (r *Run) Thorough() bool { return r.Tier == "thorough" }

// N picks the case count for the tier.
func (r *Run) N(quick, thorough int) int {
	if r.Thorough() {
		return thorough
	}
	return quick
}

func (r *Run) evidencePath() string {
	if d := os.Getenv("VERIF_EVIDENCE_DIR"); d != "" { // mutation self-tests (VERIF_REPO) write elsewhere
		return filepath.Join(d, r.ID+".json")
	}
	return filepath.Join(VerifDir, "evidence", r.ID+".json")
}

func (r *Run) replayDir() string {
	if d := os.Getenv("VERIF_EVIDENCE_DIR"); d != "" {
		return filepath.Join(d, "replay", r.ID)
	}
	return filepath.Join(VerifDir, "replay", r.ID)
}

func (r *Run) loadFindings() {
	f, err := os.Open(filepath.Join(VerifDir, "known_findings.txt"))
	if err != nil {
		return
	}
	defer f.Close()
	sc := bufio.NewScanner(f)
	for sc.Scan() {
		line := strings.TrimSpace(sc.Text())
		// finding: property=C06 sig=hang/batch-omitted-object <text>
		if !strings.HasPrefix(line, "finding:") {
			continue // "fixed:" lines and comments suppress nothing
		}
		fields := strings.Fields(strings.TrimPrefix(line, "finding:"))
		var fd finding
		var rest []string
		for _, w := range fields {
			switch {
			case strings.HasPrefix(w, "property=") && fd.prop == "":
				fd.prop = strings.TrimPrefix(w, "property=")
			case strings.HasPrefix(w, "sig=") && fd.sig == "":
				fd.sig = strings.TrimPrefix(w, "sig=")
			default:
				rest = append(rest, w)
			}
		}
		fd.text = strings.Join(rest, " ")
		if fd.prop == r.ID && fd.sig != "" {
			r.findings = append(r.findings, fd)
		}
	}
}

// SetMinEvaluations: a run that executed fewer cases is not a pass.
func (r *Run) SetMinEvaluations(n int) { r.minEvals = n }

// Case records one executed case; class names the coordinates of the quantifier it hit.
func (r *Run) Case(class string, sample any) {
	r.mu.Lock()
	defer r.mu.Unlock()
	r.evals++
	r.classes[class]++
	if r.classes[class] == 1 && len(r.samples) < r.maxSamples && sample != nil {
		r.samples = append(r.samples, sample)
	}
}

// Evals counts additional evaluations that share the class of an enclosing case (bulk generators).
func (r *Run) Evals(n int) {
	r.mu.Lock()
	r.evals += n
	r.mu.Unlock()
}

func (r *Run) Sample(s any) {
	r.mu.Lock()
	if len(r.samples) < r.maxSamples+4 {
		r.samples = append(r.samples, s)
	}
	r.mu.Unlock()
}

func (r *Run) Count(name string, n int64) {
	r.mu.Lock()
	r.counters[name] += n
	r.mu.Unlock()
}

func (r *Run) Set(name string, v any) {
	r.mu.Lock()
	r.extra[name] = v
	r.mu.Unlock()
}

func (r *Run) Inconclusive(why string) {
	r.mu.Lock()
	r.inconclusive = append(r.inconclusive, why)
	r.mu.Unlock()
}

// IsKnown reports whether sig is listed in known_findings.txt for this property.
func (r *Run) IsKnown(sig Sig) bool {
	for _, f := range r.findings {
		if f.sig == sig.String() {
			return true
		}
	}
	return false
}

// Violation records an observed violation. If its signature is listed as a
// known finding it is reported as KNOWN-FINDING and does not fail the run.
// detail is saved as the replay witness. Returns the replay path.
func (r *Run) Violation(sig Sig, what string, detail any) string {
	r.mu.Lock()
	defer r.mu.Unlock()
	for _, f := range r.findings {
		if f.sig == sig.String() {
			r.known[f.sig]++
			if r.knownText[f.sig] == "" {
				r.knownText[f.sig] = f.text
			}
			return ""
		}
	}
	r.replaySeq++
	dir := r.replayDir()
	os.MkdirAll(dir, 0o755)
	p := filepath.Join(dir, fmt.Sprintf("%s-seed%d-%d.json", r.Tier, r.Seed, r.replaySeq))
	w := map[string]any{"property": r.ID, "signature": sig.String(), "what": what, "seed": r.Seed, "tier": r.Tier, "detail": detail}
	b, _ := json.MarshalIndent(w, "", " ")
	os.WriteFile(p, b, 0o644)
	r.violations++
	if len(r.violLines) < 20 {
		r.violLines = append(r.violLines, fmt.Sprintf("VIOLATION property=%s replay=%s", r.ID, p))
		fmt.Fprintf(os.Stderr, "violation %s sig=%s: %s\n", r.ID, sig, what)
	}
	return p
}

func (r *Run) Violations() int {
	r.mu.Lock()
	defer r.mu.Unlock()
	return r.violations
}

// Infra aborts the run because the harness itself could not work (exit 2, no verdict).
func (r *Run) Infra(format string, a ...any) {
	fmt.Fprintf(os.Stderr, "INFRASTRUCTURE FAILURE %s: %s\n", r.ID, fmt.Sprintf(format, a...))
	os.Exit(2)
}

func (r *Run) Finish() {
	r.mu.Lock()
	defer r.mu.Unlock()
	distinct := len(r.classes)
	cov := map[string]any{
		"evaluations":         r.evals,
		"distinct_nontrivial": distinct,
		"rule":                r.Rule,
		"samples":             r.samples,
		"inconclusive":        r.inconclusive,
	}
	// class histogram (bounded)
	type kv struct {
		K string
		V int
	}
	var ks []kv
	for k, v := range r.classes {
		ks = append(ks, kv{k, v})
	}
	sort.Slice(ks, func(i, j int) bool { return ks[i].K < ks[j].K })
	hist := map[string]int{}
	for i, e := range ks {
		if i >= 400 {
			break
		}
		hist[e.K] = e.V
	}
	cov["classes"] = hist
	if len(r.counters) > 0 {
		cov["observed"] = r.counters
	}
	for k, v := range r.extra {
		cov[k] = v
	}
	kf := []string{}
	for s, n := range r.known {
		kf = append(kf, fmt.Sprintf("%s x%d", s, n))
	}
	sort.Strings(kf)
	cov["known_findings_reproduced"] = kf
	if len(r.samples) == 0 {
		cov["samples"] = []any{"(no case executed)"}
	}
	ev := map[string]any{
		"property_id": r.ID,
		"tier":        r.Tier,
		"seed":        r.Seed,
		"level":       r.Level,
		"coverage":    cov,
		"assumptions": r.Assumptions,
		"wall_s":      time.Since(r.start).Seconds(),
		"violations":  r.violations,
	}
	if r.Assumptions == nil {
		ev["assumptions"] = []string{}
	}
	b, err := json.MarshalIndent(ev, "", " ")
	if err != nil {
		fmt.Fprintf(os.Stderr, "evidence marshal: %v\n", err)
		os.Exit(2)
	}
	os.MkdirAll(filepath.Dir(r.evidencePath()), 0o755)
	tmp := r.evidencePath() + ".tmp"
	if err := os.WriteFile(tmp, append(b, '\n'), 0o644); err != nil {
		fmt.Fprintf(os.Stderr, "evidence write: %v\n", err)
		os.Exit(2)
	}
	os.Rename(tmp, r.evidencePath())

	var sigs []string
	for s := range r.known {
		sigs = append(sigs, s)
	}
	sort.Strings(sigs)
	for _, s := range sigs {
		fmt.Printf("KNOWN-FINDING: property=%s sig=%s %s (reproduced %d times)\n", r.ID, s, r.knownText[s], r.known[s])
	}
	for _, l := range r.violLines {
		fmt.Println(l)
	}
	fmt.Printf("%s tier=%s seed=%d: evaluations=%d distinct_classes=%d violations=%d known=%d inconclusive=%d wall=%.1fs\n",
		r.ID, r.Tier, r.Seed, r.evals, distinct, r.violations, len(r.known), len(r.inconclusive), time.Since(r.start).Seconds())
	// deferred clean-ups of the driver do not run past os.Exit: remove the scratch root here
	if d := os.Getenv("VERIF_SBX_BASE"); d != "" && strings.Contains(filepath.Base(d), "verif-scratch-") {
		filepath.Walk(d, func(p string, fi os.FileInfo, err error) error {
			if err == nil && fi.IsDir() && fi.Mode().Perm()&0o700 != 0o700 {
				os.Chmod(p, 0o755)
			}
			return nil
		})
		os.RemoveAll(d)
	}
	if r.violations > 0 {
		os.Exit(1)
	}
	if r.evals < r.minEvals || distinct < 2 {
		fmt.Fprintf(os.Stderr, "INCONCLUSIVE %s: monitors observed too little (evaluations=%d, classes=%d)\n", r.ID, r.evals, distinct)
		os.Exit(2)
	}
	os.Exit(0)
}
