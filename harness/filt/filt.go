// Package filt: helpers shared by the filter drivers (C01, C08, C14): chunked
// pipe feeding of one-shot filters, content classes, the reversible test
// extension, pointer/object oracles.
package filt

import (
	"bytes"
	"fmt"
	"io"
	"math/rand"
	"os"
	"os/exec"
	"path/filepath"
	"strings"
	"syscall"
	"time"

	"golang.org/x/sys/unix"

	"verif/harness/ptrspec"
	"verif/harness/sbx"
)

// ChunkPlan describes how bytes are written to a pipe: sizes are cycled.
type ChunkPlan struct {
	Name  string
	Sizes []int // nil = one write of everything
}

func Plans(r *rand.Rand, n int) []ChunkPlan {
	ps := []ChunkPlan{{"whole", nil}, {"c7", []int{7}}, {"c512", []int{512}}, {"c1023", []int{1023}}, {"c1024", []int{1024}}, {"c1025", []int{1025}}, {"c4096", []int{4096}}}
	if n <= 3000 {
		ps = append(ps, ChunkPlan{"c1", []int{1}})
	}
	rs := make([]int, 5)
	for i := range rs {
		rs[i] = 1 + r.Intn(3000)
	}
	ps = append(ps, ChunkPlan{"crand", rs})
	return ps
}

// Split cuts b according to the plan.
func (p ChunkPlan) Split(b []byte) [][]byte {
	if p.Sizes == nil || len(b) == 0 {
		return [][]byte{b}
	}
	var out [][]byte
	i := 0
	for len(b) > 0 {
		k := p.Sizes[i%len(p.Sizes)]
		i++
		if k > len(b) {
			k = len(b)
		}
		out = append(out, b[:k])
		b = b[k:]
	}
	return out
}

// RunChunked runs name args... in dir, writing chunks to its stdin with one
// write(2) per chunk and a short pause after each of the first pauses chunks,
// so that short reads really happen in the child.
func RunChunked(env *sbx.Env, dir string, chunks [][]byte, pauses int, extraEnv []string, name string, args ...string) sbx.Result {
	bin := name
	if !strings.Contains(name, "/") {
		bin = env.LookPath(name)
	}
	cmd := exec.Command(bin, args...)
	cmd.Dir = dir
	cmd.Env = append(env.Environ(), extraEnv...)
	var so, se bytes.Buffer
	cmd.Stdout, cmd.Stderr = &so, &se
	pr, pw, err := os.Pipe()
	if err != nil {
		return sbx.Result{Code: -2, Err: err}
	}
	cmd.Stdin = pr
	cmd.SysProcAttr = &syscall.SysProcAttr{Setpgid: true}
	if err := cmd.Start(); err != nil {
		pr.Close()
		pw.Close()
		return sbx.Result{Code: -2, Err: err}
	}
	pr.Close()
	go func() {
		defer pw.Close()
		for i, c := range chunks {
			if len(c) > 0 {
				if _, err := pw.Write(c); err != nil {
					return
				}
			}
			if i < pauses {
				// wait until the child has consumed what is in the pipe, so that its
				// next read really is a separate, short read (bounded wait: the child
				// may legitimately stop reading)
				for w := 0; w < 4000; w++ {
					n, err := unix.IoctlGetInt(int(pw.Fd()), unix.TIOCINQ)
					if err != nil || n == 0 {
						break
					}
					time.Sleep(500 * time.Microsecond)
				}
				time.Sleep(300 * time.Microsecond)
			}
		}
	}()
	done := make(chan error, 1)
	go func() { done <- cmd.Wait() }()
	res := sbx.Result{Args: append([]string{name}, args...), Dir: dir}
	select {
	case err = <-done:
	case <-time.After(5 * time.Minute):
		syscall.Kill(-cmd.Process.Pid, syscall.SIGKILL)
		err = <-done
		res.TimedOut = true
	}
	res.Stdout, res.Stderr, res.Err = so.Bytes(), se.Bytes(), err
	if err != nil {
		if ee, ok := err.(*exec.ExitError); ok {
			res.Code = ee.ExitCode()
		} else {
			res.Code = -2
		}
	}
	return res
}

// Content classes.
func Content(r *rand.Rand, class string, n int) []byte {
	b := make([]byte, n)
	switch class {
	case "random":
		r.Read(b)
	case "zero":
	case "textlf", "textcrlf":
		var sb bytes.Buffer
		i := 0
		for sb.Len() < n {
			fmt.Fprintf(&sb, "line %d of generated text %d", i, r.Intn(100000))
			if class == "textcrlf" {
				sb.WriteString("\r\n")
			} else {
				sb.WriteString("\n")
			}
			i++
		}
		copy(b, sb.Bytes()[:n])
	case "whitespace": // white space only (spaces, tabs, CR, LF) - still content, not an empty file
		for i := range b {
			b[i] = " \n\t\r\n\n  "[r.Intn(8)]
		}
	case "ptrprefix": // a canonical pointer text followed by payload
		p := ptrspec.Canonical(ptrspec.Pointer{Oid: strings.Repeat("ab", 32), Size: 12345})
		r.Read(b)
		copy(b, p)
	case "lookalike": // starts like a pointer but is not one
		r.Read(b)
		copy(b, "version https://git-lfs.github.com/spec/v1\noid sha256:zzzz\n")
	default:
		if strings.HasPrefix(class, "ptrmalformed:") {
			return []byte(MalformedPointer(strings.TrimPrefix(class, "ptrmalformed:")))
		}
		panic("unknown content class " + class)
	}
	return b
}

// MalformedKinds: complete texts of pointer shape that no reading of docs/spec.md makes a pointer (and that
// ptrspec rejects). To the clean filter they are content like any other: hashed and stored in full.
var MalformedKinds = []string{"size-minus-1", "size-negative", "oid-63-hex", "oid-65-hex", "oid-uppercase", "oid-not-hex", "oid-md5", "version-unknown", "version-missing", "size-missing", "size-empty", "size-overflow", "size-hex", "size-float"}

// MalformedPointer returns the text of one kind (content class "ptrmalformed:<kind>", size argument ignored).
func MalformedPointer(kind string) string {
	v := "version https://git-lfs.github.com/spec/v1\n"
	o := strings.Repeat("ab", 32)
	switch kind {
	case "size-minus-1":
		return v + "oid sha256:" + o + "\nsize -1\n"
	case "size-negative":
		return v + "oid sha256:" + o + "\nsize -12345\n"
	case "oid-63-hex":
		return v + "oid sha256:" + o[1:] + "\nsize 5\n"
	case "oid-65-hex":
		return v + "oid sha256:" + o + "a\nsize 5\n"
	case "oid-uppercase":
		return v + "oid sha256:" + strings.ToUpper(o) + "\nsize 5\n"
	case "oid-not-hex":
		return v + "oid sha256:" + o[2:] + "zz\nsize 5\n"
	case "oid-md5":
		return v + "oid md5:" + o + "\nsize 5\n"
	case "version-unknown":
		return "version https://example.com/spec/v9\noid sha256:" + o + "\nsize 5\n"
	case "version-missing":
		return "oid sha256:" + o + "\nsize 5\n"
	case "size-missing":
		return v + "oid sha256:" + o + "\n"
	case "size-empty":
		return v + "oid sha256:" + o + "\nsize \n"
	case "size-overflow":
		return v + "oid sha256:" + o + "\nsize 9223372036854775808\n"
	case "size-hex":
		return v + "oid sha256:" + o + "\nsize 0x10\n"
	case "size-float":
		return v + "oid sha256:" + o + "\nsize 5.0\n"
	case "size-twice":
		return v + "oid sha256:" + o + "\nsize 5\nsize 6\n"
	case "size-before-oid":
		return v + "size 5\noid sha256:" + o + "\n"
	case "tab-separator":
		return v + "oid\tsha256:" + o + "\nsize 5\n"
	}
	panic("unknown malformed pointer kind " + kind)
}

// PtrPrefixLen is the length of the pointer text that content class "ptrprefix" starts with.
func PtrPrefixLen() int {
	return len(ptrspec.Canonical(ptrspec.Pointer{Oid: strings.Repeat("ab", 32), Size: 12345}))
}

// InstallExt writes the reversible test extension (byte+1 / byte-1 via tr) and returns config pairs.
func InstallExt(env *sbx.Env) [][2]string {
	p := filepath.Join(env.Root, "verif-ext")
	script := "#!/bin/sh\nif [ \"$1\" = clean ]; then exec tr '\\000-\\377' '\\001-\\377\\000'; else exec tr '\\001-\\377\\000' '\\000-\\377'; fi\n"
	os.WriteFile(p, []byte(script), 0o755)
	return [][2]string{{"lfs.extension.vx.clean", p + " clean %f"}, {"lfs.extension.vx.smudge", p + " smudge %f"}, {"lfs.extension.vx.priority", "0"}}
}

// InstallFaultyExt installs the same reversible extension, except that one side misbehaves:
//
//	clean-partial:   the clean side consumes its input, emits only the first 100 transformed bytes, exits 3
//	clean-nooutput:  the clean side consumes its input, emits nothing, exits 1
//	clean-full-exit: the clean side emits the complete transformed output and then exits 1
//	smudge-partial:  the smudge side emits only the first 100 bytes, exits 3
//	smudge-nooutput: the smudge side emits nothing, exits 1
//	smudge-identity: the smudge side copies its input (does not invert the clean transform), exits 0
func InstallFaultyExt(env *sbx.Env, kind string) [][2]string {
	p := filepath.Join(env.Root, "verif-ext-faulty")
	cl := "exec tr '\\000-\\377' '\\001-\\377\\000'"
	sm := "exec tr '\\001-\\377\\000' '\\000-\\377'"
	switch kind {
	case "clean-partial":
		cl = "tr '\\000-\\377' '\\001-\\377\\000' | { head -c 100; cat >/dev/null; }; exit 3"
	case "clean-nooutput":
		cl = "cat >/dev/null; exit 1"
	case "clean-full-exit":
		cl = "tr '\\000-\\377' '\\001-\\377\\000'; exit 1"
	case "smudge-partial":
		sm = "tr '\\001-\\377\\000' '\\000-\\377' | { head -c 100; cat >/dev/null; }; exit 3"
	case "smudge-nooutput":
		sm = "cat >/dev/null; exit 1"
	case "smudge-identity":
		sm = "exec cat"
	}
	script := "#!/bin/sh\nif [ \"$1\" = clean ]; then " + cl + "; else " + sm + "; fi\n"
	os.WriteFile(p, []byte(script), 0o755)
	return [][2]string{{"lfs.extension.vx.clean", p + " clean %f"}, {"lfs.extension.vx.smudge", p + " smudge %f"}, {"lfs.extension.vx.priority", "0"}}
}

// ExtTransform is what the test extension's clean side does.
func ExtTransform(b []byte) []byte {
	out := make([]byte, len(b))
	for i, c := range b {
		out[i] = c + 1
	}
	return out
}

// ReadObject returns the stored object's bytes.
func ReadObject(gitDir, oid string) ([]byte, error) {
	f, err := os.Open(sbx.ObjectPath(gitDir, oid))
	if err != nil {
		return nil, err
	}
	defer f.Close()
	return io.ReadAll(f)
}

// CountObjects counts files under lfs/objects.
func CountObjects(gitDir string) int {
	n := 0
	filepath.Walk(filepath.Join(gitDir, "lfs", "objects"), func(p string, fi os.FileInfo, err error) error {
		if err == nil && !fi.IsDir() {
			n++
		}
		return nil
	})
	return n
}

// CheckClean judges a clean result for non-pointer input b. Returns (pointer, symptom, what).
func CheckClean(gitDir string, b, out []byte, ext bool) (ptrspec.Pointer, string, string) {
	if len(b) == 0 {
		if len(out) != 0 {
			return ptrspec.Pointer{}, "empty-not-empty", fmt.Sprintf("empty input cleaned to %d bytes: %q", len(out), sbx.Trunc(out, 200))
		}
		return ptrspec.Pointer{Oid: ptrspec.EmptyOid}, "", ""
	}
	p, ok := ptrspec.ParseCanonical(out)
	if !ok {
		return p, "pointer-not-canonical", fmt.Sprintf("clean output is not a canonical pointer: %q", sbx.Trunc(out, 400))
	}
	want := b
	if ext {
		want = ExtTransform(b)
		if len(p.Exts) != 1 || p.Exts[0].Name != "vx" || p.Exts[0].Priority != 0 || p.Exts[0].Oid != sbx.Sha256Hex(b) {
			return p, "pointer-extension-line-wrong", fmt.Sprintf("extension lines %+v, want ext-0-vx sha256:%s", p.Exts, sbx.Sha256Hex(b))
		}
	} else if len(p.Exts) != 0 {
		return p, "pointer-extension-line-wrong", fmt.Sprintf("unexpected extension lines %+v", p.Exts)
	}
	stored, err := ReadObject(gitDir, p.Oid)
	if err != nil {
		return p, "stored-object-missing", fmt.Sprintf("pointer names %s but no such object is stored: %v", p.Oid, err)
	}
	if sha := sbx.Sha256Hex(stored); sha != p.Oid || int64(len(stored)) != p.Size {
		return p, "pointer-does-not-name-stored-bytes", fmt.Sprintf("pointer oid %s size %d, stored object hashes to %s size %d", p.Oid, p.Size, sha, len(stored))
	}
	if !bytes.Equal(stored, want) {
		return p, "stored-object-differs-from-input", fmt.Sprintf("input %d bytes (sha %s), stored %d bytes (sha %s)", len(want), sbx.Sha256Hex(want), len(stored), sbx.Sha256Hex(stored))
	}
	return p, "", ""
}

func SizeClass(n int) string {
	switch {
	case n == 0:
		return "s0"
	case n < 1023:
		return "s<1023"
	case n <= 1025:
		return fmt.Sprintf("s%d", n)
	case n < 65515:
		return "s<65515"
	case n <= 65517:
		return fmt.Sprintf("s%d", n)
	case n < 1<<20:
		return "s<1M"
	default:
		return "s>=1M"
	}
}
