// Package histgen: seeded generator of repository histories with LFS content,
// executed with real git + the git-lfs filters, and a brute-force reference
// model that never uses git-lfs (plain git plumbing + ptrspec).
package histgen

import (
	"bytes"
	"fmt"
	"math/rand"
	"os"
	"path/filepath"
	"sort"
	"strings"
	"time"

	"verif/harness/ptrspec"
	"verif/harness/sbx"
)

type Options struct {
	Commits      int  // approximate number of commits (default 12)
	Merges       bool // allow merges / octopus / orphan branches
	Tags         bool
	TrackToggles bool // files moving in and out of LFS tracking, nested .gitattributes
	Symlinks     bool
	ExecBits     bool
	EmptyFiles   bool
	Dates        []time.Duration // commit ages to draw from (relative to Now); nil = fixed increasing dates
	Now          time.Time
	MaxFileSize  int // default 3000
	AttrLine     string // attribute line suffix for tracked patterns (default "filter=lfs diff=lfs merge=lfs -text")
	TwoLFSPerCommit bool // make sure commits touch >= 2 LFS files where possible
}

type Repo struct {
	Env      *sbx.Env
	Dir      string
	GitDir   string
	Contents map[string][]byte // oid -> original bytes of every LFS object the generator created
	Log      []string          // human readable operation log
	Branches []string
	r        *rand.Rand
	opt      Options
	pool     [][]byte
	tick     int
	base     time.Time
}

func (g *Repo) logf(f string, a ...any) { g.Log = append(g.Log, fmt.Sprintf(f, a...)) }

// New generates a repository in env under name.
func New(env *sbx.Env, name string, seed int64, opt Options) *Repo {
	if opt.Commits == 0 {
		opt.Commits = 12
	}
	if opt.MaxFileSize == 0 {
		opt.MaxFileSize = 3000
	}
	if opt.AttrLine == "" {
		opt.AttrLine = "filter=lfs diff=lfs merge=lfs -text"
	}
	if opt.Now.IsZero() {
		opt.Now = time.Now()
	}
	g := &Repo{Env: env, Contents: map[string][]byte{}, r: rand.New(rand.NewSource(seed)), opt: opt}
	g.Dir = env.InitRepo(name)
	g.GitDir = filepath.Join(g.Dir, ".git")
	g.base = time.Date(2024, 1, 1, 12, 0, 0, 0, time.UTC)
	// content pool: small so that oids repeat
	for i := 0; i < 10; i++ {
		n := 1 + g.r.Intn(opt.MaxFileSize)
		if i%4 == 0 {
			n = 1 + g.r.Intn(200)
		}
		if i == 5 {
			n = 1024 + g.r.Intn(3)
		}
		b := make([]byte, n)
		g.r.Read(b)
		if i%3 == 0 { // texty
			for j := range b {
				b[j] = "abcdefghij klmnop\nqrstuvwxyz"[int(b[j])%28]
			}
		}
		g.pool = append(g.pool, b)
	}
	g.write(".gitattributes", []byte("*.bin "+opt.AttrLine+"\n"))
	g.build()
	return g
}

func (g *Repo) write(rel string, b []byte) {
	p := filepath.Join(g.Dir, rel)
	os.MkdirAll(filepath.Dir(p), 0o755)
	os.Remove(p)
	if err := os.WriteFile(p, b, 0o644); err != nil {
		panic(err)
	}
}

func (g *Repo) content() []byte {
	if g.opt.EmptyFiles && g.r.Intn(12) == 0 {
		return []byte{}
	}
	if g.r.Intn(3) == 0 { // fresh content
		n := 1 + g.r.Intn(g.opt.MaxFileSize)
		b := make([]byte, n)
		g.r.Read(b)
		return b
	}
	return g.pool[g.r.Intn(len(g.pool))]
}

var dirs = []string{"", "", "a/", "a/b/", "c d/", "é/"}
var lfsNames = []string{"f1.bin", "f2.bin", "f3.bin", "big.bin", "x y.bin", "z#1.bin"}
var plainNames = []string{"readme.txt", "notes.md", "src.c"}
var toggleNames = []string{"t1.dat", "t2.dat"}

func (g *Repo) commit(msg string) {
	g.tick++
	var when time.Time
	if len(g.opt.Dates) > 0 {
		when = g.opt.Now.Add(-g.opt.Dates[g.r.Intn(len(g.opt.Dates))])
	} else {
		when = g.base.Add(time.Duration(g.tick) * time.Hour)
	}
	d := when.Format(time.RFC3339)
	g.Env.MustGit(g.Dir, "add", "-A")
	res := g.Env.Run(sbx.RunOpt{Dir: g.Dir, Env: []string{"GIT_AUTHOR_DATE=" + d, "GIT_COMMITTER_DATE=" + d}}, "git", "commit", "-q", "--allow-empty", "-m", msg)
	if !res.OK() {
		panic("histgen commit failed: " + res.String())
	}
	g.logf("commit %q at %s", msg, d)
}

func (g *Repo) lsFiles() []string {
	out := g.Env.MustGit(g.Dir, "ls-files", "-z")
	var fs []string
	for _, f := range strings.Split(out, "\x00") {
		if f != "" && !strings.HasSuffix(f, ".gitattributes") {
			fs = append(fs, f)
		}
	}
	return fs
}

func (g *Repo) step() {
	files := g.lsFiles()
	k := g.r.Intn(100)
	switch {
	case k < 45 || len(files) == 0: // add / modify an LFS file
		n := 1
		if g.opt.TwoLFSPerCommit {
			n = 2 + g.r.Intn(2)
		}
		for i := 0; i < n; i++ {
			p := dirs[g.r.Intn(len(dirs))] + lfsNames[g.r.Intn(len(lfsNames))]
			g.write(p, g.content())
			if g.opt.ExecBits && g.r.Intn(6) == 0 {
				os.Chmod(filepath.Join(g.Dir, p), 0o755)
			}
			g.logf("write %s", p)
		}
	case k < 55: // plain file
		p := dirs[g.r.Intn(len(dirs))] + plainNames[g.r.Intn(len(plainNames))]
		g.write(p, []byte(fmt.Sprintf("plain text %d\n", g.r.Intn(1000))))
		g.logf("write plain %s", p)
	case k < 63: // delete
		p := files[g.r.Intn(len(files))]
		os.Remove(filepath.Join(g.Dir, p))
		g.logf("delete %s", p)
	case k < 71: // rename
		p := files[g.r.Intn(len(files))]
		q := dirs[g.r.Intn(len(dirs))] + fmt.Sprintf("moved%d", g.r.Intn(5)) + filepath.Ext(p)
		os.MkdirAll(filepath.Dir(filepath.Join(g.Dir, q)), 0o755)
		os.Rename(filepath.Join(g.Dir, p), filepath.Join(g.Dir, q))
		g.logf("rename %s -> %s", p, q)
	case k < 78: // duplicate
		p := files[g.r.Intn(len(files))]
		if fi, err := os.Lstat(filepath.Join(g.Dir, p)); err == nil && fi.Mode().IsRegular() {
			b, _ := os.ReadFile(filepath.Join(g.Dir, p))
			q := dirs[g.r.Intn(len(dirs))] + fmt.Sprintf("copy%d", g.r.Intn(5)) + filepath.Ext(p)
			g.write(q, b)
			g.logf("copy %s -> %s", p, q)
		}
	case k < 88 && g.opt.TrackToggles: // toggle tracking of *.dat, or a nested .gitattributes
		p := dirs[g.r.Intn(len(dirs))] + toggleNames[g.r.Intn(len(toggleNames))]
		g.write(p, g.content())
		attr := filepath.Join(g.Dir, ".gitattributes")
		if g.r.Intn(3) == 0 {
			attr = filepath.Join(g.Dir, "a", ".gitattributes")
			os.MkdirAll(filepath.Dir(attr), 0o755)
		}
		cur, _ := os.ReadFile(attr)
		line := "*.dat " + g.opt.AttrLine + "\n"
		if bytes.Contains(cur, []byte(line)) {
			cur = bytes.Replace(cur, []byte(line), nil, 1)
			g.logf("untrack *.dat in %s; write %s", attr, p)
		} else {
			cur = append(cur, []byte(line)...)
			g.logf("track *.dat in %s; write %s", attr, p)
		}
		os.WriteFile(attr, cur, 0o644)
		// renormalise so that the index matches the new attributes
		g.Env.Git(g.Dir, "add", "--renormalize", ".")
	case k < 92 && g.opt.Symlinks:
		p := fmt.Sprintf("link%d", g.r.Intn(3))
		os.Remove(filepath.Join(g.Dir, p))
		os.Symlink("f1.bin", filepath.Join(g.Dir, p))
		g.logf("symlink %s", p)
	default:
		p := lfsNames[g.r.Intn(len(lfsNames))]
		g.write(p, g.content())
		g.logf("write %s", p)
	}
}

func (g *Repo) build() {
	g.Branches = []string{"main"}
	g.step()
	g.commit("c0")
	for i := 1; i < g.opt.Commits; i++ {
		k := g.r.Intn(100)
		switch {
		case g.opt.Merges && k < 12 && len(g.Branches) < 5: // new branch
			b := fmt.Sprintf("br%d", len(g.Branches))
			g.Env.MustGit(g.Dir, "checkout", "-q", "-b", b)
			g.Branches = append(g.Branches, b)
			g.logf("branch %s", b)
			g.step()
			g.commit(fmt.Sprintf("c%d on %s", i, b))
		case g.opt.Merges && k < 22 && len(g.Branches) > 1: // switch
			b := g.Branches[g.r.Intn(len(g.Branches))]
			g.Env.MustGit(g.Dir, "checkout", "-q", b)
			g.logf("switch %s", b)
			g.step()
			g.commit(fmt.Sprintf("c%d on %s", i, b))
		case g.opt.Merges && k < 32 && len(g.Branches) > 1: // merge (ours strategy option avoids conflicts in content)
			cur := strings.TrimSpace(g.Env.MustGit(g.Dir, "rev-parse", "--abbrev-ref", "HEAD"))
			var others []string
			for _, b := range g.Branches {
				if b != cur && b != "HEAD" {
					others = append(others, b)
				}
			}
			if len(others) == 0 || cur == "HEAD" {
				g.step()
				g.commit(fmt.Sprintf("c%d", i))
				break
			}
			n := 1
			if len(others) > 1 && g.r.Intn(3) == 0 {
				n = 2
			}
			g.r.Shuffle(len(others), func(a, b int) { others[a], others[b] = others[b], others[a] })
			args := []string{"merge", "-q", "--no-edit", "-m", fmt.Sprintf("merge %d", i)}
			if n == 1 {
				args = append(args, "-X", "ours")
			}
			args = append(args, others[:n]...)
			g.tick++
			d := g.base.Add(time.Duration(g.tick) * time.Hour).Format(time.RFC3339)
			if len(g.opt.Dates) > 0 {
				d = g.opt.Now.Add(-g.opt.Dates[g.r.Intn(len(g.opt.Dates))]).Format(time.RFC3339)
			}
			res := g.Env.Run(sbx.RunOpt{Dir: g.Dir, Env: []string{"GIT_AUTHOR_DATE=" + d, "GIT_COMMITTER_DATE=" + d}}, "git", args...)
			if !res.OK() {
				g.Env.Git(g.Dir, "merge", "--abort")
				g.Env.Git(g.Dir, "reset", "-q", "--hard")
				g.logf("merge of %v failed, aborted", others[:n])
			} else {
				g.logf("merge %v into %s", others[:n], cur)
			}
		case g.opt.Merges && k < 36 && len(g.Branches) < 5: // orphan branch
			b := fmt.Sprintf("orphan%d", len(g.Branches))
			g.Env.MustGit(g.Dir, "checkout", "-q", "--orphan", b)
			g.Env.Git(g.Dir, "rm", "-rfq", "--cached", ".")
			g.Env.Git(g.Dir, "clean", "-fdxq")
			g.write(".gitattributes", []byte("*.bin "+g.opt.AttrLine+"\n"))
			g.Branches = append(g.Branches, b)
			g.logf("orphan %s", b)
			g.step()
			g.commit(fmt.Sprintf("c%d orphan", i))
		case g.opt.Tags && k < 44:
			t := fmt.Sprintf("tag%d", i)
			if g.r.Intn(2) == 0 {
				g.Env.MustGit(g.Dir, "tag", t)
			} else {
				g.Env.MustGit(g.Dir, "tag", "-a", "-m", "annotated "+t, t)
			}
			g.logf("tag %s", t)
			g.step()
			g.commit(fmt.Sprintf("c%d", i))
		default:
			g.step()
			g.commit(fmt.Sprintf("c%d", i))
		}
	}
	g.IndexContents()
}

// IndexContents records the original bytes of every local LFS object (they
// were produced by the clean filter from bytes the generator wrote; the hash
// is verified here by the harness itself).
func (g *Repo) IndexContents() {
	root := filepath.Join(g.GitDir, "lfs", "objects")
	filepath.Walk(root, func(p string, fi os.FileInfo, err error) error {
		if err != nil || fi.IsDir() {
			return nil
		}
		b, err := os.ReadFile(p)
		if err != nil {
			return nil
		}
		oid := sbx.Sha256Hex(b)
		if oid == filepath.Base(p) {
			g.Contents[oid] = b
		}
		return nil
	})
}

// ---------- reference model (no git-lfs involved) ----------

type Entry struct {
	Mode string
	Type string
	Sha  string
	Path string
}

// LsTree lists every entry of rev's tree (recursive).
func LsTree(env *sbx.Env, dir, rev string) []Entry {
	res := env.PlainGit(dir, "ls-tree", "-r", "-z", rev)
	if !res.OK() {
		panic("ls-tree failed: " + res.String())
	}
	var out []Entry
	for _, rec := range strings.Split(string(res.Stdout), "\x00") {
		if rec == "" {
			continue
		}
		tab := strings.IndexByte(rec, '\t')
		f := strings.Fields(rec[:tab])
		out = append(out, Entry{Mode: f[0], Type: f[1], Sha: f[2], Path: rec[tab+1:]})
	}
	return out
}

// Blob returns the content of a blob.
func Blob(env *sbx.Env, dir, sha string) []byte {
	res := env.PlainGit(dir, "cat-file", "blob", sha)
	if !res.OK() {
		panic("cat-file failed: " + res.String())
	}
	return res.Stdout
}

// BlobSizes returns sizes for many blobs in one call.
func BlobSizes(env *sbx.Env, dir string, shas []string) map[string]int64 {
	in := strings.Join(shas, "\n") + "\n"
	res := env.Run(sbx.RunOpt{Dir: dir, Stdin: strings.NewReader(in)}, "git", "cat-file", "--batch-check")
	out := map[string]int64{}
	for _, l := range strings.Split(string(res.Stdout), "\n") {
		f := strings.Fields(l)
		if len(f) == 3 && f[1] == "blob" {
			var n int64
			fmt.Sscan(f[2], &n)
			out[f[0]] = n
		}
	}
	return out
}

type PointerRef struct {
	Path string
	Mode string
	Blob string
	Ptr  ptrspec.Pointer
}

// blobCache: pointer parse per blob sha (per repo dir).
type Model struct {
	Env   *sbx.Env
	Dir   string
	cache map[string]*ptrspec.Pointer // blob sha -> pointer or nil
}

func NewModel(env *sbx.Env, dir string) *Model {
	return &Model{Env: env, Dir: dir, cache: map[string]*ptrspec.Pointer{}}
}

// PointersAt returns every canonical, non-empty LFS pointer in rev's full tree.
func (m *Model) PointersAt(rev string) []PointerRef {
	ents := LsTree(m.Env, m.Dir, rev)
	var unknown []string
	for _, e := range ents {
		if e.Type == "blob" && e.Mode != "120000" {
			if _, ok := m.cache[e.Sha]; !ok {
				unknown = append(unknown, e.Sha)
			}
		}
	}
	if len(unknown) > 0 {
		sizes := BlobSizes(m.Env, m.Dir, unknown)
		for _, sha := range unknown {
			if n, ok := sizes[sha]; ok && n < 1024 && n > 0 {
				b := Blob(m.Env, m.Dir, sha)
				if p, ok := ptrspec.ParseCanonical(b); ok && p.Size > 0 {
					pp := p
					m.cache[sha] = &pp
					continue
				}
			}
			m.cache[sha] = nil
		}
	}
	var out []PointerRef
	for _, e := range ents {
		if p := m.cache[e.Sha]; p != nil && e.Type == "blob" && e.Mode != "120000" {
			out = append(out, PointerRef{Path: e.Path, Mode: e.Mode, Blob: e.Sha, Ptr: *p})
		}
	}
	return out
}

// RevList runs git rev-list with args.
func (m *Model) RevList(args ...string) []string {
	res := m.Env.PlainGit(m.Dir, append([]string{"rev-list"}, args...)...)
	if !res.OK() {
		panic("rev-list failed: " + res.String())
	}
	return strings.Fields(string(res.Stdout))
}

// OidsInCommits: every LFS oid referenced by any tree of the given commits (brute force).
func (m *Model) OidsInCommits(commits []string) map[string]int64 {
	out := map[string]int64{}
	for _, c := range commits {
		for _, p := range m.PointersAt(c) {
			out[p.Ptr.Oid] = p.Ptr.Size
		}
	}
	return out
}

// Refs returns refname -> sha for the repository.
func (m *Model) Refs() map[string]string {
	res := m.Env.PlainGit(m.Dir, "for-each-ref", "--format=%(refname) %(objectname)")
	out := map[string]string{}
	for _, l := range strings.Split(string(res.Stdout), "\n") {
		f := strings.Fields(l)
		if len(f) == 2 {
			out[f[0]] = f[1]
		}
	}
	return out
}

func SortedKeys[V any](m map[string]V) []string {
	var ks []string
	for k := range m {
		ks = append(ks, k)
	}
	sort.Strings(ks)
	return ks
}
