// Package fpclient: the Git side of the long-running filter protocol
// (gitattributes(5), "Long Running Filter Process"), written independently of
// git-lfs: own pkt-line codec, handshake, arbitrary packetisation of payloads,
// delay protocol, and a grammar check of everything the filter answers.
package fpclient

import (
	"bufio"
	"bytes"
	"fmt"
	"io"
	"os/exec"
	"strings"
	"sync"
	"syscall"
	"time"

	"verif/harness/sbx"
)

const MaxData = 65516

type Client struct {
	cmd    *exec.Cmd
	in     io.WriteCloser
	out    *bufio.Reader
	stderr bytes.Buffer
	Caps   []string // capabilities the filter agreed to
	mu     sync.Mutex
	done   chan struct{}
	waitErr error
	// Timeout for one answer; a fired watchdog sets Resp.TimedOut.
	Timeout time.Duration
	RawLog  bytes.Buffer // everything the filter wrote (for witnesses), bounded
}

type Resp struct {
	Status1  string // first status ("success", "delayed", "error", "abort")
	Content  []byte
	Status2  string // trailing status ("" = unchanged)
	Paths    []string // list_available_blobs
	ProtoErr string   // non-empty: the answer violated the protocol grammar
	EOF      bool     // the filter closed its output in the middle of / before the answer
	TimedOut bool
}

func (r Resp) OK() bool {
	return r.ProtoErr == "" && !r.EOF && !r.TimedOut && r.Status1 == "success" && (r.Status2 == "" || r.Status2 == "success")
}

// Start launches `git-lfs filter-process` in dir and performs the handshake.
func Start(env *sbx.Env, dir string, caps []string, extraEnv []string, args ...string) (*Client, error) {
	bin := env.LookPath("git-lfs")
	c := &Client{Timeout: 5 * time.Minute, done: make(chan struct{})}
	c.cmd = exec.Command(bin, append([]string{"filter-process"}, args...)...)
	c.cmd.Dir = dir
	c.cmd.Env = append(env.Environ(), extraEnv...)
	c.cmd.Stderr = &c.stderr
	c.cmd.SysProcAttr = &syscall.SysProcAttr{Setpgid: true}
	var err error
	if c.in, err = c.cmd.StdinPipe(); err != nil {
		return nil, err
	}
	op, err := c.cmd.StdoutPipe()
	if err != nil {
		return nil, err
	}
	c.out = bufio.NewReaderSize(op, 1<<16)
	if err := c.cmd.Start(); err != nil {
		return nil, err
	}
	go func() { c.waitErr = c.cmd.Wait(); close(c.done) }()
	c.writeText("git-filter-client")
	c.writeText("version=2")
	c.flush()
	lines, perr, eof := c.readTextList()
	if eof || perr != "" {
		return c, fmt.Errorf("handshake: eof=%v %s", eof, perr)
	}
	if len(lines) != 2 || lines[0] != "git-filter-server" || lines[1] != "version=2" {
		return c, fmt.Errorf("handshake: unexpected welcome %q", lines)
	}
	for _, cp := range caps {
		c.writeText("capability=" + cp)
	}
	c.flush()
	lines, perr, eof = c.readTextList()
	if eof || perr != "" {
		return c, fmt.Errorf("capabilities: eof=%v %s", eof, perr)
	}
	for _, l := range lines {
		if !strings.HasPrefix(l, "capability=") {
			return c, fmt.Errorf("capabilities: unexpected line %q", l)
		}
		c.Caps = append(c.Caps, strings.TrimPrefix(l, "capability="))
	}
	return c, nil
}

func (c *Client) writePkt(b []byte) error {
	_, err := fmt.Fprintf(c.in, "%04x", len(b)+4)
	if err != nil {
		return err
	}
	_, err = c.in.Write(b)
	return err
}
func (c *Client) writeText(s string) error { return c.writePkt([]byte(s + "\n")) }
func (c *Client) flush() error {
	_, err := io.WriteString(c.in, "0000")
	return err
}

// readPkt returns (data, isFlush, err).
func (c *Client) readPkt() ([]byte, bool, error) {
	var hdr [4]byte
	if _, err := io.ReadFull(c.out, hdr[:]); err != nil {
		return nil, false, err
	}
	if c.RawLog.Len() < 1<<16 {
		c.RawLog.Write(hdr[:])
	}
	var n int
	if _, err := fmt.Sscanf(string(hdr[:]), "%04x", &n); err != nil {
		return nil, false, fmt.Errorf("bad pkt-line length %q", hdr[:])
	}
	if n == 0 {
		return nil, true, nil
	}
	if n < 4 || n > MaxData+4 {
		return nil, false, fmt.Errorf("bad pkt-line length %d", n)
	}
	b := make([]byte, n-4)
	if _, err := io.ReadFull(c.out, b); err != nil {
		return nil, false, err
	}
	if c.RawLog.Len() < 1<<16 {
		c.RawLog.Write(b[:min(len(b), 200)])
	}
	return b, false, nil
}

// readTextList reads text packets until a flush.
func (c *Client) readTextList() (lines []string, protoErr string, eof bool) {
	for {
		b, fl, err := c.readPkt()
		if err != nil {
			if err == io.EOF || err == io.ErrUnexpectedEOF || strings.Contains(err.Error(), "closed") {
				return lines, "", true
			}
			return lines, err.Error(), false
		}
		if fl {
			return lines, "", false
		}
		if len(b) == 0 || b[len(b)-1] != '\n' {
			return lines, fmt.Sprintf("text packet without trailing LF: %q", sbx.Trunc(b, 80)), false
		}
		lines = append(lines, string(b[:len(b)-1]))
	}
}

func (c *Client) readContent() (content []byte, protoErr string, eof bool) {
	for {
		b, fl, err := c.readPkt()
		if err != nil {
			if err == io.EOF || err == io.ErrUnexpectedEOF || strings.Contains(err.Error(), "closed") {
				return content, "", true
			}
			return content, err.Error(), false
		}
		if fl {
			return content, "", false
		}
		if len(b) == 0 {
			return content, "empty non-flush content packet (length 0004)", false
		}
		content = append(content, b...)
	}
}

func statusOf(lines []string) (string, string) {
	st := ""
	for _, l := range lines {
		if strings.HasPrefix(l, "status=") {
			if st != "" {
				return st, "more than one status line in one list"
			}
			st = strings.TrimPrefix(l, "status=")
		} else if !strings.Contains(l, "=") {
			return st, fmt.Sprintf("malformed key=value line %q in status list", l)
		}
	}
	return st, ""
}

var validStatus = map[string]bool{"success": true, "delayed": true, "error": true, "abort": true}

// Packetizer splits a payload into packets (each 1..MaxData bytes).
type Packetizer func(payload []byte) [][]byte

func Whole(p []byte) [][]byte { return Fixed(MaxData)(p) }
func Fixed(n int) Packetizer {
	return func(p []byte) [][]byte {
		var out [][]byte
		for len(p) > 0 {
			k := n
			if k > len(p) {
				k = len(p)
			}
			out = append(out, p[:k])
			p = p[k:]
		}
		return out
	}
}

// Sizes cycles through the given sizes.
func Sizes(sizes ...int) Packetizer {
	return func(p []byte) [][]byte {
		var out [][]byte
		i := 0
		for len(p) > 0 {
			k := sizes[i%len(sizes)]
			i++
			if k < 1 {
				k = 1
			}
			if k > MaxData {
				k = MaxData
			}
			if k > len(p) {
				k = len(p)
			}
			out = append(out, p[:k])
			p = p[k:]
		}
		return out
	}
}

type Request struct {
	Command  string // clean | smudge | list_available_blobs
	Path     string
	Payload  []byte
	CanDelay bool
	Extra    []string // extra header lines, e.g. "treeish=…", "blob=…"
	Pk       Packetizer
	// GapEvery: insert a short sleep every n packets (0 = never) so the filter sees partial input.
	GapEvery int
}

// Do sends one request and reads one complete answer (with watchdog).
func (c *Client) Do(rq Request) Resp {
	type out struct{ r Resp }
	ch := make(chan Resp, 1)
	go func() { ch <- c.do(rq) }()
	select {
	case r := <-ch:
		return r
	case <-time.After(c.Timeout):
		return Resp{TimedOut: true}
	}
}

func (c *Client) do(rq Request) Resp {
	c.mu.Lock()
	defer c.mu.Unlock()
	var r Resp
	werr := func() error {
		if err := c.writeText("command=" + rq.Command); err != nil {
			return err
		}
		if rq.Command != "list_available_blobs" {
			if err := c.writeText("pathname=" + rq.Path); err != nil {
				return err
			}
			for _, x := range rq.Extra {
				c.writeText(x)
			}
			if rq.CanDelay {
				c.writeText("can-delay=1")
			}
		}
		if err := c.flush(); err != nil {
			return err
		}
		if rq.Command == "list_available_blobs" {
			return nil
		}
		pk := rq.Pk
		if pk == nil {
			pk = Whole
		}
		for i, p := range pk(rq.Payload) {
			if err := c.writePkt(p); err != nil {
				return err
			}
			if rq.GapEvery > 0 && i%rq.GapEvery == rq.GapEvery-1 {
				time.Sleep(200 * time.Microsecond)
			}
		}
		return c.flush()
	}()
	if werr != nil {
		// the filter went away while we were writing; the read below tells us how
		r.EOF = true
	}
	if rq.Command == "list_available_blobs" {
		lines, perr, eof := c.readTextList()
		if eof {
			r.EOF = true
			return r
		}
		if perr != "" {
			r.ProtoErr = perr
			return r
		}
		for _, l := range lines {
			if !strings.HasPrefix(l, "pathname=") {
				r.ProtoErr = fmt.Sprintf("list_available_blobs answer contains %q", l)
				return r
			}
			r.Paths = append(r.Paths, strings.TrimPrefix(l, "pathname="))
		}
		st, perr, eof := c.readTextList()
		if eof {
			r.EOF = true
			return r
		}
		if perr != "" {
			r.ProtoErr = perr
			return r
		}
		s, e := statusOf(st)
		r.Status1 = s
		if e != "" || !validStatus[s] {
			r.ProtoErr = fmt.Sprintf("bad status list after blob list: %q %s", st, e)
		}
		return r
	}
	st, perr, eof := c.readTextList()
	if eof {
		r.EOF = true
		return r
	}
	if perr != "" {
		r.ProtoErr = perr
		return r
	}
	s, e := statusOf(st)
	r.Status1 = s
	if e != "" || !validStatus[s] {
		r.ProtoErr = fmt.Sprintf("bad first status list %q %s", st, e)
		return r
	}
	if s != "success" {
		return r // delayed / error / abort: nothing follows
	}
	content, perr, eof := c.readContent()
	r.Content = content
	if eof {
		r.EOF = true
		return r
	}
	if perr != "" {
		r.ProtoErr = perr
		return r
	}
	st2, perr, eof := c.readTextList()
	if eof {
		r.EOF = true
		return r
	}
	if perr != "" {
		r.ProtoErr = perr
		return r
	}
	s2, e := statusOf(st2)
	r.Status2 = s2
	if e != "" || (s2 != "" && !validStatus[s2]) || s2 == "delayed" {
		r.ProtoErr = fmt.Sprintf("bad trailing status list %q %s", st2, e)
	}
	return r
}

// Close closes the filter's stdin and waits for it. Returns exit code (-1 signal) and stderr.
func (c *Client) Close() (int, string) {
	c.in.Close()
	select {
	case <-c.done:
	case <-time.After(2 * time.Minute):
		syscall.Kill(-c.cmd.Process.Pid, syscall.SIGKILL)
		<-c.done
	}
	code := 0
	if c.waitErr != nil {
		if ee, ok := c.waitErr.(*exec.ExitError); ok {
			code = ee.ExitCode()
		} else {
			code = -2
		}
	}
	return code, c.stderr.String()
}

// Kill terminates the filter (after a timeout).
func (c *Client) Kill() {
	if c.cmd.Process != nil {
		syscall.Kill(-c.cmd.Process.Pid, syscall.SIGKILL)
	}
}

// Stderr returns what the filter has written to stderr so far.
func (c *Client) Stderr() string { return c.stderr.String() }

func min(a, b int) int {
	if a < b {
		return a
	}
	return b
}
