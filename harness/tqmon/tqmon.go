// Package tqmon: in-process monitor harness around tq.TransferQueue.
//
// The queue under test is the real one, with the real manifest and API client
// talking HTTP to a scripted batch server run by the harness, and a scripted
// fake transfer adapter registered with the manifest. The harness records the
// boundary history (Add call/return, Watch receipts, Errors(), adapter
// attempts, batch requests/answers) plus the verif hook events, and oracles in
// oracle.go decide conservation / termination / retry discipline.
package tqmon

import (
	"encoding/json"
	"fmt"
	"io"
	"net"
	"net/http"
	"net/http/httptest"
	"os"
	"path/filepath"
	"runtime"
	"strings"
	"sync"
	"sync/atomic"
	"time"

	"github.com/git-lfs/git-lfs/v3/errors"
	"github.com/git-lfs/git-lfs/v3/fs"
	"github.com/git-lfs/git-lfs/v3/lfsapi"
	"github.com/git-lfs/git-lfs/v3/lfshttp"
	"github.com/git-lfs/git-lfs/v3/tq"
	"github.com/git-lfs/git-lfs/v3/verifhook"
)

// Obj is one distinct object of a case.
type Obj struct {
	Oid          string
	Size         int64
	Adds         int   // how many times it is added
	MissingLocal bool  // upload only: local file absent and Add(missing=true)
	LocalState   string `json:",omitempty"` // upload only: "lost" (file absent) or "truncated" (one byte short) although Add(missing=false)
	DataSeed     int64 // real-adapter cases: the object's bytes are Content(DataSeed, Size) and Oid is their SHA-256
}

// Case is a fully determined scenario (generated from seed and index).
type Case struct {
	Index      int
	Upload     bool
	Objs       []Obj
	AddOrder   []int // indices into Objs, len = sum(Adds)
	BatchSize  int
	MaxRetries int
	MaxDelay   int // lfs.transfer.maxretrydelay; -1 = leave default
	Concurrent int
	Watchers   int
	SlowWatch  bool
	DryRun     bool
	// BatchCalls[n] = behaviour of the n-th batch HTTP call: "ok" (default), "429:<retry-after>", "429", "500", "503", "404", "403", "reset", "badjson", "hash:sha512", "emptylist"
	BatchCalls []string
	// ObjBatch[oid][k] = how the k-th "ok" batch answer that was asked about oid treats it:
	// "action" (default), "noaction", "error:<code>", "omit", "twice", "expired", "soon" (expires in 3s: exercised, not judged)
	ObjBatch map[string][]string
	// ExtraUnknown[n] = "" | "action" | "error": the n-th ok answer carries an object nobody asked about
	ExtraUnknown map[int]string
	// Adapter[oid][k] = outcome of the k-th adapter attempt: "ok" (default), "retry", "fatal", "later:<secs>", "422"
	Adapter    map[string][]string
	BeginError bool
	// Real: no fake adapter is registered; the batch answer names the built-in "basic" adapter and the
	// harness server also is the storage server (GET/PUT /o/<oid>). Adapter[oid][k] then scripts the k-th
	// storage request about oid: "ok", "retry" (503), "fatal" (404), "reset" (connection reset), "cut"
	// (download: half of the body, then the connection is closed), "later:<secs>" (429 + Retry-After), "422".
	Real bool
	// StorageFirst: outcome of the very first storage request of the case, whichever object it is about.
	StorageFirst string
	YieldSeed    uint64
	YieldPm      uint64
	AddGapUs     int // producer pause between adds (microseconds), 0 = none
	RetryScale   float64
	Tags         []string // feature tags (for classes and finding triggers)
}

type Attempt struct {
	Oid     string
	Begin   int64
	End     int64
	Outcome string
	Overlap bool // another attempt of the same oid was in flight when this began
	Token   string `json:",omitempty"` // real adapters: which batch answer's action the request used ("<call>.<k>")
	LateNs  int64  `json:",omitempty"` // real adapters: how long after that action's advertised expiry the request arrived (> 0 only)
}

type BatchCall struct {
	N       int
	Kind    string
	Oids    []string
	Arrive  int64 // monotonic ns
	Answer  int64 // stamp taken before the response is released
	Answers map[string]string
}

// Record is everything observed for one case.
type Record struct {
	Case          Case
	AddsReturned  int
	AddsTotal     int
	WaitReturned  bool
	Hung          string // "" | "add" | "wait"
	Stacks        string
	Delivered     []map[string]int
	Errors        []string
	Attempts      []Attempt
	BatchCalls    []BatchCall
	LastAnswer    map[string]string
	Events        map[string]int
	WgMin         int64
	WgFinal       int64
	WgAborted     bool
	RetryCounts   map[string]int64 // max retry count seen per oid (tq.retry events)
	Backoffs      []int64          // unscaled computed back-off delays (ms)
	BatchObjEvts  map[string]int   // tq.batch.obj events per oid
	TraceShape    string
	HookAttempts  map[string]int // adapter.attempt.begin events per oid (real adapters only)
	Violations    []Violation
	Inconclusive  string
	DurationMs    int64
	HTTPBatchReqs int
	TimingNoise   int      // elapsed-time verdicts that did not repeat when the case was re-run (dropped)
	RealFiles     int      // real-adapter downloads: destination files present after Wait
	BadFiles      []string // ... whose bytes are not the object's
}

type Violation struct {
	Symptom string
	Trigger string
	What    string
}

var clock0 = time.Now()

func now() int64 { return int64(time.Since(clock0)) }

// ---- fake adapter ----

type fakeAdapter struct {
	name     string
	dir      tq.Direction
	c        *Case
	mu       sync.Mutex
	attempts []Attempt
	idx      map[string]int
	inflight map[string]int
	flying   int64
	conc     int
	sem      chan struct{}
	wg       sync.WaitGroup
}

func (a *fakeAdapter) Name() string            { return a.name }
func (a *fakeAdapter) Direction() tq.Direction { return a.dir }
func (a *fakeAdapter) Begin(cfg tq.AdapterConfig, cb tq.ProgressCallback) error {
	if a.c.BeginError {
		return fmt.Errorf("verif: adapter Begin failed")
	}
	a.conc = cfg.ConcurrentTransfers()
	if a.conc < 1 {
		a.conc = 1
	}
	a.sem = make(chan struct{}, a.conc)
	return nil
}

func (a *fakeAdapter) outcome(oid string) (string, int) {
	k := a.idx[oid]
	a.idx[oid] = k + 1
	s := a.c.Adapter[oid]
	if k < len(s) {
		return s[k], k
	}
	return "ok", k
}

func (a *fakeAdapter) Add(ts ...*tq.Transfer) <-chan tq.TransferResult {
	results := make(chan tq.TransferResult, len(ts))
	var wg sync.WaitGroup
	wg.Add(len(ts))
	a.wg.Add(1)
	go func() {
		defer a.wg.Done()
		for _, t := range ts {
			t := t
			a.sem <- struct{}{}
			go func() {
				defer func() { <-a.sem; wg.Done() }()
				atomic.AddInt64(&a.flying, 1)
				a.mu.Lock()
				out, k := a.outcome(t.Oid)
				at := Attempt{Oid: t.Oid, Begin: now(), Outcome: out, Overlap: a.inflight[t.Oid] > 0}
				a.inflight[t.Oid]++
				a.mu.Unlock()
				// deterministic tiny perturbation
				switch (k + len(t.Oid) + int(t.Oid[0])) % 3 {
				case 0:
					runtime.Gosched()
				case 1:
					time.Sleep(50 * time.Microsecond)
				}
				var err error
				switch {
				case out == "ok":
				case out == "retry":
					err = errors.NewRetriableError(fmt.Errorf("verif: retriable failure of %s", t.Oid))
				case out == "fatal":
					err = fmt.Errorf("verif: fatal failure of %s", t.Oid)
				case strings.HasPrefix(out, "later:"):
					err = errors.NewRetriableLaterError(fmt.Errorf("verif: retry later %s", t.Oid), strings.TrimPrefix(out, "later:"))
					if err == nil {
						err = errors.NewRetriableError(fmt.Errorf("verif: retriable failure of %s", t.Oid))
					}
				case out == "422":
					err = errors.NewUnprocessableEntityError(fmt.Errorf("verif: 422 for %s", t.Oid))
				}
				a.mu.Lock()
				at.End = now()
				a.inflight[t.Oid]--
				a.attempts = append(a.attempts, at)
				a.mu.Unlock()
				atomic.AddInt64(&a.flying, -1)
				results <- tq.TransferResult{Transfer: t, Error: err}
			}()
		}
		wg.Wait()
		close(results)
	}()
	return results
}

func (a *fakeAdapter) End() { a.wg.Wait() }

// ---- scripted batch server ----

type server struct {
	c        *Case
	srv      *httptest.Server
	mu       sync.Mutex
	calls    []BatchCall
	okCalls  int
	asked    map[string]int
	last     map[string]string
	inflight int64
	adapter  string
	// real-adapter cases
	sidx     map[string]int
	sreqs    int
	attempts []Attempt
	sflying  map[string]int
	expiry   map[string]int64 // action token -> advertised expiry on the now() clock (short-lived actions only)
}

// Content is the byte string of a real-adapter object.
func Content(seed int64, size int64) []byte {
	b := make([]byte, size)
	x := uint64(seed)*6364136223846793005 + 1442695040888963407
	for i := range b {
		x = x*6364136223846793005 + 1442695040888963407
		b[i] = byte(x >> 33)
	}
	return b
}

func (s *server) obj(oid string) *Obj {
	for i := range s.c.Objs {
		if s.c.Objs[i].Oid == oid {
			return &s.c.Objs[i]
		}
	}
	return nil
}

// storage answers GET/PUT /o/<oid> for real-adapter cases and records each request as an Attempt.
func (s *server) storage(w http.ResponseWriter, r *http.Request) {
	oid := strings.TrimPrefix(r.URL.Path, "/o/")
	s.mu.Lock()
	k := s.sidx[oid]
	s.sidx[oid] = k + 1
	out := "ok"
	if sc := s.c.Adapter[oid]; k < len(sc) && sc[k] != "" {
		out = sc[k]
	}
	if s.sreqs == 0 && s.c.StorageFirst != "" {
		out = s.c.StorageFirst
	}
	s.sreqs++
	at := Attempt{Oid: oid, Begin: now(), Outcome: out, Overlap: s.sflying[oid] > 0, Token: r.URL.Query().Get("t")}
	if exp, ok := s.expiry[oid+"@"+at.Token]; ok && at.Begin > exp {
		at.LateNs = at.Begin - exp
	}
	s.sflying[oid]++
	s.mu.Unlock()
	finish := func(outcome string) {
		s.mu.Lock()
		at.End = now()
		at.Outcome = outcome
		s.sflying[oid]--
		s.attempts = append(s.attempts, at)
		s.mu.Unlock()
	}
	o := s.obj(oid)
	var body []byte
	if r.Method == "PUT" {
		body, _ = io.ReadAll(r.Body)
	}
	reset := func() {
		if hj, ok := w.(http.Hijacker); ok {
			if conn, _, err := hj.Hijack(); err == nil {
				if tc, ok := conn.(*net.TCPConn); ok {
					tc.SetLinger(0)
				}
				conn.Close()
			}
		}
	}
	if strings.HasPrefix(out, "hold:") {
		// a slow transfer: the worker stays busy while the actions of the objects queued behind it age
		ms := 0
		fmt.Sscanf(strings.TrimPrefix(out, "hold:"), "%d", &ms)
		time.Sleep(time.Duration(ms) * time.Millisecond)
		out = "ok"
	}
	switch {
	case o == nil:
		w.WriteHeader(404)
		finish("fatal")
	case out == "retry":
		w.WriteHeader(503)
		finish(out)
	case out == "fatal":
		w.WriteHeader(404)
		finish(out)
	case out == "422":
		w.WriteHeader(422)
		finish(out)
	case strings.HasPrefix(out, "later:"):
		w.Header().Set("Retry-After", strings.TrimPrefix(out, "later:"))
		w.WriteHeader(429)
		finish(out)
	case out == "reset":
		finish(out)
		reset()
	case out == "cut" && r.Method == "GET":
		data := Content(o.DataSeed, o.Size)
		w.Header().Set("Content-Length", fmt.Sprint(len(data)))
		w.WriteHeader(200)
		w.Write(data[:len(data)/2])
		if f, ok := w.(http.Flusher); ok {
			f.Flush()
		}
		finish(out)
		reset()
	case r.Method == "GET":
		data := Content(o.DataSeed, o.Size)
		w.Header().Set("Content-Type", "application/octet-stream")
		w.Header().Set("Content-Length", fmt.Sprint(len(data)))
		w.WriteHeader(200)
		_, err := w.Write(data)
		if err != nil {
			finish("client-went-away")
		} else {
			finish("ok")
		}
	default: // PUT
		if string(body) == string(Content(o.DataSeed, o.Size)) {
			finish("ok")
			w.WriteHeader(200)
		} else {
			finish("bad-upload-body")
			w.WriteHeader(400)
		}
	}
}

type batchReq struct {
	Operation string `json:"operation"`
	Objects   []struct {
		Oid  string `json:"oid"`
		Size int64  `json:"size"`
	} `json:"objects"`
}

func (s *server) handle(w http.ResponseWriter, r *http.Request) {
	atomic.AddInt64(&s.inflight, 1)
	defer atomic.AddInt64(&s.inflight, -1)
	if strings.HasPrefix(r.URL.Path, "/o/") {
		s.storage(w, r)
		return
	}
	arrive := now()
	body, _ := io.ReadAll(r.Body)
	var req batchReq
	json.Unmarshal(body, &req)
	s.mu.Lock()
	n := len(s.calls)
	kind := "ok"
	if n < len(s.c.BatchCalls) && s.c.BatchCalls[n] != "" {
		kind = s.c.BatchCalls[n]
	}
	bc := BatchCall{N: n, Kind: kind, Arrive: arrive, Answers: map[string]string{}}
	for _, o := range req.Objects {
		bc.Oids = append(bc.Oids, o.Oid)
	}
	op := "download"
	if s.c.Upload {
		op = "upload"
	}
	var objs []map[string]any
	if kind == "ok" || strings.HasPrefix(kind, "hash:") {
		okn := s.okCalls
		s.okCalls++
		for _, o := range req.Objects {
			k := s.asked[o.Oid]
			s.asked[o.Oid] = k + 1
			how := "action"
			if sc := s.c.ObjBatch[o.Oid]; k < len(sc) && sc[k] != "" {
				how = sc[k]
			}
			bc.Answers[o.Oid] = how
			s.last[o.Oid] = how
			entry := map[string]any{"oid": o.Oid, "size": o.Size}
			href := fmt.Sprintf("%s/o/%s?t=%d.%d", s.srv.URL, o.Oid, n, k)
			switch {
			case how == "action":
				entry["actions"] = map[string]any{op: map[string]any{"href": href, "expires_in": 3600}}
			case how == "expired":
				entry["actions"] = map[string]any{op: map[string]any{"href": href, "expires_at": time.Now().Add(-time.Hour).UTC().Format(time.RFC3339)}}
			case how == "expired-in": // relative expiry that has already passed (expires_in may be negative per the API schema)
				entry["actions"] = map[string]any{op: map[string]any{"href": href, "expires_in": -10}}
			case how == "expired-in-future-at": // the relative expiry has passed although expires_at lies in the future
				entry["actions"] = map[string]any{op: map[string]any{"href": href, "expires_in": -3600, "expires_at": time.Now().Add(time.Hour).UTC().Format(time.RFC3339)}}
			case how == "soon":
				entry["actions"] = map[string]any{op: map[string]any{"href": href, "expires_in": 3}}
			case strings.HasPrefix(how, "in:"): // short-lived action, relative expiry
				secs := 0
				fmt.Sscanf(strings.TrimPrefix(how, "in:"), "%d", &secs)
				entry["actions"] = map[string]any{op: map[string]any{"href": href, "expires_in": secs}}
				s.expiry[o.Oid+"@"+fmt.Sprintf("%d.%d", n, k)] = now() + int64(secs)*int64(time.Second)
			case strings.HasPrefix(how, "at:"): // short-lived action, absolute expiry (whole seconds)
				secs := 0
				fmt.Sscanf(strings.TrimPrefix(how, "at:"), "%d", &secs)
				expAt := time.Now().Add(time.Duration(secs) * time.Second).UTC().Truncate(time.Second)
				entry["actions"] = map[string]any{op: map[string]any{"href": href, "expires_at": expAt.Format(time.RFC3339)}}
				s.expiry[o.Oid+"@"+fmt.Sprintf("%d.%d", n, k)] = now() + int64(time.Until(expAt))
			case how == "noaction":
			case strings.HasPrefix(how, "error:"):
				code := 404
				fmt.Sscanf(strings.TrimPrefix(how, "error:"), "%d", &code)
				entry["error"] = map[string]any{"code": code, "message": "verif object error " + fmt.Sprint(code)}
			case how == "omit":
				continue
			case how == "twice":
				entry["actions"] = map[string]any{op: map[string]any{"href": href, "expires_in": 3600}}
				objs = append(objs, entry)
			}
			objs = append(objs, entry)
		}
		if x := s.c.ExtraUnknown[okn]; x != "" {
			u := strings.Repeat("f", 60) + fmt.Sprintf("%04d", okn)
			entry := map[string]any{"oid": u, "size": 5}
			if x == "error" {
				entry["error"] = map[string]any{"code": 404, "message": "verif unknown object"}
			} else {
				entry["actions"] = map[string]any{op: map[string]any{"href": s.srv.URL + "/o/" + u, "expires_in": 3600}}
			}
			objs = append(objs, entry)
			bc.Answers[u] = "unknown-" + x
		}
	}
	bc.Answer = now()
	s.calls = append(s.calls, bc)
	s.mu.Unlock()

	w.Header().Set("Content-Type", "application/vnd.git-lfs+json")
	switch {
	case kind == "ok" || strings.HasPrefix(kind, "hash:"):
		resp := map[string]any{"transfer": s.adapter, "objects": objs}
		if objs == nil {
			resp["objects"] = []any{}
		}
		if strings.HasPrefix(kind, "hash:") {
			resp["hash_algo"] = strings.TrimPrefix(kind, "hash:")
		}
		json.NewEncoder(w).Encode(resp)
	case kind == "emptylist":
		io.WriteString(w, `{"transfer":"`+s.adapter+`","objects":[]}`)
	case strings.HasPrefix(kind, "429"):
		if p := strings.SplitN(kind, ":", 2); len(p) == 2 {
			w.Header().Set("Retry-After", p[1])
		}
		w.WriteHeader(429)
		io.WriteString(w, `{"message":"verif rate limited"}`)
	case kind == "reset":
		if hj, ok := w.(http.Hijacker); ok {
			conn, _, err := hj.Hijack()
			if err == nil {
				if tc, ok := conn.(*net.TCPConn); ok {
					tc.SetLinger(0)
				}
				conn.Close()
			}
		}
	case kind == "badjson":
		io.WriteString(w, `{"objects": [`)
	default:
		code := 500
		fmt.Sscanf(kind, "%d", &code)
		w.WriteHeader(code)
		io.WriteString(w, `{"message":"verif status `+kind+`"}`)
	}
}

// ---- running a case ----

var sinkMu sync.Mutex
var sinkRec *Record
var sinkLast int64
var sinkShape []string

func sink(e verifhook.E) {
	sinkMu.Lock()
	defer sinkMu.Unlock()
	r := sinkRec
	if r == nil {
		return
	}
	atomic.StoreInt64(&sinkLast, now())
	r.Events[e.Kind]++
	switch e.Kind {
	case "tq.wg.add", "tq.wg.done":
		if e.N < r.WgMin {
			r.WgMin = e.N
		}
		r.WgFinal = e.N
	case "tq.wg.abort":
		r.WgAborted = true
	case "tq.retry":
		if e.N > r.RetryCounts[e.Oid] {
			r.RetryCounts[e.Oid] = e.N
		}
	case "tq.backoff":
		r.Backoffs = append(r.Backoffs, e.N)
	case "tq.batch.obj":
		r.BatchObjEvts[e.Oid]++
	case "adapter.attempt.begin":
		r.HookAttempts[e.Oid]++
	}
	if len(sinkShape) < 400 {
		sinkShape = append(sinkShape, e.Kind)
	}
}

// Quiescence window: a hang is declared only when nothing is in flight at the
// fake server and fake adapter and no hook event was seen for this long.
var QuietWindow = 20 * time.Second

// Run executes one case and returns the observed record (oracles not applied).
func Run(c Case, scratch string) *Record {
	rec := &Record{Case: c, Events: map[string]int{}, RetryCounts: map[string]int64{}, BatchObjEvts: map[string]int{}, HookAttempts: map[string]int{}, LastAnswer: map[string]string{}}
	start := time.Now()
	srv := &server{c: &c, asked: map[string]int{}, last: map[string]string{}, adapter: "fake", sidx: map[string]int{}, sflying: map[string]int{}, expiry: map[string]int64{}}
	if c.Real {
		srv.adapter = "basic"
	}
	srv.srv = httptest.NewServer(http.HandlerFunc(srv.handle))
	defer srv.srv.Close()

	gitEnv := map[string]string{
		"lfs.url":                        srv.srv.URL,
		"lfs.transfer.maxretries":        fmt.Sprint(c.MaxRetries),
		"lfs.concurrenttransfers":        fmt.Sprint(c.Concurrent),
		"lfs.basictransfersonly":         "false",
		"remote.origin.url":              srv.srv.URL + "/repo.git",
		"lfs." + srv.srv.URL + ".access": "none",
	}
	if c.MaxDelay >= 0 {
		gitEnv["lfs.transfer.maxretrydelay"] = fmt.Sprint(c.MaxDelay)
	}
	osEnv := map[string]string{}
	client, err := lfsapi.NewClient(lfshttp.NewContext(nil, osEnv, gitEnv))
	if err != nil {
		rec.Inconclusive = "client: " + err.Error()
		return rec
	}
	defer client.Close()
	gitdir := filepath.Join(scratch, fmt.Sprintf("c%d", c.Index), ".git")
	os.MkdirAll(gitdir, 0o755)
	defer os.RemoveAll(filepath.Dir(gitdir))
	f := fs.New(client.OSEnv(), gitdir, filepath.Dir(gitdir), "", 0o755)
	op := "download"
	dir := tq.Download
	if c.Upload {
		op, dir = "upload", tq.Upload
	}
	m := tq.NewManifest(f, client, op, "origin")
	fa := &fakeAdapter{name: "fake", dir: dir, c: &c, idx: map[string]int{}, inflight: map[string]int{}}
	if !c.Real {
		m.RegisterNewAdapterFunc("fake", dir, func(name string, d tq.Direction) tq.Adapter { return fa })
	}

	// local files for uploads
	paths := map[string]string{}
	for _, o := range c.Objs {
		p := filepath.Join(filepath.Dir(gitdir), "obj-"+o.Oid[:12])
		if c.Upload && !o.MissingLocal && o.LocalState != "lost" {
			n := o.Size
			if o.LocalState == "truncated" {
				n--
			}
			if c.Real {
				os.WriteFile(p, Content(o.DataSeed, o.Size)[:n], 0o644)
			} else {
				os.WriteFile(p, make([]byte, n), 0o644)
			}
		}
		paths[o.Oid] = p
	}

	sinkMu.Lock()
	sinkRec = rec
	sinkShape = nil
	sinkMu.Unlock()
	atomic.StoreInt64(&sinkLast, now())
	verifhook.SetSink(sink)
	verifhook.SetYield(c.YieldSeed, c.YieldPm)
	sc := c.RetryScale
	if sc == 0 {
		sc = 0.01
	}
	verifhook.SetRetryScale(sc)

	opts := []tq.Option{tq.WithBatchSize(c.BatchSize)}
	if c.DryRun {
		opts = append(opts, tq.DryRun(true))
	}
	q := tq.NewTransferQueue(dir, m, "origin", opts...)

	var delivered []map[string]int
	var wwg sync.WaitGroup
	var dmu sync.Mutex
	for w := 0; w < c.Watchers; w++ {
		ch := q.Watch()
		dm := map[string]int{}
		delivered = append(delivered, dm)
		wwg.Add(1)
		go func(w int) {
			defer wwg.Done()
			for t := range ch {
				dmu.Lock()
				dm[t.Oid]++
				dmu.Unlock()
				if c.SlowWatch && w == 0 {
					time.Sleep(time.Duration(200+int(t.Oid[1])%7*150) * time.Microsecond)
				}
			}
		}(w)
	}

	rec.AddsTotal = len(c.AddOrder)
	var addsReturned int64
	var phase int32 // 0 adding, 1 waiting, 2 done
	done := make(chan struct{})
	go func() {
		defer close(done)
		for _, i := range c.AddOrder {
			o := c.Objs[i]
			q.Add("name-"+o.Oid[:12], paths[o.Oid], o.Oid, o.Size, c.Upload && o.MissingLocal, nil)
			atomic.AddInt64(&addsReturned, 1)
			if c.AddGapUs > 0 {
				time.Sleep(time.Duration(c.AddGapUs) * time.Microsecond)
			}
		}
		atomic.StoreInt32(&phase, 1)
		q.Wait()
		atomic.StoreInt32(&phase, 2)
	}()

	tick := time.NewTicker(20 * time.Millisecond)
	defer tick.Stop()
	hardDeadline := time.Now().Add(10 * time.Minute)
loop:
	for {
		select {
		case <-done:
			break loop
		case <-tick.C:
			quietFor := time.Duration(now() - atomic.LoadInt64(&sinkLast))
			busy := atomic.LoadInt64(&srv.inflight) > 0 || atomic.LoadInt64(&fa.flying) > 0
			if busy {
				atomic.StoreInt64(&sinkLast, now())
			}
			if !busy && quietFor > QuietWindow {
				if atomic.LoadInt32(&phase) == 0 {
					rec.Hung = "add"
				} else {
					rec.Hung = "wait"
				}
				buf := make([]byte, 1<<20)
				n := runtime.Stack(buf, true)
				rec.Stacks = filterStacks(string(buf[:n]))
				break loop
			}
			if time.Now().After(hardDeadline) {
				rec.Inconclusive = "hard watchdog fired while activity was still observed"
				break loop
			}
		}
	}
	rec.AddsReturned = int(atomic.LoadInt64(&addsReturned))
	rec.WaitReturned = atomic.LoadInt32(&phase) == 2
	if rec.WaitReturned {
		wwg.Wait()
		for _, e := range q.Errors() {
			rec.Errors = append(rec.Errors, e.Error())
		}
	}
	verifhook.SetSink(nil)
	sinkMu.Lock()
	sinkRec = nil
	rec.TraceShape = shapeHash(sinkShape)
	sinkMu.Unlock()
	dmu.Lock()
	for _, dm := range delivered {
		cp := map[string]int{}
		for k, v := range dm {
			cp[k] = v
		}
		rec.Delivered = append(rec.Delivered, cp)
	}
	dmu.Unlock()
	fa.mu.Lock()
	rec.Attempts = append(rec.Attempts, fa.attempts...)
	fa.mu.Unlock()
	srv.mu.Lock()
	rec.Attempts = append(rec.Attempts, srv.attempts...)
	if c.Real && rec.WaitReturned {
		// downloads: what sits at the destination must be the object (delivered or not, never garbage)
		for _, o := range c.Objs {
			if c.Upload {
				continue
			}
			if b, err := os.ReadFile(paths[o.Oid]); err == nil {
				rec.RealFiles++
				if string(b) != string(Content(o.DataSeed, o.Size)) {
					rec.BadFiles = append(rec.BadFiles, o.Oid)
				}
			}
		}
	}
	rec.BatchCalls = append(rec.BatchCalls, srv.calls...)
	for k, v := range srv.last {
		rec.LastAnswer[k] = v
	}
	rec.HTTPBatchReqs = len(srv.calls)
	srv.mu.Unlock()
	rec.DurationMs = time.Since(start).Milliseconds()
	return rec
}

func filterStacks(s string) string {
	var keep []string
	for _, g := range strings.Split(s, "\n\n") {
		if strings.Contains(g, "git-lfs/v3/tq") {
			keep = append(keep, g)
		}
	}
	out := strings.Join(keep, "\n\n")
	if len(out) > 20000 {
		out = out[:20000]
	}
	return out
}

func shapeHash(kinds []string) string {
	h := uint64(1469598103934665603)
	for _, k := range kinds {
		for i := 0; i < len(k); i++ {
			h ^= uint64(k[i])
			h *= 1099511628211
		}
		h ^= 0xff
		h *= 1099511628211
	}
	return fmt.Sprintf("%016x", h)
}
