package tqmon

import (
	"crypto/sha256"
	"encoding/hex"
	"fmt"
	"math/rand"
	"sort"
)

const hexd = "0123456789abcdef"

func randOid(r *rand.Rand) string {
	b := make([]byte, 64)
	for i := range b {
		b[i] = hexd[r.Intn(16)]
	}
	// never collide with the "unknown" oids the server invents (ffff…)
	if b[0] == 'f' {
		b[0] = 'a'
	}
	return string(b)
}

// Themes: each case has one fault theme; the "special" themes are the ones that
// correspond to one specific server misbehaviour (at most one per case).
var Themes = []string{
	"none", "adapter-faults", "batchcall-faults", "object-faults", "mixed",
	"batch-omitted-object", "batch-object-listed-twice", "batch-unknown-oid", "batch-empty-objects-list",
	"batch-hash-algo", "upload-missing-with-action", "upload-missing-no-action", "adapter-begin-error",
	"dry-run", "adapter-422", "retry-later", "expired-action", "many-after-abort",
	"dup-during-delivery", "exhausted-plus-fresh-in-failed-batch",
	"real-first-storage-request-fails", "real-storage-faults", "real-none",
	"upload-local-file-lost-or-truncated",
}

func sha256hex(b []byte) string {
	h := sha256.Sum256(b)
	return hex.EncodeToString(h[:])
}

func pick(r *rand.Rand, xs ...string) string { return xs[r.Intn(len(xs))] }

// Gen derives case idx of the stream identified by seed. prof selects emphasis: "c06" or "c15".
func Gen(seed int64, idx int, prof string) Case {
	r := rand.New(rand.NewSource(seed*7919 + int64(idx)*104729 + 17))
	c := Case{Index: idx, ObjBatch: map[string][]string{}, Adapter: map[string][]string{}, ExtraUnknown: map[int]string{}, MaxDelay: -1}
	theme := Themes[idx%len(Themes)]
	if prof == "c15" {
		theme = pick(r, "adapter-faults", "adapter-faults", "retry-later", "batchcall-faults", "expired-action", "mixed", "object-faults", "none")
		if idx%16 == 5 {
			theme = "deferred-plus-backoff"
		}
		if idx%16 == 9 {
			theme = "transfer-deferred-then-batch-deferred"
		}
		if idx%32 == 13 {
			theme = "action-expires-while-queued"
		}
	}
	n := 1 + r.Intn(12)
	if r.Intn(10) < 4 {
		n = 1 + r.Intn(3)
	}
	c.Upload = r.Intn(10) < 3
	switch theme {
	case "upload-missing-with-action", "upload-missing-no-action", "adapter-422", "many-after-abort", "upload-local-file-lost-or-truncated":
		c.Upload = true
	}
	if theme == "many-after-abort" {
		n = 6 + r.Intn(10)
	}
	for i := 0; i < n; i++ {
		o := Obj{Oid: randOid(r), Size: int64(1 + r.Intn(5000)), Adds: 1}
		if r.Intn(10) < 3 {
			o.Adds = 2 + r.Intn(2)
		}
		c.Objs = append(c.Objs, o)
	}
	for i, o := range c.Objs {
		for k := 0; k < o.Adds; k++ {
			c.AddOrder = append(c.AddOrder, i)
		}
	}
	switch r.Intn(3) {
	case 0:
		r.Shuffle(len(c.AddOrder), func(i, j int) { c.AddOrder[i], c.AddOrder[j] = c.AddOrder[j], c.AddOrder[i] })
	case 1: // all first adds, then the duplicates (exercises Add-after-completion)
		sort.SliceStable(c.AddOrder, func(i, j int) bool { return false })
		var first, rest []int
		seen := map[int]bool{}
		for _, x := range c.AddOrder {
			if seen[x] {
				rest = append(rest, x)
			} else {
				seen[x] = true
				first = append(first, x)
			}
		}
		c.AddOrder = append(first, rest...)
	}
	c.BatchSize = 1 + r.Intn(n+2)
	if r.Intn(8) == 0 {
		c.BatchSize = 100
	}
	c.MaxRetries = []int{1, 2, 3, 8}[r.Intn(4)]
	c.Concurrent = 1 + r.Intn(8)
	c.Watchers = r.Intn(3)
	c.SlowWatch = r.Intn(5) == 0
	c.YieldSeed = uint64(r.Int63())
	c.YieldPm = uint64([]int{0, 100, 300, 600}[r.Intn(4)])
	if r.Intn(4) == 0 {
		c.AddGapUs = 50 + r.Intn(400)
	}
	c.RetryScale = 0.01
	if prof == "c15" {
		c.MaxDelay = []int{0, 1, -1}[r.Intn(3)]
	}

	budget := c.MaxRetries + 2
	adapterFaults := func(kinds ...string) {
		for _, o := range c.Objs {
			if r.Intn(3) == 0 {
				continue
			}
			var s []string
			for k := 0; k < 1+r.Intn(budget); k++ {
				s = append(s, pick(r, kinds...))
			}
			c.Adapter[o.Oid] = s
		}
	}
	objectFaults := func(kinds ...string) {
		for _, o := range c.Objs {
			if r.Intn(3) == 0 {
				continue
			}
			var s []string
			for k := 0; k < 1+r.Intn(3); k++ {
				s = append(s, pick(r, kinds...))
			}
			c.ObjBatch[o.Oid] = s
		}
	}
	callFaults := func() {
		for k := 0; k < 1+r.Intn(budget+1); k++ {
			c.BatchCalls = append(c.BatchCalls, pick(r, "ok", "ok", "429:1", "429", "500", "503", "404", "403", "reset", "badjson"))
		}
	}
	victim := c.Objs[r.Intn(len(c.Objs))].Oid
	when := r.Intn(2) // which answer about the victim is the faulty one
	script := func(fault string) []string {
		s := make([]string, when+1)
		for i := range s {
			s[i] = "action"
		}
		s[when] = fault
		return s
	}
	switch theme {
	case "none":
	case "adapter-faults":
		adapterFaults("ok", "ok", "retry", "retry", "fatal")
	case "retry-later":
		adapterFaults("ok", "retry", "later:1")
		// keep the number of 1-second waits small
		cnt := 0
		for oid, s := range c.Adapter {
			for i, x := range s {
				if x == "later:1" {
					cnt++
					if cnt > 3 {
						c.Adapter[oid][i] = "retry"
					}
				}
			}
		}
	case "batchcall-faults":
		callFaults()
	case "object-faults":
		objectFaults("action", "action", "noaction", "error:404", "error:410", "error:500", "error:422")
	case "expired-action":
		objectFaults("action", "expired", "expired-in", "expired-in-future-at", "soon")
	case "mixed":
		adapterFaults("ok", "ok", "retry", "fatal")
		objectFaults("action", "action", "noaction", "error:404", "expired")
		if r.Intn(2) == 0 {
			callFaults()
		}
	case "batch-omitted-object":
		c.ObjBatch[victim] = script("omit")
		if when == 1 {
			c.Adapter[victim] = []string{"retry"}
		}
	case "batch-object-listed-twice":
		c.ObjBatch[victim] = script("twice")
		if when == 1 {
			c.Adapter[victim] = []string{"retry"}
		}
	case "batch-unknown-oid":
		c.ExtraUnknown[r.Intn(2)] = pick(r, "action", "error")
		if r.Intn(2) == 0 {
			adapterFaults("ok", "retry")
		}
	case "batch-empty-objects-list":
		c.BatchCalls = make([]string, when+1)
		c.BatchCalls[when] = "emptylist"
		if when == 1 {
			adapterFaults("retry", "ok")
		}
	case "batch-hash-algo":
		c.BatchCalls = []string{pick(r, "hash:sha512", "hash:sha1", "hash:sha256")}
	case "upload-missing-with-action":
		i := r.Intn(len(c.Objs))
		c.Objs[i].MissingLocal = true
	case "upload-missing-no-action":
		i := r.Intn(len(c.Objs))
		c.Objs[i].MissingLocal = true
		c.ObjBatch[c.Objs[i].Oid] = []string{"noaction", "noaction", "noaction"}
	case "upload-local-file-lost-or-truncated":
		// the local file of some, or of every, object of the upload is gone or has another size by the time the
		// queue hands the batch to the adapter (nobody told the queue: Add(missing=false)); each such object has to
		// end up covered by a reported error, also when a batch holds nothing else
		which := r.Intn(3) // 0 every object, 1 one object, 2 a random subset
		one := r.Intn(len(c.Objs))
		for i := range c.Objs {
			if which == 0 || (which == 1 && i == one) || (which == 2 && r.Intn(2) == 0) {
				c.Objs[i].LocalState = pick(r, "lost", "truncated")
			}
		}
	case "many-after-abort":
		// a missing object early, a small batch size, and many adds afterwards
		c.Objs[0].MissingLocal = true
		c.BatchSize = 1 + r.Intn(2)
		c.AddGapUs = 300
		sort.Ints(c.AddOrder)
	case "dup-during-delivery":
		// repeated ids added while earlier results are being delivered to a slow watcher
		// through a tiny watcher channel (capacity = batch size)
		c.BatchSize = 1 + r.Intn(2)
		c.Watchers = 1 + r.Intn(2)
		c.SlowWatch = true
		c.AddGapUs = 100 + r.Intn(600)
		c.AddOrder = nil
		for i := range c.Objs {
			c.Objs[i].Adds = 2 + r.Intn(3)
		}
		// first occurrence of each object in order, duplicates trailing shortly behind
		remaining := make([]int, len(c.Objs))
		for i := range c.Objs {
			remaining[i] = c.Objs[i].Adds
		}
		for i := range c.Objs {
			c.AddOrder = append(c.AddOrder, i)
			remaining[i]--
			for back := 0; back <= i; back++ {
				if remaining[back] > 0 && r.Intn(2) == 0 {
					c.AddOrder = append(c.AddOrder, back)
					remaining[back]--
				}
			}
		}
		for i := range c.Objs {
			for ; remaining[i] > 0; remaining[i]-- {
				c.AddOrder = append(c.AddOrder, i)
			}
		}
	case "exhausted-plus-fresh-in-failed-batch":
		// batch 1 = [A, C]: A fails retriably in the adapter and uses up its budget; batch 2 = [A, B]
		// with B fresh; the batch call itself then fails. A can no longer be retried, B can.
		c.Upload = false
		c.Objs = c.Objs[:0]
		for i := 0; i < 5+r.Intn(4); i++ {
			c.Objs = append(c.Objs, Obj{Oid: randOid(r), Size: int64(1 + r.Intn(5000)), Adds: 1})
		}
		c.AddOrder = nil
		for i := range c.Objs {
			c.AddOrder = append(c.AddOrder, i)
		}
		c.BatchSize = 2
		c.MaxRetries = 1 + r.Intn(2)
		c.Watchers = r.Intn(2)
		c.AddGapUs = 0
		c.ObjBatch = map[string][]string{}
		c.ExtraUnknown = map[int]string{}
		var as []string
		for k := 0; k < c.MaxRetries; k++ {
			as = append(as, "retry")
		}
		c.Adapter = map[string][]string{c.Objs[0].Oid: as}
		// the first call succeeds, then a run of failing calls: objects that were fresh in one failing
		// batch are exhausted in the next one, where they meet newly arrived objects
		c.BatchCalls = []string{"ok"}
		kind := pick(r, "429", "429:1", "503", "reset")
		for k := 0; k < 2+r.Intn(3); k++ {
			c.BatchCalls = append(c.BatchCalls, kind)
		}
		if r.Intn(2) == 0 {
			c.AddGapUs = 500 + r.Intn(4000)
		}
	case "real-first-storage-request-fails", "real-storage-faults", "real-none":
		// the built-in basic adapter (adapterBase workers, auth gate of worker 0, real HTTP transfers)
		c.Real = true
		c.ObjBatch = map[string][]string{}
		c.ExtraUnknown = map[int]string{}
		c.BatchCalls = nil
		c.Adapter = map[string][]string{}
		for i := range c.Objs {
			c.Objs[i].MissingLocal = false
			c.Objs[i].DataSeed = r.Int63()
			c.Objs[i].Oid = sha256hex(Content(c.Objs[i].DataSeed, c.Objs[i].Size))
		}
		switch theme {
		case "real-first-storage-request-fails":
			c.StorageFirst = pick(r, "retry", "fatal", "reset", "later:1", "cut")
			if c.Upload && c.StorageFirst == "cut" {
				c.StorageFirst = "retry"
			}
			if r.Intn(3) > 0 && c.Concurrent < 2 {
				c.Concurrent = 2 + r.Intn(7)
			}
		case "real-storage-faults":
			kinds := []string{"ok", "ok", "retry", "fatal", "reset", "cut"}
			if c.Upload {
				kinds = []string{"ok", "ok", "retry", "fatal", "reset", "422"}
			}
			adapterFaults(kinds...)
		}
	case "action-expires-while-queued":
		// the built-in basic adapter with fewer workers than objects: every action of the first answer lives 6 s,
		// the first transfer keeps its worker busy for 7.5 s, so the objects queued behind it come up when their
		// action's advertised expiry has passed: it must be re-requested (the second answer is long-lived), not used
		c.Real = true
		c.Upload = r.Intn(3) == 0
		c.Objs = c.Objs[:0]
		k := 2 + r.Intn(3)
		for i := 0; i < k; i++ {
			o := Obj{Size: int64(1 + r.Intn(5000)), Adds: 1, DataSeed: r.Int63()}
			o.Oid = sha256hex(Content(o.DataSeed, o.Size))
			c.Objs = append(c.Objs, o)
		}
		c.AddOrder = nil
		for i := range c.Objs {
			c.AddOrder = append(c.AddOrder, i)
		}
		c.BatchSize = k + r.Intn(3)
		c.MaxRetries = 2 + r.Intn(7)
		c.MaxDelay = []int{-1, 0, 1}[r.Intn(3)]
		c.Concurrent = 1
		if k > 3 && r.Intn(2) == 0 {
			c.Concurrent = 2
		}
		c.AddGapUs = 0
		c.DryRun = false
		c.BeginError = false
		c.BatchCalls = nil
		c.ExtraUnknown = map[int]string{}
		c.Adapter = map[string][]string{}
		c.ObjBatch = map[string][]string{}
		how := pick(r, "in:6", "in:6", "at:7")
		for _, o := range c.Objs {
			c.ObjBatch[o.Oid] = []string{how}
		}
		c.StorageFirst = "hold:7500"
	case "deferred-plus-backoff":
		// one retry round holds an object the server deferred with a Retry-After longer than
		// lfs.transfer.maxretrydelay and objects that merely failed retriably: the latter must not wait for the former
		c.Upload = false
		c.Objs = c.Objs[:0]
		k := 2 + r.Intn(4)
		for i := 0; i < k; i++ {
			c.Objs = append(c.Objs, Obj{Oid: randOid(r), Size: int64(1 + r.Intn(5000)), Adds: 1})
		}
		c.AddOrder = nil
		for i := range c.Objs {
			c.AddOrder = append(c.AddOrder, i)
		}
		c.BatchSize = k + r.Intn(3)
		c.MaxRetries = 2 + r.Intn(2)
		c.MaxDelay = 1
		c.AddGapUs = 0
		c.Watchers = r.Intn(2)
		c.SlowWatch = false
		c.ObjBatch = map[string][]string{}
		c.ExtraUnknown = map[int]string{}
		c.BatchCalls = nil
		c.Adapter = map[string][]string{c.Objs[0].Oid: {"later:4"}}
		for i := 1; i < k; i++ {
			if i == 1 || r.Intn(2) == 0 {
				c.Adapter[c.Objs[i].Oid] = []string{"retry"}
			}
		}
	case "transfer-deferred-then-batch-deferred":
		// an object's transfer is deferred by Retry-After; the batch call that re-submits it is then itself
		// answered 429 with a (longer) Retry-After, which has to be honoured as well
		c.Upload = r.Intn(3) == 0
		c.Objs = c.Objs[:0]
		k := 1 + r.Intn(3)
		for i := 0; i < k; i++ {
			c.Objs = append(c.Objs, Obj{Oid: randOid(r), Size: int64(1 + r.Intn(5000)), Adds: 1})
		}
		c.AddOrder = nil
		for i := range c.Objs {
			c.AddOrder = append(c.AddOrder, i)
		}
		c.BatchSize = k + r.Intn(2)
		c.MaxRetries = 3 + r.Intn(2)
		c.MaxDelay = []int{1, -1}[r.Intn(2)]
		c.AddGapUs = 0
		c.Watchers = r.Intn(2)
		c.SlowWatch = false
		c.ObjBatch = map[string][]string{}
		c.ExtraUnknown = map[int]string{}
		c.Adapter = map[string][]string{c.Objs[0].Oid: {"later:1"}}
		c.BatchCalls = []string{"ok", "429:2"}
		if r.Intn(3) == 0 {
			c.BatchCalls = []string{"ok", "429:2", "429:1"}
		}
	case "adapter-begin-error":
		c.BeginError = true
	case "dry-run":
		c.DryRun = true
	case "adapter-422":
		c.Adapter[victim] = []string{"422"}
	}
	c.Tags = []string{theme}
	if c.Upload {
		c.Tags = append(c.Tags, "upload")
	} else {
		c.Tags = append(c.Tags, "download")
	}
	return c
}

// Class summarises the quantifier coordinates a case hit.
func (c Case) Class() string {
	dup := "nodup"
	for _, o := range c.Objs {
		if o.Adds > 1 {
			dup = "dup"
		}
	}
	nb := "1obj"
	switch {
	case len(c.Objs) > 6:
		nb = "7+obj"
	case len(c.Objs) > 1:
		nb = "2-6obj"
	}
	bs := "bs<n"
	if c.BatchSize >= len(c.AddOrder) {
		bs = "bs>=n"
	}
	y := "noyield"
	if c.YieldPm > 0 {
		y = "yield"
	}
	return fmt.Sprintf("%s/%s/%s/%s/%s/r%d/w%d/%s", c.Tags[0], c.Tags[1], nb, dup, bs, c.MaxRetries, c.Watchers, y)
}
