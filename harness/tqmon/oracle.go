package tqmon

import (
	"fmt"
	"strings"
)

func (r *Record) add(sym, trig, format string, a ...any) {
	r.Violations = append(r.Violations, Violation{sym, trig, fmt.Sprintf(format, a...)})
}

func (r *Record) theme() string { return r.Case.Tags[0] }

// JudgeC06: termination + conservation (see DESIGN.md §5 C06).
func JudgeC06(r *Record) {
	c := r.Case
	if r.Inconclusive != "" {
		return
	}
	if r.Hung != "" {
		r.add("hang-"+r.Hung, r.theme(), "queue quiescent (no batch request, no adapter call in flight, no hook event for %v) but %s has not returned; adds returned %d/%d", QuietWindow, r.Hung, r.AddsReturned, r.AddsTotal)
		return
	}
	if r.WgMin < 0 {
		r.add("waitgroup-negative", r.theme(), "pending-transfer counter went to %d", r.WgMin)
	}
	if !r.WgAborted && r.WgFinal != 0 {
		r.add("waitgroup-nonzero-at-wait-return", r.theme(), "pending-transfer counter is %d after Wait returned", r.WgFinal)
	}
	for _, oid := range r.BadFiles {
		r.add("download-destination-not-the-object", r.theme(), "after Wait returned the destination file of %s holds other bytes", oid)
	}
	success := map[string]int{}
	for _, a := range r.Attempts {
		if a.Outcome == "ok" {
			success[a.Oid]++
		}
	}
	known := map[string]bool{}
	for _, o := range c.Objs {
		known[o.Oid] = true
	}
	// classify reported errors
	named := map[string]bool{}
	batchLevel := false
	for _, e := range r.Errors {
		hit := false
		for _, o := range c.Objs {
			if strings.Contains(e, o.Oid) || strings.Contains(e, "name-"+o.Oid[:12]) {
				named[o.Oid] = true
				hit = true
			}
		}
		if !hit && !strings.Contains(e, strings.Repeat("f", 60)) {
			batchLevel = true
		}
	}
	if r.WgAborted && len(r.Errors) > 0 {
		batchLevel = true // the queue was aborted by a reported fatal error
	}
	for w, dm := range r.Delivered {
		for oid := range dm {
			if !known[oid] {
				r.add("delivered-unknown-object", r.theme(), "watcher %d received %s which was never added", w, oid)
			}
		}
	}
	for _, o := range c.Objs {
		deliveredAll := len(r.Delivered) > 0
		deliveredAny := false
		for w, dm := range r.Delivered {
			n := dm[o.Oid]
			if n != 0 && n != o.Adds {
				r.add("delivery-count", r.theme(), "watcher %d received %s %d times, it was added %d times", w, o.Oid, n, o.Adds)
			}
			if n == 0 {
				deliveredAll = false
			} else {
				deliveredAny = true
			}
		}
		if deliveredAny && !deliveredAll {
			r.add("delivery-not-to-every-watcher", r.theme(), "%s delivered to some watchers only", o.Oid)
		}
		if deliveredAny && !c.DryRun && success[o.Oid] == 0 {
			r.add("delivered-without-transfer", r.theme(), "%s delivered but the adapter never completed it successfully", o.Oid)
		}
		transferred := success[o.Oid] > 0 || (c.DryRun && (deliveredAny || len(r.Delivered) == 0))
		if len(r.Delivered) > 0 {
			transferred = deliveredAll
		}
		if transferred {
			continue
		}
		if r.LastAnswer[o.Oid] == "noaction" {
			continue
		}
		if named[o.Oid] || batchLevel {
			continue
		}
		// last resort attribution for the signature: what happened to this object
		trig := r.theme()
		r.add("object-unaccounted", trig, "%s (added %d times) was neither delivered, nor declared needless by the server (last batch answer %q), nor covered by any of the %d reported errors %v", o.Oid, o.Adds, r.LastAnswer[o.Oid], len(r.Errors), trunc(r.Errors))
	}
}

func trunc(es []string) []string {
	var out []string
	for i, e := range es {
		if i >= 5 {
			out = append(out, "…")
			break
		}
		if len(e) > 160 {
			e = e[:160]
		}
		out = append(out, e)
	}
	return out
}

// SymWaitExceedsMax is the only symptom decided by an upper bound on elapsed time.
const SymWaitExceedsMax = "retry-wait-exceeds-max"

// SymExpiredActionUsedLate also rests on elapsed time (a correct client leaves itself 5 s between its check and the
// advertised expiry); it is confirmed by re-running the case like SymWaitExceedsMax.
const SymExpiredActionUsedLate = "action-used-after-advertised-expiry"

func timingSymptom(s string) bool { return s == SymWaitExceedsMax || s == SymExpiredActionUsedLate }

// JudgeC15: retry discipline (see DESIGN.md §5 C15).
func JudgeC15(r *Record) {
	c := r.Case
	if r.Inconclusive != "" || r.Hung != "" {
		return
	}
	byOid := map[string][]Attempt{}
	for _, a := range r.Attempts {
		byOid[a.Oid] = append(byOid[a.Oid], a)
	}
	for oid, as := range byOid {
		// order by begin stamp
		for i := 1; i < len(as); i++ {
			for j := i; j > 0 && as[j].Begin < as[j-1].Begin; j-- {
				as[j], as[j-1] = as[j-1], as[j]
			}
		}
		if len(as) > 1+c.MaxRetries {
			r.add("too-many-attempts", r.theme(), "%s attempted %d times with lfs.transfer.maxretries=%d", oid, len(as), c.MaxRetries)
		}
		for i, a := range as {
			if a.Overlap {
				r.add("overlapping-attempts", r.theme(), "two transfers of %s in progress at once", oid)
			}
			if i == 0 {
				continue
			}
			p := as[i-1]
			if a.Begin < p.End {
				r.add("overlapping-attempts", r.theme(), "attempt %d of %s began before attempt %d ended", i, oid, i-1)
			}
			switch {
			case p.Outcome == "fatal" || p.Outcome == "422":
				r.add("retried-after-non-retriable", r.theme(), "%s attempted again after outcome %q", oid, p.Outcome)
			case p.Outcome == "ok":
				r.add("retried-after-success", r.theme(), "%s attempted again after a successful transfer", oid)
			case p.Outcome == "retry" && r.theme() == "deferred-plus-backoff":
				// a plain retriable failure waits for its (scaled) back-off, which is capped by
				// lfs.transfer.maxretrydelay (1 s in this theme); 1.5 s of slack for a loaded machine. The
				// runner re-runs a case that trips this clause and keeps the verdict only if it repeats.
				if gap := a.Begin - p.End; gap > int64(c.MaxDelay)*1e9+15e8 {
					r.add(SymWaitExceedsMax, r.theme(), "%s failed retriably and was re-attempted only %.3fs later although lfs.transfer.maxretrydelay=%ds (another object of the round was deferred by Retry-After)", oid, float64(gap)/1e9, c.MaxDelay)
				}
			case strings.HasPrefix(p.Outcome, "later:"):
				var secs int64
				fmt.Sscanf(strings.TrimPrefix(p.Outcome, "later:"), "%d", &secs)
				// sound lower bound: End stamp was taken before the result was released
				if a.Begin-p.End < secs*1e9-5e6 {
					r.add("retry-after-not-honoured", r.theme(), "%s re-attempted %.3fs after a retry-later of %ds", oid, float64(a.Begin-p.End)/1e9, secs)
				}
			}
		}
	}
	// batch-level 429 Retry-After: next batch call naming the oid must not arrive early
	for i, bc := range r.BatchCalls {
		if !strings.HasPrefix(bc.Kind, "429:") {
			continue
		}
		var secs int64
		if _, err := fmt.Sscanf(strings.TrimPrefix(bc.Kind, "429:"), "%d", &secs); err != nil {
			continue
		}
		for _, nx := range r.BatchCalls[i+1:] {
			share := false
			for _, o := range nx.Oids {
				for _, p := range bc.Oids {
					if o == p {
						share = true
					}
				}
			}
			if share {
				if nx.Arrive-bc.Answer < secs*1e9-5e6 {
					r.add("retry-after-not-honoured", "batch-429", "batch re-requested %.3fs after 429 Retry-After %ds", float64(nx.Arrive-bc.Answer)/1e9, secs)
				}
				break
			}
		}
	}
	// computed back-off values never exceed the configured maximum
	maxDelay := int64(10)
	if c.MaxDelay >= 1 {
		maxDelay = int64(c.MaxDelay)
	}
	for _, b := range r.Backoffs {
		if b > maxDelay*1000 {
			r.add("backoff-exceeds-max", r.theme(), "computed wait %d ms with lfs.transfer.maxretrydelay=%d s", b, maxDelay)
		}
	}
	// an action that was issued already expired is never used
	for oid, as := range byOid {
		_ = as
		// find, for every attempt, the latest batch answer about oid before it began
		for _, a := range byOid[oid] {
			last := ""
			for _, bc := range r.BatchCalls {
				if bc.Answer < a.Begin {
					if h, ok := bc.Answers[oid]; ok {
						last = h
					}
				}
			}
			if strings.HasPrefix(last, "expired") {
				r.add("expired-action-used", r.theme(), "%s handed to the adapter although the latest batch answer carried an action that had already expired", oid)
			}
		}
	}
	// ... nor is an action used after the expiry the server advertised for it has passed (real adapters: the
	// storage request names the batch answer it belongs to; stamps taken by the server on one clock)
	for _, a := range r.Attempts {
		if a.LateNs > 0 {
			r.add(SymExpiredActionUsedLate, r.theme(), "storage request for %s used the action of batch answer %s %.1f s after its advertised expiry instead of re-requesting it", a.Oid, a.Token, float64(a.LateNs)/1e9)
		}
	}
	// tq-level batch submissions per object are bounded by the same budget
	for oid, n := range r.BatchObjEvts {
		if n > 1+c.MaxRetries {
			r.add("too-many-batch-submissions", r.theme(), "%s submitted to the batch API %d times with maxretries=%d", oid, n, c.MaxRetries)
		}
	}
}
