package tqmon

import (
	"bufio"
	"bytes"
	"encoding/json"
	"flag"
	"fmt"
	"os"
	"os/exec"
	"path/filepath"
	"regexp"
	"runtime"
	"strings"
	"sync"
	"time"

	"verif/harness/evid"
)

var (
	fChild = flag.Bool("child", false, "internal: run a slice of cases")
	fFrom  = flag.Int("from", 0, "")
	fTo    = flag.Int("to", 0, "")
	fOut   = flag.String("out", "", "")
	fSeed  = flag.Int64("cseed", 1, "")
	fCase  = flag.Int("case", -1, "run a single case index verbosely (debugging / replay)")
)

type line struct {
	Start *int    `json:"start,omitempty"`
	Rec   *Record `json:"rec,omitempty"`
}

type Config struct {
	ID       string
	Level    string
	Prof     string
	Judge    func(*Record)
	Quick    int
	Thorough int
	Rule     string
	Assume   []string
	PerChild int
	// Extra lets a driver append systematic cases after the random ones.
	Extra func(seed int64) []Case
}

func hasTimingViolation(r *Record) bool {
	for _, v := range r.Violations {
		if timingSymptom(v.Symptom) {
			return true
		}
	}
	return false
}

func childMain(cfg Config) {
	// scratch lives inside the parent's temporary directory, which the parent removes
	scratch, _ := os.MkdirTemp(filepath.Dir(*fOut), "scratch-")
	defer os.RemoveAll(scratch)
	out, err := os.OpenFile(*fOut, os.O_WRONLY|os.O_CREATE|os.O_APPEND, 0o644)
	if err != nil {
		fmt.Fprintln(os.Stderr, err)
		os.Exit(3)
	}
	w := bufio.NewWriter(out)
	var extra []Case
	for i := *fFrom; i < *fTo; i++ {
		var c Case
		if i >= 1_000_000 {
			if extra == nil && cfg.Extra != nil {
				extra = cfg.Extra(*fSeed)
			}
			c = extra[i-1_000_000]
			c.Index = i
		} else {
			c = Gen(*fSeed, i, cfg.Prof)
		}
		idx := i
		b, _ := json.Marshal(line{Start: &idx})
		w.Write(b)
		w.WriteByte('\n')
		w.Flush()
		rec := Run(c, scratch)
		cfg.Judge(rec)
		// a verdict that rests on elapsed time is kept only if it repeats in two further runs of the case
		for rerun := 0; rerun < 2 && hasTimingViolation(rec); rerun++ {
			again := Run(c, scratch)
			cfg.Judge(again)
			if !hasTimingViolation(again) {
				var keep []Violation
				for _, v := range rec.Violations {
					if !timingSymptom(v.Symptom) {
						keep = append(keep, v)
					}
				}
				rec.Violations = keep
				rec.TimingNoise++
			}
		}
		if len(rec.Violations) == 0 {
			rec.Stacks = ""
		}
		b, _ = json.Marshal(line{Rec: rec})
		w.Write(b)
		w.WriteByte('\n')
		w.Flush()
	}
	out.Close()
}

var panicRE = regexp.MustCompile(`(?m)^(panic: .*|fatal error: .*)$`)
var hexRE = regexp.MustCompile(`0x[0-9a-f]+|[0-9a-f]{64}`)

// Main is the entry point shared by the C06 and C15 drivers.
func Main(cfg Config) {
	flag.Parse()
	if *fChild {
		childMain(cfg)
		return
	}
	run := evid.New(cfg.ID, cfg.Level)
	run.Rule = cfg.Rule
	run.Assumptions = cfg.Assume
	if *fCase >= 0 {
		scratch, _ := os.MkdirTemp("", "verif-tqmon-")
		defer os.RemoveAll(scratch)
		c := Gen(run.Seed, *fCase, cfg.Prof)
		rec := Run(c, scratch)
		cfg.Judge(rec)
		b, _ := json.MarshalIndent(rec, "", " ")
		fmt.Println(string(b))
		return
	}
	total := run.N(cfg.Quick, cfg.Thorough)
	nExtra := 0
	if cfg.Extra != nil {
		nExtra = len(cfg.Extra(run.Seed))
	}
	per := cfg.PerChild
	if per == 0 {
		per = 50
	}
	type span struct{ from, to int }
	var spans []span
	for f := 0; f < total; f += per {
		t := f + per
		if t > total {
			t = total
		}
		spans = append(spans, span{f, t})
	}
	for f := 0; f < nExtra; f += per {
		t := f + per
		if t > nExtra {
			t = nExtra
		}
		spans = append(spans, span{1_000_000 + f, 1_000_000 + t})
	}
	tmp, _ := os.MkdirTemp("", "verif-"+cfg.ID+"-")
	defer os.RemoveAll(tmp)
	self, _ := os.Executable()
	workers := runtime.NumCPU() / 2
	if workers < 1 {
		workers = 1
	}
	sem := make(chan struct{}, workers)
	var wg sync.WaitGroup
	var mu sync.Mutex
	shapes := map[string]bool{}
	seenSig := map[string]bool{}
	report := func(rec *Record) {
		mu.Lock()
		defer mu.Unlock()
		c := rec.Case
		run.Case(c.Class(), map[string]any{"index": c.Index, "tags": c.Tags, "objects": len(c.Objs), "adds": len(c.AddOrder), "batch_size": c.BatchSize, "maxretries": c.MaxRetries, "batch_calls": c.BatchCalls, "object_answers": c.ObjBatch, "adapter_script": c.Adapter})
		run.Count("adapter_attempts", int64(len(rec.Attempts)))
		run.Count("batch_http_requests", int64(rec.HTTPBatchReqs))
		run.Count("errors_reported", int64(len(rec.Errors)))
		if rec.TimingNoise > 0 {
			run.Count("elapsed_time_verdicts_dropped_as_not_repeatable", int64(rec.TimingNoise))
		}
		if rec.RealFiles > 0 {
			run.Count("real_adapter_destination_files_checked", int64(rec.RealFiles))
		}
		for k, n := range rec.Events {
			run.Count("hook:"+k, int64(n))
		}
		for _, dm := range rec.Delivered {
			for _, n := range dm {
				run.Count("watch_deliveries", int64(n))
			}
		}
		shapes[rec.TraceShape] = true
		if rec.Inconclusive != "" {
			run.Inconclusive(fmt.Sprintf("case %d: %s", c.Index, rec.Inconclusive))
		}
		for _, v := range rec.Violations {
			key := v.Symptom + "/" + v.Trigger
			if seenSig[key] && run.Violations() > 10 {
				continue
			}
			seenSig[key] = true
			run.Violation(evid.Sig{Symptom: v.Symptom, Trigger: v.Trigger}, v.What, map[string]any{"case_index": c.Index, "seed": run.Seed, "what": v.What, "record": rec, "replay": fmt.Sprintf("VERIF_SEED=%d ./check %s --case %d", run.Seed, cfg.ID, c.Index)})
		}
	}
	for ci, sp := range spans {
		wg.Add(1)
		sem <- struct{}{}
		go func(ci int, sp span) {
			defer func() { <-sem; wg.Done() }()
			from := sp.from
			for from < sp.to {
				out := filepath.Join(tmp, fmt.Sprintf("child-%d-%d.jsonl", ci, from))
				cmd := exec.Command(self, "-child", "-from", fmt.Sprint(from), "-to", fmt.Sprint(sp.to), "-out", out, "-cseed", fmt.Sprint(run.Seed))
				gmp := []string{"16", "2", "1", "4"}[ci%4]
				cmd.Env = append(os.Environ(), "GOMAXPROCS="+gmp, "GORACE=halt_on_error=0 log_path="+filepath.Join(tmp, fmt.Sprintf("race-%d", ci)))
				var stderr bytes.Buffer
				cmd.Stderr = &stderr
				cmd.Stdout = &stderr
				err := cmd.Run()
				started := -1
				finished := -1
				if f, e := os.Open(out); e == nil {
					sc := bufio.NewScanner(f)
					sc.Buffer(make([]byte, 1<<20), 64<<20)
					for sc.Scan() {
						var l line
						if json.Unmarshal(sc.Bytes(), &l) != nil {
							continue
						}
						if l.Start != nil {
							started = *l.Start
						}
						if l.Rec != nil {
							finished = l.Rec.Case.Index
							report(l.Rec)
						}
					}
					f.Close()
				}
				if err == nil {
					break
				}
				if ee, ok := err.(*exec.ExitError); ok && ee.ExitCode() == 66 && started == finished {
					break // race detector's exit status after reports; reports are read from the log below
				}
				// child died: the case that was started but not finished is the culprit
				if started >= 0 && started != finished {
					var c Case
					if started >= 1_000_000 {
						c = cfg.Extra(run.Seed)[started-1_000_000]
						c.Index = started
					} else {
						c = Gen(run.Seed, started, cfg.Prof)
					}
					if panicInHarness(firstGoroutine(stderr.String())) {
						fmt.Fprintf(os.Stderr, "harness bug (panic with harness frames on the stack):\n%s\n", trimTail(stderr.String(), 4000))
						os.Exit(2)
					}
					msg := "child process died"
					if m := panicRE.FindString(stderr.String()); m != "" {
						msg = m
					}
					sym := "go-" + strings.SplitN(hexRE.ReplaceAllString(msg, "X"), "\n", 2)[0]
					sym = strings.ReplaceAll(strings.ReplaceAll(sym, " ", "-"), ":", "")
					mu.Lock()
					run.Case(c.Class(), nil)
					run.Violation(evid.Sig{Symptom: sym, Trigger: c.Tags[0]}, msg, map[string]any{"case_index": started, "seed": run.Seed, "case": c, "stderr": trimTail(stderr.String(), 6000), "replay": fmt.Sprintf("VERIF_SEED=%d ./check %s --case %d", run.Seed, cfg.ID, started)})
					mu.Unlock()
					from = started + 1
					continue
				}
				mu.Lock()
				run.Inconclusive(fmt.Sprintf("child %d failed without a started case: %v %s", ci, err, trimTail(stderr.String(), 500)))
				mu.Unlock()
				break
			}
		}(ci, sp)
	}
	wg.Wait()
	// race reports written by children
	races := 0
	var raceSamples []string
	files, _ := filepath.Glob(filepath.Join(tmp, "race-*"))
	dedup := map[string]bool{}
	for _, f := range files {
		b, _ := os.ReadFile(f)
		for _, blk := range strings.Split(string(b), "==================") {
			if !strings.Contains(blk, "WARNING: DATA RACE") {
				continue
			}
			races++
			key := raceKey(blk)
			if !dedup[key] {
				dedup[key] = true
				raceSamples = append(raceSamples, key)
				if strings.Contains(key, "git-lfs/v3/tq.") {
					run.Violation(evid.Sig{Symptom: "data-race", Trigger: key}, "race detector report touching package tq", map[string]any{"report": trimTail(blk, 8000)})
				}
			}
		}
	}
	run.Set("race_reports_raw", races)
	run.Set("race_reports_dedup", raceSamples)
	run.Set("distinct_hook_trace_shapes", len(shapes))
	_ = time.Now
	os.RemoveAll(tmp) // Finish ends the process; deferred calls would not run
	run.Finish()
}

var frameRE = regexp.MustCompile(`(?m)^\s+(github\.com/git-lfs/git-lfs/v3/[^\s(]+(?:\([^)]*\))?[^\s(]*)\(`)

// raceKey: outermost... we use the innermost git-lfs frame of each of the two stacks, line numbers stripped.
func raceKey(blk string) string {
	parts := strings.Split(blk, "\n\n")
	var keys []string
	for _, p := range parts {
		if strings.Contains(p, "Previous") || strings.Contains(p, "WARNING: DATA RACE") {
			if m := frameRE.FindStringSubmatch(p); m != nil {
				keys = append(keys, m[1])
			}
		}
		if len(keys) == 2 {
			break
		}
	}
	return strings.Join(keys, " vs ")
}

func trimTail(s string, n int) string {
	if len(s) <= n {
		return s
	}
	return s[:n/2] + "\n…\n" + s[len(s)-n/2:]
}

// firstGoroutine returns the stack of the goroutine that panicked.
func firstGoroutine(s string) string {
	i := strings.Index(s, "goroutine ")
	if i < 0 {
		return ""
	}
	s = s[i:]
	if j := strings.Index(s, "\n\n"); j >= 0 {
		s = s[:j]
	}
	return s
}

// panicInHarness: the first frame that is not Go runtime / sync belongs to the
// harness or to set-up code outside the packages under test.
func panicInHarness(g string) bool {
	for _, l := range strings.Split(g, "\n") {
		if l == "" || strings.HasPrefix(l, "\t") || strings.HasPrefix(l, "goroutine ") {
			continue
		}
		if strings.HasPrefix(l, "runtime.") || strings.HasPrefix(l, "sync.") || strings.HasPrefix(l, "panic(") || strings.HasPrefix(l, "internal/") || strings.HasPrefix(l, "runtime/") {
			continue
		}
		for _, pkg := range []string{"/v3/tq.", "/v3/lfsapi.", "/v3/lfshttp.", "/v3/errors.", "/v3/tools.", "/v3/verifhook."} {
			if strings.Contains(l, pkg) {
				return false
			}
		}
		return true
	}
	return false
}
