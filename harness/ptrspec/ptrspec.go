// Package ptrspec: pointer formatter / strict parser written from docs/spec.md only.
// It shares no code with lfs/pointer.go and is the oracle for pointer text.
package ptrspec

import (
	"regexp"
	"sort"
	"strconv"
	"strings"
)

const Version = "https://git-lfs.github.com/spec/v1"
const EmptyOid = "e3b0c44298fc1c149afbf4c8996fb92427ae41e4649b934ca495991b7852b855"

type Ext struct {
	Priority int
	Name     string
	Oid      string
}

type Pointer struct {
	Oid  string
	Size int64
	Exts []Ext
}

// Canonical returns the unique canonical text: version line first, remaining
// keys sorted (ext-* < oid < size), one LF-terminated line per key. The empty
// file is the pointer of the empty file.
func Canonical(p Pointer) string {
	if p.Size == 0 {
		return ""
	}
	var sb strings.Builder
	sb.WriteString("version " + Version + "\n")
	exts := append([]Ext(nil), p.Exts...)
	sort.SliceStable(exts, func(i, j int) bool { return exts[i].Priority < exts[j].Priority })
	for _, e := range exts {
		sb.WriteString("ext-" + strconv.Itoa(e.Priority) + "-" + e.Name + " sha256:" + e.Oid + "\n")
	}
	sb.WriteString("oid sha256:" + p.Oid + "\n")
	sb.WriteString("size " + strconv.FormatInt(p.Size, 10) + "\n")
	return sb.String()
}

var (
	OidRE  = regexp.MustCompile(`^[0-9a-f]{64}$`)
	lineRE = regexp.MustCompile(`^([a-z0-9.\-]+) ([^\r\n]*)$`)
	extRE  = regexp.MustCompile(`^ext-([0-9])-(\w+)$`)
	sizeRE = regexp.MustCompile(`^(0|[1-9][0-9]*)$`)
)

// ParseCanonical accepts exactly the canonical form (and "" for the empty pointer).
func ParseCanonical(b []byte) (Pointer, bool) {
	s := string(b)
	if s == "" {
		return Pointer{Oid: EmptyOid, Size: 0}, true
	}
	if len(s) >= 1024 || !strings.HasSuffix(s, "\n") {
		return Pointer{}, false
	}
	lines := strings.Split(strings.TrimSuffix(s, "\n"), "\n")
	if len(lines) < 3 || lines[0] != "version "+Version {
		return Pointer{}, false
	}
	var p Pointer
	n := len(lines)
	last := -1
	for _, l := range lines[1 : n-2] {
		m := lineRE.FindStringSubmatch(l)
		if m == nil {
			return Pointer{}, false
		}
		em := extRE.FindStringSubmatch(m[1])
		if em == nil || !strings.HasPrefix(m[2], "sha256:") || !OidRE.MatchString(m[2][7:]) {
			return Pointer{}, false
		}
		pr, _ := strconv.Atoi(em[1])
		if pr <= last {
			return Pointer{}, false
		}
		last = pr
		p.Exts = append(p.Exts, Ext{pr, em[2], m[2][7:]})
	}
	o := lines[n-2]
	if !strings.HasPrefix(o, "oid sha256:") || !OidRE.MatchString(o[11:]) {
		return Pointer{}, false
	}
	p.Oid = o[11:]
	z := lines[n-1]
	if !strings.HasPrefix(z, "size ") || !sizeRE.MatchString(z[5:]) {
		return Pointer{}, false
	}
	v, err := strconv.ParseInt(z[5:], 10, 64)
	if err != nil || v <= 0 {
		return Pointer{}, false
	}
	p.Size = v
	if Canonical(p) != s {
		return Pointer{}, false
	}
	return p, true
}
