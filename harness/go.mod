module verif/harness

go 1.23.0

require (
	github.com/anishathalye/porcupine v1.3.0
	github.com/git-lfs/git-lfs/v3 v3.0.0
	github.com/xeipuuv/gojsonschema v0.0.0-20170210233622-6b67b3fab74d
	golang.org/x/sys v0.31.0
)

require (
	github.com/dpotapov/go-spnego v0.0.0-20210315154721-298b63a54430 // indirect
	github.com/git-lfs/gitobj/v2 v2.1.1 // indirect
	github.com/git-lfs/go-netrc v0.0.0-20250218165306-ba0029b43d11 // indirect
	github.com/git-lfs/pktline v0.0.0-20210330133718-06e9096e2825 // indirect
	github.com/git-lfs/wildmatch/v2 v2.0.1 // indirect
	github.com/hashicorp/go-uuid v1.0.2 // indirect
	github.com/jcmturner/aescts/v2 v2.0.0 // indirect
	github.com/jcmturner/dnsutils/v2 v2.0.0 // indirect
	github.com/jcmturner/gofork v1.0.0 // indirect
	github.com/jcmturner/goidentity/v6 v6.0.1 // indirect
	github.com/jcmturner/gokrb5/v8 v8.4.2 // indirect
	github.com/jcmturner/rpc/v2 v2.0.3 // indirect
	github.com/jmhodges/clock v1.2.0 // indirect
	github.com/leonelquinteros/gotext v1.5.0 // indirect
	github.com/mattn/go-isatty v0.0.4 // indirect
	github.com/olekukonko/ts v0.0.0-20171002115256-78ecb04241c0 // indirect
	github.com/pkg/errors v0.0.0-20170505043639-c605e284fe17 // indirect
	github.com/rubyist/tracerx v0.0.0-20170927163412-787959303086 // indirect
	github.com/ssgelm/cookiejarparser v1.0.1 // indirect
	github.com/xeipuuv/gojsonpointer v0.0.0-20180127040702-4e3ac2762d5f // indirect
	github.com/xeipuuv/gojsonreference v0.0.0-20180127040603-bd5ef7bd5415 // indirect
	golang.org/x/crypto v0.36.0 // indirect
	golang.org/x/net v0.38.0 // indirect
	golang.org/x/text v0.23.0 // indirect
)

replace github.com/git-lfs/git-lfs/v3 => /repo
