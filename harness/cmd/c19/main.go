// C19 — what `git lfs track` writes means to Git exactly what the user asked.
//
// Runtime monitor at process level. For every generated case a scratch
// repository (with an optional pre-existing .gitattributes) receives a sequence
// of 1..8 `git lfs track [--filename] [--lockable|--not-lockable]` / `git lfs
// untrack` commands, invoked from the root or from a sub-directory. After every
// command Git itself is asked (`git check-attr -a --stdin -z`) for the whole
// attribute table of a universe U of paths (paths need not exist), and the
// table is compared with an expectation that is derived from Git only:
//
//   - denotation of a pattern P typed in directory d: a *twin repository*
//     whose d/.gitattributes holds P in Git's C-quoted form ("..." with \\ \"
//     \t \NNN) followed by a probe attribute; D(P) = {u in U : probe is set}.
//     This uses Git's own matcher and is independent of git-lfs's escaping
//     ([[:space:]], \#, doubled backslashes).
//   - denotation of `--filename N` typed in d: must = {d/N}. Weakest reading
//     (written down because the statement says "exactly that literal path"):
//     a name without '/' is written as a gitattributes pattern without '/',
//     which Git applies to that basename in every directory below d; the man
//     page says "literal filenames", not "paths", so paths d/**/N are
//     tolerated either way (may-set, counted in the evidence) and only the
//     paths outside the may-set must stay untouched.
//   - frame: the table before the first command (S0, again from Git).
//
// Checked after every command (model state per argument: untouched / tracked /
// untracked, lockable yes / no / unknown):
//
//	u in must(A), A tracked   : filter=lfs diff=lfs merge=lfs text=unset;
//	                            lockable=set after --lockable; lockable as in S0 after
//	                            --not-lockable or a fresh plain track
//	u in must(A), A untracked : filter(u) = S0.filter(u) (only the filter is demanded)
//	u in must(A), A untouched : whole row = S0
//	u outside every may-set   : whole row (all attributes Git reports) = S0
//	identical track repeated  : .gitattributes byte-identical to the file after the first one
//	git-lfs must not die with a Go panic
//
// Paths lying in the may-sets of two arguments of one case are not judged
// (the order of lines would decide, which the statement does not fix); they
// are counted. Rows are compared through check-attr, never through bytes, so
// the blank-line / CR normalisation git-lfs applies to the old file is not
// flagged; bytes are only compared for the idempotence clause.
//
// Indexed-state cases (15 %): a few files of U and every pre-existing .gitattributes are
// staged (half of them committed) with LFS filters off, and either one staged file that the
// new pattern matches is deleted from the work tree, or the new pattern matches the staged
// .gitattributes/.gitignore. `git lfs track` then ends on one of its error exits (exit 2
// "Error marking ... modified", exit 1 "matches forbidden file"). A non-zero exit is
// legitimate there. Weakest reading for the arguments of such a command: every path they
// denote either shows the complete LFS row (the pattern was written all the same) or its row
// is exactly what it was before the command (nothing was written); the arguments stay
// unjudged until a later command on them exits 0. The frame check is unchanged: whatever the
// exit status, no other (pattern, path) assignment may change.
//
// How the working directory is reached (one third of the cases, and every focus case in all
// four variants): the physical path (no PWD, as a plain exec gives it), or a logical path
// through a directory symlink that points to the repository's parent, to the repository or
// to the parent of the invocation directory, with PWD = that logical path as a shell would
// set it after `cd`. The directory is the same one in every variant, so nothing in the
// expectations depends on it; only the `git lfs` commands see the logical path, every oracle
// query (check-attr, reading .gitattributes) goes through the physical one. That the child
// really sees the logical path is checked per case with `pwd -L` (POSIX: PWD is used iff it
// names the current directory, the same rule Go's os.Getwd applies).
//
// "Re-running track with the same argument changes nothing" is read as: a plain `git lfs
// track A` (no lockable option) whose arguments are all tracked already changes no
// .gitattributes file. "Tracked already" is decided without git-lfs: an earlier command of
// this sequence that exited 0 tracked A and none untracked it since, or (parent-covers
// cases) the pre-existing top-level file holds the LFS line "d/P" for the pattern P typed in
// d and Git confirms the complete LFS row for every path P denotes before the first command.
// Compared: the bytes of every .gitattributes of the work tree. Tolerated and counted: a
// difference in line endings / blank lines only, and a NEW EMPTY .gitattributes ("already
// supported" in a directory without one leaves an empty file behind; it assigns nothing).
// After `track --lockable A; track A` Git must still report lockable=set for A's paths.
//
// No wall clock is used by any oracle; the command watchdog is 5 minutes and a
// fired watchdog is "inconclusive".
package main

import (
	"bytes"
	"encoding/json"
	"flag"
	"fmt"
	"os"
	"path"
	"path/filepath"
	"runtime"
	"sort"
	"strconv"
	"strings"
	"sync"
	"time"

	"verif/harness/evid"
	"verif/harness/sbx"
)

type table map[string]map[string]string

func attrOf(t table, p, a string) string {
	if m, ok := t[p]; ok {
		if v, ok := m[a]; ok {
			return v
		}
	}
	return "unspecified"
}

// rowDiff returns the attributes whose value differs; n = number of values compared.
func rowDiff(a, b map[string]string) (diff []string, n int) {
	keys := map[string]bool{"filter": true, "diff": true, "merge": true, "text": true, "lockable": true}
	for k := range a {
		keys[k] = true
	}
	for k := range b {
		keys[k] = true
	}
	for k := range keys {
		n++
		va, oka := a[k]
		vb, okb := b[k]
		if !oka {
			va = "unspecified"
		}
		if !okb {
			vb = "unspecified"
		}
		if va != vb {
			diff = append(diff, fmt.Sprintf("%s: %s -> %s", k, va, vb))
		}
	}
	sort.Strings(diff)
	return
}

// cquote: Git's C-style quoting, accepted for patterns in .gitattributes.
func cquote(s string) string {
	var sb strings.Builder
	sb.WriteByte('"')
	for i := 0; i < len(s); i++ {
		c := s[i]
		switch {
		case c == '"':
			sb.WriteString("\\\"")
		case c == '\\':
			sb.WriteString("\\\\")
		case c == '\t':
			sb.WriteString("\\t")
		case c < 0x20 || c >= 0x7f:
			fmt.Fprintf(&sb, "\\%03o", c)
		default:
			sb.WriteByte(c)
		}
	}
	sb.WriteByte('"')
	return sb.String()
}

// shq renders an argument for the transcript so that it can be pasted into bash.
func shq(s string) string {
	plain := true
	for _, c := range []byte(s) {
		if !(c >= 'a' && c <= 'z' || c >= 'A' && c <= 'Z' || c >= '0' && c <= '9' || strings.IndexByte("_-./=", c) >= 0) {
			plain = false
		}
	}
	if plain && s != "" {
		return s
	}
	var sb strings.Builder
	sb.WriteString("$'")
	for _, c := range []byte(s) {
		switch {
		case c == '\'' || c == '\\':
			sb.WriteByte('\\')
			sb.WriteByte(c)
		case c == '\t':
			sb.WriteString("\\t")
		case c < 0x20 || c >= 0x7f:
			fmt.Fprintf(&sb, "\\x%02x", c)
		default:
			sb.WriteByte(c)
		}
	}
	sb.WriteString("'")
	return sb.String()
}

type violation struct {
	sig    evid.Sig
	what   string
	detail map[string]any
}

type result struct {
	c            Case
	counts       map[string]int64
	viols        []violation
	inconclusive string
}

func checkAttr(env *sbx.Env, repo string, paths []string, res *result) (table, string) {
	var in bytes.Buffer
	for _, p := range paths {
		in.WriteString(p)
		in.WriteByte(0)
	}
	r := env.GitIn(repo, in.Bytes(), "check-attr", "-a", "--stdin", "-z")
	res.counts["check_attr_calls"]++
	res.counts["check_attr_paths_queried"] += int64(len(paths))
	if r.TimedOut {
		return nil, "watchdog: git check-attr"
	}
	if !r.OK() {
		panic("git check-attr failed: " + r.String())
	}
	f := bytes.Split(r.Stdout, []byte{0})
	if len(f) > 0 && len(f[len(f)-1]) == 0 {
		f = f[:len(f)-1]
	}
	if len(f)%3 != 0 {
		panic("git check-attr -z: output is not a list of triples: " + r.String())
	}
	t := table{}
	for i := 0; i < len(f); i += 3 {
		p, a, v := string(f[i]), string(f[i+1]), string(f[i+2])
		if t[p] == nil {
			t[p] = map[string]string{}
		}
		t[p][a] = v
	}
	return t, ""
}

func unattributed(a Arg) string { return "unattributed:" + a.Mode + ":" + featClass(a) }

const (
	stUntouched = iota
	stTracked
	stUntracked
	stUnknown // after a command that exited non-zero in an indexed-state case
)
const (
	lkUnknown = iota
	lkYes
	lkNo
)

func runCase(c Case) (res result) {
	res.c = c
	res.counts = map[string]int64{}
	env := sbx.New()
	defer env.Cleanup()
	env.Timeout = 5 * time.Minute
	repo := env.InitRepo("r")
	twin := ""
	wd := repo
	if c.Dir != "" {
		wd = filepath.Join(repo, c.Dir)
		if err := os.MkdirAll(wd, 0o755); err != nil {
			panic(err)
		}
	}
	if c.PreRoot != nil {
		must(os.WriteFile(filepath.Join(repo, ".gitattributes"), []byte(*c.PreRoot), 0o644))
	}
	if c.PreDir != nil {
		must(os.WriteFile(filepath.Join(wd, ".gitattributes"), []byte(*c.PreDir), 0o644))
	}
	if c.Indexed != "" {
		res.counts["indexed_state_cases"]++
		for _, f := range c.IdxFiles {
			full := filepath.Join(repo, f)
			content := "x\n"
			if path.Base(f) == ".gitignore" {
				content = "*.tmp\n"
			}
			if _, err := os.Lstat(full); err == nil {
				continue
			}
			dotgit := false
			for _, comp := range strings.Split(f, "/") {
				if strings.EqualFold(comp, ".git") { // Git refuses to index ".git" in any letter case
					dotgit = true
				}
				// ... and, with core.protectNTFS / protectHFS (on by default), names that those file systems would
				// read as ".git": ".git" followed by a backslash, colon, dots or spaces, and "git~1"
				lc := strings.ToLower(comp)
				if strings.EqualFold(comp, "git~1") || (strings.HasPrefix(lc, ".git") && len(lc) > 4 && strings.ContainsRune("\\:. ", rune(lc[4]))) {
					dotgit = true
				}
			}
			if dotgit {
				res.counts["indexed_files_not_creatable"]++
				continue
			}
			if os.MkdirAll(filepath.Dir(full), 0o755) != nil || os.WriteFile(full, []byte(content), 0o644) != nil {
				res.counts["indexed_files_not_creatable"]++ // e.g. a path that is a directory of another one
				if f == c.Victim {
					res.counts["indexed_victim_not_creatable"]++
				}
				continue
			}
			res.counts["indexed_files_staged"]++
		}
		if r := env.PlainGit(repo, "add", "-A"); !r.OK() {
			panic("git add failed: " + r.String())
		}
		if c.Commit {
			if r := env.PlainGit(repo, "commit", "-q", "-m", "initial"); !r.OK() {
				panic("git commit failed: " + r.String())
			}
			res.counts["indexed_state_committed"]++
		}
		if c.Victim != "" {
			if os.Remove(filepath.Join(repo, c.Victim)) == nil {
				res.counts["indexed_files_deleted_from_worktree"]++
			}
		}
		if c.PreRoot != nil && len(*c.PreRoot) > 4096 || c.PreDir != nil && len(*c.PreDir) > 4096 {
			res.counts["indexed_state_gitattributes_over_4k"]++
		}
	}
	// ---- how the working directory is reached ------------------------------------
	cwdKind := c.Cwd
	if cwdKind == "" {
		cwdKind = cwdPhysical
	}
	logical, setup := wd, "cd <repo>/"+shq(c.Dir)
	if cwdKind != cwdPhysical {
		lnk := filepath.Join(env.Dir("lnk"), "L")
		target := ""
		switch cwdKind {
		case cwdRepoParent:
			target, logical = env.Root, filepath.Join(lnk, "r", c.Dir)
			setup = "ln -s <parent of repo> <L>; cd <L>/r/" + shq(c.Dir)
		case cwdRepo:
			target, logical = repo, filepath.Join(lnk, c.Dir)
			setup = "ln -s <repo> <L>; cd <L>/" + shq(c.Dir)
		case cwdSubParent:
			if !strings.Contains(c.Dir, "/") {
				panic("cwd kind " + cwdKind + " needs a nested invocation directory, got " + strconv.Quote(c.Dir))
			}
			target, logical = filepath.Join(repo, path.Dir(c.Dir)), filepath.Join(lnk, path.Base(c.Dir))
			setup = "ln -s <repo>/" + shq(path.Dir(c.Dir)) + " <L>; cd <L>/" + shq(path.Base(c.Dir))
		default:
			panic("unknown cwd kind " + cwdKind)
		}
		must(os.Symlink(target, lnk))
		setup += "   # <L> outside the repository; PWD = this logical path"
	}
	cwdOpt := sbx.RunOpt{Dir: logical}
	if cwdKind != cwdPhysical {
		cwdOpt.Env = []string{"PWD=" + logical}
		// the child must see the logical path, and it must be the same directory
		pr := env.Run(cwdOpt, "/bin/sh", "-c", "pwd -L; pwd -P")
		want := logical + "\n" + wd + "\n"
		if rw, err := filepath.EvalSymlinks(wd); err == nil {
			want = logical + "\n" + rw + "\n"
		}
		if !pr.OK() || string(pr.Stdout) != want {
			panic("logical working directory not in force: want " + strconv.Quote(want) + " got " + pr.String())
		}
		res.counts["logical_cwd_confirmed_by_pwd_L"]++
	}
	res.counts["cases_cwd/"+cwdKind]++
	for _, a := range c.Args {
		if a.Spell != "" {
			where := "top-level"
			if c.Dir != "" {
				where = "subdir"
			}
			res.counts["args_spelled/"+a.Spell+"/"+a.Mode+"/"+where]++
		}
	}

	// ---- how the repository is addressed, where the process starts ---------------------
	// Directories outside the work tree exist in every case (they are snapshotted after every
	// command: no .gitattributes may appear or change outside the work tree).
	gitDir := filepath.Join(repo, ".git")
	outside := map[string]string{
		startUnrelated: env.Dir("elsewhere/x"),
		startParent:    env.Root,
	}
	for _, sfx := range lookSuffixes {
		must(os.MkdirAll(repo+sfx, 0o755))
	}
	lfsPrefix := []string{"git-lfs"} // program and leading arguments of every command under test
	lfsShown := "git lfs"
	if c.Addr != "" {
		if cwdKind != cwdPhysical {
			panic("addressing cases use the physical path")
		}
		start := wd
		switch c.Start {
		case startRoot, startSub:
		case startUnrelated, startParent:
			start = outside[c.Start]
		case startLookalike:
			start = repo + c.Look
		default:
			panic("unknown start " + c.Start)
		}
		if (c.Start == startSub) != (c.Dir != "") {
			panic("addressing case: start " + c.Start + " with invocation directory " + strconv.Quote(c.Dir))
		}
		if c.OutPre && start != wd {
			must(os.WriteFile(filepath.Join(start, ".gitattributes"), []byte("# not part of the repository\n*.txt text\n*.bin -diff\n"), 0o644))
			res.counts["outside_gitattributes_preexisting"]++
		}
		cwdOpt = sbx.RunOpt{Dir: start}
		where := map[string]string{startRoot: "<W>", startSub: "<W>/" + shq(c.Dir), startUnrelated: "<elsewhere>/x", startParent: "<parent of W>", startLookalike: "<W>" + c.Look}[c.Start]
		switch c.Addr {
		case addrEnv:
			cwdOpt.Env = []string{"GIT_DIR=" + gitDir, "GIT_WORK_TREE=" + repo}
			setup = "cd " + where + "; export GIT_DIR=<W>/.git GIT_WORK_TREE=<W>"
		case addrGitOpts:
			lfsPrefix = []string{"git", "--work-tree=" + repo, "--git-dir=" + gitDir, "lfs"}
			lfsShown = "git --work-tree=<W> --git-dir=<W>/.git lfs"
			setup = "cd " + where
		case addrCoreWT:
			if r := env.Git(repo, "config", "core.worktree", repo); !r.OK() {
				panic("git config core.worktree failed: " + r.String())
			}
			cwdOpt.Env = []string{"GIT_DIR=" + gitDir}
			setup = "git -C <W> config core.worktree <W>; cd " + where + "; export GIT_DIR=<W>/.git"
		default:
			panic("unknown addressing " + c.Addr)
		}
		setup += "   # <W> = work tree (absolute path), created with git init <W>"
		res.counts["cases_addr/"+c.Addr+"/"+c.Start]++
	}
	outsideSnap := func() map[string][]byte { // every .gitattributes below the scratch root that is not in the work tree (or the twin)
		m := map[string][]byte{}
		filepath.Walk(env.Root, func(p string, fi os.FileInfo, err error) error {
			if err != nil {
				return nil
			}
			if fi.IsDir() {
				if p == repo || (twin != "" && p == twin) || p == filepath.Join(env.Root, "t") {
					return filepath.SkipDir
				}
				return nil
			}
			if fi.Name() == ".gitattributes" {
				b, _ := os.ReadFile(p)
				rel, _ := filepath.Rel(env.Root, p)
				m[rel] = b
			}
			return nil
		})
		return m
	}
	// Trigger of a violation without an argument-intrinsic known coordinate
	unattr := func(a Arg) string {
		if a.Spell != "" {
			return spellTrigger(a.Spell)
		}
		if c.Addr != "" {
			return addrTrigger(c.Start)
		}
		if cwdKind != cwdPhysical {
			return cwdTrigger(cwdKind)
		}
		return unattributed(a)
	}
	frameTrig := "unattributed:frame"
	if cwdKind != cwdPhysical {
		frameTrig = cwdTrigger(cwdKind)
	}
	if c.Addr != "" {
		frameTrig = addrTrigger(c.Start)
	}
	// Trigger of a violation on the paths of argument ai: the multi-argument coordinate of the
	// last command that named it, if any (assigned in the step loop)
	var argMulti []string
	argTrig := func(ai int) string {
		if c.Args[ai].Spell != "" {
			return spellTrigger(c.Args[ai].Spell)
		}
		if ai < len(argMulti) && argMulti[ai] != "" {
			return argMulti[ai]
		}
		return unattr(c.Args[ai])
	}
	// Trigger for the re-track clauses: intrinsic coordinates of the arguments first
	retrackTrig := func(args []int) string {
		for _, ai := range args {
			if needsAttrEscape(c.Args[ai]) {
				return trigNeedsEsc
			}
		}
		for _, a := range c.Args { // whichever argument: its line sits in the same file
			if loneLeadingDquote(a) {
				return trigLoneDquote
			}
		}
		for _, ai := range args {
			if anchoredAtTop(c, c.Args[ai]) {
				return trigAnchoredTop
			}
		}
		for _, ai := range args {
			if c.Args[ai].Spell != "" {
				return spellTrigger(c.Args[ai].Spell)
			}
		}
		return unattr(c.Args[args[0]])
	}
	attrFile := filepath.Join(wd, ".gitattributes")
	inDir := func(rel string) string {
		if c.Dir == "" {
			return rel
		}
		return c.Dir + "/" + rel
	}

	// ---- denotations -------------------------------------------------------
	n := len(c.Args)
	mustSet := make([]map[string]bool, n)
	maySet := make([]map[string]bool, n)
	var probe strings.Builder
	for i, a := range c.Args {
		mustSet[i], maySet[i] = map[string]bool{}, map[string]bool{}
		if a.Mode == "pattern" {
			fmt.Fprintf(&probe, "%s c19probe%d\n", cquote(a.Text), i)
		}
	}
	if probe.Len() > 0 {
		twin = env.InitRepo("t")
		td := twin
		if c.Dir != "" {
			td = filepath.Join(twin, c.Dir)
			must(os.MkdirAll(td, 0o755))
		}
		must(os.WriteFile(filepath.Join(td, ".gitattributes"), []byte(probe.String()), 0o644))
		tt, inc := checkAttr(env, twin, c.U, &res)
		if inc != "" {
			res.inconclusive = inc
			return
		}
		for i, a := range c.Args {
			if a.Mode != "pattern" {
				continue
			}
			for _, u := range c.U {
				if attrOf(tt, u, fmt.Sprintf("c19probe%d", i)) == "set" {
					mustSet[i][u] = true
					maySet[i][u] = true
				}
			}
			res.counts["pattern_denotation_paths"] += int64(len(mustSet[i]))
			if len(mustSet[i]) == 0 {
				res.counts["pattern_denotes_nothing_in_U"]++
			}
			if len(mustSet[i]) == len(c.U) {
				res.counts["pattern_denotes_all_of_U"]++
			}
		}
	}
	for i, a := range c.Args {
		if a.Mode != "filename" {
			continue
		}
		full := inDir(a.Text)
		mustSet[i][full] = true
		maySet[i][full] = true
		if !strings.Contains(a.Text, "/") {
			for _, u := range c.U {
				if (c.Dir == "" || strings.HasPrefix(u, c.Dir+"/")) && path.Base(u) == a.Text {
					maySet[i][u] = true
				}
			}
		}
	}
	owners := map[string]int{}
	for i := range c.Args {
		for u := range maySet[i] {
			owners[u]++
		}
	}

	// shadow: TAB variants of a path denoted by an argument that contains a space. git-lfs
	// writes the space as [[:space:]] (known over-match, reported by the frame check below
	// when nobody else denotes the path); when such a path is denoted by ANOTHER argument the
	// two lines overlap and the path is not judged, like any other contested path.
	shadow := map[string]bool{}
	for i, a := range c.Args {
		if !strings.Contains(a.Text, " ") {
			continue
		}
		for _, u := range c.U {
			if strings.Contains(u, "\t") && !maySet[i][u] && maySet[i][strings.ReplaceAll(u, "\t", " ")] {
				shadow[u] = true
			}
		}
	}

	// ---- frame -------------------------------------------------------------
	s0, inc := checkAttr(env, repo, c.U, &res)
	if inc != "" {
		res.inconclusive = inc
		return
	}
	for _, u := range c.U {
		if len(s0[u]) > 0 {
			res.counts["frame_paths_with_preexisting_attrs"]++
		}
	}

	// parent-covers: the top-level file is said to hold the LFS line for <dir>/<pattern>; Git
	// must confirm the complete LFS row for every denoted path before the first command
	precovered := make([]bool, n)
	for i, a := range c.Args {
		if !strings.HasPrefix(a.Own, "parent-covers") {
			continue
		}
		ok := len(mustSet[i]) > 0
		for u := range mustSet[i] {
			if !(attrOf(s0, u, "filter") == "lfs" && attrOf(s0, u, "diff") == "lfs" && attrOf(s0, u, "merge") == "lfs" && attrOf(s0, u, "text") == "unset") {
				ok = false
			}
			if a.Own == "parent-covers-lockable" && attrOf(s0, u, "lockable") != "set" {
				ok = false
			}
		}
		precovered[i] = ok
		if ok {
			res.counts["precovered_premise_confirmed_by_git"]++
			res.counts["precovered_denoted_paths"] += int64(len(mustSet[i]))
		} else {
			res.counts["precovered_premise_not_confirmed_by_git"]++
		}
	}

	st := make([]int, n)
	lk := make([]int, n)
	argMulti = make([]string, n) // multi-argument coordinate of the last command that named the argument
	desync := make([]bool, n)
	replain := make([]bool, n) // plain track just re-ran on a tracked+lockable argument
	everSpace := false
	var transcript []string
	transcript = append(transcript, setup)
	seen := map[string]bool{}
	var lastOut sbx.Result
	report := func(k int, sig evid.Sig, what string, extra map[string]any) {
		res.counts["violations_observed_total"]++
		key := sig.String()
		if seen[key] {
			return
		}
		seen[key] = true
		ga, _ := os.ReadFile(attrFile)
		d := map[string]any{
			"case": c, "step_index": k, "transcript": append([]string{}, transcript...),
			"gitattributes_after": string(ga), "gitattributes_after_quoted": strconv.Quote(string(ga)),
			"git_lfs_stdout": string(lastOut.Stdout), "git_lfs_stderr": sbx.Trunc(lastOut.Stderr, 2000),
			"replay_hint": "regenerate with VERIF_SEED=<seed> and case_index; or paste the transcript into a scratch repository holding the pre-existing files",
		}
		for kk, v := range extra {
			d[kk] = v
		}
		res.viols = append(res.viols, violation{sig, what, d})
	}

	prevAfter, perr := os.ReadFile(attrFile)
	prevExists := perr == nil
	prevSnap := snapAttrFiles(repo)
	outPrev := outsideSnap()
	prevT := s0   // table after the previous command
	errTrig := "" // sticky: an indexed-state command has exited non-zero earlier in this sequence
	for k, step := range c.Steps {
		res.counts["steps_"+step.Op]++
		mode := c.Args[step.Args[0]].Mode
		// ---- multi-argument coordinates (from the model's state before the command) ----
		for _, ai := range step.Args {
			argMulti[ai] = ""
		}
		if len(step.Args) > 1 {
			res.counts["multi_arg_commands"]++
			res.counts["multi_arg_commands/"+step.Op]++
			res.counts[fmt.Sprintf("multi_arg_commands_with_%d_args", len(step.Args))]++
			res.counts["multi_arg_commands_cwd/"+cwdKind]++
			if c.Dir == "" {
				res.counts["multi_arg_commands_from_top_level"]++
			} else {
				res.counts["multi_arg_commands_from_subdir"]++
			}
			if step.Op == "untrack" {
				for _, ai := range step.Args {
					argMulti[ai] = trigMultiUntrack
				}
			} else {
				knownSeen, hit := false, false
				for _, ai := range step.Args {
					before := knownSeen
					known := st[ai] == stTracked && (step.Op == "track" || step.Op == "track-lockable" && lk[ai] == lkYes || step.Op == "track-not-lockable" && lk[ai] == lkNo)
					switch {
					case known:
						res.counts["multi_arg_args_known"]++
						knownSeen = true
					case st[ai] == stTracked && lk[ai] == lkUnknown && step.Op != "track":
						// the model does not know the lockable state (e.g. after a plain re-track
						// of a lockable argument): git-lfs may well find it "already supported"
						res.counts["multi_arg_args_tracked_lockable_state_unknown"]++
						knownSeen = true
					case st[ai] == stTracked:
						res.counts["multi_arg_args_tracked_other_lockable_state"]++
					default:
						res.counts["multi_arg_args_new"]++
					}
					if !known && before {
						argMulti[ai] = trigMultiKnownFirst
						hit = true
					}
				}
				if hit {
					res.counts["multi_arg_commands_known_before_new"]++
					res.counts["multi_arg_commands_known_before_new/"+step.Op]++
				}
			}
		}
		var argv []string
		if step.Op == "untrack" {
			argv = []string{"untrack"}
		} else {
			argv = []string{"track"}
			if mode == "filename" {
				argv = append(argv, "--filename")
			}
			switch step.Op {
			case "track-lockable":
				argv = append(argv, "--lockable")
			case "track-not-lockable":
				argv = append(argv, "--not-lockable")
			}
		}
		line := lfsShown + " " + strings.Join(argv, " ")
		for _, ai := range step.Args {
			argv = append(argv, typed(c.Args[ai]))
			line += " " + shq(typed(c.Args[ai]))
			if sp := c.Args[ai].Spell; sp != "" {
				where := "top-level"
				if c.Dir != "" {
					where = "subdir"
				}
				res.counts["spelled_args_on_command_lines/"+sp+"/"+c.Args[ai].Mode+"/"+where+"/"+step.Op]++
			}
			if strings.Contains(c.Args[ai].Text, " ") {
				everSpace = true
			}
		}
		transcript = append(transcript, line)
		out := env.Run(cwdOpt, lfsPrefix[0], append(append([]string{}, lfsPrefix[1:]...), argv...)...)
		lastOut = out
		res.counts["git_lfs_commands"]++
		if c.Addr != "" {
			res.counts["git_lfs_commands_addr/"+c.Addr+"/"+c.Start]++
		}
		res.counts["git_lfs_commands_cwd/"+cwdKind]++
		if out.TimedOut {
			res.inconclusive = "watchdog: " + line
			return
		}
		if !out.OK() {
			res.counts["git_lfs_nonzero_exit"]++
		}
		errExit := c.Indexed != "" && !out.OK()
		if errExit {
			if errTrig == "" {
				res.counts["error_exit_cases/"+c.Indexed]++ // cases that reached an error exit at least once
			}
			errTrig = "track-error-exit/" + c.Indexed
			res.counts[fmt.Sprintf("error_exit_steps_code%d", out.Code)]++
			res.counts["error_exit_steps/"+c.Indexed]++
			// what git-lfs said (evidence only, never used by the oracle)
			switch {
			case bytes.Contains(out.Stdout, []byte("matches forbidden file")) || bytes.Contains(out.Stderr, []byte("matches forbidden file")):
				res.counts["error_exit_said_forbidden_file"]++
			case bytes.Contains(out.Stdout, []byte("Error marking")) || bytes.Contains(out.Stderr, []byte("Error marking")):
				res.counts["error_exit_said_error_marking_modified"]++
			default:
				res.counts["error_exit_said_other"]++
			}
			if len(prevAfter) > 4096 {
				res.counts["error_exit_steps_over_4k_gitattributes"]++
			}
		}
		if out.GoCrash() {
			report(k, evid.Sig{Symptom: "go-panic", Trigger: step.Op + ":" + unattr(c.Args[step.Args[0]])}, "git-lfs died with a Go panic: "+line, map[string]any{"stderr": sbx.Trunc(out.Stderr, 4000)})
		}
		after, err := os.ReadFile(attrFile)
		exists := err == nil
		snap := snapAttrFiles(repo)
		attrRel := ".gitattributes"
		if c.Dir != "" {
			attrRel = c.Dir + "/.gitattributes"
		}
		identicalRepeat := k > 0 && step.Op != "untrack" && step.same(c.Steps[k-1])

		// ---- idempotence of an identical, immediately repeated track ---------
		if identicalRepeat {
			res.counts["idempotence_checks"]++
			res.counts["idempotence_bytes_compared"] += int64(len(after))
			if exists == prevExists && !bytes.Equal(after, prevAfter) && sameLines(after, prevAfter) {
				// Only line endings / blank lines differ (seen when git-lfs cannot parse its own
				// line for a name with a leading '"' and then falls back to LF for a CRLF file).
				// No assignment and no line changes; the statement is about what Git reads, so
				// this is recorded, not flagged.
				res.counts["observed_retrack_changed_only_line_endings"]++
			} else if exists != prevExists || !bytes.Equal(after, prevAfter) {
				trig := ""
				for _, ai := range step.Args {
					if needsAttrEscape(c.Args[ai]) {
						trig = trigNeedsEsc
					}
				}
				for _, ai := range step.Args {
					if trig == "" && c.Args[ai].Spell != "" {
						trig = spellTrigger(c.Args[ai].Spell)
					}
				}
				if trig == "" {
					trig = unattr(c.Args[step.Args[0]])
				}
				report(k, evid.Sig{Symptom: "retrack-not-idempotent", Trigger: trig},
					fmt.Sprintf("second identical `%s` changed .gitattributes (%d -> %d bytes)", line, len(prevAfter), len(after)),
					map[string]any{"gitattributes_before_second_quoted": strconv.Quote(string(prevAfter))})
			}
			// ... and every OTHER .gitattributes of the work tree: byte-identical, none appeared with content
			ds := diffSnaps(prevSnap, snap)
			res.counts["idempotence_files_compared"] += int64(len(snap))
			for _, d := range ds {
				if d.rel == attrRel {
					continue // judged just above
				}
				switch d.kind {
				case "created-empty":
					res.counts["observed_retrack_created_empty_gitattributes"]++
				case "eol-only":
					res.counts["observed_retrack_changed_only_line_endings"]++
				default:
					report(k, evid.Sig{Symptom: "retrack-not-idempotent", Trigger: retrackTrig(step.Args)},
						fmt.Sprintf("second identical `%s`: %s %s", line, d.rel, d.kind),
						map[string]any{"file": d.rel, "before_quoted": strconv.Quote(string(d.before)), "after_quoted": strconv.Quote(string(d.after))})
				}
			}
		}

		// ---- nothing is written outside the work tree ---------------------------------------
		outNow := outsideSnap()
		res.counts["outside_snapshots_compared"]++
		res.counts["outside_gitattributes_files_compared"] += int64(len(outNow))
		for _, d := range diffSnaps(outPrev, outNow) {
			report(k, evid.Sig{Symptom: "wrote-outside-worktree", Trigger: unattr(c.Args[step.Args[0]])},
				fmt.Sprintf("`%s` (step %d): %s outside the work tree %s (%d -> %d bytes)", line, k+1, d.rel, d.kind, len(d.before), len(d.after)),
				map[string]any{"file_relative_to_scratch_root": d.rel, "before_quoted": strconv.Quote(string(d.before)), "after_quoted": strconv.Quote(string(d.after))})
		}
		outPrev = outNow

		// ---- plain `track A` while every argument is tracked already changes no .gitattributes -----
		// (the identical repetition is judged above; this is `track A` after `track --lockable A`,
		// after `--not-lockable A`, after `track B`, ..., or the first `track P` of a parent-covers case)
		if step.Op == "track" && !identicalRepeat && !errExit {
			established, skipped := true, false
			for _, ai := range step.Args {
				switch {
				case desync[ai]:
					skipped = true
				case st[ai] == stTracked:
				case st[ai] == stUntouched && precovered[ai]:
				default:
					established = false
				}
			}
			if established && skipped {
				res.counts["retrack_checks_skipped_after_violation"]++
			} else if established {
				res.counts["retrack_of_tracked_checks"]++
				res.counts["retrack_of_tracked_checks_cwd/"+cwdKind]++
				for _, ai := range step.Args {
					if st[ai] == stUntouched && precovered[ai] {
						res.counts["retrack_of_precovered_checks"]++
					}
				}
				res.counts["retrack_of_tracked_files_compared"] += int64(len(snap))
				for _, f := range snap {
					res.counts["retrack_of_tracked_bytes_compared"] += int64(len(f))
				}
				for _, d := range diffSnaps(prevSnap, snap) {
					switch d.kind {
					case "created-empty":
						// pristine quirk: "already supported" still opens ./.gitattributes with O_CREATE.
						// An empty file assigns nothing: counted, not judged.
						res.counts["observed_already_supported_created_empty_gitattributes"]++
					case "eol-only":
						res.counts["observed_retrack_changed_only_line_endings"]++
					default:
						report(k, evid.Sig{Symptom: "retrack-not-idempotent", Trigger: retrackTrig(step.Args)},
							fmt.Sprintf("`%s` (step %d) re-tracks what is tracked already, but %s %s (%d -> %d bytes)", line, k+1, d.rel, d.kind, len(d.before), len(d.after)),
							map[string]any{"file": d.rel, "before_quoted": strconv.Quote(string(d.before)), "after_quoted": strconv.Quote(string(d.after))})
					}
				}
			}
		}
		prevAfter, prevExists = after, exists
		prevSnap = snap

		// ---- model -------------------------------------------------------------
		for _, ai := range step.Args {
			a := c.Args[ai]
			if errExit {
				st[ai], lk[ai] = stUnknown, lkUnknown
				continue
			}
			if st[ai] == stUnknown && step.Op == "track" {
				st[ai], lk[ai] = stTracked, lkUnknown // the failed command may or may not have written a line
				continue
			}
			switch step.Op {
			case "track":
				if st[ai] == stTracked && lk[ai] == lkYes {
					// Plain re-track of an argument that `--lockable` made lockable: re-running track
					// with the same argument changes nothing, so lockable must stay set. Judged in
					// the replain block below under its own symptom (git-lfs keeps it for most
					// patterns but drops it for root-anchored "/x" patterns typed at the top
					// level: coordinate trigAnchoredTop); the model itself stays agnostic so that
					// the later lockable clauses are not a second report of the same thing.
					lk[ai] = lkUnknown
					replain[ai] = true
				}
				if st[ai] != stTracked {
					if st[ai] == stUntouched && a.Own == "k2-lockable" {
						lk[ai] = lkUnknown
					} else {
						lk[ai] = lkNo
					}
				}
				st[ai] = stTracked
			case "track-lockable":
				st[ai], lk[ai] = stTracked, lkYes
			case "track-not-lockable":
				st[ai], lk[ai] = stTracked, lkNo
				if a.Own == "k2-lockable" {
					lk[ai] = lkUnknown
				}
			case "untrack":
				if st[ai] != stUntouched {
					st[ai] = stUntracked
				}
				lk[ai] = lkUnknown
			}
		}

		t, inc := checkAttr(env, repo, c.U, &res)
		if inc != "" {
			res.inconclusive = inc
			return
		}

		// ---- paths denoted by an argument ----------------------------------------
		for ai, a := range c.Args {
			if desync[ai] {
				res.counts["arg_checks_skipped_after_violation"]++
				continue
			}
			var us []string
			for u := range mustSet[ai] {
				us = append(us, u)
			}
			sort.Strings(us)
			inStep := false
			for _, x := range step.Args {
				if x == ai {
					inStep = true
				}
			}
			if st[ai] == stUnknown {
				if !(errExit && inStep) {
					res.counts["arg_checks_skipped_state_unknown_after_error_exit"]++
					continue
				}
				// the command failed: complete LFS row, or nothing changed (contested paths included:
				// both alternatives are independent of the order of lines)
				for _, u := range us {
					res.counts["error_exit_denoted_paths_judged"]++
					row := t[u]
					d, nn := rowDiff(prevT[u], row)
					res.counts["attr_values_compared"] += int64(nn)
					full := attrOf(t, u, "filter") == "lfs" && attrOf(t, u, "diff") == "lfs" && attrOf(t, u, "merge") == "lfs" && attrOf(t, u, "text") == "unset"
					if len(d) > 0 && !full {
						report(k, evid.Sig{Symptom: "unrelated-changed", Trigger: errTrig},
							fmt.Sprintf("`%s` (step %d) exited %d; path %s neither shows the LFS row nor kept its row: %s", line, k+1, out.Code, strconv.Quote(u), strings.Join(d, "; ")),
							map[string]any{"path": u, "path_quoted": strconv.Quote(u), "row_after": row, "row_before_command": prevT[u], "argument": a, "exit_code": out.Code})
						break
					}
				}
				continue
			}
			for _, u := range us {
				if owners[u] > 1 || shadow[u] {
					res.counts["contested_paths_not_judged"]++
					continue
				}
				row := t[u]
				bad := func(sym, trig, what string) {
					desync[ai] = true
					report(k, evid.Sig{Symptom: sym, Trigger: trig}, fmt.Sprintf("after `%s` (step %d): path %s: %s", line, k+1, strconv.Quote(u), what),
						map[string]any{"path": u, "path_quoted": strconv.Quote(u), "row_after": row, "row_before_sequence": s0[u], "argument": a})
				}
				if replain[ai] {
					res.counts["observed_plain_retrack_of_lockable"]++
					if v := attrOf(t, u, "lockable"); v != "set" {
						res.counts["observed_plain_retrack_dropped_lockable"]++
						bad("lockable-dropped-by-plain-retrack", retrackTrig([]int{ai}), "lockable was set by --lockable; a plain re-track of the same argument left lockable="+v)
						break
					}
				}
				switch st[ai] {
				case stUntouched:
					d, nn := rowDiff(s0[u], row)
					res.counts["attr_values_compared"] += int64(nn)
					res.counts["must_paths_checked_untouched"]++
					if len(d) > 0 {
						bad("untouched-argument-changed", unattr(a), "argument not yet used, but its path changed: "+strings.Join(d, "; "))
					}
				case stTracked:
					res.counts["must_paths_checked_tracked"]++
					res.counts["attr_values_compared"] += 4
					nt := a.Hazard
					if nt == "" {
						nt = argTrig(ai)
					}
					if f := attrOf(t, u, "filter"); f != "lfs" {
						bad("not-tracked", nt, "denoted by the tracked argument but filter="+f)
						break
					}
					if attrOf(t, u, "diff") != "lfs" || attrOf(t, u, "merge") != "lfs" || attrOf(t, u, "text") != "unset" {
						bad("lfs-attrs-incomplete", nt, fmt.Sprintf("filter=lfs but diff=%s merge=%s text=%s", attrOf(t, u, "diff"), attrOf(t, u, "merge"), attrOf(t, u, "text")))
						break
					}
					lt := argTrig(ai)
					if strings.HasPrefix(a.Own, "parent-covers") {
						lt = trigParentCover
					}
					if needsAttrEscape(a) {
						lt = trigNeedsEsc
					}
					switch lk[ai] {
					case lkYes:
						res.counts["attr_values_compared"]++
						res.counts["lockable_set_checked"]++
						if v := attrOf(t, u, "lockable"); v != "set" {
							bad("lockable-not-set", lt, "--lockable was given but lockable="+v)
						}
					case lkNo:
						res.counts["attr_values_compared"]++
						res.counts["lockable_cleared_checked"]++
						if v, w := attrOf(t, u, "lockable"), attrOf(s0, u, "lockable"); v != w {
							bad("lockable-not-cleared", lt, fmt.Sprintf("lockable=%s although the argument's line should carry none (other patterns give %s)", v, w))
						}
					}
				case stUntracked:
					res.counts["must_paths_checked_untracked"]++
					res.counts["attr_values_compared"]++
					if v, w := attrOf(t, u, "filter"), attrOf(s0, u, "filter"); v != w {
						ut := argTrig(ai)
						if filenameHasGlob(a) {
							ut = trigUntrackGlob
						}
						sym := "still-tracked"
						if v != "lfs" {
							sym = "filter-changed-by-untrack"
						}
						bad(sym, ut, fmt.Sprintf("after untrack filter=%s, other patterns give %s", v, w))
					}
				}
			}
		}

		for ai := range replain {
			replain[ai] = false
		}

		// ---- everything else -----------------------------------------------------
		for _, u := range c.U {
			if owners[u] > 0 {
				if owners[u] == 1 {
					for ai := range c.Args {
						if maySet[ai][u] && !mustSet[ai][u] {
							res.counts["filename_basename_in_subdir_tolerated"]++
							if attrOf(t, u, "filter") == "lfs" && attrOf(s0, u, "filter") != "lfs" {
								res.counts["filename_basename_in_subdir_tolerated_and_tracked"]++
							}
						}
					}
				}
				continue
			}
			d, nn := rowDiff(s0[u], t[u])
			res.counts["attr_values_compared"] += int64(nn)
			res.counts["frame_paths_checked"]++
			if len(d) == 0 {
				continue
			}
			sig := evid.Sig{Symptom: "unrelated-changed", Trigger: frameTrig}
			if errTrig != "" {
				sig.Trigger = errTrig
			}
			if attrOf(t, u, "filter") == "lfs" && attrOf(s0, u, "filter") != "lfs" {
				sig.Symptom = "over-match"
				sig.Trigger = frameTrig
				// witness-based attribution: u is the TAB variant of a denoted path of an argument containing a space
				for _, a := range c.Args {
					// the line written for a "body"tail / TAB name is read by Git as a pattern for another path
					if m := misreadPath(a); m != "" && (u == inDir(m) || path.Base(u) == m) {
						sig.Trigger = a.Hazard
					}
				}
				if everSpace && strings.Contains(u, "\t") {
					v := strings.ReplaceAll(u, "\t", " ")
					for ai, a := range c.Args {
						if strings.Contains(a.Text, " ") && maySet[ai][v] {
							sig.Trigger = trigSpaceTab
						}
					}
				}
			}
			report(k, sig, fmt.Sprintf("after `%s` (step %d): path %s is denoted by no argument but changed: %s", line, k+1, strconv.Quote(u), strings.Join(d, "; ")),
				map[string]any{"path": u, "path_quoted": strconv.Quote(u), "row_after": t[u], "row_before_sequence": s0[u]})
		}
		prevT = t
	}
	return
}

// snapAttrFiles: bytes of every .gitattributes in the work tree (path relative to it).
func snapAttrFiles(repo string) map[string][]byte {
	m := map[string][]byte{}
	filepath.Walk(repo, func(p string, fi os.FileInfo, err error) error {
		if err != nil {
			return nil
		}
		if fi.IsDir() {
			if p == filepath.Join(repo, ".git") {
				return filepath.SkipDir
			}
			return nil
		}
		if fi.Name() == ".gitattributes" && fi.Mode().IsRegular() {
			if b, e := os.ReadFile(p); e == nil {
				rel, _ := filepath.Rel(repo, p)
				m[filepath.ToSlash(rel)] = b
			}
		}
		return nil
	})
	return m
}

type snapDiff struct {
	rel           string
	kind          string // created-empty | created-with-content | removed | eol-only | changed
	before, after []byte
}

func diffSnaps(a, b map[string][]byte) (out []snapDiff) {
	for rel, after := range b {
		before, was := a[rel]
		switch {
		case !was && len(after) == 0:
			out = append(out, snapDiff{rel, "created-empty", nil, after})
		case !was:
			out = append(out, snapDiff{rel, "created-with-content", nil, after})
		case bytes.Equal(before, after):
		case sameLines(before, after):
			out = append(out, snapDiff{rel, "eol-only", before, after})
		default:
			out = append(out, snapDiff{rel, "changed", before, after})
		}
	}
	for rel, before := range a {
		if _, ok := b[rel]; !ok {
			out = append(out, snapDiff{rel, "removed", before, nil})
		}
	}
	sort.Slice(out, func(i, j int) bool { return out[i].rel < out[j].rel })
	return
}

// sameLines: equal as sequences of non-blank lines, ignoring a CR before the LF.
func sameLines(a, b []byte) bool {
	norm := func(x []byte) []string {
		var out []string
		for _, l := range strings.Split(string(x), "\n") {
			l = strings.TrimSuffix(l, "\r")
			if strings.TrimSpace(l) != "" {
				out = append(out, l)
			}
		}
		return out
	}
	la, lb := norm(a), norm(b)
	if len(la) != len(lb) {
		return false
	}
	for i := range la {
		if la[i] != lb[i] {
			return false
		}
	}
	return true
}

func must(err error) {
	if err != nil {
		panic(err)
	}
}

type sample struct {
	Index int      `json:"case_index"`
	Class string   `json:"class"`
	Dir   string   `json:"invocation_dir"`
	Cwd   string   `json:"cwd_reached_via"`
	Args  []string `json:"args"`
	Steps []string `json:"steps"`
	USize int      `json:"universe_size"`
}

func mkSample(c Case) sample {
	s := sample{Index: c.Index, Class: c.class(), Dir: c.Dir, Cwd: c.Cwd, USize: len(c.U)}
	for _, a := range c.Args {
		t := a.Mode + ":" + strconv.Quote(a.Text)
		if a.Typed != "" {
			t += " typed " + strconv.Quote(a.Typed)
		}
		s.Args = append(s.Args, t)
	}
	for _, st := range c.Steps {
		s.Steps = append(s.Steps, fmt.Sprint(st.Op, st.Args))
	}
	return s
}

func runGuarded(c Case) (res result, infra string) {
	defer func() {
		if x := recover(); x != nil {
			infra = fmt.Sprint(x)
		}
	}()
	res = runCase(c)
	if res.inconclusive != "" { // retried once (DESIGN §0)
		res = runCase(c)
	}
	return
}

func replay(p string) {
	b, err := os.ReadFile(p)
	if err != nil {
		fmt.Fprintln(os.Stderr, "replay:", err)
		os.Exit(2)
	}
	var w struct {
		Seed   int64 `json:"seed"`
		Detail struct {
			Case struct {
				Index int `json:"case_index"`
			} `json:"case"`
		} `json:"detail"`
	}
	if err := json.Unmarshal(b, &w); err != nil {
		fmt.Fprintln(os.Stderr, "replay:", err)
		os.Exit(2)
	}
	c := genCase(w.Seed, w.Detail.Case.Index)
	res, infra := runGuarded(c)
	sbx.RemoveBase()
	if infra != "" {
		fmt.Fprintln(os.Stderr, "INFRASTRUCTURE FAILURE C19:", infra)
		os.Exit(2)
	}
	js, _ := json.MarshalIndent(c, "", " ")
	fmt.Printf("replayed seed=%d case_index=%d\n%s\n", w.Seed, c.Index, js)
	for _, v := range res.viols {
		fmt.Printf("violation sig=%s: %s\n", v.sig, v.what)
	}
	if len(res.viols) > 0 {
		os.Exit(1)
	}
	os.Exit(0)
}

func main() {
	// --replay: handled before evid.New, which clears the old witnesses of this tier and
	// seed (the file to be replayed may be one of them) and the evidence file.
	flag.Parse()
	if p := evid.ReplayPath(); p != "" {
		replay(p)
	}
	run := evid.New("C19", "exploration")
	run.Rule = "seeded generator, case = (invocation directory, pre-existing .gitattributes variant, 1-2 arguments, sequence of 1..8 track/--lockable/--not-lockable/untrack/repeat commands). Arguments: patterns from a small glob grammar (literal, *.ext, lit*, lit?ext, [0-9], dir/*.ext, dir/**, **/x, leading /; literals over letters, digits, space, #, quotes, !, punctuation, non-ASCII) or --filename names over printable ASCII, space, TAB, quotes, #, !, * ? [ ], backslash, non-ASCII, optionally below a sub-directory. Universe U per case = paths drawn from the argument's shape plus near misses (space<->TAB, other directory depth, outside the invocation directory, case, suffix/prefix, glob characters expanded, escapes added/removed) plus paths covered by the pre-existing patterns. Oracle = git check-attr -a on U in the repository under test against (a) Git's own matcher on the C-quoted pattern in a twin repository, (b) the single path d/N for --filename, (c) the table before the sequence. Working directory of the git-lfs commands: physical path, or (one case in three) a logical path with PWD set, through a symlink to the repository's parent / the repository / the parent of a nested invocation directory. Appended focus cases (index >= 2^20): {track --lockable A; track A; track A ...}, {track P twice from d while the top-level file already holds the LFS line d/P}, {op1 A; op1 A; op2 A; op2 A}, each under all four ways of reaching the working directory. Argument spelling: in every case with index = 2 (mod 5) the single argument, or every second of several, is typed with a leading ./ (the spelling the unchanged tree normalises; ././P, dir/, a//b, dir/../x are not normalised there and are not generated); the model keeps the normalised text. Appended addressing cases (index >= 3*2^20): ordinary single/two-argument sequences with the repository named explicitly (GIT_DIR+GIT_WORK_TREE | git --work-tree --git-dir lfs | core.worktree+GIT_DIR) and the process started in {work tree root, sub-directory, unrelated outside directory, outside directory whose path has the work tree's path as a string prefix (-notes, .git, 2), parent}; outside starts are modelled as invocation from the work tree root (what git-lfs does after changing into the work tree); additionally no .gitattributes outside the work tree may appear or change (checked in every case). Appended multi-argument cases (index >= 2^21): 3-4 arguments in the states {tracked with the requested lockable state, tracked with the other one, new}, then track / --lockable / --not-lockable [--filename] over all of them in a drawn order (a known argument first in every second case), repeated, untrack of 2-3 of them, another track form in another order; top level and sub-directories, all four ways of reaching the working directory; per argument the single-argument expectation. A class is (argument modes, feature set or known-trigger coordinate of each argument, kind of invocation directory, pre-existing variant, way the working directory is reached, focus kind); distinct_nontrivial counts classes executed."
	run.Assumptions = []string{
		"Git 2.39's check-attr and its reading of C-quoted patterns in .gitattributes are the authority on what a pattern denotes",
		"--filename N without '/' : only d/N must be tracked, d/**/N may be (gitattributes basename rule); everything else must not change",
		"pattern mode is exercised without backslash, TAB, leading ! \" - and without trailing / (see gen.go for the reasons)",
		"file names exclude NUL, LF, CR, other control characters, a leading '-', '.'/'..' components",
		"after untrack only the filter attribute of the denoted paths is demanded to be what the other patterns give",
		"no .gitattributes below the invocation directory and no .git/info/attributes exist (they would legitimately take precedence)",
		"paths denoted by two arguments of the same case are not judged",
		"re-running track with the same argument = a plain `track A` whose arguments are all tracked already (by an earlier exit-0 command of the sequence, or by a pre-existing top-level LFS line d/P confirmed by Git): no .gitattributes may change; a new EMPTY .gitattributes and line-ending-only differences are counted, not judged",
		"explicit work tree and a start directory outside it: arguments are relative to the work tree root (observed behaviour of the unchanged tree for all 15 combinations; the statement is silent); judged are Git's attribute lookup in the work tree and that nothing is written outside it",
		"a shell that entered the repository through a directory symlink is modelled by cwd = logical path and PWD = logical path (confirmed per case with pwd -L)",
	}
	base := run.N(176, 5000)
	nfocus := run.N(36, 720) // multiple of 12 = 3 focus kinds x 4 ways of reaching the working directory
	nmulti := run.N(24, 480) // multiple of 24 = 4 ways of reaching the working directory x 3 main ops x {top level, sub-directory}
	naddr := run.N(30, 630)  // multiple of 15 = 3 ways of addressing the repository x 5 places the process starts in
	total := base + nfocus + nmulti + naddr
	run.SetMinEvaluations(total / 2)

	cases := make([]Case, total)
	for i := range cases {
		if i < base {
			cases[i] = genCase(run.Seed, i)
		} else {
			if i < base+nfocus {
				cases[i] = genCase(run.Seed, focusBase+i-base)
			} else {
				if i < base+nfocus+nmulti {
					cases[i] = genCase(run.Seed, multiBase+i-base-nfocus)
				} else {
					cases[i] = genCase(run.Seed, addrBase+i-base-nfocus-nmulti)
				}
			}
		}
	}
	results := make([]result, total)
	infras := make([]string, total)
	var wg sync.WaitGroup
	jobs := make(chan int)
	workers := runtime.NumCPU()
	if workers > 16 {
		workers = 16
	}
	for w := 0; w < workers; w++ {
		wg.Add(1)
		go func() {
			defer wg.Done()
			for i := range jobs {
				results[i], infras[i] = runGuarded(cases[i])
			}
		}()
	}
	for i := range cases {
		jobs <- i
	}
	close(jobs)
	wg.Wait()

	trig := map[string]int{}
	lens := map[string]int{}
	pres := map[string]int{}
	cwds := map[string]int{}
	var mustChecks int64
	for i, res := range results {
		if infras[i] != "" {
			sbx.RemoveBase()
			run.Infra("case %d: %s", cases[i].Index, infras[i])
		}
		c := cases[i]
		if res.inconclusive != "" {
			run.Inconclusive(fmt.Sprintf("case %d: %s", cases[i].Index, res.inconclusive))
			continue
		}
		run.Case(c.class(), mkSample(c))
		for k, v := range res.counts {
			run.Count(k, v)
		}
		mustChecks += res.counts["must_paths_checked_tracked"]
		lens[fmt.Sprintf("len=%d", len(c.Steps))]++
		pres[c.PreKind]++
		cwds[c.Cwd]++
		if c.PreRoot != nil && !strings.HasSuffix(*c.PreRoot, "\n") {
			run.Count("cases_toplevel_gitattributes_last_line_unterminated", 1)
			if !strings.Contains(*c.PreRoot, "\n") {
				run.Count("cases_toplevel_gitattributes_single_unterminated_line", 1)
			}
		}
		if c.PreDir != nil && !strings.HasSuffix(*c.PreDir, "\n") {
			run.Count("cases_subdir_gitattributes_last_line_unterminated", 1)
		}
		tagged := false
		for _, a := range c.Args {
			if a.Hazard != "" {
				trig[a.Hazard]++
				tagged = true
			}
			if needsAttrEscape(a) {
				trig[trigNeedsEsc]++
				tagged = true
			}
			if strings.Contains(a.Text, " ") {
				trig["argument-contains-space"]++
				tagged = true
			}
			if filenameHasGlob(a) {
				for _, s := range c.Steps {
					if s.Op == "untrack" {
						trig[trigUntrackGlob]++
						tagged = true
						break
					}
				}
			}
		}
		if !tagged {
			trig["(no known trigger in case)"]++
		}
		for _, v := range res.viols {
			run.Violation(v.sig, v.what, v.detail)
		}
	}
	run.Set("cases_per_trigger_coordinate", trig)
	run.Set("cases_per_sequence_length", lens)
	run.Set("cases_per_preexisting_variant", pres)
	run.Set("cases_per_cwd_kind", cwds)
	sbx.RemoveBase()
	if mustChecks == 0 {
		run.Infra("monitor observed no tracked path at all")
	}
	run.Finish()
}
