// Case generator for C19: file names, patterns, pre-existing .gitattributes,
// command sequences and the universe U of probe paths.
//
// Everything here is workload generation, never oracle: the denotation of a
// pattern is asked from Git (twin repository, see main.go).
package main

import (
	"fmt"
	"math/rand"
	"path"
	"sort"
	"strings"
)

// ---------------------------------------------------------------------------
// Coordinates of known findings (Sig.Trigger values). A trigger is a syntactic
// property of the generated case, computed by the functions below, never text
// taken from git-lfs output.
const (
	trigBang        = "filename-leading-bang"                   // --filename name starts with '!'
	trigDquote      = "filename-leading-dquote"                 // --filename name is "word"tail (leading '"' and a later '"')
	trigTab         = "filename-contains-tab"                   // --filename name contains a TAB
	trigSpaceTab    = "space-also-matches-tab"                  // argument contains a space; witness path is the TAB variant of a denoted path
	trigNeedsEsc    = "filename-needs-attr-escape"              // --filename name contains space, '#' or backslash
	trigUntrackGlob = "untrack-filename-with-glob-chars"        // untrack of a name tracked with --filename that contains * ? [ ]
	trigOwnLockable = "preexisting-same-pattern-lockable-only"  // .gitattributes already holds "<pattern> lockable"
	trigOwnForeign  = "preexisting-same-pattern-foreign-filter" // .gitattributes already holds "<pattern> filter=<other>"
	trigBracketSpc  = "pattern-space-in-bracket-expression"     // pattern holds a space inside [...]
)

// Coordinates added with the re-track clause ("a plain track of what is tracked already
// changes nothing") and the parent-covers focus cases.
const (
	// pattern "/x" typed in the top-level directory (re-tracked after --lockable)
	trigAnchoredTop = "pattern-leading-slash-at-toplevel"
	// a --filename name of the case starts with '"' and holds no second one; its line makes
	// git-lfs unable to read the file back
	trigLoneDquote = "filename-lone-leading-dquote"
	// invoked from d while the top-level file holds the LFS line d/P (Own parent-covers*):
	// git-lfs consults that line's lockable state first
	trigParentCover = "preexisting-toplevel-lfs-line-covers-pattern"
)

// How the working directory of every `git lfs` command of a case is reached. The process's
// cwd is always the same directory; what differs is the *logical* path in $PWD (which Go's
// os.Getwd, and therefore git-lfs, prefers when it names the current directory).
const (
	cwdPhysical   = "physical"                 // physical path, no PWD in the environment (as before this dimension existed)
	cwdRepoParent = "symlink-to-repo-parent"   // L -> parent of the repository;       cwd = L/r[/d]
	cwdRepo       = "symlink-to-repo"          // L -> the repository;                 cwd = L[/d]
	cwdSubParent  = "symlink-to-subdir-parent" // L -> parent of the sub-directory d;  cwd = L/base(d)   (d has >= 2 components)
)

var symlinkCwds = []string{cwdRepoParent, cwdRepo, cwdSubParent}
var allCwds = []string{cwdPhysical, cwdRepoParent, cwdRepo, cwdSubParent}
var nestedDirs = []string{"a/b c/d", "deep/er/still"}

// cwdTrigger: Sig.Trigger of a violation that has no argument-intrinsic known coordinate,
// observed in a case whose working directory is reached through a symlink.
func cwdTrigger(kind string) string { return "cwd-via-" + kind }

// settleCwd makes (kind, dir) consistent: the sub-directory's-parent variant needs a nested
// invocation directory (with a single component the parent IS the repository, i.e. the
// symlink-to-repo variant), and there is no sub-directory when invoked from the root.
func settleCwd(want, dir string, salt int) (string, string) {
	if want != cwdSubParent {
		return want, dir
	}
	if dir == "" {
		return []string{cwdRepoParent, cwdRepo}[salt%2], dir
	}
	if !strings.Contains(dir, "/") {
		dir = nestedDirs[salt%len(nestedDirs)]
	}
	return want, dir
}

// loneLeadingDquote: coordinate of trigLoneDquote (the "word"tail shape is the hazard trigDquote).
func loneLeadingDquote(a Arg) bool {
	return a.Mode == "filename" && a.Hazard == "" && strings.HasPrefix(a.Text, "\"") && strings.Count(a.Text, "\"") == 1
}

// anchoredAtTop: coordinate of trigAnchoredTop.
func anchoredAtTop(c Case, a Arg) bool {
	return a.Mode == "pattern" && strings.HasPrefix(a.Text, "/") && c.Dir == ""
}

type Arg struct {
	Mode   string   `json:"mode"`               // "pattern" | "filename"
	Text   string   `json:"text"`               // argument as typed, relative to the invocation directory
	Typed  string   `json:"typed,omitempty"`    // what is put on the command line when it differs from Text (argument spelling)
	Spell  string   `json:"spelling,omitempty"` // name of the spelling, "" = as Text
	Hazard string   `json:"hazard,omitempty"`
	Feats  []string `json:"features"`
	Own    string   `json:"own_line,omitempty"` // pre-existing line with the same pattern text: k1-text | k2-lockable | k3-foreign-filter (file of the invocation directory), parent-* (top-level file while invoked from a sub-directory); parent-covers[-lockable]: the top-level file holds the complete LFS line for <invocation dir>/<pattern>
}

type Step struct {
	Op   string `json:"op"`   // track | track-lockable | track-not-lockable | untrack
	Args []int  `json:"args"` // indexes into Case.Args (all of the same mode)
}

type Case struct {
	Index   int      `json:"case_index"`
	Kind    string   `json:"kind"`
	Dir     string   `json:"invocation_dir"`                     // "" = repository root
	Multi   string   `json:"multi_arg_shape,omitempty"`          // multi-arg cases: "<op>:<roles in command-line order>", roles K known (tracked, requested lockable state), O tracked with the other lockable state, N new
	Addr    string   `json:"repository_addressed_via,omitempty"` // "" = cwd inside the work tree (discovery) | addrEnv | addrGitOpts | addrCoreWT
	Start   string   `json:"process_cwd,omitempty"`              // addressing cases: startRoot | startSub | startUnrelated | startLookalike | startParent
	Look    string   `json:"lookalike_suffix,omitempty"`         // startLookalike: the directory is <work tree path><suffix>
	OutPre  bool     `json:"outside_gitattributes_preexists,omitempty"`
	Cwd     string   `json:"cwd_reached_via"` // cwdPhysical | cwdRepoParent | cwdRepo | cwdSubParent
	PreRoot *string  `json:"preexisting_root_gitattributes"`
	PreDir  *string  `json:"preexisting_dir_gitattributes"` // only when Dir != ""
	PreKind string   `json:"preexisting_variant"`
	Args    []Arg    `json:"args"`
	Steps   []Step   `json:"steps"`
	U       []string `json:"universe"`
	// indexed-state cases: files that exist and are in the index (together with every
	// pre-existing .gitattributes) before the sequence starts
	Indexed  string   `json:"indexed_state,omitempty"` // scenIdxMissing | scenIdxForbidden
	IdxFiles []string `json:"indexed_files,omitempty"`
	Victim   string   `json:"indexed_file_deleted_from_worktree,omitempty"`
	Commit   bool     `json:"indexed_files_committed,omitempty"`
}

// Scenarios that drive `git lfs track` onto its error exits (os.Exit after .gitattributes
// has been re-opened for writing). The command may legitimately fail there; what is judged
// is that nothing but the requested pattern changes (see runCase).
const (
	scenIdxMissing   = "indexed-file-missing-from-worktree"    // an indexed file matching the new pattern is gone from the work tree: "Error marking ... modified", exit 2
	scenIdxForbidden = "pattern-matches-indexed-gitattributes" // the new pattern matches the indexed .gitattributes/.gitignore: refused, exit 1
)

func (s Step) same(t Step) bool {
	if s.Op != t.Op || len(s.Args) != len(t.Args) {
		return false
	}
	for i := range s.Args {
		if s.Args[i] != t.Args[i] {
			return false
		}
	}
	return true
}

// ---------------------------------------------------------------------------
// alphabets

const letters = "abcdefghijklmnopqrstuvwxyzABCDEFGHIJKLMNOPQRSTUVWXYZ"
const digits = "0123456789"

// benign: printable ASCII that neither Git's attribute parser nor a glob gives a meaning (when not leading).
var benign = []string{"-", ".", "_", "'", "~", "+", "=", ",", "@", "%", "(", ")", "{", "}", "$", "&", ";", "!", "\"", "^", "|", "<", ">", "`", ":"}
var nonASCII = []string{"ü", "é", "日本", "ж", "🎉", "ñ", "Å"}
var globToks = []string{"*", "?", "[", "]", "[1]", "**", "[a-c]"}
var escToks = []string{" ", " ", " ", "#", "\\"}
var exts = []string{".bin", ".dat", ".raw", ".mp4", ".blob", ".BIN", ""}

// extensions used by the pre-existing "other" patterns; never used for generated arguments
// (so that an argument and an "other" pattern are textually different patterns).

func word(r *rand.Rand, max int) string {
	n := 1 + r.Intn(max)
	b := make([]byte, n)
	for i := range b {
		if r.Intn(5) == 0 {
			b[i] = digits[r.Intn(len(digits))]
		} else {
			b[i] = letters[r.Intn(len(letters))]
		}
	}
	return string(b)
}

func pick(r *rand.Rand, l []string) string { return l[r.Intn(len(l))] }

// ---------------------------------------------------------------------------
// file names for --filename mode
//
// Domain choices (names that are NOT generated, and why):
//   * NUL, LF: cannot be passed / Git attribute files are line based.
//   * CR and other control characters except TAB: outside the stated alphabet.
//   * a leading '-': the command line would read it as an option; whether the
//     user then has to write "--" is a CLI question, not an escaping one.
//   * components ".", "..", empty components, a leading "./" or "/", a
//     trailing "/": not file names relative to the invocation directory.
//   * names beginning with ".git" / ".lfs": git-lfs refuses them on purpose.
// Leading and trailing spaces ARE generated: exec passes them verbatim, the
// path d/N is well defined and Git can express it.

type nameFocus int

const (
	focusClean nameFocus = iota // letters, digits, benign punctuation, non-ASCII
	focusGlob                   // + * ? [ ]
	focusEsc                    // + space # backslash
	focusBoth                   // + both groups
)

func genCleanBody(r *rand.Rand, f nameFocus, toks int) string {
	var sb strings.Builder
	for i := 0; i < toks; i++ {
		switch k := r.Intn(10); {
		case k < 4:
			sb.WriteString(word(r, 4))
		case k < 6:
			sb.WriteString(pick(r, benign))
		case k < 7:
			sb.WriteString(pick(r, nonASCII))
		default:
			switch f {
			case focusGlob:
				sb.WriteString(pick(r, globToks))
			case focusEsc:
				sb.WriteString(pick(r, escToks))
			case focusBoth:
				if r.Intn(2) == 0 {
					sb.WriteString(pick(r, globToks))
				} else {
					sb.WriteString(pick(r, escToks))
				}
			default:
				sb.WriteString(word(r, 3))
			}
		}
	}
	return sb.String()
}

// fixName removes the excluded shapes without touching anything else.
func fixName(s string, allowLeadingDquote bool) string {
	if s == "" {
		s = "f"
	}
	for strings.HasPrefix(s, "-") || strings.HasPrefix(s, "!") || strings.HasPrefix(s, ".") || (strings.HasPrefix(s, "\"") && !allowLeadingDquote) {
		s = "n" + s[1:]
	}
	if s == "." || s == ".." {
		s = "dot"
	}
	return s
}

func ensure(r *rand.Rand, s string, f nameFocus) string {
	hasGlob := strings.ContainsAny(s, "*?[]")
	hasEsc := strings.ContainsAny(s, " #\\")
	ins := func(t string) {
		p := 0
		if len(s) > 0 {
			p = r.Intn(len(s) + 1)
			// do not split a multi-byte rune
			for p < len(s) && p > 0 && (s[p]&0xC0) == 0x80 {
				p++
			}
		}
		s = s[:p] + t + s[p:]
	}
	if (f == focusGlob || f == focusBoth) && !hasGlob {
		ins(pick(r, globToks))
	}
	if (f == focusEsc || f == focusBoth) && !hasEsc {
		ins(pick(r, escToks))
	}
	return s
}

func genFilename(r *rand.Rand, f nameFocus) string {
	s := genCleanBody(r, f, 2+r.Intn(4))
	s = ensure(r, s, f)
	if r.Intn(2) == 0 {
		s += pick(r, exts)
	}
	if f != focusGlob && f != focusClean && r.Intn(12) == 0 {
		s = " " + s // leading space
	}
	if f != focusGlob && f != focusClean && r.Intn(12) == 0 {
		s = s + " " // trailing space
	}
	if f != focusClean && f != focusGlob && r.Intn(10) == 0 {
		s = "#" + s // leading '#'
	}
	allowDq := false
	if r.Intn(15) == 0 && !strings.Contains(s, "\"") {
		// a single leading double quote and no other: Git falls back to the literal reading, expected to work
		s = "\"" + s
		allowDq = true
	}
	return fixName(s, allowDq)
}

func genHazardName(r *rand.Rand, hz string) string {
	body := func() string {
		s := genCleanBody(r, focusClean, 1+r.Intn(3))
		s = strings.ReplaceAll(s, "\"", "q")
		s = strings.ReplaceAll(s, "!", "b")
		return fixName(s, false)
	}
	switch hz {
	case trigBang:
		return "!" + body() + pick(r, exts)
	case trigDquote:
		return "\"" + word(r, 4) + "\"" + []string{"", word(r, 3), ".bin", "-x"}[r.Intn(4)]
	case trigTab:
		return body() + "\t" + word(r, 3) + pick(r, exts)
	case trigBracketSpc: // a pattern, not a file name
		p := word(r, 4) + "[" + pick(r, []string{"a b", "x y", "1 2"}) + "]" + word(r, 2) + pick(r, []string{"", ".bin", "*"})
		if r.Intn(3) == 0 {
			p = word(r, 3) + "/" + p
		}
		return p
	}
	panic("hazard " + hz)
}

// ---------------------------------------------------------------------------
// patterns (pattern mode)
//
// Grammar (small and unambiguous; P is relative to the invocation directory):
//
//	P    := ["/"] BODY | "**/" LAST
//	BODY := LAST | DIR "/" LAST | DIR "/**"
//	DIR  := LIT | LIT "/" LIT
//	LAST := LIT | "*" EXT | LIT "*" | LIT "*" EXT | "*" LIT | LIT "?" EXT | LIT "[0-9]" EXT | LIT "[ab]" LIT
//	LIT  := 1..3 tokens of: word, benign punctuation, non-ASCII, " ", "#"
//
// Not generated, and why:
//   * backslash: git-lfs doubles every backslash of a pattern (the pattern
//     "a\*" is written as "a\\*"), i.e. pattern mode cannot express an escape;
//     what a backslash "denotes" is therefore ill-defined here.
//   * TAB: same root cause as the --filename TAB finding; kept out so that
//     that finding has exactly one signature.
//   * leading '!' (negative patterns are not allowed in attributes), leading
//     '"' (Git would read a C-quoted string), leading '-', trailing '/'
//     (directory-only patterns never match in attributes).
//   * spaces inside a bracket expression.

func genLit(r *rand.Rand, rich bool) string {
	var sb strings.Builder
	n := 1 + r.Intn(3)
	for i := 0; i < n; i++ {
		k := r.Intn(10)
		switch {
		case !rich || k < 5:
			sb.WriteString(word(r, 4))
		case k < 7:
			sb.WriteString(" ")
		case k < 8:
			sb.WriteString("#")
		case k < 9:
			sb.WriteString(pick(r, nonASCII))
		default:
			sb.WriteString(pick(r, benign))
		}
	}
	return sb.String()
}

func fixLitLead(s string) string {
	for s == "" || strings.HasPrefix(s, "-") || strings.HasPrefix(s, "!") || strings.HasPrefix(s, "\"") || strings.HasPrefix(s, ".") {
		if s == "" {
			return "p"
		}
		s = "p" + s[1:]
	}
	return s
}

func genPattern(r *rand.Rand, rich bool, forceSpace bool) string {
	ext := func() string {
		e := pick(r, exts)
		if e == "" {
			e = ".bin"
		}
		return e
	}
	lit := func() string { return fixLitLead(genLit(r, rich)) }
	last := func() string {
		switch r.Intn(8) {
		case 0:
			return lit()
		case 1:
			return "*" + ext()
		case 2:
			return lit() + "*"
		case 3:
			return lit() + "*" + ext()
		case 4:
			return "*" + genLit(r, rich)
		case 5:
			return lit() + "?" + ext()
		case 6:
			return lit() + "[0-9]" + ext()
		default:
			return lit() + "[ab]" + word(r, 2)
		}
	}
	dir := func() string {
		d := lit()
		if r.Intn(4) == 0 {
			d += "/" + lit()
		}
		return d
	}
	var p string
	switch r.Intn(10) {
	case 0, 1, 2, 3:
		p = last()
	case 4, 5:
		p = dir() + "/" + last()
	case 6:
		p = dir() + "/**"
	case 7:
		p = "**/" + last()
	default:
		if r.Intn(2) == 0 {
			p = "/" + last()
		} else {
			p = "/" + dir() + "/" + last()
		}
	}
	if forceSpace && !strings.Contains(p, " ") {
		// put a space into the last literal run
		i, depth := -1, 0
		for j := 0; j < len(p); j++ { // last letter outside a bracket expression
			switch {
			case p[j] == '[':
				depth++
			case p[j] == ']':
				depth--
			case depth == 0 && strings.IndexByte(letters, p[j]) >= 0:
				i = j
			}
		}
		if i < 0 {
			// no letter: put the literal after a leading "**/" or "/" so that "**" stays a
			// whole path component (Git gives "x**" glued to a literal no stable meaning: it
			// depends on where its literal-prefix optimisation cuts the pattern)
			k := 0
			if strings.HasPrefix(p, "**/") {
				k = 3
			} else if strings.HasPrefix(p, "/") {
				k = 1
			}
			p = p[:k] + "my file" + p[k:]
		} else {
			p = p[:i] + " " + p[i:]
		}
	}
	// excluded shapes
	if strings.HasSuffix(p, "/") {
		p += "x"
	}
	p = strings.ReplaceAll(p, "/ /", "/s/")
	return p
}

// ---------------------------------------------------------------------------
// features

func features(mode, s string) []string {
	var f []string
	add := func(c bool, n string) {
		if c {
			f = append(f, n)
		}
	}
	add(strings.Contains(s, " "), "space")
	add(strings.Contains(s, "\t"), "tab")
	add(strings.Contains(s, "#"), "hash")
	add(strings.Contains(s, "\\"), "backslash")
	if mode == "filename" {
		add(strings.ContainsAny(s, "*?[]"), "globchars")
	}
	add(strings.Contains(s, "\""), "dquote")
	add(strings.Contains(s, "'"), "squote")
	add(strings.Contains(s, "!"), "bang")
	add(strings.IndexFunc(s, func(c rune) bool { return c > 127 }) >= 0, "nonascii")
	add(strings.Contains(s, "/"), "slash")
	add(strings.HasPrefix(s, " ") || strings.HasSuffix(s, " "), "edge-space")
	add(strings.HasPrefix(s, "#"), "leading-hash")
	if mode == "pattern" {
		add(strings.Contains(s, "**"), "doublestar")
		add(strings.HasPrefix(s, "/"), "anchored")
		add(strings.Contains(s, "?"), "qmark")
		add(strings.Contains(s, "["), "class")
		add(!strings.ContainsAny(s, "*?["), "literal")
	}
	return f
}

func hasFeat(a Arg, n string) bool {
	for _, f := range a.Feats {
		if f == n {
			return true
		}
	}
	return false
}

// misreadPath: the path (relative to the invocation directory) that Git makes of the line
// git-lfs writes for a --filename argument with a line-breaking hazard: the C-unquoted
// body of "body"tail, or the part before the first TAB. "" if not applicable.
func misreadPath(a Arg) string {
	switch a.Hazard {
	case trigDquote:
		if i := strings.Index(a.Text[1:], "\""); i >= 0 {
			return a.Text[1 : 1+i]
		}
	case trigTab:
		return a.Text[:strings.Index(a.Text, "\t")]
	}
	return ""
}

func needsAttrEscape(a Arg) bool {
	return a.Mode == "filename" && strings.ContainsAny(a.Text, " #\\")
}
func filenameHasGlob(a Arg) bool {
	return a.Mode == "filename" && strings.ContainsAny(a.Text, "*?[]")
}

// featClass: short, stable description used in class names.
func featClass(a Arg) string {
	if a.Spell != "" {
		b := a
		b.Spell = ""
		return featClass(b) + "+typed-" + a.Spell
	}
	if a.Hazard != "" {
		return a.Hazard
	}
	keep := []string{}
	for _, f := range a.Feats {
		switch f {
		case "space", "hash", "leading-hash", "backslash", "globchars", "dquote", "nonascii", "slash", "doublestar", "anchored", "literal", "edge-space", "class", "qmark":
			keep = append(keep, f)
		}
	}
	if len(keep) == 0 {
		return "plain"
	}
	return strings.Join(keep, "+")
}

// ---------------------------------------------------------------------------
// pre-existing .gitattributes

var otherLines = []string{
	"*.txt text",
	"*.sh text eol=lf",
	"*.md text=auto",
	"*.c diff=cpp",
	"*.png binary",
	"Makefile whitespace=tab-in-indent myattr",
	"*.zip filter=lfs diff=lfs merge=lfs -text",
	"*.psd filter=lfs diff=lfs merge=lfs -text lockable",
	"*.yml lockable",
	"\"with space.7z\" filter=lfs diff=lfs merge=lfs -text",
	"with[[:space:]]gap.tgz filter=lfs diff=lfs merge=lfs -text",
	"docs/*.pdf filter=lfs diff=lfs merge=lfs -text",
	"vendor/** linguist-vendored",
	"/top.cfg myattr=top",
}
var commentLines = []string{
	"# LFS patterns below",
	"#*.bin filter=lfs diff=lfs merge=lfs -text",
	"",
	"   ",
	"# trailing comment",
}

// macro definitions are honoured by Git only in the top-level file
var macroBlock = []string{
	"[attr]lfsbig filter=lfs diff=lfs merge=lfs -text",
	"[attr]vend linguist-vendored myattr=1",
	"*.iso lfsbig",
	"third_party/** vend",
}

// paths that make the "other" assignments observable
var otherPaths = []string{
	"a.txt", "run.sh", "README.md", "x.c", "i.png", "Makefile", "a.zip", "p.psd", "c.yml",
	"with space.7z", "with gap.tgz", "with\tgap.tgz", "docs/m.pdf", "docs/sub/m.pdf", "vendor/lib/x.c",
	"top.cfg", "big.iso", "third_party/z/big.iso", "plain", "nested/a.zip", "nested/Makefile",
}

// variants whose last (or only) line has no terminator; given to one case in seven, whatever its kind
var nonlKinds = []string{"single-lfs-nonl", "lf-last-nonl", "single-lockable-nonl", "crlf-last-nonl"}

func isNonl(k string) bool {
	for _, x := range nonlKinds {
		if x == k {
			return true
		}
	}
	return false
}

var preKinds = []string{"absent", "comments", "macros", "crlf", "others", "mixed-eol-nofinalnl", "big"}

// buildPre returns file content for the variant. top: file is the top-level one.
// own: a line for the argument's own pattern without filter=lfs ("" = none); it
// is placed after every line that assigns filter/diff/merge/text/lockable, so
// that an in-place rewrite of that line and an appended line mean the same.
func buildPre(r *rand.Rand, kind string, top bool, own string) *string {
	if kind == "absent" && own == "" {
		return nil
	}
	var lines []string
	addSome := func(pool []string, min, max int) {
		n := min + r.Intn(max-min+1)
		idx := r.Perm(len(pool))
		if n > len(idx) {
			n = len(idx)
		}
		sel := idx[:n]
		sort.Ints(sel)
		for _, i := range sel {
			lines = append(lines, pool[i])
		}
	}
	switch kind {
	case "absent":
	case "comments":
		addSome(commentLines, 2, 4)
		addSome(otherLines, 1, 2)
	case "macros":
		if top {
			lines = append(lines, macroBlock...)
		}
		addSome(otherLines, 1, 3)
	case "crlf", "others":
		addSome(otherLines, 3, 8)
		if r.Intn(2) == 0 {
			lines = append(lines, pick(r, commentLines))
		}
	case "single-lfs-nonl":
		// one LFS line and no line terminator at all (neither LF nor CRLF can be detected)
		lines = append(lines, pick(r, []string{otherLines[6], otherLines[7], otherLines[11], otherLines[10]}))
	case "single-lockable-nonl":
		lines = append(lines, otherLines[8]) // "*.yml lockable"
	case "lf-last-nonl", "crlf-last-nonl":
		addSome(otherLines, 3, 8)
		if r.Intn(3) == 0 {
			lines = append([]string{pick(r, commentLines)}, lines...)
		}
	case "big":
		// larger than 4 KiB, with observable assignments before and after the 4096-byte mark
		half := len(otherLines) / 2
		lines = append(lines, otherLines[:half]...)
		target := 4600 + r.Intn(3000)
		for i := 0; len(strings.Join(lines, "\n")) < target; i++ {
			if i%7 == 0 {
				lines = append(lines, fmt.Sprintf("# generated section %d", i/7))
			}
			lines = append(lines, fmt.Sprintf("gen/mod%03d/*.%s myattr=%d", i, pick(r, []string{"dat", "tbl", "idx"}), i))
		}
		lines = append(lines, otherLines[half:]...)
	default: // mixed
		if top {
			lines = append(lines, macroBlock[0], macroBlock[2])
		}
		addSome(otherLines, 2, 6)
		addSome(commentLines, 1, 3)
	}
	if own != "" {
		lines = append(lines, own)
		if r.Intn(2) == 0 {
			lines = append(lines, "# end")
		}
	}
	var sb strings.Builder
	for i, l := range lines {
		sb.WriteString(l)
		eol := "\n"
		switch kind {
		case "single-lfs-nonl", "single-lockable-nonl", "lf-last-nonl", "crlf-last-nonl":
			if kind == "crlf-last-nonl" {
				eol = "\r\n"
			}
			if i == len(lines)-1 {
				eol = "" // last line unterminated
			}
		case "crlf":
			eol = "\r\n"
		case "mixed-eol-nofinalnl":
			if i%3 != 1 {
				eol = "\r\n"
			}
			if i == len(lines)-1 {
				eol = ""
			}
		}
		sb.WriteString(eol)
	}
	s := sb.String()
	return &s
}

// ---------------------------------------------------------------------------
// invocation directories

var dirs = []string{"", "", "", "sub", "sub dir", "a/b c/d", "dïr", "x#y", "d[1]", "deep/er/still"}

func dirClass(d string) string {
	switch {
	case d == "":
		return "root"
	case strings.ContainsAny(d, " #[") || strings.IndexFunc(d, func(c rune) bool { return c > 127 }) >= 0:
		return "odd-subdir"
	case strings.Contains(d, "/"):
		return "nested-subdir"
	default:
		return "subdir"
	}
}

// ---------------------------------------------------------------------------
// universe

func validPath(p string) bool {
	if p == "" || strings.HasPrefix(p, "/") || strings.HasSuffix(p, "/") || strings.ContainsAny(p, "\x00\n\r") {
		return false
	}
	for _, c := range strings.Split(p, "/") {
		if c == "" || c == "." || c == ".." || c == ".git" {
			return false
		}
	}
	return true
}

func swapCaseFirst(s string) string {
	b := []byte(s)
	for i := len(b) - 1; i >= 0; i-- { // last letter of the last component: keeps directories intact
		c := b[i]
		if c == '/' {
			break
		}
		if c >= 'a' && c <= 'z' {
			b[i] = c - 32
			return string(b)
		}
		if c >= 'A' && c <= 'Z' {
			b[i] = c + 32
			return string(b)
		}
	}
	return s
}

func firstSpaceToTab(s string) string { return strings.Replace(s, " ", "\t", 1) }

func bracketFirst(s string) string {
	// replace every [...] by its first inner character
	var sb strings.Builder
	for i := 0; i < len(s); i++ {
		if s[i] == '[' {
			j := strings.IndexByte(s[i:], ']')
			if j > 1 {
				sb.WriteByte(s[i+1])
				i += j
				continue
			}
		}
		sb.WriteByte(s[i])
	}
	return sb.String()
}

// nearMisses of a path relative to the invocation directory.
func nearMisses(n string) []string {
	base := path.Base(n)
	dir := ""
	if i := strings.LastIndex(n, "/"); i >= 0 {
		dir = n[:i+1]
	}
	v := []string{
		strings.ReplaceAll(n, " ", "\t"),
		firstSpaceToTab(n),
		strings.ReplaceAll(n, "\t", " "),
		swapCaseFirst(n),
		n + "x",
		n + ".bak",
		n + "~",
		dir + "x" + base,
		"zz/" + n,
		"zz/yy/" + n,
	}
	if strings.ContainsAny(n, "*?[") {
		g := strings.ReplaceAll(n, "**", "AB")
		g = strings.ReplaceAll(g, "*", "AB")
		g = strings.ReplaceAll(g, "?", "Z")
		v = append(v, g, bracketFirst(g), bracketFirst(n))
	}
	if strings.Contains(n, "#") {
		v = append(v, strings.ReplaceAll(n, "#", "\\#"), strings.ReplaceAll(n, "#", ""))
	}
	if strings.Contains(n, "\\") {
		v = append(v, strings.ReplaceAll(n, "\\", "\\\\"), strings.ReplaceAll(n, "\\", ""), strings.ReplaceAll(n, "\\", "/"))
	}
	if strings.Contains(n, "\"") {
		v = append(v, strings.ReplaceAll(n, "\"", ""), strings.TrimPrefix(n, "\""))
	}
	if strings.HasPrefix(n, "!") {
		v = append(v, n[1:], "\\"+n)
	}
	if strings.Contains(n, " ") {
		v = append(v, strings.ReplaceAll(n, " ", ""), strings.ReplaceAll(n, " ", "  "), strings.ReplaceAll(n, " ", "[[:space:]]"))
	}
	return v
}

// expandPattern draws a path from the shape of p (no claim that it matches: Git decides).
func expandPattern(r *rand.Rand, p string, simple bool) string {
	p = strings.TrimPrefix(p, "/")
	var sb strings.Builder
	for i := 0; i < len(p); {
		switch {
		case strings.HasPrefix(p[i:], "**/"):
			if simple {
				sb.WriteString("k/")
			} else {
				sb.WriteString(pick(r, []string{"", "k/", "k/m/"}))
			}
			i += 3
		case strings.HasPrefix(p[i:], "/**"):
			if simple {
				sb.WriteString("/f.bin")
			} else {
				sb.WriteString(pick(r, []string{"/f.bin", "/k/f", "/k/m/f x"}))
			}
			i += 3
		case p[i] == '*':
			if simple {
				sb.WriteString("Ab1")
			} else {
				sb.WriteString(pick(r, []string{"", "A", "abc", "a b", "x.y", "a/b", "ü", "#", "Ab1"}))
			}
			i++
		case p[i] == '?':
			if simple {
				sb.WriteString("Z")
			} else {
				sb.WriteString(pick(r, []string{"Z", "Z", "", "ZZ", "/", "é"}))
			}
			i++
		case p[i] == '[':
			j := strings.IndexByte(p[i:], ']')
			if j < 0 {
				sb.WriteByte(p[i])
				i++
				break
			}
			inner := p[i+1 : i+j]
			if simple || r.Intn(2) == 0 {
				if inner == "0-9" {
					sb.WriteString("5")
				} else {
					sb.WriteByte(inner[0])
				}
			} else {
				sb.WriteString(pick(r, []string{"x", "", "55", "B"}))
			}
			i += j + 1
		default:
			sb.WriteByte(p[i])
			i++
		}
	}
	return sb.String()
}

func buildUniverse(r *rand.Rand, c *Case) []string {
	set := map[string]bool{}
	add := func(p string) {
		if validPath(p) {
			set[p] = true
		}
	}
	inDir := func(rel string) string {
		if c.Dir == "" {
			return rel
		}
		return c.Dir + "/" + rel
	}
	for _, p := range otherPaths {
		add(p)
		if c.Dir != "" {
			add(inDir(p))
		}
	}
	for _, a := range c.Args {
		var seeds []string
		if a.Mode == "filename" {
			seeds = []string{a.Text}
			if m := misreadPath(a); m != "" {
				add(inDir(m))
			}
		} else {
			seeds = append(seeds, expandPattern(r, a.Text, true), strings.TrimPrefix(a.Text, "/"))
			for i := 0; i < 5; i++ {
				seeds = append(seeds, expandPattern(r, a.Text, false))
			}
		}
		for si, s := range seeds {
			add(inDir(s))
			add(s) // same relative path seen from the root (outside d when d != "")
			if c.Dir != "" {
				add(path.Dir(c.Dir) + "/" + s)
			}
			nm := nearMisses(s)
			if a.Mode == "pattern" && si >= 2 {
				// keep U bounded: two random near misses for the random expansions
				r.Shuffle(len(nm), func(i, j int) { nm[i], nm[j] = nm[j], nm[i] })
				nm = nm[:2]
			}
			for _, v := range nm {
				add(inDir(v))
			}
		}
	}
	var u []string
	for p := range set {
		u = append(u, p)
	}
	sort.Strings(u)
	return u
}

// ---------------------------------------------------------------------------
// sequences

var fullOps = []string{"track", "track", "track", "track-lockable", "track-lockable", "track-not-lockable", "untrack", "untrack", "repeat", "repeat"}

func genSteps(r *rand.Rand, nargs int, sameMode bool, length int, trackOnly bool) []Step {
	var steps []Step
	for len(steps) < length {
		var st Step
		op := pick(r, fullOps)
		if len(steps) == 0 && r.Intn(4) != 0 {
			op = "track"
		}
		if trackOnly && op != "repeat" {
			op = "track"
		}
		if op == "repeat" {
			if len(steps) == 0 || steps[len(steps)-1].Op == "untrack" {
				op = "track"
			} else {
				prev := steps[len(steps)-1]
				steps = append(steps, Step{Op: prev.Op, Args: append([]int{}, prev.Args...)})
				continue
			}
		}
		st.Op = op
		st.Args = []int{r.Intn(nargs)}
		if nargs > 1 && sameMode && r.Intn(4) == 0 {
			st.Args = []int{0, 1}
		}
		steps = append(steps, st)
	}
	return steps
}

// ---------------------------------------------------------------------------
// case

// kinds are assigned by index so that every run, whatever the seed, contains
// the same proportion of each kind (and a quota of cases without any trigger).
var kindTable = []string{
	"pattern", "filename-clean", "pattern-rich", "filename-esc", "filename-glob",
	"pattern-rich", "two-args", "hazard", "pattern-space", "filename-both",
	"pattern", "filename-clean", "pattern-rich", "filename-esc", "own-line",
	"pattern-rich", "two-args", "hazard", "filename-glob", "own-hazard",
	"related-args", "parent-own-line",
	"indexed", "indexed", "indexed", "indexed", // 4 of 26 = 15 %
}

// Focus cases (index >= focusBase; appended to the list, the cases below focusBase are what
// they were before the working-directory dimension existed): fixed opening moves that make
// "the argument is already tracked" certain, each run under all four ways of reaching the
// working directory (j = index - focusBase: kind = j % 3, cwd = (j / 3) % 4).
//
//	lockable-then-plain : track --lockable A; track A; track A [; --not-lockable A; track A | ; untrack A; track --lockable A; track A]
//	parent-covers       : from a sub-directory d, `track P` (twice) while the TOP-LEVEL file already holds
//	                      "d/P filter=lfs diff=lfs merge=lfs -text[ lockable]". P always contains a '/', so
//	                      that "d/P" read at the top level and "P" read in d denote the same paths for Git
//	                      (a pattern without '/' matches at any depth below d, "d/P" only in d itself:
//	                      that is a different question, not generated here).
//	repeat-pairs        : op1 A; op1 A; op2 A; op2 A with op1 != op2 from {track, --lockable, --not-lockable}
const focusBase = 1 << 20

// Argument spelling: the same argument written another, equivalent way on the command line.
// Arg.Text stays the normalised argument (everything in the model, the denotation in the twin
// repository, the universe and the coordinates are computed from it, as before); Arg.Typed is
// what git-lfs is given.
//
// What the unchanged tree does with each spelling was probed first (track, the same track
// again, check-attr, untrack with the same spelling; pattern mode and --filename; top level
// and sub-directory):
//
//	./P          normalised: line "P ...", second run "already supported", untrack ./P removes it   -> generated, judged
//	././P        writes "./P ..."        (only ONE leading ./ is stripped); Git never matches it     -> not generated
//	dir/         writes "dir/ ..."       (Git: a trailing slash never matches in attributes)         -> not generated
//	a//b.bin     writes "a//b.bin ..."   Git never matches it                                       -> not generated
//	dir/../x.bin writes it verbatim      Git never matches it (same for ../x.bin, a/./b.bin)        -> not generated
//
// The spellings that the unchanged tree does not normalise fail the property there (exit 0,
// "Tracking", filter unspecified) and were reported to the lead; spell() knows them, they stay
// out of spellingsJudged until a decision is made.
//
// Which arguments: every case whose index is 2 modulo 5 (whatever its kind, the appended
// blocks included); with one argument it is spelled, with several every second one is (so
// spelled and plain arguments meet in one command). Not spelled: arguments with a hazard
// coordinate and patterns with a leading '/' (".//x" is yet another spelling).
var spellingsJudged = []string{"dot-slash"}

func spell(kind, text string) string {
	switch kind {
	case "dot-slash":
		return "./" + text
	case "dot-slash-twice":
		return "././" + text
	case "doubled-slash":
		if i := strings.Index(text, "/"); i > 0 {
			return text[:i] + "/" + text[i:]
		}
	case "dir-dotdot":
		return "zz/../" + text
	case "mid-dot":
		if i := strings.Index(text, "/"); i > 0 {
			return text[:i] + "/." + text[i:]
		}
	}
	return text
}

// spellTrigger: Sig.Trigger of a violation on a spelled argument without another intrinsic coordinate.
func spellTrigger(kind string) string { return "arg-spelling/" + kind }

func typed(a Arg) string {
	if a.Typed != "" {
		return a.Typed
	}
	return a.Text
}

// Multi-argument cases (index >= multiBase, m = index - multiBase): 3-4 arguments of one mode
// (patterns, or every 4th group --filename names), brought into the states
//
//	K  tracked with the lockable state the main command asks for ("already supported")
//	O  tracked with the other lockable state (for a plain track: tracked and lockable, also "known")
//	N  new
//
// by one or two set-up commands (themselves multi-argument, all-new lists), then
//
//	M   : track | track --lockable | track --not-lockable  [--filename]  <all arguments in some order>
//	M   : the same again (idempotence)
//	U   : untrack <2..n-1 of the arguments, some order>
//	M2  : another of the three track forms over all arguments in another order (the untracked ones are new again)
//
// cwd = m % 4 (all four ways), main op = (m/4) % 3, top level / sub-directory = (m/4) % 2 (a
// nested sub-directory for the sub-directory's-parent cwd), --filename iff (m/4) % 5 == 4;
// number of arguments and the orders are drawn, but every even m puts a K argument first, so
// that "known before new" occurs in at least half of the cases of every seed. The
// expectation per argument is the single-argument one: the model applies the arguments of
// a command one after another. Arguments are textually distinct and free of the known
// coordinates (no leading '/' at the top level, no space # backslash glob or quote in names).
const multiBase = 2 << 20

// Addressing cases (index >= addrBase, a = index - addrBase): the repository is named
// explicitly and the process may start outside the work tree.
//
//	how addressed (a % 3)      : GIT_DIR + GIT_WORK_TREE in the environment | `git --work-tree=W --git-dir=G lfs ...`
//	                             (Git exports the same variables) | core.worktree = W in the config, GIT_DIR in the environment
//	where it starts ((a/3) % 5): work tree root | a sub-directory | an unrelated directory outside | a directory outside
//	                             whose PATH has the work tree's path as a string prefix (W-notes, W.git, W2; suffix by (a/15) % 3)
//	                             | the work tree's parent
//
// What pristine git-lfs does (probed for all 15 combinations before writing this): started
// inside the work tree it behaves as with discovery (patterns relative to the cwd,
// ./.gitattributes); started anywhere outside it first changes into the work tree root, so
// the arguments are read relative to the root and the top-level .gitattributes is written.
// The model therefore uses invocation directory "" for every outside start. Every second
// case has a .gitattributes lying in the outside directory beforehand (it must stay as it is).
const addrBase = 3 << 20

const (
	addrEnv     = "env-GIT_DIR+GIT_WORK_TREE"
	addrGitOpts = "git-options-work-tree+git-dir"
	addrCoreWT  = "core.worktree+GIT_DIR"

	startRoot      = "cwd-worktree-root"
	startSub       = "cwd-subdir"
	startUnrelated = "cwd-outside-unrelated"
	startLookalike = "cwd-outside-prefix-lookalike"
	startParent    = "cwd-parent"
)

var addrKinds = []string{addrEnv, addrGitOpts, addrCoreWT}
var startKinds = []string{startRoot, startSub, startUnrelated, startLookalike, startParent}
var lookSuffixes = []string{"-notes", ".git", "2"}

// ordinary case kinds used for the addressing cases (7 entries: coprime to 15)
var addrCaseKinds = []string{"pattern", "filename-clean", "pattern-rich", "two-args", "own-line", "pattern", "related-args"}

// addrTrigger: Sig.Trigger of a violation without an argument-intrinsic coordinate in an addressing case.
func addrTrigger(start string) string { return "explicit-worktree/" + start }

// trigMultiKnownFirst: an argument that is new (or needs its lockable state changed) stands
// behind an "already supported" argument in the same command. trigMultiUntrack: untrack with
// several arguments.
const (
	trigMultiKnownFirst = "multi-arg/known-before-new"
	trigMultiUntrack    = "multi-arg/untrack"
)

func permute(r *rand.Rand, n int) []int { return r.Perm(n) }

var focusKinds = []string{"lockable-then-plain", "parent-covers", "repeat-pairs"}
var coverDirs = []string{"sub", "deep/er/still", "dïr"}

var idxPreKinds = []string{"others", "big", "crlf", "mixed-eol-nofinalnl", "big", "macros"}
var forbiddenPatterns = []string{".git*", "*", "*.gitattributes", ".gitattributes", "**/.gitattributes", ".git*", "*ttributes", ".gitattributes"}

var hazards = []string{trigBang, trigDquote, trigTab, trigBracketSpc}
var ownHazards = []string{"k2-lockable", "k3-foreign-filter"}

func seqLen(r *rand.Rand, idx int) int {
	// every length 1..8 is hit deterministically across indexes, order scrambled by the seed
	return 1 + (idx/len(kindTable)+r.Intn(8))%8
}

func genCase(seed int64, idx int) Case {
	r := rand.New(rand.NewSource(seed*1000003 + int64(idx)*7919 + 17))
	c := Case{Index: idx}
	addr, ax := idx >= addrBase, idx-addrBase
	multi, m := idx >= multiBase && !addr, idx-multiBase
	focus, j := idx >= focusBase && !multi && !addr, idx-focusBase
	if addr {
		c.Kind = addrCaseKinds[ax%len(addrCaseKinds)]
	} else if multi {
		c.Kind = "multi-arg"
	} else if focus {
		c.Kind = focusKinds[j%len(focusKinds)]
	} else {
		c.Kind = kindTable[idx%len(kindTable)]
	}
	c.Dir = dirs[r.Intn(len(dirs))]
	var fixed []Step // opening moves of a focus case
	one := func(ops ...string) (st []Step) {
		for _, o := range ops {
			st = append(st, Step{Op: o, Args: []int{0}})
		}
		return
	}
	c.PreKind = preKinds[(idx/3+r.Intn(len(preKinds)))%len(preKinds)]
	length := seqLen(r, idx)
	trackOnly := false
	mk := func(mode, text, hazard string) Arg {
		return Arg{Mode: mode, Text: text, Hazard: hazard, Feats: features(mode, text)}
	}
	withSub := func(n string) string { // sometimes a name below the invocation directory
		if r.Intn(4) == 0 {
			return pick(r, []string{"deep/", "in dir/", "a/b/"}) + n
		}
		return n
	}
	switch c.Kind {
	case "pattern":
		c.Args = []Arg{mk("pattern", genPattern(r, false, false), "")}
	case "pattern-rich":
		c.Args = []Arg{mk("pattern", genPattern(r, true, false), "")}
	case "pattern-space":
		c.Args = []Arg{mk("pattern", genPattern(r, r.Intn(2) == 0, true), "")}
	case "filename-clean":
		c.Args = []Arg{mk("filename", withSub(genFilename(r, focusClean)), "")}
	case "filename-esc":
		c.Args = []Arg{mk("filename", withSub(genFilename(r, focusEsc)), "")}
	case "filename-glob":
		c.Args = []Arg{mk("filename", withSub(genFilename(r, focusGlob)), "")}
	case "filename-both":
		c.Args = []Arg{mk("filename", withSub(genFilename(r, focusBoth)), "")}
	case "two-args":
		switch r.Intn(3) {
		case 0:
			c.Args = []Arg{mk("pattern", genPattern(r, true, false), ""), mk("pattern", genPattern(r, false, false), "")}
		case 1:
			c.Args = []Arg{mk("filename", genFilename(r, focusClean), ""), mk("filename", withSub(genFilename(r, focusGlob)), "")}
		default:
			c.Args = []Arg{mk("pattern", genPattern(r, true, false), ""), mk("filename", withSub(genFilename(r, focusEsc)), "")}
		}
		if c.Args[0].Text == c.Args[1].Text {
			c.Args = c.Args[:1]
		}
	case "related-args":
		// two arguments with the same last component at different depths: "x*.bin" and
		// "assets/x*.bin" are different patterns and must not be taken for one another
		if r.Intn(2) == 0 {
			p := genPattern(r, r.Intn(2) == 0, false)
			p = strings.TrimPrefix(strings.TrimPrefix(p, "/"), "**/")
			c.Args = []Arg{mk("pattern", p, ""), mk("pattern", pick(r, []string{"assets/", "a b/", "k/m/"})+p, "")}
		} else {
			nm := genFilename(r, nameFocus(r.Intn(2))) // clean or glob
			c.Args = []Arg{mk("filename", nm, ""), mk("filename", pick(r, []string{"assets/", "deep/", "k/m/"})+nm, "")}
		}
		if r.Intn(2) == 0 {
			c.Args[0], c.Args[1] = c.Args[1], c.Args[0]
		}
	case "parent-own-line":
		// invoked from a sub-directory while the TOP-LEVEL file holds a line with the same
		// pattern text and no LFS filter: a different pattern (other directory), must be tracked
		if c.Dir == "" {
			c.Dir = dirs[3+r.Intn(len(dirs)-3)]
		}
		a := mk("pattern", genPattern(r, false, false), "")
		a.Own = pick(r, []string{"parent-lockable", "parent-foreign-filter", "parent-text"})
		c.Args = []Arg{a}
	case "indexed":
		round := idx / len(kindTable)
		if idx%2 == 0 {
			c.Indexed = scenIdxMissing
		} else {
			c.Indexed = scenIdxForbidden
		}
		if (idx/2)%2 == 1 {
			c.Dir = dirs[3+r.Intn(len(dirs)-3)]
		} else {
			c.Dir = ""
		}
		c.PreKind = idxPreKinds[(round+idx)%len(idxPreKinds)]
		c.Commit = r.Intn(2) == 0
		if length < 2 {
			length = 2 + r.Intn(3)
		}
		if c.Indexed == scenIdxMissing {
			if r.Intn(3) == 0 {
				c.Args = []Arg{mk("filename", genFilename(r, nameFocus(r.Intn(2))), "")}
			} else {
				c.Args = []Arg{mk("pattern", genPattern(r, false, false), "")}
			}
			if r.Intn(2) == 0 {
				c.Args = append(c.Args, mk("pattern", genPattern(r, true, false), ""))
			}
		} else {
			fp := forbiddenPatterns[(round+r.Intn(len(forbiddenPatterns)))%len(forbiddenPatterns)]
			mode := "pattern"
			if fp == ".gitattributes" && r.Intn(2) == 0 {
				mode = "filename"
			}
			c.Args = []Arg{mk(mode, fp, ""), mk("pattern", genPattern(r, r.Intn(2) == 0, false), "")}
		}
	case "multi-arg":
		n := 3 + r.Intn(2)
		mode := "pattern"
		if (m/4)%5 == 4 {
			mode = "filename"
		}
		if (m/4)%2 == 0 {
			c.Dir = ""
		} else {
			c.Dir = dirs[3+r.Intn(len(dirs)-3)]
		}
		if m%4 == 3 { // sub-directory's-parent cwd
			c.Dir = nestedDirs[(m/4)%len(nestedDirs)]
		}
		seenText := map[string]bool{}
		for len(c.Args) < n {
			var t string
			if mode == "filename" {
				t = genFilename(r, focusClean)
				if strings.HasPrefix(t, "\"") {
					t = "q" + t[1:]
				}
				t = withSub(t)
			} else {
				t = genPattern(r, false, false)
				if c.Dir == "" {
					t = strings.TrimPrefix(t, "/")
				}
			}
			if t == "" || seenText[t] {
				continue
			}
			seenText[t] = true
			c.Args = append(c.Args, mk(mode, t, ""))
		}
		op := []string{"track-lockable", "track", "track-not-lockable"}[(m/4)%3]
		// roles: argument 0 = K, 1 = O, 2 = N, 3 = N or K
		roles := []byte{'K', 'O', 'N', 'N'}[:n]
		if n == 4 && r.Intn(2) == 0 {
			roles[3] = 'K'
		}
		kLockable := r.Intn(2) == 0 // plain track: K may be in either lockable state
		var plainGrp, lockGrp []int
		for i, ro := range roles {
			lockable := false
			switch {
			case ro == 'N':
				continue
			case op == "track-lockable":
				lockable = ro == 'K'
			case op == "track-not-lockable":
				lockable = ro == 'O'
			default:
				lockable = ro == 'O' || kLockable
			}
			if lockable {
				lockGrp = append(lockGrp, i)
			} else {
				plainGrp = append(plainGrp, i)
			}
		}
		if len(plainGrp) > 0 {
			fixed = append(fixed, Step{Op: "track", Args: plainGrp})
		}
		if len(lockGrp) > 0 {
			fixed = append(fixed, Step{Op: "track-lockable", Args: lockGrp})
		}
		order := permute(r, n)
		if m%2 == 0 { // a K argument first
			for i, ai := range order {
				if roles[ai] == 'K' {
					order[0], order[i] = order[i], order[0]
					break
				}
			}
		}
		shape := op + ":"
		for _, ai := range order {
			shape += string(roles[ai])
		}
		c.Multi = shape
		fixed = append(fixed, Step{Op: op, Args: order}, Step{Op: op, Args: append([]int{}, order...)})
		up := permute(r, n)
		fixed = append(fixed, Step{Op: "untrack", Args: up[:2+r.Intn(n-2)]})
		op2 := []string{"track-lockable", "track", "track-not-lockable"}[r.Intn(3)]
		fixed = append(fixed, Step{Op: op2, Args: permute(r, n)})
		length = len(fixed) + r.Intn(2)
	case "lockable-then-plain":
		if (j/12)%4 == 3 {
			c.Args = []Arg{mk("filename", withSub(genFilename(r, focusClean)), "")}
		} else {
			c.Args = []Arg{mk("pattern", genPattern(r, false, false), "")}
		}
		fixed = one("track-lockable", "track", "track")
		switch (j / 12) % 3 {
		case 1:
			fixed = append(fixed, one("track-not-lockable", "track")...)
		case 2:
			fixed = append(fixed, one("untrack", "track-lockable", "track")...)
		}
		length = len(fixed) + r.Intn(2)
	case "parent-covers":
		c.Dir = coverDirs[(j/12+r.Intn(len(coverDirs)))%len(coverDirs)]
		p := "assets/*.bin"
		for try := 0; try < 20; try++ {
			if q := genPattern(r, false, false); strings.Contains(q, "/") {
				p = q
				break
			}
		}
		a := mk("pattern", p, "")
		a.Own = []string{"parent-covers", "parent-covers-lockable"}[(j/12)%2]
		c.Args = []Arg{a}
		fixed = one("track", "track")
		length = len(fixed) + r.Intn(3)
	case "repeat-pairs":
		if (j/12)%3 == 2 {
			c.Args = []Arg{mk("filename", withSub(genFilename(r, focusClean)), "")}
		} else {
			c.Args = []Arg{mk("pattern", genPattern(r, (j/12)%2 == 1, false), "")}
		}
		ops := []string{"track", "track-lockable", "track-not-lockable"}
		o1 := r.Intn(3)
		o2 := (o1 + 1 + r.Intn(2)) % 3
		fixed = one(ops[o1], ops[o1], ops[o2], ops[o2])
		length = len(fixed) + r.Intn(2)
	case "hazard":
		hz := hazards[(idx/len(kindTable))%len(hazards)]
		n := genHazardName(r, hz)
		if hz == trigTab {
			n = withSub(n)
		}
		if hz == trigBracketSpc {
			c.Args = []Arg{mk("pattern", n, hz)}
		} else {
			c.Args = []Arg{mk("filename", n, hz)}
		}
		trackOnly = true
		if length > 3 {
			length = 1 + length%3
		}
	case "own-line", "own-hazard":
		// plain pattern (no character that needs escaping) so that the pre-existing
		// line is what a user would have typed
		p := genPattern(r, false, false)
		a := mk("pattern", p, "")
		if c.Kind == "own-line" {
			a.Own = "k1-text"
		} else {
			a.Own = ownHazards[(idx/len(kindTable))%len(ownHazards)]
			if a.Own == "k2-lockable" {
				a.Hazard = trigOwnLockable
			} else {
				a.Hazard = trigOwnForeign
			}
			trackOnly = true
			if length > 3 {
				length = 1 + length%3
			}
		}
		c.Args = []Arg{a}
	}
	// ---- argument spelling ---------------------------------------------------------
	if idx%5 == 2 {
		for i := range c.Args {
			a := &c.Args[i]
			if a.Hazard != "" || strings.HasPrefix(a.Text, "/") || (len(c.Args) > 1 && (idx/5+i)%2 != 0) {
				continue
			}
			kind := spellingsJudged[(idx/5)%len(spellingsJudged)]
			if t := spell(kind, a.Text); t != a.Text {
				a.Typed, a.Spell = t, kind
			}
		}
	}
	// ---- how the working directory is reached: one case in three of the original list (3 is
	// coprime to len(kindTable)), every focus case according to its index. No random draw is
	// spent on it, so the cases that keep the physical path are exactly what they were.
	c.Cwd = cwdPhysical
	if addr {
		c.Addr = addrKinds[ax%len(addrKinds)]
		c.Start = startKinds[(ax/3)%len(startKinds)]
		switch c.Start {
		case startSub:
			if c.Dir == "" {
				c.Dir = dirs[3+(ax/15)%(len(dirs)-3)]
			}
		case startLookalike:
			c.Dir = ""
			c.Look = lookSuffixes[(ax/15)%len(lookSuffixes)]
		default:
			c.Dir = ""
		}
		c.OutPre = ax%4 >= 2
		if c.Dir == "" { // keep the recorded coordinate "pattern with a leading slash at the top level" out of these cases
			for i, a := range c.Args {
				if a.Mode == "pattern" && strings.HasPrefix(a.Text, "/") {
					na := mk(a.Mode, strings.TrimPrefix(a.Text, "/"), a.Hazard)
					na.Own = a.Own
					c.Args[i] = na
				}
			}
			if len(c.Args) == 2 && c.Args[0].Text == c.Args[1].Text {
				c.Args = c.Args[:1]
			}
		}
		if length < 2 {
			length = 2
		}
		if ax%2 == 0 { // track then untrack of the first argument, the rest is drawn
			fixed = one("track", "untrack")
			if length < 3 {
				length = 3
			}
		}
	} else if multi {
		c.Cwd, c.Dir = settleCwd(allCwds[m%len(allCwds)], c.Dir, m/4)
	} else if focus {
		c.Cwd = allCwds[(j/3)%len(allCwds)]
		if c.Cwd == cwdSubParent {
			if c.Kind == "parent-covers" {
				c.Dir = "deep/er/still"
			} else if c.Dir == "" || !strings.Contains(c.Dir, "/") {
				c.Dir = nestedDirs[(j/12)%len(nestedDirs)]
			}
		}
	} else if idx%3 == 1 {
		c.Cwd, c.Dir = settleCwd(symlinkCwds[(idx/3)%len(symlinkCwds)], c.Dir, idx/9)
	}
	own := ""
	if c.Args[0].Own != "" {
		switch c.Args[0].Own {
		case "k1-text":
			own = c.Args[0].Text + " text eol=lf myattr=own"
		case "k2-lockable":
			own = c.Args[0].Text + " lockable"
		case "k3-foreign-filter":
			own = c.Args[0].Text + " filter=foo"
		}
	}
	parentOwn := ""
	switch c.Args[0].Own {
	case "parent-lockable":
		parentOwn = c.Args[0].Text + " lockable"
	case "parent-foreign-filter":
		parentOwn = c.Args[0].Text + " filter=foo"
	case "parent-text":
		parentOwn = c.Args[0].Text + " text myattr=parent"
	case "parent-covers":
		parentOwn = c.Dir + "/" + strings.TrimPrefix(c.Args[0].Text, "/") + " filter=lfs diff=lfs merge=lfs -text"
	case "parent-covers-lockable":
		parentOwn = c.Dir + "/" + strings.TrimPrefix(c.Args[0].Text, "/") + " filter=lfs diff=lfs merge=lfs -text lockable"
	}
	nonl := idx%7 == 3 // 1 case in 7 (7 is coprime to len(kindTable): every kind gets its share)
	if nonl {
		c.PreKind = nonlKinds[(idx/7+r.Intn(len(nonlKinds)))%len(nonlKinds)]
	}
	if nonl {
		// the TOP-LEVEL file always is the unterminated variant (git-lfs takes the line ending for
		// every rewrite from it); the file of the invocation directory is that or an ordinary one
		if c.Dir == "" {
			c.PreRoot = buildPre(r, c.PreKind, true, own)
		} else {
			c.PreRoot = buildPre(r, c.PreKind, true, parentOwn)
			dk := []string{c.PreKind, "others", "lf-last-nonl", "crlf", "absent"}
			if c.Indexed != "" {
				dk = dk[:4]
			}
			c.PreDir = buildPre(r, pick(r, dk), false, own)
		}
	} else if c.Indexed != "" {
		// never absent: several other patterns with attributes in the file that track rewrites
		if c.Dir == "" {
			c.PreRoot = buildPre(r, c.PreKind, true, "")
		} else {
			c.PreRoot = buildPre(r, pick(r, []string{"others", "macros", "big"}), true, "")
			k := c.PreKind
			if k == "macros" {
				k = "others"
			}
			c.PreDir = buildPre(r, k, false, "")
		}
	} else if parentOwn != "" {
		c.PreRoot = buildPre(r, c.PreKind, true, parentOwn)
		dirKind := c.PreKind
		if r.Intn(2) == 0 {
			dirKind = "absent"
		}
		c.PreDir = buildPre(r, dirKind, false, "")
	} else if c.Dir == "" {
		c.PreRoot = buildPre(r, c.PreKind, true, own)
	} else {
		rootKind := c.PreKind
		if r.Intn(3) == 0 {
			rootKind = "absent"
		}
		c.PreRoot = buildPre(r, rootKind, true, "")
		dirKind := c.PreKind
		if r.Intn(3) == 0 {
			dirKind = "absent"
		}
		c.PreDir = buildPre(r, dirKind, false, own)
	}
	same := len(c.Args) == 2 && c.Args[0].Mode == c.Args[1].Mode
	if c.Indexed != "" {
		same = false // one argument per command: a refused pattern then always shows in the exit status
	}
	c.Steps = genSteps(r, len(c.Args), same, length, trackOnly)
	if fixed != nil {
		copy(c.Steps, fixed) // length >= len(fixed); the tail stays random
	}
	c.U = buildUniverse(r, &c)
	if c.Indexed != "" {
		inDir := func(rel string) string {
			if c.Dir == "" {
				return rel
			}
			return c.Dir + "/" + rel
		}
		trackOp := pick(r, []string{"track", "track", "track-lockable"})
		if c.Indexed == scenIdxMissing {
			// the first command appends the pattern that matches the missing file
			c.Steps[0] = Step{Op: trackOp, Args: []int{0}}
			if c.Args[0].Mode == "filename" {
				c.Victim = inDir(c.Args[0].Text)
			} else {
				c.Victim = inDir(expandPattern(r, c.Args[0].Text, true))
			}
			c.IdxFiles = append(c.IdxFiles, c.Victim)
		} else {
			// first something ordinary (so that LFS lines of this session exist too), then the refused pattern
			c.Steps[0] = Step{Op: "track", Args: []int{1}}
			c.Steps[1] = Step{Op: trackOp, Args: []int{0}}
			c.IdxFiles = append(c.IdxFiles, ".gitignore")
			if c.Dir != "" && r.Intn(2) == 0 {
				c.IdxFiles = append(c.IdxFiles, inDir(".gitignore"))
			}
		}
		// a few more files of the universe, some of them matching the arguments
		for _, p := range []string{"a.txt", "a.zip", "docs/m.pdf", "p.psd", inDir("a.txt"), inDir("run.sh")} {
			c.IdxFiles = append(c.IdxFiles, p)
		}
		for i := 0; i < 3; i++ {
			c.IdxFiles = append(c.IdxFiles, c.U[r.Intn(len(c.U))])
		}
	}
	return c
}

func (c Case) class() string {
	var modes, feats []string
	for _, a := range c.Args {
		modes = append(modes, a.Mode)
		feats = append(feats, featClass(a))
	}
	own := ""
	if c.Args[0].Own != "" {
		own = "/own=" + c.Args[0].Own
	}
	if c.Indexed != "" {
		own += "/indexed-state=" + c.Indexed
		if c.Commit {
			own += "+committed"
		}
	}
	if c.Cwd != "" && c.Cwd != cwdPhysical {
		own += "/cwd=" + c.Cwd
	}
	if c.Addr != "" {
		own += "/addr=" + c.Addr + "/" + c.Start + c.Look
	} else if c.Index >= focusBase {
		own += "/focus=" + c.Kind
		if c.Multi != "" {
			own += "/" + c.Multi
		}
		if c.Cwd == cwdPhysical {
			own += "/cwd=" + c.Cwd
		}
	}
	return fmt.Sprintf("%s/%s/dir=%s/pre=%s%s", strings.Join(modes, "+"), strings.Join(feats, "|"), dirClass(c.Dir), c.PreKind, own)
}
