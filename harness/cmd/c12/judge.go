package main

import (
	"bytes"
	"fmt"
	"path"
	"sort"
	"strings"

	"verif/harness/evid"
)

// op describes ONE migrate invocation as the oracle understands it from the
// man page (never from migrate's output).
type op struct {
	Kind     string // "import" | "export" | "no-rewrite"
	Sel      selection
	Above    int  // import --above=N (0 = not given)
	AllFiles bool // import without --include/--exclude/--above/--fixup
	Fixup    bool
	// ref selection
	Everything  bool
	IncludeRefs []string // full ref names whose histories are migrated
	ExcludeRefs []string // full ref names whose histories are excluded
	// no-rewrite
	Paths   []string
	Message string
}

type judge struct {
	c        *caseCtx
	old, new *view
	op       op
	R        map[string]bool   // commits selected for rewriting (old ids)
	fwd      map[string]string // old commit -> new commit
	rev      map[string]string
	order    []string // old commits in discovery order
	done     int
	reported map[string]bool
	attrOf   map[string]map[string]string // --fixup: old commit -> path -> Git's filter attribute (raw regular files)
	mixed    map[string]int               // --fixup: path\x00blob -> bit 1 tracked in some selected commit, bit 2 untracked in some
	pushed   map[string]bool              // LFS oids referenced by commits reachable from remote-tracking refs
}

func (j *judge) viol(symptom, trigger, what string) {
	k := symptom + "/" + trigger
	if j.reported[k] {
		return
	}
	j.reported[k] = true
	j.c.viol(symptom, trigger, what)
}

func has(ss []string, s string) bool {
	for _, x := range ss {
		if x == s {
			return true
		}
	}
	return false
}

// commitTrigger names the coordinate of the case a commit-level failure belongs to.
func (j *judge) commitTrigger(oldSha string) string {
	labels := j.c.labelsOf(oldSha)
	if ex := j.c.spec.Gen.Exotic; ex != "" && has(labels, ex) {
		return ex
	}
	if j.c.spec.Gen.Dates != "" {
		return j.c.spec.Trigger // the date layout is the coordinate of the case
	}
	for _, l := range []string{"octopus-merge", "merge", "orphan-root"} {
		if has(labels, l) || has(labels, l+"-with-own-changes") {
			return l
		}
	}
	return j.c.spec.Mode + "/" + j.c.spec.RefSel
}

func (j *judge) pathTrigger(kind, p string) string {
	if kind != "raw" && kind != "pointer" {
		return kind
	}
	if j.c.pathTrig != "" {
		return j.c.pathTrig
	}
	return j.c.spec.Mode
}

func short(s string) string {
	if len(s) > 10 {
		return s[:10]
	}
	return s
}

// ---------------------------------------------------------------------------

func (c *caseCtx) judgeOp(old, new *view, o op) *judge {
	j := &judge{c: c, old: old, new: new, op: o, fwd: map[string]string{}, rev: map[string]string{}, reported: map[string]bool{}}
	if o.Kind == "no-rewrite" {
		j.judgeNoRewrite()
		return j
	}
	j.computeR()
	if o.Fixup {
		j.fixupAttrs()
	}
	j.walkRefs(true) // branches first: they define the structural correspondence
	j.checkCommits()
	j.walkRefs(false) // tags and everything else are then held against it
	j.checkCommits()
	for s := range j.R {
		if _, ok := j.fwd[s]; !ok {
			c.run.Count("selected_commits_not_reached_by_walk", 1)
		}
	}
	return j
}

func (j *judge) tipsOf(refs []string) []string {
	var tips []string
	for _, r := range refs {
		sha, ok := j.old.refs[r]
		if !ok {
			panic("oracle: unknown ref " + r)
		}
		if _, fin, typ := j.old.peel(sha); typ == "commit" {
			tips = append(tips, fin)
		}
	}
	return tips
}

func (j *judge) computeR() {
	var inc, exc []string
	if j.op.Everything {
		for r := range j.old.refs {
			inc = append(inc, r)
		}
	} else {
		inc, exc = j.op.IncludeRefs, j.op.ExcludeRefs
	}
	in := j.old.reach(j.tipsOf(inc))
	out := j.old.reach(j.tipsOf(exc))
	j.R = map[string]bool{}
	for s := range in {
		if !out[s] {
			j.R[s] = true
		}
	}
	j.c.run.Count("commits_selected_for_rewrite", int64(len(j.R)))
}

func (j *judge) mandatory(ref string) bool {
	if strings.HasPrefix(ref, "refs/tags/") {
		return true // statement: tags point at the images of their old targets
	}
	if j.op.Everything {
		return strings.HasPrefix(ref, "refs/heads/")
	}
	return has(j.op.IncludeRefs, ref)
}

// pair records old->new and reports a broken bijection.
func (j *judge) pair(o, n, why string) bool {
	if prev, ok := j.fwd[o]; ok {
		if prev != n && strings.HasPrefix(why, "refs/") {
			trig := j.c.gen.TagLabels[why]
			if trig == "" {
				trig = j.c.spec.Mode + "/" + j.c.spec.RefSel
			}
			j.viol("ref-not-at-image-of-old-target", trig, fmt.Sprintf("%s pointed at %s whose image is %s, but now points at %s", why, short(o), short(prev), short(n)))
		} else if prev != n {
			j.viol("commit-map-not-a-function", j.commitTrigger(o), fmt.Sprintf("old commit %s corresponds to both %s and %s (%s)", short(o), short(prev), short(n), why))
		}
		return false
	}
	if prev, ok := j.rev[n]; ok && prev != o {
		j.viol("commit-map-not-injective", j.commitTrigger(o), fmt.Sprintf("new commit %s is the image of both %s and %s (%s)", short(n), short(prev), short(o), why))
		return false
	}
	j.fwd[o], j.rev[n] = n, o
	j.order = append(j.order, o)
	return true
}

// walkRefs: clause (4) and the seeds of the structural commit correspondence.
func (j *judge) walkRefs(heads bool) {
	run := j.c.run
	var names []string
	for r := range j.old.refs {
		if strings.HasPrefix(r, "refs/heads/") == heads {
			names = append(names, r)
		}
	}
	sort.Strings(names)
	if heads && j.old.head != j.new.head {
		j.viol("head-changed", j.c.spec.Mode, fmt.Sprintf("HEAD was %q, is %q", j.old.head, j.new.head))
	}
	for _, ref := range names {
		oSha := j.old.refs[ref]
		nSha, ok := j.new.refs[ref]
		run.Count("refs_compared", 1)
		label := j.c.gen.TagLabels[ref]
		trig := label
		if trig == "" {
			trig = j.c.spec.Mode + "/" + j.c.spec.RefSel
		}
		if !ok {
			j.viol("ref-deleted", trig, fmt.Sprintf("%s existed before migrate and is gone", ref))
			continue
		}
		if strings.HasPrefix(ref, "refs/remotes/") {
			if nSha != oSha {
				j.viol("remote-ref-changed", trig, fmt.Sprintf("%s moved %s -> %s (the man page: remote refs are never updated)", ref, short(oSha), short(nSha)))
			}
			continue
		}
		oTags, oFin, oTyp := j.old.peel(oSha)
		if oTyp != "commit" {
			if nSha != oSha {
				j.viol("unselected-ref-changed", trig, fmt.Sprintf("%s (-> %s) changed", ref, oTyp))
			}
			continue
		}
		if !j.R[oFin] {
			if nSha != oSha && j.sameTagChain(oSha, nSha) {
				j.viol("unselected-tag-object-reencoded", trig, fmt.Sprintf("%s points (through %d tag objects) at %s, which is outside the selected range; the tag object was rewritten anyway %s -> %s (same fields, message differs in trailing newline only)", ref, len(oTags), short(oFin), short(oSha), short(nSha)))
			} else if nSha != oSha {
				j.viol("unselected-ref-changed", trig, fmt.Sprintf("%s points at %s, which is outside the selected range, yet moved %s -> %s", ref, short(oFin), short(oSha), short(nSha)))
			}
			j.pair(oFin, oFin, ref)
			continue
		}
		if nSha == oSha && !j.mandatory(ref) {
			// a local branch that was not selected but points into the rewritten range may stay (weakest reading)
			run.Count("optional_refs_left_in_place", 1)
			continue
		}
		nTags, nFin, nTyp := j.new.peel(nSha)
		if nTyp != "commit" || len(nTags) != len(oTags) {
			j.viol("ref-target-type-changed", trig, fmt.Sprintf("%s: was %d tag object(s) -> commit, now %d tag object(s) -> %s", ref, len(oTags), len(nTags), nTyp))
			continue
		}
		if len(oTags) > 0 {
			run.Count("annotated_tags_compared", 1)
		}
		for i := range oTags {
			ot, nt := j.old.tag(oTags[i]), j.new.tag(nTags[i])
			if ot.typ != nt.typ || ot.name != nt.name || ot.tagger != nt.tagger || fmt.Sprint(ot.extra) != fmt.Sprint(nt.extra) {
				j.viol("tag-object-changed", trig, fmt.Sprintf("%s level %d: type/tag/tagger were %q/%q/%q, are %q/%q/%q", ref, i, ot.typ, ot.name, ot.tagger, nt.typ, nt.name, nt.tagger))
			}
			// Deciding comparison ignores trailing newlines of the tag message (the statement
			// speaks of commit messages only; the byte-exact difference is counted).
			if !bytes.Equal(bytes.TrimRight(ot.msg, "\n"), bytes.TrimRight(nt.msg, "\n")) {
				j.viol("tag-message-changed", trig, fmt.Sprintf("%s level %d: message %q became %q", ref, i, ot.msg, nt.msg))
			} else if !bytes.Equal(ot.msg, nt.msg) {
				run.Count("tag_messages_differing_only_in_trailing_newline", 1)
			}
		}
		// the image is defined structurally below; here the ref seeds the correspondence
		if nFin == oFin {
			// a selected commit may keep its id when nothing in it changed
			run.Count("selected_commits_with_unchanged_id", 1)
		}
		j.pair(oFin, nFin, ref)
		if j.mandatory(ref) {
			run.Count("mandatory_refs_checked", 1)
		}
	}
}

// fixupAttrs asks Git, per selected ORIGINAL commit, which raw regular files are LFS-tracked.
func (j *judge) fixupAttrs() {
	j.attrOf, j.mixed = map[string]map[string]string{}, map[string]int{}
	for s := range j.R {
		c := j.old.commit(s)
		t := j.old.flatten(c.tree)
		var ps []string
		for _, p := range sortedPaths(t) {
			if !isAttrPath(p) && j.old.kindOf(t[p]) == "raw" {
				ps = append(ps, p)
			}
		}
		a := j.old.filterAttr(s, ps)
		j.c.run.Count("git_check_attr_queries", int64(len(ps)))
		j.attrOf[s] = a
		for _, p := range ps {
			if a[p] == "lfs" {
				j.mixed[p+"\x00"+t[p].Sha] |= 1
			} else {
				j.mixed[p+"\x00"+t[p].Sha] |= 2
			}
		}
	}
}

func (j *judge) pushedOids() map[string]bool {
	if j.pushed != nil {
		return j.pushed
	}
	j.pushed = map[string]bool{}
	var tips []string
	for r, s := range j.old.refs {
		if strings.HasPrefix(r, "refs/remotes/") {
			tips = append(tips, s)
		}
	}
	for s := range j.old.reach(tips) {
		for _, e := range j.old.flatten(j.old.commit(s).tree) {
			if e.Mode == "100644" || e.Mode == "100755" {
				if bi := j.old.info(e.Sha); bi.ptr != nil {
					j.pushed[bi.ptr.Oid] = true
				}
			}
		}
	}
	return j.pushed
}

// sameTagChain: both refs peel through equally long chains of tag objects with equal
// fields (messages modulo trailing newlines) to the same object.
func (j *judge) sameTagChain(oSha, nSha string) bool {
	ot, of, _ := j.old.peel(oSha)
	nt, nf, _ := j.new.peel(nSha)
	if of != nf || len(ot) != len(nt) || len(ot) == 0 {
		return false
	}
	for i := range ot {
		a, b := j.old.tag(ot[i]), j.new.tag(nt[i])
		if a.typ != b.typ || a.name != b.name || a.tagger != b.tagger || !bytes.Equal(bytes.TrimRight(a.msg, "\n"), bytes.TrimRight(b.msg, "\n")) {
			return false
		}
	}
	return true
}

// introducedOnlyByMerges: in the ORIGINAL history every commit that brings a
// pointer to oid to a path where no parent has it is a merge commit.
func (j *judge) introducedOnlyByMerges(oid string) bool {
	var tips []string
	for _, s := range j.old.refs {
		if _, fin, typ := j.old.peel(s); typ == "commit" {
			tips = append(tips, fin)
		}
	}
	found := false
	for s := range j.old.reach(tips) {
		c := j.old.commit(s)
		t := j.old.flatten(c.tree)
		for p, e := range t {
			if e.Mode == "120000" || e.Mode == "160000" {
				continue
			}
			bi := j.old.info(e.Sha)
			if bi.ptr == nil || bi.ptr.Oid != oid {
				continue
			}
			inParent := false
			for _, ps := range c.parents {
				if pe, ok := j.old.flatten(j.old.commit(ps).tree)[p]; ok && pe.Sha == e.Sha {
					inParent = true
				}
			}
			if !inParent {
				found = true
				if len(c.parents) < 2 {
					return false
				}
			}
		}
	}
	return found
}

func fingerprint(c *pcommit) string {
	return c.author + "\x00" + c.committer + "\x00" + fmt.Sprint(c.extra) + "\x00" + string(c.msg)
}

// checkCommits: clauses (1), (2), (3), (5) over the structural correspondence.
func (j *judge) checkCommits() {
	run := j.c.run
	for ; j.done < len(j.order); j.done++ { // j.order grows while walking
		o := j.order[j.done]
		n := j.fwd[o]
		run.Count("commits_mapped", 1)
		if !j.R[o] {
			if o != n {
				j.viol("unselected-commit-rewritten", j.commitTrigger(o), fmt.Sprintf("commit %s is outside the selected range but corresponds to a different commit %s", short(o), short(n)))
			}
			continue // identical object => identical ancestry
		}
		oc, nc := j.old.commit(o), j.new.commit(n)
		if oc == nil || nc == nil {
			j.viol("commit-missing", j.commitTrigger(o), fmt.Sprintf("commit object %s / %s not readable", short(o), short(n)))
			continue
		}
		trig := j.commitTrigger(o)
		if o != n && oc.tree == nc.tree {
			// nothing in the commit's tree had to change, but an ancestor was rewritten
			run.Count("commits_with_unchanged_tree_reparented", 1)
		}
		if oc.author != nc.author {
			j.viol("author-changed", trig, fmt.Sprintf("commit %s -> %s: author %q became %q", short(o), short(n), oc.author, nc.author))
		}
		if oc.committer != nc.committer {
			j.viol("committer-changed", trig, fmt.Sprintf("commit %s -> %s: committer %q became %q", short(o), short(n), oc.committer, nc.committer))
		}
		if !bytes.Equal(oc.msg, nc.msg) {
			j.viol("message-changed", trig, fmt.Sprintf("commit %s -> %s: message %q became %q", short(o), short(n), oc.msg, nc.msg))
		}
		if fmt.Sprint(oc.extra) != fmt.Sprint(nc.extra) {
			j.viol("extra-headers-changed", trig, fmt.Sprintf("commit %s -> %s: extra headers %q became %q", short(o), short(n), oc.extra, nc.extra))
		}
		if len(oc.parents) != len(nc.parents) {
			j.viol("parent-count-changed", trig, fmt.Sprintf("commit %s has %d parents, its image %s has %d", short(o), len(oc.parents), short(n), len(nc.parents)))
		} else {
			// parent order: generated commits have pairwise distinct metadata
			if len(oc.parents) > 1 {
				var of, nf []string
				for k := range oc.parents {
					if a, b := j.old.commit(oc.parents[k]), j.new.commit(nc.parents[k]); a != nil && b != nil {
						of, nf = append(of, fingerprint(a)), append(nf, fingerprint(b))
					}
				}
				if strings.Join(of, "\x01") != strings.Join(nf, "\x01") {
					so, sn := append([]string(nil), of...), append([]string(nil), nf...)
					sort.Strings(so)
					sort.Strings(sn)
					if strings.Join(so, "\x01") == strings.Join(sn, "\x01") {
						j.viol("parent-order-changed", trig, fmt.Sprintf("merge %s -> %s: same parents in a different order", short(o), short(n)))
						continue
					}
				}
				run.Count("merge_parent_lists_compared", 1)
			}
			for k := range oc.parents {
				j.pair(oc.parents[k], nc.parents[k], "parent "+fmt.Sprint(k)+" of "+short(o))
			}
		}
		j.checkTrees(o, n, oc, nc)
	}
}

// expectedConverted decides, from the man page alone, whether the entry at
// path p of a selected old commit must change representation.
func (j *judge) expectedConverted(p string, e Ent, kind string, attr map[string]string) (want bool, boundary bool) {
	if isAttrPath(p) {
		return false, false
	}
	switch j.op.Kind {
	case "import":
		if kind != "raw" { // symlinks, gitlinks, empty files and pointers keep their blob
			return false, false
		}
		switch {
		case j.op.Fixup:
			return attr[p] == "lfs", false
		case j.op.Above > 0:
			sz := j.old.info(e.Sha).size
			// "Only migrate files whose individual filesize is above the given size"
			return sz > j.op.Above, sz == j.op.Above
		case j.op.AllFiles:
			return true, false
		}
		return j.op.Sel.matches(p), false
	case "export":
		return kind == "pointer" && j.op.Sel.matches(p), false
	}
	return false, false
}

func (j *judge) checkTrees(o, n string, oc, nc *pcommit) {
	run := j.c.run
	ot, nt := j.old.flatten(oc.tree), j.new.flatten(nc.tree)
	attr := j.attrOf[o]
	var converted, kept []string
	for _, p := range sortedPaths(ot) {
		oe := ot[p]
		ne, ok := nt[p]
		kind := j.old.kindOf(oe)
		if ok && kind == "pointer" && ne.Sha == oe.Sha && !isAttrPath(p) {
			kept = append(kept, p)
		}
		trig := j.pathTrigger(kind, p)
		if oe.Mode == "100755" && kind == "raw" {
			trig = "executable"
		}
		where := fmt.Sprintf("commit %s -> %s path %q", short(o), short(n), p)
		if !ok {
			if isAttrPath(p) {
				j.viol("gitattributes-removed", trig, where+" disappeared")
			} else {
				j.viol("path-missing", trig, where+" disappeared")
			}
			continue
		}
		run.Count("paths_compared", 1)
		if isAttrPath(p) {
			// migrate may rewrite .gitattributes files, "always assigned the default read/write permissions mode"
			if ne.Mode != "100644" && ne.Sha != oe.Sha {
				j.viol("gitattributes-mode", trig, fmt.Sprintf("%s has mode %s", where, ne.Mode))
			}
			continue
		}
		if ne.Mode != oe.Mode {
			j.viol("mode-changed", trig, fmt.Sprintf("%s: mode %s became %s", where, oe.Mode, ne.Mode))
		}
		// (2) resolved content
		var reads int64
		or, oerr := j.old.resolved(oe, &reads)
		nr, nerr := j.new.resolved(ne, &reads)
		run.Count("blobs_resolved_through_store", reads)
		if oerr != "" {
			panic("oracle: original history not resolvable: " + oerr)
		}
		if nerr != "" {
			mt := trig
			bi := j.new.info(ne.Sha)
			if bi.ptr != nil && j.op.Kind == "export" && j.pushedOids()[bi.ptr.Oid] {
				// export ends with a prune; objects of commits that exist on a remote are expendable
				// by prune's rules (the generator pushed them without uploading) => not judged
				run.Count("objects_pruned_because_referenced_by_pushed_commits", 1)
				goto representation
			}
			if bi.ptr != nil && j.op.Kind == "export" && j.introducedOnlyByMerges(bi.ptr.Oid) {
				mt = "lfs-object-introduced-only-by-merge-commits"
			}
			j.viol("lfs-object-missing", mt, where+": "+nerr)
		} else if or != nr {
			j.viol("content-changed", trig, fmt.Sprintf("%s: resolved content sha256 %s became %s", where, short(or), short(nr)))
		}
	representation:
		// (3) representation
		want, boundary := j.expectedConverted(p, oe, kind, attr)
		nkind := j.new.kindOf(ne)
		run.Count("representation_checks", 1)
		if boundary {
			// size == threshold: judged under its own coordinate
			if ne.Sha != oe.Sha {
				j.viol("unselected-path-converted", "size-equals-threshold", fmt.Sprintf("%s: file of exactly %d bytes was converted by --above=%d (documented: only files ABOVE the size)", where, j.op.Above, j.op.Above))
			}
			continue
		}
		ftrig := trig
		if j.op.Fixup && kind == "raw" {
			if want {
				run.Count("fixup_raw_paths_git_says_lfs", 1)
			} else {
				run.Count("fixup_raw_paths_git_says_not_lfs", 1)
			}
			if j.mixed[p+"\x00"+oe.Sha] == 3 {
				// the same blob at the same path is LFS-tracked in some selected commits and not in others
				ftrig = "fixup-tracking-differs-between-commits"
			} else if !want && (j.c.spec.Gen.FixupOverrides || j.c.spec.Mode == "fixup-after-export") {
				// Git says the raw file is not filter=lfs (a later line / nested file takes the attribute back)
				ftrig = "fixup-filter-override"
			} else if j.c.spec.Gen.Fixup != "plain" && j.c.spec.Gen.Fixup != "" {
				ftrig = "fixup-" + j.c.spec.Gen.Fixup
			}
		}
		switch {
		case want && j.op.Kind == "import":
			if nkind != "pointer" {
				j.viol("selected-path-not-converted", ftrig, fmt.Sprintf("%s is selected but still a %s blob", where, nkind))
			} else {
				converted = append(converted, p)
				run.Count("paths_converted_to_pointer", 1)
			}
		case want && j.op.Kind == "export":
			if nkind == "pointer" {
				j.viol("selected-path-not-converted", ftrig, where+" is selected for export but still a pointer")
			} else {
				converted = append(converted, p)
				run.Count("paths_converted_to_blob", 1)
			}
		default:
			if ne.Sha != oe.Sha {
				sym := "unselected-blob-changed"
				if nkind != kind {
					sym = "unselected-path-converted"
				}
				j.viol(sym, ftrig, fmt.Sprintf("%s is not selected (%s) but its blob changed %s -> %s (%s)", where, kind, short(oe.Sha), short(ne.Sha), nkind))
			} else {
				run.Count("unselected_paths_with_same_blob", 1)
			}
		}
	}
	for _, p := range sortedPaths(nt) {
		if _, ok := ot[p]; !ok && !isAttrPath(p) {
			j.viol("path-added", j.c.spec.Mode, fmt.Sprintf("commit %s -> %s: path %q appeared", short(o), short(n), p))
		}
	}
	// (5b) a path that was an LFS pointer Git treated as LFS, and still is that pointer, must
	// still be treated as LFS: otherwise a checkout now yields the pointer text.
	if len(kept) > 0 && oc.tree != nc.tree {
		was, is := j.old.filterAttr(o, kept), j.new.filterAttr(n, kept)
		run.Count("git_check_attr_queries", int64(2*len(kept)))
		for _, p := range kept {
			if was[p] == "lfs" && is[p] != "lfs" {
				trig := j.c.spec.Mode
				for _, x := range j.op.Sel.Exclude {
					if matchOne(x, p) && j.op.Kind == "import" {
						trig = "exclude-covers-existing-lfs-file"
					}
				}
				if trig == "exclude-covers-existing-lfs-file" {
					// The user's own --exclude pattern covers a file that already is in LFS; migrate then
					// writes a negating attribute line for it. The file keeps its representation, so the
					// statement is not violated; observed and counted only (lead's decision).
					run.Count("observed_exclude_pattern_untracks_existing_lfs_file", 1)
					continue
				}
				j.viol("existing-lfs-path-untracked", trig, fmt.Sprintf("commit %s -> %s: %q was and is an LFS pointer, Git treated it as LFS before (filter=lfs), now `git check-attr filter` says %q", short(o), short(n), p, is[p]))
			}
			run.Count("kept_pointers_attr_compared", 1)
		}
	}
	// (5) Git's own view of the rewritten .gitattributes
	if len(converted) > 0 {
		got := j.new.filterAttr(n, converted)
		run.Count("git_check_attr_queries", int64(len(converted)))
		for _, p := range converted {
			trig := j.c.spec.Mode
			for d := path.Dir(p); d != "." && d != "/"; d = path.Dir(d) {
				if _, ok := nt[d+"/.gitattributes"]; ok && j.op.Kind == "export" {
					trig = "nested-gitattributes" // export only edits the root file
				}
			}
			if j.op.Kind == "import" && got[p] != "lfs" {
				j.viol("converted-path-not-tracked", trig, fmt.Sprintf("commit %s -> %s: %q is now a pointer but `git check-attr filter` says %q", short(o), short(n), p, got[p]))
			}
			if j.op.Kind == "export" && got[p] == "lfs" {
				j.viol("exported-path-still-tracked", trig, fmt.Sprintf("commit %s -> %s: %q was exported to a plain blob but `git check-attr filter` still says lfs", short(o), short(n), p))
			}
		}
	}
}

// judgeNoRewrite: one commit on top of the current branch, nothing else moves.
func (j *judge) judgeNoRewrite() {
	run := j.c.run
	cur := j.old.head
	trig := j.c.spec.Mode
	for ref, oSha := range j.old.refs {
		run.Count("refs_compared", 1)
		if ref == cur {
			continue
		}
		if j.new.refs[ref] != oSha {
			j.viol("unselected-ref-changed", trig, fmt.Sprintf("%s moved %s -> %s under --no-rewrite", ref, short(oSha), short(j.new.refs[ref])))
		}
	}
	if j.old.head != j.new.head {
		j.viol("head-changed", trig, fmt.Sprintf("HEAD was %q, is %q", j.old.head, j.new.head))
	}
	o, n := j.old.refs[cur], j.new.refs[cur]
	nc := j.new.commit(n)
	if nc == nil || len(nc.parents) != 1 || nc.parents[0] != o {
		j.viol("history-rewritten-by-no-rewrite", trig, fmt.Sprintf("%s: old tip %s is not the only parent of the new tip %s", cur, short(o), short(n)))
		return
	}
	run.Count("commits_mapped", 1)
	if j.op.Message != "" && string(nc.msg) != j.op.Message+"\n" {
		j.viol("message-changed", trig, fmt.Sprintf("--no-rewrite -m %q produced message %q", j.op.Message, nc.msg))
	}
	oc := j.old.commit(o)
	ot, nt := j.old.flatten(oc.tree), j.new.flatten(nc.tree)
	var converted []string
	for _, p := range sortedPaths(ot) {
		oe := ot[p]
		ne, ok := nt[p]
		where := fmt.Sprintf("new commit %s path %q", short(n), p)
		if !ok {
			j.viol("path-missing", trig, where+" disappeared")
			continue
		}
		run.Count("paths_compared", 1)
		kind := j.old.kindOf(oe)
		if ne.Mode != oe.Mode {
			j.viol("mode-changed", j.pathTrigger(kind, p), fmt.Sprintf("%s: mode %s became %s", where, oe.Mode, ne.Mode))
		}
		var reads int64
		or, _ := j.old.resolved(oe, &reads)
		nr, nerr := j.new.resolved(ne, &reads)
		run.Count("blobs_resolved_through_store", reads)
		if nerr != "" {
			j.viol("lfs-object-missing", trig, where+": "+nerr)
		} else if or != nr {
			j.viol("content-changed", trig, fmt.Sprintf("%s: resolved content changed", where))
		}
		run.Count("representation_checks", 1)
		if has(j.op.Paths, p) && kind == "raw" {
			if j.new.kindOf(ne) != "pointer" {
				j.viol("selected-path-not-converted", trig, where+" was named on the command line but is not a pointer")
			} else {
				converted = append(converted, p)
				run.Count("paths_converted_to_pointer", 1)
			}
		} else if ne.Sha != oe.Sha {
			j.viol("unselected-blob-changed", trig, fmt.Sprintf("%s was not named (or is %s) but its blob changed", where, kind))
		}
	}
	for _, p := range sortedPaths(nt) {
		if _, ok := ot[p]; !ok {
			j.viol("path-added", trig, fmt.Sprintf("new commit %s: path %q appeared", short(n), p))
		}
	}
	got := j.new.filterAttr(n, converted)
	for _, p := range converted {
		if got[p] != "lfs" {
			j.viol("converted-path-not-tracked", trig, fmt.Sprintf("%q is a pointer but check-attr says %q", p, got[p]))
		}
	}
}

// roundTrip: clause (6) over the composition orig -> mid -> final.
func (c *caseCtx) roundTrip(orig, final *view, f1, f2 map[string]string, sel selection) {
	n := 0
	for o, m := range f1 {
		f, ok := f2[m]
		if !ok {
			continue
		}
		oc, fc := orig.commit(o), final.commit(f)
		if oc == nil || fc == nil {
			continue
		}
		ot, ft := orig.flatten(oc.tree), final.flatten(fc.tree)
		for _, p := range sortedPaths(ot) {
			if isAttrPath(p) || !sel.matches(p) {
				continue
			}
			kind := orig.kindOf(ot[p])
			n++
			if kind == "pointer" {
				continue // was in LFS before the import; export legitimately expands it
			}
			if ft[p].Sha != ot[p].Sha {
				c.viol("roundtrip-blob-differs", kind, fmt.Sprintf("export after import: commit %s path %q had blob %s, has %s", short(o), p, short(ot[p].Sha), short(ft[p].Sha)))
				return
			}
		}
	}
	c.run.Count("roundtrip_selected_paths_compared", int64(n))
}

func (c *caseCtx) viol(symptom, trigger, what string) {
	c.nviol++
	c.run.Violation(evid.Sig{Symptom: symptom, Trigger: trigger}, what, map[string]any{
		"case": c.spec.Idx, "class": c.spec.class(), "commands": c.cmds, "what": what,
		"generator": c.spec.Gen, "history": c.gen.Log, "seed": c.run.Seed, "base": path.Base(c.env.Root),
	})
}
