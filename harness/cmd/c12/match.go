package main

import (
	"path"
	"strings"
)

// Own matcher for the few pattern forms the driver generates. Their meaning
// is unambiguous under the rule of git-lfs-migrate(1) ("functionally
// equivalent to the pattern matching format of .gitattributes"):
//
//	*.ext       no slash: matches the basename at any depth
//	dir/*.ext   contains a slash: anchored at the root, * does not cross '/',
//	            so only direct children of dir
//	dir/f.ext   exact path containing a slash (anchored)
//	dir/**      everything below dir at any depth
func matchOne(pat, p string) bool {
	switch {
	case strings.HasSuffix(pat, "/**"):
		return strings.HasPrefix(p, strings.TrimSuffix(pat, "**"))
	case strings.HasPrefix(pat, "*.") && !strings.Contains(pat, "/"):
		return strings.HasSuffix(path.Base(p), pat[1:]) && len(path.Base(p)) > len(pat)-1
	case strings.Contains(pat, "/") && strings.HasPrefix(path.Base(pat), "*."):
		return path.Dir(p) == path.Dir(pat) && strings.HasSuffix(path.Base(p), path.Base(pat)[1:])
	case strings.Contains(pat, "/") && !strings.ContainsAny(pat, "*?["):
		return p == pat
	}
	panic("matcher: unsupported pattern form " + pat)
}

type selection struct {
	Include []string
	Exclude []string
}

func (s selection) matches(p string) bool {
	inc := len(s.Include) == 0
	for _, q := range s.Include {
		if matchOne(q, p) {
			inc = true
		}
	}
	if !inc {
		return false
	}
	for _, q := range s.Exclude {
		if matchOne(q, p) {
			return false
		}
	}
	return true
}
