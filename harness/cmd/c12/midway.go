package main

// "LFS adopted midway / already-correct descendants" histories.
//
// A repository that starts WITHOUT LFS (raw files whose names match the later
// tracking pattern, no tracking line), then a commit adopts LFS: the root
// .gitattributes gets exactly the line the real `git lfs track <pattern>`
// writes (the command runs in the scratch work tree and its output file is
// committed byte for byte) and every matching file is re-added through the
// real clean filter. Later commits hold proper pointers (new files, modified
// and renamed old ones), optionally a topic branch that is merged back, a
// "legacy" branch that forked before the adoption and never adopts LFS, tags
// on commits of both phases, and "mistakes": a NEW file with FRESH content is
// committed raw although the tracking line is present and is repaired by a
// later commit (re-added as a pointer, replaced, or deleted).
//
// What makes these histories different from the ones build() creates: an
// import of the tracked pattern, and an import --fixup, have to rewrite EARLY
// commits only; the trees of later commits are already what the import would
// produce, so those commits merely have to be re-parented onto the rewritten
// ancestors (and the refs have to move although the tip trees do not change).
//
// Invariants that keep the recorded --fixup findings (tracking differs between
// commits + the path:oid cache) out of these histories:
//   - the tracking line, once added, stays in every later commit of every
//     branch that has it;
//   - the adoption commit converts EVERY raw file the pattern matches, so no
//     blob is raw+untracked in one commit and raw+tracked in another one;
//   - mistakes use fresh random content at fresh paths, so their path:blob
//     pair never occurs in the untracked phase or on the legacy branch.

import (
	"fmt"
	"os"
	"path/filepath"
	"strings"

	"verif/harness/sbx"
)

type MidwayOpt struct {
	Pattern    string // argument of `git lfs track`, of import --include and of export --include
	Pre        int    // commits before LFS is adopted (0: the root commit already has the line)
	Post       int    // commits on main after the adoption commit
	Mistakes   int    // files committed raw after the line was added, each repaired later
	Legacy     bool   // a branch forks from the last pre-LFS commit and never adopts LFS
	OtherAttrs bool   // .gitattributes exists from the root commit on, with an unrelated line
	Merge      bool   // a topic branch forks after the adoption and is merged back into main
}

var midwayPatterns = []string{"*.bin", "a/*.dat", "*.dat", "c d/*.dat"}

// midwayDirs: directories whose files the pattern matches / same extension but NOT matched.
func midwayDirs(pattern string) (ext string, match, near []string) {
	switch pattern {
	case "*.bin":
		return ".bin", []string{"", "a/", "a/b/", "c d/"}, nil
	case "*.dat":
		return ".dat", []string{"", "a/", "a/b/", "c d/"}, nil
	case "a/*.dat":
		return ".dat", []string{"a/"}, []string{"", "a/b/"}
	case "c d/*.dat":
		return ".dat", []string{"c d/"}, []string{"", "a/"}
	}
	panic("midway: unknown pattern " + pattern)
}

// trackLine lets the real `git lfs track` write the attributes file.
func (g *Gen) trackLine(existing []byte, pattern string) []byte {
	p := filepath.Join(g.Dir, ".gitattributes")
	os.Remove(p)
	if existing != nil {
		if err := os.WriteFile(p, existing, 0o644); err != nil {
			panic(err)
		}
	}
	res := g.env.Run(sbx.RunOpt{Dir: g.Dir}, "git-lfs", "track", pattern)
	if !res.OK() {
		panic("generator: git lfs track failed: " + res.String())
	}
	b, err := os.ReadFile(p)
	if err != nil {
		panic("generator: git lfs track wrote no .gitattributes: " + err.Error())
	}
	os.Remove(p)
	if !strings.Contains(string(b), " filter=lfs ") || len(b) <= len(existing) {
		panic("generator: unexpected output of git lfs track: " + string(b))
	}
	g.logf("git lfs track %q  => .gitattributes %q", pattern, b)
	return b
}

type midway struct {
	g       *Gen
	o       MidwayOpt
	ext     string
	match   []string
	near    []string
	content map[string][]byte // content of every file with the extension ever written
	seq     int
	adopted bool
	rawOpen []string // mistakes not yet repaired (paths on main)
}

func (m *midway) fresh() []byte { return m.g.bytes(200+m.g.r.Intn(3800), false) }

func (m *midway) newName(dirs []string, stem string) string {
	m.seq++
	d := dirs[m.g.r.Intn(len(dirs))]
	if m.g.r.Intn(4) == 0 {
		stem += " x" // a name with a space
	}
	return fmt.Sprintf("%s%s%d%s", d, stem, m.seq, m.ext)
}

// write puts content at p in the representation a correctly configured client would produce.
func (m *midway) write(t Tree, p string, b []byte) {
	m.content[p] = b
	if m.adopted && m.matches(p) {
		t[p] = Ent{Mode: "100644", Sha: m.g.pointer(p, b)}
		m.g.logf("write %s (pointer through the clean filter)", p)
	} else {
		t[p] = Ent{Mode: "100644", Sha: m.g.blob(b)}
		m.g.logf("write %s (raw)", p)
	}
}

func (m *midway) matches(p string) bool { return matchOne(m.o.Pattern, p) }

func (m *midway) matching(t Tree, wantRaw bool) []string {
	raw := map[string]bool{}
	for _, p := range m.rawOpen {
		raw[p] = true
	}
	return keysOf(t, func(p string, e Ent) bool {
		return !isAttrPath(p) && m.matches(p) && raw[p] == wantRaw
	})
}

func (m *midway) text(t Tree) {
	p := []string{"notes.txt", "a/src.c", "c d/read me.txt", "Makefile"}[m.g.r.Intn(4)]
	t[p] = Ent{Mode: "100644", Sha: m.g.blob([]byte(fmt.Sprintf("plain text %d\nline two\n", m.g.r.Intn(100000))))}
	m.g.logf("write %s", p)
}

// step applies one ordinary change of the current phase to t.
func (m *midway) step(t Tree) {
	g := m.g
	ptrs := m.matching(t, false)
	switch k := g.r.Intn(100); {
	case k < 40 || len(ptrs) == 0:
		m.write(t, m.newName(m.match, "m"), m.fresh())
	case k < 60:
		m.write(t, ptrs[g.r.Intn(len(ptrs))], m.fresh()) // modify
	case k < 70 && len(ptrs) > 1:
		p := ptrs[g.r.Intn(len(ptrs))]
		delete(t, p)
		g.logf("delete %s", p)
	case k < 82:
		p := ptrs[g.r.Intn(len(ptrs))]
		q := m.newName(m.match, "moved")
		t[q], m.content[q] = t[p], m.content[p]
		delete(t, p)
		g.logf("rename %s -> %s", p, q)
	case k < 90 && len(m.near) > 0:
		m.write(t, m.newName(m.near, "near"), m.fresh()) // same extension, not matched: raw for ever
	default:
		m.text(t)
	}
	if g.r.Intn(3) == 0 {
		m.text(t)
	}
}

func (g *Gen) buildMidway() {
	o := *g.opt.Midway
	m := &midway{g: g, o: o, content: map[string][]byte{}}
	m.ext, m.match, m.near = midwayDirs(o.Pattern)
	t := Tree{}
	var unrelated []byte
	if o.OtherAttrs {
		unrelated = []byte("# attributes before LFS\n*.txt text\n*.c text diff=cpp\n")
		t[".gitattributes"] = Ent{Mode: "100644", Sha: g.blob(unrelated)}
	}
	t["notes.txt"] = Ent{Mode: "100644", Sha: g.blob([]byte("hello\n"))}
	adopt := func(t Tree) {
		var existing []byte
		if _, ok := t[".gitattributes"]; ok {
			existing = unrelated
		}
		t[".gitattributes"] = Ent{Mode: "100644", Sha: g.blob(g.trackLine(existing, o.Pattern))}
		m.adopted = true
		for _, p := range m.matching(t, false) { // git add --renormalize: every matching file becomes a pointer
			t[p] = Ent{Mode: t[p].Mode, Sha: g.pointer(p, m.content[p])}
			g.logf("re-add %s through the clean filter", p)
		}
	}
	cur := -1
	parents := func() []int {
		if cur < 0 {
			return nil
		}
		return []int{cur}
	}
	rootLabel := func(l ...string) []string {
		if cur < 0 {
			return append([]string{"root"}, l...)
		}
		return l
	}
	// phase 0: before LFS
	for i := 0; i < o.Pre; i++ {
		if i == 0 {
			m.write(t, m.newName(m.match, "m"), m.fresh())
			m.write(t, m.newName(m.match, "m"), m.fresh())
			if len(m.near) > 0 {
				m.write(t, m.newName(m.near, "near"), m.fresh())
			}
		} else {
			m.step(t)
		}
		cur = g.commit(t, parents(), rootLabel("pre-lfs")...)
		g.setBranch("main", cur)
	}
	if o.Legacy && o.Pre > 0 {
		lt := g.C[cur].Tree.clone()
		m.write(lt, m.newName(m.match, "legacy"), m.fresh())
		m.text(lt)
		g.logf("branch legacy from c%d (never adopts LFS)", cur)
		g.setBranch("legacy", g.commit(lt, []int{cur}, "pre-lfs"))
	}
	// phase 1: the adoption commit
	t = t.clone()
	adopt(t)
	if o.Pre == 0 || g.r.Intn(2) == 0 {
		m.write(t, m.newName(m.match, "m"), m.fresh()) // a new file added together with the line
	}
	cur = g.commit(t, parents(), rootLabel("lfs-adopted")...)
	g.setBranch("main", cur)
	// phase 2: schedule of mistakes, repairs, fork and merge over the Post commits on main
	mistakeAt, repairAt := map[int]int{}, map[int]int{}
	if o.Post >= 2 {
		for k := 0; k < o.Mistakes; k++ {
			a := g.r.Intn(o.Post - 1)
			b := a + 1 + g.r.Intn(o.Post-1-a)
			mistakeAt[a]++
			repairAt[b]++
		}
	}
	forkAt, mergeAt := -1, -1
	if o.Merge && o.Post >= 2 {
		forkAt = g.r.Intn(o.Post - 1)
		mergeAt = forkAt + 1 + g.r.Intn(o.Post-1-forkAt)
	}
	var forkTree Tree
	for i := 0; i < o.Post; i++ {
		t = t.clone()
		var labels []string
		ps := parents()
		if i == forkAt { // topic forks from the current tip of main; 1..2 commits of its own
			forkTree = g.C[cur].Tree.clone()
			tt := forkTree.clone()
			at := cur
			g.logf("branch topic from c%d", cur)
			for n := 1 + g.r.Intn(2); n > 0; n-- {
				m.write(tt, m.newName(m.match, "topic"), m.fresh())
				if g.r.Intn(2) == 0 {
					m.text(tt)
				}
				at = g.commit(tt, []int{at})
				g.setBranch("topic", at)
			}
		}
		if i == mergeAt {
			tip := g.C[g.Br["topic"]]
			for p, e := range tip.Tree { // what topic added since the fork
				if _, ok := forkTree[p]; !ok {
					if _, ok := t[p]; !ok {
						t[p] = e
					}
				}
			}
			ps = append(ps, tip.Idx)
			labels = append(labels, "merge")
			g.logf("merge topic into main")
		} else {
			m.step(t)
		}
		for k := 0; k < repairAt[i] && len(m.rawOpen) > 0; k++ {
			p := m.rawOpen[0]
			m.rawOpen = m.rawOpen[1:]
			switch g.r.Intn(4) {
			case 0:
				delete(t, p)
				g.logf("repair: delete %s", p)
			case 1:
				m.write(t, p, m.fresh()) // replaced by a new, properly cleaned version
			default:
				m.write(t, p, m.content[p]) // git add --renormalize
			}
			labels = append(labels, "repaired")
		}
		for k := 0; k < mistakeAt[i]; k++ {
			p := m.newName(m.match, "oops")
			b := m.fresh()
			m.content[p] = b
			t[p] = Ent{Mode: "100644", Sha: g.blob(b)}
			m.rawOpen = append(m.rawOpen, p)
			g.logf("MISTAKE: %s committed raw although the tracking line is present", p)
			labels = append(labels, "raw-although-tracked")
		}
		cur = g.commit(t, ps, labels...)
		g.setBranch("main", cur)
	}
	if len(m.rawOpen) > 0 {
		panic("midway generator: unrepaired mistakes at the tip")
	}
	for n := 2 + g.r.Intn(3); n > 0; n-- {
		g.tick++
		g.tag(len(g.C) + n)
	}
	for _, b := range g.BrO {
		g.mustIn(nil, "update-ref", "refs/heads/"+b, g.C[g.Br[b]].Sha)
	}
}
