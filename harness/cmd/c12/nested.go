package main

// --fixup histories in which the attribute state changes between consecutive
// commits ONLY through nested (sub-directory) .gitattributes files.
//
// Directories sub/, sub/deep/ (two depths), "o d/" (name with a space) and, on a
// side branch that is merged back, side/ carry a nested .gitattributes that is
// in one of the states
//
//	absent | track (*.dat filter=lfs diff=lfs merge=lfs -text) | empty / comment only |
//	unset (*.dat !filter !diff !merge) | neg (*.dat -filter -diff -merge)
//
// An "attribute event" commit moves ONE nested file to another state while the
// root .gitattributes keeps its blob (or stays absent); "control" events change
// the ROOT file instead. Plain commits in between add raw *.dat files (and a
// few proper pointers where Git says filter=lfs), text files, deletions. The
// root file is absent, unrelated (`*.txt text`) or tracks *.dat itself (then the
// nested unset / neg states take the attribute back and a deeper track line
// gives it again).
//
// The expected selection is NOT computed here: the oracle asks `git check-attr
// filter` per original commit.
//
// Invariant that keeps the recorded findings of --fixup (per-commit decision but
// rewritten entries cached by path:oid => "fixup-tracking-differs-between-
// commits") out of these histories: whenever the attribute file of directory D
// changes, every *.dat file below D (any depth; the whole tree for the root file)
// is deleted in that same commit and replaced by NEW paths with FRESH random
// content, so no path:blob pair exists under two attribute states. (Should the
// invariant ever be broken, the oracle's own bookkeeping of Git's answers labels
// the failure with the recorded trigger.)

import (
	"fmt"
	"strings"
)

type NestedOpt struct {
	Root    string // root .gitattributes at the start: "absent" | "unrelated" | "tracks"
	Events  int    // commits on main after the root commit
	Control int    // how many of the events change the ROOT file instead of a nested one
	Merge   bool   // a side branch adds side/.gitattributes and is merged into main
}

var nestedDirs = []string{"sub/", "sub/deep/", "o d/"}
var nestedFileDirs = []string{"", "sub/", "sub/deep/", "o d/", "plain/"}
var nestedStates = []string{"absent", "track", "empty", "unset", "neg"}

func nestedAttrText(state string, r int) string {
	switch state {
	case "track":
		return "*.dat " + lfsAttrs + "\n"
	case "empty":
		return []string{"", "# nothing tracked here any more\n"}[r%2]
	case "unset":
		return "*.dat !filter !diff !merge\n"
	case "neg":
		return "*.dat -filter -diff -merge\n"
	}
	panic("nested: no text for state " + state)
}

type nested struct {
	g          *Gen
	rootTracks bool
	rootOther  bool
	st         map[string]string // dir -> state of its .gitattributes
	seq        int
	events     int // attribute events through nested files only
}

// eff: the generator's own idea of whether *.dat below dir is an LFS path (only used to bias the
// choice of events and of representations; the oracle asks Git).
func (n *nested) eff(dir string) bool {
	for d := dir; ; {
		switch n.st[d] {
		case "track":
			return true
		case "unset", "neg":
			return false
		}
		if d == "" {
			return n.rootTracks
		}
		d = strings.TrimSuffix(d, "/")
		if i := strings.LastIndex(d, "/"); i >= 0 {
			d = d[:i+1]
		} else {
			d = ""
		}
	}
}

func (n *nested) writeRoot(t Tree) {
	var lines []string
	if n.rootOther {
		lines = append(lines, "# root attributes", "*.txt text")
	}
	if n.rootTracks {
		lines = append(lines, "*.dat "+lfsAttrs)
	}
	if len(lines) == 0 {
		delete(t, ".gitattributes")
		return
	}
	t[".gitattributes"] = n.g.attrsBlob(lines...)
}

func (n *nested) setState(t Tree, dir, state string) {
	n.st[dir] = state
	if state == "absent" {
		delete(t, dir+".gitattributes")
	} else {
		t[dir+".gitattributes"] = Ent{Mode: "100644", Sha: n.g.blob([]byte(nestedAttrText(state, n.g.r.Intn(2))))}
	}
	n.g.logf("ATTR %s.gitattributes -> %s", dir, state)
}

// add writes a NEW *.dat file with fresh content below dir.
func (n *nested) add(t Tree, dir string) {
	g := n.g
	n.seq++
	p := fmt.Sprintf("%sf%d.dat", dir, n.seq)
	if g.r.Intn(5) == 0 {
		p = fmt.Sprintf("%sf %d.dat", dir, n.seq)
	}
	b := g.bytes(150+g.r.Intn(3000), false)
	mode := "100644"
	if g.r.Intn(8) == 0 {
		mode = "100755"
	}
	if n.eff(dir) && g.r.Intn(4) == 0 {
		t[p] = Ent{Mode: mode, Sha: g.pointer(p, b)} // already correct
		g.logf("write %s (pointer)", p)
	} else {
		t[p] = Ent{Mode: mode, Sha: g.blob(b)}
		g.logf("write %s (raw)", p)
	}
}

// replaceBelow deletes every *.dat below dir and adds fresh ones (see the invariant above).
func (n *nested) replaceBelow(t Tree, dir string) {
	for _, p := range keysOf(t, func(p string, e Ent) bool { return strings.HasPrefix(p, dir) && strings.HasSuffix(p, ".dat") }) {
		delete(t, p)
	}
	for _, d := range append(append([]string(nil), nestedFileDirs...), "side/", "side/in/") {
		if !strings.HasPrefix(d, dir) {
			continue
		}
		if strings.HasPrefix(d, "side/") {
			if _, ok := t["side/.gitattributes"]; !ok {
				continue // side/ exists in this tree only after the merge
			}
		}
		n.add(t, d)
		if n.g.r.Intn(3) == 0 {
			n.add(t, d)
		}
	}
}

func (n *nested) attrEvent(t Tree) []string {
	g := n.g
	for try := 0; ; try++ {
		dir := nestedDirs[g.r.Intn(len(nestedDirs))]
		state := nestedStates[g.r.Intn(len(nestedStates))]
		if state == n.st[dir] || (n.st[dir] == "" && state == "absent") {
			continue
		}
		before := n.eff(dir)
		old := n.st[dir]
		n.st[dir] = state
		after := n.eff(dir)
		n.st[dir] = old
		if before == after && try < 12 && g.r.Intn(4) != 0 {
			continue // prefer events that change what Git says
		}
		n.setState(t, dir, state)
		n.replaceBelow(t, dir)
		n.events++
		return []string{"nested-attrs-" + state}
	}
}

func (n *nested) controlEvent(t Tree) []string {
	g := n.g
	switch g.r.Intn(3) {
	case 0:
		n.rootOther = !n.rootOther
	default:
		n.rootTracks = !n.rootTracks
	}
	n.writeRoot(t)
	g.logf("ATTR root .gitattributes -> tracks=%v unrelated=%v", n.rootTracks, n.rootOther)
	n.replaceBelow(t, "")
	return []string{"root-attrs-change"}
}

func (n *nested) plainEvent(t Tree) {
	g := n.g
	dats := keysOf(t, func(p string, e Ent) bool { return strings.HasSuffix(p, ".dat") && !strings.HasPrefix(p, "side/") })
	for k := 1 + g.r.Intn(2); k > 0; k-- {
		switch x := g.r.Intn(100); {
		case x < 60 || len(dats) < 3:
			dirs := nestedFileDirs
			if _, ok := t["side/.gitattributes"]; ok && g.r.Intn(3) == 0 {
				dirs = []string{"side/", "side/in/"}
			}
			n.add(t, dirs[g.r.Intn(len(dirs))])
		case x < 75:
			p := dats[g.r.Intn(len(dats))]
			delete(t, p)
			g.logf("delete %s", p)
		default:
			p := []string{"notes.txt", "sub/src.c", "sub/deep/read me.txt", "o d/Makefile"}[g.r.Intn(4)]
			t[p] = Ent{Mode: "100644", Sha: g.blob([]byte(fmt.Sprintf("plain text %d\n", g.r.Intn(100000))))}
			g.logf("write %s", p)
		}
	}
}

func (g *Gen) buildNested() {
	o := *g.opt.Nested
	n := &nested{g: g, st: map[string]string{}, rootTracks: o.Root == "tracks", rootOther: o.Root == "unrelated"}
	t := Tree{}
	n.writeRoot(t)
	t["notes.txt"] = Ent{Mode: "100644", Sha: g.blob([]byte("hello\n"))}
	for _, d := range nestedFileDirs {
		n.add(t, d)
	}
	cur := g.commit(t, nil, "root")
	g.setBranch("main", cur)
	// which events are control events, where the side branch forks and is merged
	control := map[int]bool{}
	for k := 0; k < o.Control && o.Events > 2; k++ {
		control[1+g.r.Intn(o.Events-1)] = true
	}
	forkAt, mergeAt := -1, -1
	if o.Merge && o.Events >= 3 {
		forkAt = g.r.Intn(o.Events - 2)
		mergeAt = forkAt + 1 + g.r.Intn(o.Events-1-forkAt)
	}
	for i := 0; i < o.Events; i++ {
		t = t.clone()
		ps := []int{cur}
		var labels []string
		if i == forkAt { // side branch: its own directory with its own nested file
			st := g.C[cur].Tree.clone()
			state := "track"
			if n.rootTracks {
				state = []string{"unset", "neg"}[g.r.Intn(2)]
			}
			g.logf("branch side from c%d", cur)
			n.setState(st, "side/", state)
			n.events++
			n.add(st, "side/")
			n.add(st, "side/in/")
			at := g.commit(st, []int{cur}, "nested-attrs-"+state)
			if g.r.Intn(2) == 0 {
				st = st.clone()
				n.add(st, "side/")
				at = g.commit(st, []int{at})
			}
			g.setBranch("side", at)
		}
		switch {
		case i == mergeAt:
			for p, e := range g.C[g.Br["side"]].Tree {
				if strings.HasPrefix(p, "side/") {
					t[p] = e
				}
			}
			ps = append(ps, g.Br["side"])
			labels = []string{"merge"}
			n.events++
			g.logf("merge side into main (brings side/.gitattributes)")
		case control[i]:
			labels = n.controlEvent(t)
		case i == 0 || g.r.Intn(100) < 55:
			labels = n.attrEvent(t)
		default:
			n.plainEvent(t)
		}
		cur = g.commit(t, ps, labels...)
		g.setBranch("main", cur)
	}
	g.NestedEvents = n.events
	for k := 1 + g.r.Intn(3); k > 0; k-- {
		g.tick++
		g.tag(len(g.C) + k)
	}
	for _, b := range g.BrO {
		g.mustIn(nil, "update-ref", "refs/heads/"+b, g.C[g.Br[b]].Sha)
	}
}
