// C12 — migrate import/export rewrites history without changing any file's content.
//
// Monitor: per case a repository is generated with git plumbing (gen.go), a
// pristine copy is kept (`cp -a`), ONE `git lfs migrate` command (two for the
// export∘import round trip) runs on the working copy, and an oracle that
// shares no code with git-lfs (view.go / judge.go: one `git cat-file
// --batch-all-objects`, own commit / tag / tree parsers, ptrspec, own SHA-256
// of .git/lfs/objects files, Git's own check-attr, own small pattern matcher)
// compares the two histories:
//
//	(1) structural old->new commit correspondence (walk from ref tips following
//	    parents in order): bijection, same parent count and order, author,
//	    committer, extra headers, message bytes;
//	(2) same path set, same modes, same content after resolving pointers
//	    through the local store (.gitattributes files exempt, mode 100644);
//	(3) exactly the selected paths changed representation (selection evaluated
//	    from the man page: include/exclude patterns, --above, --fixup via Git's
//	    check-attr on the ORIGINAL commit, ref range);
//	(4) refs and tags point at the images of their old targets, annotated tags
//	    keep type/tag/tagger/message, unselected and remote refs are untouched;
//	(5) `git check-attr filter` in each rewritten commit says lfs for imported
//	    paths and not lfs for exported ones;
//	(5b) a path that was and still is an LFS pointer and that Git treated as LFS
//	    before is still treated as LFS (the rewritten .gitattributes keeps the
//	    existing entries);
//	(6) export after import of the same selection restores the original blobs.
//
// Every violation carries Sig{symptom, trigger}; the trigger is the single
// special coordinate the generator put into the case (exotic commit feature,
// size == --above threshold, --fixup attribute variant, nested .gitattributes,
// tag of a tag, LFS file that only a merge commit introduces, --exclude=dir/**
// over an existing LFS file) when the failing commit/path carries it, else the
// mode / path kind. On top of the 12-way rotation every tier appends "LFS
// adopted midway" cases (midway.go): histories whose later commits are already
// what the import would produce, migrated by import --include=<tracked
// pattern> / import --fixup and then exported again (coordinates
// lfs-adopted-midway/import-include, /fixup, /export) and import --fixup over
// histories whose attribute state changes through nested .gitattributes files
// only (nested.go, coordinate fixup-nested-attributes-change) and general
// histories with non-monotonic commit dates (GenOpt.Dates, coordinates
// skewed-committer-dates, identical-commit-dates, skewed-author-dates). VERIF_C12_CASE=<i> runs one case, VERIF_C12_KEEP=1 keeps
// its scratch directory (debugging / replay aid).
//
// Weakest-reading choices (not judged): reflogs, refs/original, unreachable
// objects, commit ids, the working tree after migrate, whether a local branch
// that was NOT selected but points into the rewritten range is moved or left,
// trailing newlines of annotated tag messages (counted), raw files that become
// "tracked" by a path entry that --above added for another commit; LFS objects
// that export's final prune removes although a kept pointer still names them
// are judged only when no commit on a remote references them (the generator
// pushes commits without uploading objects).
package main

import (
	"fmt"
	"math/rand"
	"os"
	"path/filepath"
	"runtime"
	"sort"
	"strings"
	"sync"

	"verif/harness/evid"
	"verif/harness/sbx"
)

type caseSpec struct {
	Idx      int
	Mode     string // import-include import-above import-all import-fixup import-no-rewrite export roundtrip midway-include midway-fixup fixup-nested
	RefSel   string // everything default default-remote include-ref branch-args
	Sel      selection
	AboveArg string
	Above    int
	Gen      GenOpt
	Trigger  string // the single non-default coordinate of the case ("" none)
	Remote   bool
	HeadPick int
	NoMsg    bool
	FetchCfg string // "" | fetchinclude | fetchexclude | both: fetch keys set in the configuration (fetchcfg.go)
	r        *rand.Rand
}

func selForm(s selection) string {
	form := func(p string) string {
		switch {
		case strings.HasSuffix(p, "/**"):
			return "dir/**"
		case strings.HasPrefix(p, "*."):
			return "*.ext"
		case strings.HasPrefix(filepath.Base(p), "*."):
			return "dir/*.ext"
		}
		return "exact"
	}
	set := map[string]bool{}
	for _, p := range s.Include {
		set["I:"+form(p)] = true
	}
	for _, p := range s.Exclude {
		set["X:"+form(p)] = true
	}
	var ks []string
	for k := range set {
		ks = append(ks, k)
	}
	sort.Strings(ks)
	if len(ks) == 0 {
		return "nopattern"
	}
	return strings.Join(ks, ",")
}

func (s *caseSpec) class() string {
	t := s.Trigger
	if t == "" {
		t = "-"
	}
	sel := selForm(s.Sel)
	if s.Above > 0 {
		sel = "above"
	}
	if s.Gen.Nested != nil {
		sel = "root-attrs-" + s.Gen.Nested.Root
	}
	if s.FetchCfg != "" {
		t += "/cfg-" + s.FetchCfg
	}
	return fmt.Sprintf("%s/%s/%s/%s", s.Mode, s.RefSel, sel, t)
}

var exotics = []string{"encoding-header", "gpgsig-header", "custom-extra-headers", "message-crlf", "message-no-trailing-newline", "message-empty", "message-trailing-blank-lines", "message-leading-blank-line"}

var importSels = []selection{
	{Include: []string{"*.dat"}},
	{Include: []string{"*.dat", "*.png"}},
	{Include: []string{"*.dat"}, Exclude: []string{"a/*.dat"}},
	{Include: []string{"a/**"}},
	{Include: []string{"c d/*.dat", "*.png"}},
	{Include: []string{"*.dat"}, Exclude: []string{"a/b/**"}},
	{Include: []string{"a/b/run.dat", "a/big.dat", "*.png"}},
	{Include: []string{"a/**", "*.png"}, Exclude: []string{"c d/x y.dat", "a/b/*.dat"}},
}

var exportSels = []selection{
	{Include: []string{"*.dat"}},
	{Include: []string{"*.dat"}, Exclude: []string{"a/*.dat"}},
	{Include: []string{"a/**"}},
	{Include: []string{"*.dat", "*.bin"}},
	{Include: []string{"c d/*.dat", "a/b/run.dat"}},
	{Include: []string{"*.dat"}, Exclude: []string{"a/b/**"}},
}

// subsets exported between the import and the --fixup of mode fixup-after-export
var fixupExportSels = []selection{
	{Include: []string{"a/*.dat"}},
	{Include: []string{"a/b/*.dat", "c d/*.dat"}},
	{Include: []string{"*.dat"}, Exclude: []string{"a/*.dat"}},
}

var aboves = []struct {
	arg string
	n   int
}{{"1kb", 1000}, {"1024", 1024}, {"500", 500}, {"2KiB", 2048}, {"1000b", 1000}}

func plan(run *evid.Run, idx int) *caseSpec {
	r := rand.New(rand.NewSource(run.Seed*1000003 + int64(idx)*7919 + 12))
	s := &caseSpec{Idx: idx, r: r}
	s.Gen.Commits = 10 + r.Intn(9)
	// Coordinates rotate with the round number k so that a tier of 12*n cases
	// covers them evenly; everything else is drawn from the seeded PRNG.
	k, m := idx/12, idx%12
	rot := int(run.Seed%97) + k
	refsels := []string{"everything", "default", "default-remote", "include-ref", "branch-args"}
	pinned := []string{"everything", "default", "everything", "everything", "", "everything", "everything", "include-ref", "default-remote", "include-ref", "default", "branch-args"}
	s.RefSel = pinned[m]
	if k > 0 {
		s.RefSel = refsels[(rot+m)%len(refsels)]
	}
	isel := importSels[(rot*3+m)%len(importSels)]
	esel := exportSels[(rot*5+m)%len(exportSels)]
	wantExotic := (rot+m)%3 == 0
	exclDirGlob := func(s selection) bool {
		for _, x := range s.Exclude {
			if strings.HasSuffix(x, "/**") {
				return true
			}
		}
		return false
	}
	switch m {
	case 0, 1, 7:
		s.Mode, s.Sel = "import-include", isel
	case 2:
		s.Mode = "import-above"
	case 3:
		s.Mode, s.Gen.Fixup = "import-fixup", "plain"
		switch rot % 3 {
		case 0: // import *.dat -> export a subset -> commit raw files -> import --fixup
			s.Mode, s.Gen.Fixup, s.RefSel, wantExotic = "fixup-after-export", "", "everything", false
			s.Trigger = "fixup-filter-override"
			s.Sel = fixupExportSels[(rot/3)%len(fixupExportSels)]
			s.Gen.NoEvilMerge, s.Gen.NoNestedBinAttrs = true, true
		case 1:
			s.Gen.FixupOverrides, s.Trigger, wantExotic = true, "fixup-filter-override", false
		}
	case 4:
		s.Mode, s.Gen.Fixup, s.RefSel = "import-no-rewrite", "plain", "current-branch"
		s.NoMsg = rot%4 == 3
	case 5:
		s.Mode, s.Sel, s.Gen.DatInLFS = "export", esel, true
	case 6:
		s.Mode, s.Sel, s.RefSel = "roundtrip", isel, "everything"
	case 8:
		s.Mode = "import-all"
	case 9:
		s.Mode, s.Sel, s.Gen.DatInLFS = "export", esel, true
		if rot%2 == 0 {
			s.Gen.NestedDatAttrs, s.Trigger, wantExotic = true, "nested-gitattributes", false
		}
	case 10:
		s.Mode = "import-fixup"
		s.Gen.Fixup = []string{"attrs-added-later", "attrs-removed-later", "nested", "macro"}[rot%4]
		s.Trigger, wantExotic = "fixup-"+s.Gen.Fixup, false
	case 11:
		s.Mode = "import-above"
		s.Trigger, wantExotic = "size-equals-threshold", false
	}
	if s.Mode == "import-above" {
		a := aboves[(rot+m)%len(aboves)]
		s.AboveArg, s.Above = a.arg, a.n
		if s.Trigger == "size-equals-threshold" {
			s.Gen.Sizes = []int{a.n - 1, a.n, a.n + 1}
		} else {
			s.Gen.Sizes = []int{a.n - 1, a.n + 1}
			s.Gen.AvoidSize = a.n
		}
	}
	if (s.Mode == "import-include" || s.Mode == "roundtrip") && exclDirGlob(s.Sel) {
		// --exclude=dir/** also covers files below dir that are already in LFS: coordinate of its own
		if s.Trigger == "" && !wantExotic {
			s.Trigger = "exclude-covers-existing-lfs-file"
		} else {
			s.Sel = importSels[0]
		}
	}
	if wantExotic && s.Mode != "import-no-rewrite" {
		s.Gen.Exotic = exotics[(rot/3+m)%len(exotics)]
		s.Trigger = s.Gen.Exotic
	}
	if s.Mode == "export" || s.Mode == "roundtrip" {
		s.Gen.NoNestedBinAttrs = true // a nested file that tracks exported paths is the coordinate "nested-gitattributes"
		// export ends with a built-in prune: keep its special coordinate apart
		if s.Trigger == "" && (rot+m)%2 == 1 {
			s.Trigger, s.Gen.MergeOnlyLFS = "lfs-object-introduced-only-by-merge-commits", true
		} else {
			s.Gen.NoEvilMerge = true
		}
	}
	// A tag of a tag whose commit is NOT selected is a coordinate of its own.
	if s.RefSel == "everything" {
		s.Gen.TagOfTag = true
	} else if s.Trigger == "" && s.Mode != "import-no-rewrite" && r.Intn(3) == 0 {
		s.Gen.TagOfTag, s.Trigger = true, "annotated-tag-of-tag"
	}
	s.Gen.BinUnderAB = s.Trigger == "exclude-covers-existing-lfs-file"
	s.Gen.NoBin = r.Intn(5) == 0 && !s.Gen.DatInLFS && !s.Gen.MergeOnlyLFS && !s.Gen.BinUnderAB
	s.Gen.Gitlink = r.Intn(6) == 0
	s.Remote = s.RefSel == "default-remote" || r.Intn(4) == 0
	if (s.Mode == "export" || s.Mode == "roundtrip") && (s.RefSel == "everything" || s.RefSel == "include-ref") {
		// The generator pushes commits without uploading LFS objects; export's final prune
		// legitimately treats objects of pushed commits as expendable. Keep pushed commits
		// out of the judged range.
		s.Remote = false
	}
	if s.Remote && s.RefSel == "default" {
		s.RefSel = "default-remote"
	}
	s.HeadPick = r.Intn(100)
	return s
}

// nBase is the number of cases of the 12-way rotation; the indices from nBase on are the
// "LFS adopted midway" cases.
var nBase int

// nMid is the number of midway cases; the indices from nBase+nMid on are the --fixup cases whose
// attribute state changes through nested .gitattributes files only (nested.go).
var nMid int

// nNest is the number of nested-attributes cases; the indices from nBase+nMid+nNest on are general
// branching histories with a commit-date layout other than the monotonic one (GenOpt.Dates).
var nNest int

var dateCombos = []struct{ mode, refsel string }{
	{"import-include", "everything"},
	{"export", "everything"},
	{"import-include", "include-ref"},
	{"import-all", "everything"},
	{"export", "include-ref"},
	{"import-fixup", "everything"},
}

var dateLayouts = []string{"ancestor-later", "decreasing", "identical", "author-skewed"}

// planDates: k-th date-layout case: a general history (branches, 2-parent and octopus merges, orphan
// roots, tags) whose dates are NOT "every ancestor is older than its descendants", migrated over
// several refs at once. (command, ref selection) x layout rotate with k and the seed.
func planDates(run *evid.Run, idx, k int) *caseSpec {
	r := rand.New(rand.NewSource(run.Seed*1000003 + int64(idx)*7919 + 12))
	s := &caseSpec{Idx: idx, r: r}
	rot := int(run.Seed % 97)
	cb := dateCombos[(rot+k)%len(dateCombos)]
	s.Mode, s.RefSel = cb.mode, cb.refsel
	s.Gen.Dates = dateLayouts[(rot+k+k/len(dateCombos))%len(dateLayouts)]
	switch s.Gen.Dates {
	case "identical":
		s.Trigger = "identical-commit-dates"
	case "author-skewed":
		s.Trigger = "skewed-author-dates"
	default:
		s.Trigger = "skewed-committer-dates"
	}
	s.Gen.Commits = 12 + r.Intn(5)
	switch s.Mode {
	case "import-include":
		s.Sel = importSels[[]int{0, 1, 2, 3, 4, 6}[(rot+k/len(dateCombos))%6]]
	case "export":
		s.Sel, s.Gen.DatInLFS = exportSels[(rot+k/len(dateCombos))%len(exportSels)], true
		s.Gen.NoNestedBinAttrs, s.Gen.NoEvilMerge = true, true
	case "import-fixup":
		s.Gen.Fixup = "plain"
	}
	s.Gen.TagOfTag = s.RefSel == "everything"
	s.Gen.NoBin = r.Intn(5) == 0 && !s.Gen.DatInLFS
	s.HeadPick = r.Intn(100)
	return s
}

// planNested: k-th nested-attributes case: (root file variant, ref selection) rotate with k and the seed.
func planNested(run *evid.Run, idx, k int) *caseSpec {
	r := rand.New(rand.NewSource(run.Seed*1000003 + int64(idx)*7919 + 12))
	s := &caseSpec{Idx: idx, r: r, HeadPick: 100, Mode: "fixup-nested", Trigger: "fixup-nested-attributes-change"}
	rot := int(run.Seed%97) + k
	s.RefSel = []string{"default", "everything"}[(rot/3)%2]
	s.Gen.Nested = &NestedOpt{
		Root:    []string{"absent", "unrelated", "tracks"}[rot%3],
		Events:  6 + r.Intn(5),
		Control: []int{0, 0, 1, 2}[r.Intn(4)],
		Merge:   r.Intn(2) == 0,
	}
	return s
}

var midwayCombos = []struct{ mode, refsel string }{
	{"midway-include", "everything"},
	{"midway-fixup", "default"},
	{"midway-include", "default"},
	{"midway-fixup", "everything"},
	{"midway-include", "include-ref"},
}

// planMidway: k-th "LFS adopted midway" case. (import variant, ref selection) and the tracked
// pattern rotate with k and the seed, the shape of the history is drawn from the PRNG.
func planMidway(run *evid.Run, idx, k int) *caseSpec {
	r := rand.New(rand.NewSource(run.Seed*1000003 + int64(idx)*7919 + 12))
	s := &caseSpec{Idx: idx, r: r, HeadPick: 100}
	rot := int(run.Seed % 97)
	cb := midwayCombos[(rot+k)%len(midwayCombos)]
	s.Mode, s.RefSel = cb.mode, cb.refsel
	mo := &MidwayOpt{
		Pattern:    midwayPatterns[(rot+k%len(midwayCombos)+k/len(midwayCombos))%len(midwayPatterns)],
		Post:       3 + r.Intn(4),
		Legacy:     r.Intn(2) == 0,
		OtherAttrs: r.Intn(3) == 0,
		Merge:      r.Intn(2) == 0,
	}
	if s.Mode == "midway-fixup" {
		// --fixup only has something to do where a file is raw although Git says filter=lfs
		mo.Pre, mo.Mistakes = r.Intn(3), 1+r.Intn(2)
		s.Trigger = "lfs-adopted-midway/fixup"
	} else {
		mo.Pre, mo.Mistakes = 1+r.Intn(3), []int{0, 0, 1}[r.Intn(3)]
		s.Trigger = "lfs-adopted-midway/import-include"
	}
	s.Sel = selection{Include: []string{mo.Pattern}}
	s.Gen.Midway = mo
	return s
}

// midwayRefArgs: ref selection of a midway case; the same arguments serve the import and the export.
func (c *caseCtx) midwayRefArgs(o *op) []string {
	switch c.spec.RefSel {
	case "everything":
		o.Everything = true
		return []string{"--everything"}
	case "default":
		o.IncludeRefs = []string{"refs/heads/main"} // the checked-out branch; there is no remote
		return nil
	case "include-ref":
		o.IncludeRefs = []string{"refs/heads/main"}
		args := []string{"--include-ref=refs/heads/main"}
		for _, b := range c.gen.BrO[1:] {
			if c.spec.r.Intn(2) == 0 {
				o.IncludeRefs = append(o.IncludeRefs, "refs/heads/"+b)
				args = append(args, "--include-ref=refs/heads/"+b)
			}
		}
		return args
	}
	panic("unknown refsel " + c.spec.RefSel)
}

type caseCtx struct {
	run   *evid.Run
	env   *sbx.Env
	spec  *caseSpec
	gen   *Gen
	cmds  []string
	nviol int
	extra map[string][]string // labels of commits created by an earlier op (round trip)
	// pathTrig, when set, is the coordinate path-level failures of the current command belong to
	pathTrig string
	fetch    fetchCfg // lfs.fetchinclude / lfs.fetchexclude setting of the case (fetchcfg.go)
	cfgArgs  []string // `git -c k=v …` arguments every migrate command of the case gets
}

func (c *caseCtx) labelsOf(sha string) []string {
	if l := c.gen.LabelsOf(sha); l != nil {
		return l
	}
	return c.extra[sha]
}

// migrate runs one git lfs migrate command in dir.
func (c *caseCtx) migrate(dir string, args ...string) bool {
	full := append([]string{"migrate"}, args...)
	var res sbx.Result
	if len(c.cfgArgs) > 0 { // configuration passed on git's command line
		res = c.env.Run(sbx.RunOpt{Dir: dir}, "git", append(append(append([]string(nil), c.cfgArgs...), "lfs"), full...)...)
		c.cmds = append(c.cmds, "git "+strings.Join(c.cfgArgs, " ")+" lfs "+strings.Join(full, " ")+fmt.Sprintf("  # exit %d", res.Code))
	} else {
		res = c.env.Run(sbx.RunOpt{Dir: dir}, "git-lfs", full...)
		c.cmds = append(c.cmds, "git lfs "+strings.Join(full, " ")+fmt.Sprintf("  # exit %d", res.Code))
	}
	c.run.Count("migrate_runs_"+args[0], 1)
	switch {
	case res.GoCrash():
		c.viol("go-panic", c.spec.Mode, "git-lfs crashed: "+sbx.Trunc(res.Stderr, 3000))
		return false
	case res.TimedOut:
		c.run.Inconclusive(fmt.Sprintf("case %d: watchdog fired in migrate", c.spec.Idx))
		return false
	case !res.OK():
		trig := c.spec.Trigger
		if trig == "" {
			trig = c.spec.Mode + "/" + c.spec.RefSel
		}
		c.viol("migrate-failed", trig, fmt.Sprintf("documented invocation `git lfs %s` failed with exit %d: %s", strings.Join(full, " "), res.Code, sbx.Trunc(res.Stderr, 1500)))
		return false
	}
	return true
}

func (c *caseCtx) copyRepo(from, name string) string {
	to := filepath.Join(c.env.Root, name)
	if res := c.env.Run(sbx.RunOpt{Dir: c.env.Root}, "cp", "-a", from, to); !res.OK() {
		panic("cp -a failed: " + res.String())
	}
	return to
}

// refArgs turns the case's ref selection into command-line arguments and the oracle's reading of them.
func (c *caseCtx) refArgs(o *op, headBranch string) []string {
	g := c.gen
	r := c.spec.r
	var remotes []string
	for ref := range loadRefs(c.env, g.Dir) {
		if strings.HasPrefix(ref, "refs/remotes/") {
			remotes = append(remotes, ref)
		}
	}
	sort.Strings(remotes)
	switch c.spec.RefSel {
	case "everything":
		o.Everything = true
		return []string{"--everything"}
	case "default", "default-remote":
		// "operates only on the currently checked-out branch, and only on … commits which do not exist on any remote"
		o.IncludeRefs, o.ExcludeRefs = []string{"refs/heads/" + headBranch}, remotes
		return nil
	case "include-ref":
		bs := append([]string(nil), g.BrO...)
		r.Shuffle(len(bs), func(a, b int) { bs[a], bs[b] = bs[b], bs[a] })
		var args []string
		nInc := 1
		if len(bs) > 2 && r.Intn(2) == 0 {
			nInc = 2
		}
		for _, b := range bs[:nInc] {
			o.IncludeRefs = append(o.IncludeRefs, "refs/heads/"+b)
			args = append(args, "--include-ref=refs/heads/"+b)
		}
		if len(bs) > nInc && r.Intn(3) > 0 {
			b := bs[nInc]
			o.ExcludeRefs = append(o.ExcludeRefs, "refs/heads/"+b)
			args = append(args, "--exclude-ref=refs/heads/"+b)
		}
		return args
	case "branch-args":
		bs := append([]string(nil), g.BrO...)
		r.Shuffle(len(bs), func(a, b int) { bs[a], bs[b] = bs[b], bs[a] })
		n := 1 + r.Intn(2)
		if n > len(bs) {
			n = len(bs)
		}
		var args []string
		for _, b := range bs[:n] {
			o.IncludeRefs = append(o.IncludeRefs, "refs/heads/"+b)
			args = append(args, b)
		}
		o.ExcludeRefs = remotes
		return args // positional, must come last
	}
	panic("unknown refsel " + c.spec.RefSel)
}

// commitRaw adds files to the checked-out branch WITHOUT the clean filter (the situation --fixup repairs).
func (c *caseCtx) commitRaw(dir string, files map[string][]byte) {
	idx := filepath.Join(c.env.Root, "tmp", "raw.index")
	e := []string{"GIT_INDEX_FILE=" + idx}
	must := func(res sbx.Result) string {
		if !res.OK() {
			panic("commitRaw: " + res.String())
		}
		return strings.TrimSpace(string(res.Stdout))
	}
	must(c.env.Run(sbx.RunOpt{Dir: dir, Env: e}, "git", "read-tree", "HEAD"))
	var names []string
	for p := range files {
		names = append(names, p)
	}
	sort.Strings(names)
	for _, p := range names {
		sha := must(c.env.Run(sbx.RunOpt{Dir: dir, Stdin: strings.NewReader(string(files[p]))}, "git", "hash-object", "-w", "--stdin"))
		must(c.env.Run(sbx.RunOpt{Dir: dir, Env: e}, "git", "update-index", "--add", "--cacheinfo", "100644,"+sha+","+p))
	}
	tree := must(c.env.Run(sbx.RunOpt{Dir: dir, Env: e}, "git", "write-tree"))
	parent := must(c.env.Git(dir, "rev-parse", "HEAD"))
	commit := must(c.env.Run(sbx.RunOpt{Dir: dir, Stdin: strings.NewReader("files committed without the clean filter\n")}, "git", "commit-tree", "-p", parent, tree))
	must(c.env.Git(dir, "update-ref", "HEAD", commit))
	must(c.env.Git(dir, "reset", "-q", "--hard"))
	os.Remove(idx)
	c.cmds = append(c.cmds, "(commit raw files "+strings.Join(names, ", ")+" on HEAD)")
	c.run.Count("raw_commits_added_between_commands", 1)
}

// countDateOrder observes (never judges) how the committer dates of the original history relate to
// its shape: commits that have an ancestor with a LATER committer date, and whether Git's default
// (commit-date) ordering of all refs, reversed, would list some commit before one of its parents.
func (c *caseCtx) countDateOrder(v *view) {
	cdate := func(pc *pcommit) int64 {
		f := strings.Fields(pc.committer)
		if len(f) < 2 {
			return 0
		}
		var t int64
		fmt.Sscan(f[len(f)-2], &t)
		return t
	}
	var tips []string
	for _, s := range v.refs {
		if _, fin, typ := v.peel(s); typ == "commit" {
			tips = append(tips, fin)
		}
	}
	maxAnc := map[string]int64{} // latest committer date among the commit and its ancestors
	var walk func(s string) int64
	walk = func(s string) int64 {
		if m, ok := maxAnc[s]; ok {
			return m
		}
		pc := v.commit(s)
		m := cdate(pc)
		maxAnc[s] = m
		for _, p := range pc.parents {
			if x := walk(p); x > m {
				m = x
			}
		}
		maxAnc[s] = m
		return m
	}
	skewed := 0
	for s := range v.reach(tips) {
		if walk(s) > cdate(v.commit(s)) {
			skewed++
		}
	}
	c.run.Count("commits_with_an_ancestor_dated_later", int64(skewed))
	if skewed > 0 {
		c.run.Count("histories_with_ancestor_dated_after_descendant", 1)
	}
	seen := map[string]bool{}
	inverted := false
	for _, s := range strings.Fields(c.env.MustPlainGit(v.dir, "rev-list", "--reverse", "--all")) {
		seen[s] = true
		for _, p := range v.commit(s).parents {
			if !seen[p] {
				inverted = true
			}
		}
	}
	if inverted {
		c.run.Count("histories_where_reversed_date_order_lists_child_before_parent", 1)
	}
}

func loadRefs(env *sbx.Env, dir string) map[string]string {
	out := map[string]string{}
	for _, l := range strings.Split(env.MustPlainGit(dir, "for-each-ref", "--format=%(refname) %(objectname)"), "\n") {
		if f := strings.Fields(l); len(f) == 2 {
			out[f[0]] = f[1]
		}
	}
	return out
}

func selArgs(s selection) []string {
	var a []string
	if len(s.Include) > 0 {
		a = append(a, "--include="+strings.Join(s.Include, ","))
	}
	if len(s.Exclude) > 0 {
		a = append(a, "--exclude="+strings.Join(s.Exclude, ","))
	}
	return a
}

func runCase(run *evid.Run, idx int) *caseCtx {
	var spec *caseSpec
	if idx >= nBase+nMid+nNest {
		spec = planDates(run, idx, idx-nBase-nMid-nNest)
	} else if idx >= nBase+nMid {
		spec = planNested(run, idx, idx-nBase-nMid)
	} else if idx >= nBase {
		spec = planMidway(run, idx, idx-nBase)
	} else {
		spec = plan(run, idx)
	}
	spec.FetchCfg = planFetchCfg(run.Seed, spec)
	env := sbx.New()
	if os.Getenv("VERIF_C12_KEEP") == "" {
		defer env.Cleanup()
	} else {
		fmt.Fprintf(os.Stderr, "case %d kept in %s (%s)\n", idx, env.Root, spec.class())
	}
	c := &caseCtx{run: run, env: env, spec: spec, extra: map[string][]string{}}
	g := NewGen(env, "work", run.Seed*7919+int64(idx), spec.Gen)
	c.gen = g
	run.Count("generated_commits", int64(len(g.C)))
	for _, gc := range g.C {
		for _, l := range gc.Labels {
			if l == "merge" || l == "octopus-merge" || l == "orphan-root" {
				run.Count("generated_"+l, 1)
			}
		}
	}
	for _, l := range g.TagLabels {
		run.Count("generated_"+l, 1)
	}

	// optional remote that already has an older part of main
	if spec.Remote {
		bare := env.InitBare("origin.git")
		at := g.Br["main"]
		for k := 0; k < 1+spec.r.Intn(4) && len(g.C[at].Parents) > 0; k++ {
			at = g.C[at].Parents[0]
		}
		env.MustGit(g.Dir, "remote", "add", "origin", bare)
		env.MustGit(g.Dir, "push", "-q", "origin", g.C[at].Sha+":refs/heads/main")
		run.Count("cases_with_remote_tracking_ref", 1)
	}
	// check out a branch (filters on: pointer files are smudged from the local store)
	head := "main"
	if spec.HeadPick < 35 && len(g.BrO) > 1 {
		head = g.BrO[1+spec.HeadPick%(len(g.BrO)-1)]
	}
	if spec.Mode == "import-no-rewrite" {
		// --no-rewrite needs a raw, attribute-tracked file on the checked-out branch
		for _, b := range append([]string{head}, g.BrO...) {
			if len(g.RawDatPaths(g.C[g.Br[b]].Tree)) > 0 {
				head = b
				break
			}
		}
	}
	env.MustGit(g.Dir, "symbolic-ref", "HEAD", "refs/heads/"+head)
	env.MustGit(g.Dir, "reset", "-q", "--hard")

	orig := c.copyRepo(g.Dir, "orig")
	oldV := loadView(env, orig)
	c.countDateOrder(oldV)
	c.applyFetchCfg()
	if spec.Gen.Dates != "" {
		c.pathTrig = spec.Trigger
		run.Count("histories_with_date_layout_"+spec.Gen.Dates, 1)
	}

	switch spec.Mode {
	case "import-no-rewrite":
		// paths: raw regular *.dat files of HEAD that the root .gitattributes tracks
		tip := oldV.commit(oldV.refs[oldV.head])
		t := oldV.flatten(tip.tree)
		var cands []string
		for _, p := range sortedPaths(t) {
			if strings.HasSuffix(p, ".dat") && oldV.kindOf(t[p]) == "raw" {
				cands = append(cands, p)
			}
		}
		if len(cands) == 0 {
			run.Inconclusive(fmt.Sprintf("case %d: no raw tracked file for --no-rewrite", idx))
			return c
		}
		spec.r.Shuffle(len(cands), func(a, b int) { cands[a], cands[b] = cands[b], cands[a] })
		n := 1 + spec.r.Intn(3)
		if n > len(cands) {
			n = len(cands)
		}
		o := op{Kind: "no-rewrite", Paths: cands[:n], Message: "import to LFS, case " + fmt.Sprint(idx)}
		args := []string{"import", "--no-rewrite", "--yes"}
		if !spec.NoMsg {
			args = append(args, "-m", o.Message)
		} else {
			o.Message = ""
		}
		args = append(args, o.Paths...)
		if c.migrate(g.Dir, args...) {
			c.judgeOp(oldV, loadView(env, g.Dir), o)
		}
	case "midway-include", "midway-fixup":
		mo := spec.Gen.Midway
		run.Count("midway_histories", 1)
		run.Count("midway_pre_lfs_commits", int64(mo.Pre))
		run.Count("midway_mistakes_raw_although_tracked", int64(mo.Mistakes))
		o1 := op{Kind: "import", Sel: spec.Sel}
		args := []string{"import", "--yes"}
		if spec.Mode == "midway-fixup" {
			o1 = op{Kind: "import", Fixup: true}
			args = append(args, "--fixup")
		} else {
			args = append(args, selArgs(spec.Sel)...)
		}
		refArgs := c.midwayRefArgs(&o1)
		c.pathTrig = spec.Trigger
		if !c.migrate(g.Dir, append(args, refArgs...)...) {
			return c
		}
		mid := c.copyRepo(g.Dir, "mid")
		midV := loadView(env, mid)
		j1 := c.judgeOp(oldV, midV, o1)
		for o, n := range j1.fwd {
			c.extra[n] = g.LabelsOf(o)
		}
		// export of the same selection over the same refs
		o2 := op{Kind: "export", Sel: spec.Sel, Everything: o1.Everything, IncludeRefs: o1.IncludeRefs}
		c.pathTrig = "lfs-adopted-midway/export"
		if !c.migrate(g.Dir, append(append([]string{"export", "--yes"}, selArgs(spec.Sel)...), refArgs...)...) {
			return c
		}
		finV := loadView(env, g.Dir)
		j2 := c.judgeOp(midV, finV, o2)
		c.roundTrip(oldV, finV, j1.fwd, j2.fwd, spec.Sel)
	case "fixup-nested":
		run.Count("nested_attr_histories", 1)
		run.Count("nested_attr_events_root_file_untouched", int64(g.NestedEvents))
		o := op{Kind: "import", Fixup: true}
		refArgs := c.midwayRefArgs(&o)
		c.pathTrig = spec.Trigger
		if c.migrate(g.Dir, append([]string{"import", "--yes", "--fixup"}, refArgs...)...) {
			c.judgeOp(oldV, loadView(env, g.Dir), o)
		}
	case "fixup-after-export":
		// The two preparatory commands are judged by other modes; here only the final --fixup is.
		if !c.migrate(g.Dir, "import", "--yes", "--everything", "--include=*.dat") {
			return c
		}
		if !c.migrate(g.Dir, append([]string{"export", "--yes", "--everything"}, selArgs(spec.Sel)...)...) {
			return c
		}
		c.commitRaw(g.Dir, map[string][]byte{
			"raw-new.dat":     g.bytes(1500+spec.r.Intn(2000), false),
			"a/raw-new.dat":   g.bytes(1500+spec.r.Intn(2000), false),
			"a/b/raw-new.dat": g.bytes(300+spec.r.Intn(2000), false),
			"c d/raw new.dat": g.bytes(300+spec.r.Intn(2000), false),
		})
		mid := c.copyRepo(g.Dir, "mid")
		midV := loadView(env, mid)
		if c.migrate(g.Dir, "import", "--yes", "--fixup", "--everything") {
			c.judgeOp(midV, loadView(env, g.Dir), op{Kind: "import", Fixup: true, Everything: true})
		}
	case "roundtrip":
		o1 := op{Kind: "import", Sel: spec.Sel, Everything: true}
		if !c.migrate(g.Dir, append([]string{"import", "--yes", "--everything"}, selArgs(spec.Sel)...)...) {
			return c
		}
		mid := c.copyRepo(g.Dir, "mid")
		midV := loadView(env, mid)
		j1 := c.judgeOp(oldV, midV, o1)
		for o, n := range j1.fwd {
			c.extra[n] = g.LabelsOf(o)
		}
		o2 := op{Kind: "export", Sel: spec.Sel, Everything: true}
		if !c.migrate(g.Dir, append([]string{"export", "--yes", "--everything"}, selArgs(spec.Sel)...)...) {
			return c
		}
		finV := loadView(env, g.Dir)
		j2 := c.judgeOp(midV, finV, o2)
		c.roundTrip(oldV, finV, j1.fwd, j2.fwd, spec.Sel)
	default:
		o := op{Kind: "import", Sel: spec.Sel}
		args := []string{"import", "--yes"}
		switch spec.Mode {
		case "export":
			o.Kind = "export"
			args = []string{"export", "--yes"}
			args = append(args, selArgs(spec.Sel)...)
		case "import-include":
			args = append(args, selArgs(spec.Sel)...)
		case "import-above":
			o.Above = spec.Above
			args = append(args, "--above="+spec.AboveArg)
		case "import-all":
			o.AllFiles = true
		case "import-fixup":
			o.Fixup = true
			args = append(args, "--fixup")
		}
		args = append(args, c.refArgs(&o, head)...)
		if o.Kind == "import" {
			c.infoDifferential(g.Dir, args[2:]) // same selection, without "import --yes"
		}
		if c.migrate(g.Dir, args...) {
			c.judgeOp(oldV, loadView(env, g.Dir), o)
		}
	}
	return c
}

func main() {
	run := evid.New("C12", "exploration")
	if os.Getenv("VERIF_C12_KEEP") == "" {
		defer sbx.RemoveBase()
	}
	run.Rule = "seeded repositories built with git plumbing (linear, branching, 2-parent and octopus merges, orphan roots, lightweight / annotated / tag-of-tag tags, symlinks and executables whose names match the selections, empty files, gitlinks, nested .gitattributes, *.bin files already in LFS through the clean filter, raw files under LFS attributes, distinct author/committer identities, dates and zones, multi-line messages, one exotic commit feature in a third of the cases) x one migrate command: import --include/--exclude (forms *.ext, dir/*.ext, exact path, dir/**), import --above, import (all files), import --fixup (attribute variants), import --no-rewrite, export --include/--exclude, export after import; plus histories that adopt LFS midway (raw files first, then exactly the line `git lfs track <pattern>` writes and every matching file re-added through the clean filter, later commits already correct, files committed raw although tracked and repaired later, topic merge, legacy branch, tags) x {import --include=<pattern>, import --fixup} x {--everything, current branch, --include-ref} followed by export --include=<pattern>; plus --fixup histories whose attribute state changes between consecutive commits only through nested .gitattributes files (sub/, sub/deep/, a directory with a space, a merged side branch; states absent / track / empty / !filter / -filter; root file absent, unrelated or tracking; root-file changes as control; fresh paths and contents per attribute state); plus general branching histories whose commit dates are laid out as {root / trunk / fork-point and random commits dated later than their descendants, committer dates decreasing, one identical date everywhere, author dates up to 400 days before or after the committer date} x {import --include, import (all), import --fixup, export} x {--everything, several --include-ref}; 3 in 5 cases of the basic rotation carry lfs.fetchinclude and/or lfs.fetchexclude (local config, global config or git -c; patterns that would change the selected set if migrate honoured them) with unchanged expectation, plus a differential `migrate info` run; ref selection in {--everything, current branch, current branch minus remote refs, --include-ref/--exclude-ref, positional branches}. Class = (mode, ref selection, pattern forms, special coordinate)."
	run.Assumptions = []string{
		"pattern semantics of --include/--exclude are those of .gitattributes (man page); only the forms *.ext, dir/*.ext, exact anchored path, dir/** are generated",
		"the generator creates no pointer look-alikes and no non-canonical pointers; LFS objects of the original history are all in the local store",
		"a local branch that was not selected but points into the rewritten range may be moved or left; tag messages are compared modulo trailing newlines; reflogs, refs/original, unreachable objects, commit ids and the working tree are not judged",
		"export: an LFS object missing afterwards is judged only if no commit reachable from a remote-tracking ref references it (export ends with a prune)",
		"git 2.39.5",
	}
	nBase = run.N(36, 240)
	nMid = run.N(6, 40)                      // "LFS adopted midway" cases
	nNest = run.N(6, 36)                     // --fixup over nested attribute changes
	n := nBase + nMid + nNest + run.N(6, 40) // + date layouts other than "ancestors are older"
	if os.Getenv("VERIF_C12_CASE") == "" {
		run.SetMinEvaluations(n / 2)
	}
	workers := runtime.NumCPU()
	if workers > n {
		workers = n
	}
	var wg sync.WaitGroup
	jobs := make(chan int)
	for w := 0; w < workers; w++ {
		wg.Add(1)
		go func() {
			defer wg.Done()
			for i := range jobs {
				func() {
					defer func() {
						if x := recover(); x != nil {
							run.Inconclusive(fmt.Sprintf("case %d: harness panic: %v", i, x))
						}
					}()
					c := runCase(run, i)
					run.Case(c.spec.class(), map[string]any{"case": i, "class": c.spec.class(), "commands": c.cmds, "generated_commits": len(c.gen.C), "branches": c.gen.BrO, "tags": c.gen.Tags, "violations": c.nviol})
				}()
			}
		}()
	}
	only := -1
	if v := os.Getenv("VERIF_C12_CASE"); v != "" { // debugging aid: run a single case index of the tier
		fmt.Sscan(v, &only)
	}
	for i := 0; i < n; i++ {
		if only < 0 || i == only {
			jobs <- i
		}
	}
	close(jobs)
	wg.Wait()
	run.Finish()
}
