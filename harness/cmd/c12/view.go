package main

// Independent reading of a repository: every object is dumped by ONE plain
// `git cat-file --batch-all-objects --batch` and commits, tags and trees are
// parsed here (no git-lfs code, no gitobj). Pointers are recognised by ptrspec,
// LFS objects are read from .git/lfs/objects and hashed by the driver.

import (
	"bytes"
	"encoding/hex"
	"fmt"
	"os"
	"path/filepath"
	"sort"
	"strconv"
	"strings"

	"verif/harness/ptrspec"
	"verif/harness/sbx"
)

type gobj struct {
	typ  string
	data []byte
}

type hdr struct{ K, V string }

type pcommit struct {
	sha       string
	tree      string
	parents   []string
	author    string
	committer string
	extra     []hdr // in order, continuation lines joined with "\n"
	msg       []byte
}

type ptag struct {
	object, typ, name, tagger string
	extra                     []hdr
	msg                       []byte
}

type view struct {
	env    *sbx.Env
	dir    string
	gitDir string
	objs   map[string]gobj
	refs   map[string]string
	head   string
	flat   map[string]Tree // root tree sha -> flattened
	binfo  map[string]*blobInfo
	nAttr  int
}

type blobInfo struct {
	ptr      *ptrspec.Pointer // canonical non-empty pointer
	size     int
	resolved string // sha256 of the resolved content ("" until computed)
	resErr   string
}

func loadView(env *sbx.Env, dir string) *view {
	v := &view{env: env, dir: dir, gitDir: filepath.Join(dir, ".git"), objs: map[string]gobj{}, refs: map[string]string{}, flat: map[string]Tree{}, binfo: map[string]*blobInfo{}}
	res := env.PlainGit(dir, "cat-file", "--batch-all-objects", "--batch")
	if !res.OK() {
		panic("cat-file --batch-all-objects failed: " + res.String())
	}
	b := res.Stdout
	for len(b) > 0 {
		nl := bytes.IndexByte(b, '\n')
		f := strings.Fields(string(b[:nl]))
		if len(f) != 3 {
			panic("unexpected cat-file header: " + string(b[:nl]))
		}
		n, _ := strconv.Atoi(f[2])
		v.objs[f[0]] = gobj{typ: f[1], data: b[nl+1 : nl+1+n]}
		b = b[nl+1+n+1:]
	}
	res = env.PlainGit(dir, "for-each-ref", "--format=%(refname) %(objectname)")
	if !res.OK() {
		panic("for-each-ref failed: " + res.String())
	}
	for _, l := range strings.Split(string(res.Stdout), "\n") {
		if f := strings.Fields(l); len(f) == 2 {
			v.refs[f[0]] = f[1]
		}
	}
	v.head = strings.TrimSpace(string(env.PlainGit(dir, "symbolic-ref", "-q", "HEAD").Stdout))
	return v
}

func splitHeaders(data []byte) (hs []hdr, body []byte) {
	rest := data
	for {
		nl := bytes.IndexByte(rest, '\n')
		var line []byte
		if nl < 0 {
			line, rest = rest, nil
		} else {
			line, rest = rest[:nl], rest[nl+1:]
		}
		if len(line) == 0 {
			return hs, rest
		}
		if line[0] == ' ' && len(hs) > 0 {
			hs[len(hs)-1].V += "\n" + string(line[1:])
		} else {
			k, val, _ := strings.Cut(string(line), " ")
			hs = append(hs, hdr{k, val})
		}
		if rest == nil {
			return hs, nil
		}
	}
}

func (v *view) commit(sha string) *pcommit {
	o, ok := v.objs[sha]
	if !ok || o.typ != "commit" {
		return nil
	}
	hs, body := splitHeaders(o.data)
	c := &pcommit{sha: sha, msg: body}
	for _, h := range hs {
		switch h.K {
		case "tree":
			c.tree = h.V
		case "parent":
			c.parents = append(c.parents, h.V)
		case "author":
			c.author = h.V
		case "committer":
			c.committer = h.V
		default:
			c.extra = append(c.extra, h)
		}
	}
	return c
}

func (v *view) tag(sha string) *ptag {
	o, ok := v.objs[sha]
	if !ok || o.typ != "tag" {
		return nil
	}
	hs, body := splitHeaders(o.data)
	t := &ptag{msg: body}
	for _, h := range hs {
		switch h.K {
		case "object":
			t.object = h.V
		case "type":
			t.typ = h.V
		case "tag":
			t.name = h.V
		case "tagger":
			t.tagger = h.V
		default:
			t.extra = append(t.extra, h)
		}
	}
	return t
}

// peel follows tag objects; returns the chain of tag shas and the final object.
func (v *view) peel(sha string) (tags []string, final string, typ string) {
	for i := 0; i < 10; i++ {
		o, ok := v.objs[sha]
		if !ok {
			return tags, sha, "missing"
		}
		if o.typ != "tag" {
			return tags, sha, o.typ
		}
		tags = append(tags, sha)
		sha = v.tag(sha).object
	}
	return tags, sha, "tag-loop"
}

func normMode(m string) string {
	if m == "40000" {
		return "040000"
	}
	return m
}

func (v *view) flatten(treeSha string) Tree {
	if t, ok := v.flat[treeSha]; ok {
		return t
	}
	out := Tree{}
	v.walkTree(treeSha, "", out)
	v.flat[treeSha] = out
	return out
}

func (v *view) walkTree(sha, prefix string, out Tree) {
	o, ok := v.objs[sha]
	if !ok || o.typ != "tree" {
		panic("tree object missing: " + sha)
	}
	b := o.data
	for len(b) > 0 {
		sp := bytes.IndexByte(b, ' ')
		nul := bytes.IndexByte(b, 0)
		mode := normMode(string(b[:sp]))
		name := string(b[sp+1 : nul])
		id := hex.EncodeToString(b[nul+1 : nul+21])
		b = b[nul+21:]
		if mode == "040000" {
			v.walkTree(id, prefix+name+"/", out)
		} else {
			out[prefix+name] = Ent{Mode: mode, Sha: id}
		}
	}
}

func (v *view) blob(sha string) []byte {
	o, ok := v.objs[sha]
	if !ok || o.typ != "blob" {
		panic("blob object missing: " + sha)
	}
	return o.data
}

func (v *view) info(sha string) *blobInfo {
	if bi, ok := v.binfo[sha]; ok {
		return bi
	}
	b := v.blob(sha)
	bi := &blobInfo{size: len(b)}
	if len(b) > 0 && len(b) < 1024 {
		if p, ok := ptrspec.ParseCanonical(b); ok && p.Size > 0 {
			pp := p
			bi.ptr = &pp
		}
	}
	v.binfo[sha] = bi
	return bi
}

// kindOf classifies a tree entry.
func (v *view) kindOf(e Ent) string {
	switch e.Mode {
	case "120000":
		return "symlink"
	case "160000":
		return "gitlink"
	}
	bi := v.info(e.Sha)
	switch {
	case bi.ptr != nil:
		return "pointer"
	case bi.size == 0:
		return "empty-file"
	}
	return "raw"
}

// resolved returns the SHA-256 of the entry's content after resolving a
// pointer through this repository's local LFS store; storeReads counts reads.
func (v *view) resolved(e Ent, storeReads *int64) (string, string) {
	if e.Mode == "160000" {
		return "gitlink:" + e.Sha, ""
	}
	if e.Mode == "120000" {
		return "symlink:" + sbx.Sha256Hex(v.blob(e.Sha)), ""
	}
	bi := v.info(e.Sha)
	if bi.resolved != "" || bi.resErr != "" {
		return bi.resolved, bi.resErr
	}
	if bi.ptr == nil {
		bi.resolved = sbx.Sha256Hex(v.blob(e.Sha))
		return bi.resolved, ""
	}
	*storeReads++
	p := sbx.ObjectPath(v.gitDir, bi.ptr.Oid)
	data, err := os.ReadFile(p)
	switch {
	case err != nil:
		bi.resErr = fmt.Sprintf("LFS object %s is not in the local store (%v)", bi.ptr.Oid, err)
	case sbx.Sha256Hex(data) != bi.ptr.Oid:
		bi.resErr = fmt.Sprintf("local LFS object %s hashes to %s", bi.ptr.Oid, sbx.Sha256Hex(data))
	case int64(len(data)) != bi.ptr.Size:
		bi.resErr = fmt.Sprintf("pointer says size %d, object %s has %d bytes", bi.ptr.Size, bi.ptr.Oid, len(data))
	default:
		bi.resolved = bi.ptr.Oid
	}
	return bi.resolved, bi.resErr
}

// filterAttr asks Git itself which `filter` attribute the paths have in the
// tree of commit (temporary index + check-attr --cached).
func (v *view) filterAttr(commit string, paths []string) map[string]string {
	out := map[string]string{}
	if len(paths) == 0 {
		return out
	}
	v.nAttr++
	idx := filepath.Join(v.env.Root, "tmp", fmt.Sprintf("attr-%s-%d.index", filepath.Base(v.dir), v.nAttr))
	defer os.Remove(idx)
	e := []string{"GIT_INDEX_FILE=" + idx}
	if res := v.env.Run(sbx.RunOpt{Dir: v.dir, Env: e}, "git", "read-tree", commit); !res.OK() {
		panic("read-tree failed: " + res.String())
	}
	res := v.env.Run(sbx.RunOpt{Dir: v.dir, Env: e, Stdin: strings.NewReader(strings.Join(paths, "\x00") + "\x00")}, "git", "check-attr", "--cached", "-z", "--stdin", "filter")
	if !res.OK() {
		panic("check-attr failed: " + res.String())
	}
	f := strings.Split(string(res.Stdout), "\x00")
	for i := 0; i+2 < len(f); i += 3 {
		out[f[i]] = f[i+2]
	}
	return out
}

// reach returns every commit reachable from tips.
func (v *view) reach(tips []string) map[string]bool {
	seen := map[string]bool{}
	stack := append([]string(nil), tips...)
	for len(stack) > 0 {
		s := stack[len(stack)-1]
		stack = stack[:len(stack)-1]
		if seen[s] {
			continue
		}
		c := v.commit(s)
		if c == nil {
			continue
		}
		seen[s] = true
		stack = append(stack, c.parents...)
	}
	return seen
}

func sortedPaths(t Tree) []string {
	ks := make([]string, 0, len(t))
	for k := range t {
		ks = append(ks, k)
	}
	sort.Strings(ks)
	return ks
}
