package main

// Generator of repositories for C12. Unlike harness/histgen it builds the
// history with git plumbing (hash-object / update-index --index-info /
// write-tree / raw commit and tag objects) from an in-memory model, so that
// the commit graph (octopus merges, orphan roots), the author / committer
// lines (names, e-mails, different dates, time zones), extra headers and the
// message bytes are fully controlled, and so that files can be committed "raw"
// although .gitattributes says LFS (the situation --fixup repairs).
// Files that are "already in LFS" go through the real clean filter
// (`git-lfs clean`), whose output is verified against ptrspec + own SHA-256.

import (
	"bytes"
	"fmt"
	"math/rand"
	"path"
	"sort"
	"strings"

	"verif/harness/ptrspec"
	"verif/harness/sbx"
)

const lfsAttrs = "filter=lfs diff=lfs merge=lfs -text"

type Ent struct {
	Mode string // 100644 100755 120000 160000
	Sha  string
}

type Tree map[string]Ent

func (t Tree) clone() Tree {
	c := Tree{}
	for k, v := range t {
		c[k] = v
	}
	return c
}

type GCommit struct {
	Idx     int
	Sha     string
	Tree    Tree
	Parents []int
	Labels  []string // features of this commit: "root", "merge", "octopus-merge", exotic label…
	Subject string
}

type GenOpt struct {
	Commits  int
	DatInLFS bool   // *.dat files are committed as pointers and tracked (export histories)
	Fixup    string // "", "plain", "attrs-added-later", "attrs-removed-later", "nested", "macro"
	// FixupOverrides (with Fixup "plain"): the tracked pattern *.dat is partly taken back by
	// later lines / a nested file in the forms migrate itself writes:
	//   a/b/*.dat !text !filter !merge !diff            (what `migrate export --include` appends)
	//   c[[:space:]]d/*.dat !text -filter -merge -diff   (what `migrate import --exclude` appends)
	//   é/.gitattributes: *.dat !filter !diff !merge      (nested override)
	// Raw files below those directories are NOT LFS files according to Git.
	FixupOverrides bool
	// NestedDatAttrs: (export histories) files below a/ are tracked by a/.gitattributes in addition to the root pattern
	NestedDatAttrs   bool
	Exotic           string // at most one exotic commit feature per case ("" = none)
	Sizes            []int  // extra sizes that must occur among *.dat / *.png files (threshold neighbourhood)
	NoBin            bool   // no pre-existing LFS files at all (and possibly no .gitattributes)
	Gitlink          bool
	TagOfTag         bool       // allow an annotated tag whose object is another annotated tag
	NoNestedBinAttrs bool       // do not drop an a/b/.gitattributes that tracks *.bin
	BinUnderAB       bool       // an already-tracked LFS file lives below a/b/ from the first commit on
	MergeOnlyLFS     bool       // every merge commit adds a fresh LFS file that the next commit deletes again
	NoEvilMerge      bool       // merge commits carry no changes of their own
	AvoidSize        int        // no generated file has exactly this size (keeps the --above boundary out of unrelated cases)
	Midway           *MidwayOpt `json:",omitempty"` // "LFS adopted midway" history (midway.go) instead of the general generator
	Nested           *NestedOpt `json:",omitempty"` // --fixup history whose attribute state changes through nested files only (nested.go)
	// Dates: how commit dates are laid out. "" = committer dates increase in creation order (so every
	// ancestor is older than its descendants) and the author date lies up to ~28 h before it;
	// "ancestor-later": root commits, every commit made while there is only one branch (this includes
	// the first fork point) and a random quarter of the others carry a committer date LATER than
	// everything created afterwards; "decreasing": committer dates decrease in creation order;
	// "identical": all commits share one author = committer date; "author-skewed": committer dates as
	// usual, author dates up to 400 days before or AFTER them. A branch is forced early on.
	Dates string `json:",omitempty"`
}

type Gen struct {
	env  *sbx.Env
	Dir  string
	r    *rand.Rand
	opt  GenOpt
	Log  []string
	C    []*GCommit
	Br   map[string]int // branch -> commit idx
	BrO  []string       // branch names in creation order
	Tags []string

	blobBy       map[string]string // sha256(content) -> git blob sha
	ptrBy        map[string]string // sha256(content) -> git blob sha of its pointer
	pool         [][]byte
	tick         int
	exoticAt     int
	dr           *rand.Rand // separate stream for the date coordinate (leaves the main stream untouched)
	attrFlip     int        // commit number at which the fixup attribute line is added / removed
	sizesLeft    []int
	ExoticCommit int               // idx of the commit carrying opt.Exotic (-1 none)
	TagLabels    map[string]string // refs/tags/x -> "lightweight" | "annotated" | "annotated-tag-of-tag"
	NestedEvents int               // (nested.go) commits that change a nested .gitattributes while the root file keeps its blob
}

func (g *Gen) logf(f string, a ...any) { g.Log = append(g.Log, fmt.Sprintf(f, a...)) }

var genDirs = []string{"", "", "a/", "a/b/", "c d/", "é/"}
var datNames = []string{"d1.dat", "d2.dat", "big.dat", "x y.dat", "z#1.dat"}
var pngNames = []string{"img.png", "pic.png"}
var txtNames = []string{"notes.txt", "readme", "src.c", "Makefile"}
var binNames = []string{"f1.bin", "f2.bin"}

var authors = []string{"Alice Author <alice@example.com>", "Zoë Müller <zoe@example.org>", "bob <bob@localhost>", "Carol O'Neil-Smith <carol+lfs@sub.example.co.uk>"}
var zones = []string{"+0000", "+0530", "-0800", "+1300", "-0330", "+0100"}

func NewGen(env *sbx.Env, name string, seed int64, opt GenOpt) *Gen {
	g := &Gen{env: env, r: rand.New(rand.NewSource(seed)), opt: opt, Br: map[string]int{}, blobBy: map[string]string{}, ptrBy: map[string]string{}, ExoticCommit: -1, TagLabels: map[string]string{}}
	if g.opt.Commits == 0 {
		g.opt.Commits = 14
	}
	g.Dir = env.InitRepo(name)
	for i := 0; i < 9; i++ {
		n := 1 + g.r.Intn(5000)
		switch i % 4 {
		case 0:
			n = 1 + g.r.Intn(200)
		case 1:
			n = 900 + g.r.Intn(250)
		}
		g.pool = append(g.pool, g.bytes(n, i%3 == 0))
	}
	g.sizesLeft = append([]int(nil), opt.Sizes...)
	g.exoticAt = 1 + g.r.Intn(g.opt.Commits-1)
	g.attrFlip = 2 + g.r.Intn(3)
	g.dr = rand.New(rand.NewSource(seed ^ 0x5eed0da7e5))
	if opt.Midway != nil {
		g.buildMidway()
	} else if opt.Nested != nil {
		g.buildNested()
	} else {
		g.build()
	}
	return g
}

func (g *Gen) bytes(n int, texty bool) []byte {
	b := make([]byte, n)
	g.r.Read(b)
	if texty {
		for j := range b {
			b[j] = "abcdefghij klmnop\nqrstuvwxyz"[int(b[j])%28]
		}
	}
	return b
}

func (g *Gen) content() []byte {
	for {
		b := g.content1()
		if g.opt.AvoidSize == 0 || len(b) != g.opt.AvoidSize {
			return b
		}
	}
}

func (g *Gen) content1() []byte {
	if len(g.sizesLeft) > 0 {
		n := g.sizesLeft[0]
		g.sizesLeft = g.sizesLeft[1:]
		return g.bytes(n, false)
	}
	switch k := g.r.Intn(12); {
	case k == 0:
		return []byte{}
	case k < 4:
		return g.bytes(1+g.r.Intn(5000), g.r.Intn(2) == 0)
	}
	return g.pool[g.r.Intn(len(g.pool))]
}

func (g *Gen) mustIn(stdin []byte, args ...string) string {
	res := g.env.Run(sbx.RunOpt{Dir: g.Dir, Stdin: bytes.NewReader(stdin)}, "git", args...)
	if !res.OK() {
		panic("generator: git failed: " + res.String())
	}
	return strings.TrimSpace(string(res.Stdout))
}

// blob stores content as a plain git blob.
func (g *Gen) blob(content []byte) string {
	k := sbx.Sha256Hex(content)
	if s, ok := g.blobBy[k]; ok {
		return s
	}
	s := g.mustIn(content, "hash-object", "-w", "--stdin")
	g.blobBy[k] = s
	return s
}

// pointer runs the real clean filter on content (storing the object in the
// local LFS store) and stores the pointer as a blob.
func (g *Gen) pointer(p string, content []byte) string {
	if len(content) == 0 {
		return g.blob(content)
	}
	k := sbx.Sha256Hex(content)
	if s, ok := g.ptrBy[k]; ok {
		return s
	}
	res := g.env.Run(sbx.RunOpt{Dir: g.Dir, Stdin: bytes.NewReader(content)}, "git-lfs", "clean", "--", p)
	want := ptrspec.Canonical(ptrspec.Pointer{Oid: k, Size: int64(len(content))})
	if !res.OK() || string(res.Stdout) != want {
		panic("generator: git-lfs clean did not produce the canonical pointer: " + res.String())
	}
	s := g.blob(res.Stdout)
	g.ptrBy[k] = s
	return s
}

func (g *Gen) tracksBin(t Tree) bool {
	_, ok := t[".gitattributes"]
	return ok && !g.opt.NoBin
}

// put writes a regular file into the tree in the representation the case calls for.
func (g *Gen) put(t Tree, p string, content []byte, mode string) {
	ext := path.Ext(p)
	if g.opt.AvoidSize > 0 && len(content) == g.opt.AvoidSize {
		content = append(append([]byte(nil), content...), 'x')
	}
	var sha string
	switch {
	case ext == ".bin":
		sha = g.pointer(p, content)
	case ext == ".dat" && g.opt.DatInLFS:
		sha = g.pointer(p, content)
	case ext == ".dat" && g.opt.Fixup != "" && g.r.Intn(4) == 0:
		sha = g.pointer(p, content) // some files are already correct
	default:
		sha = g.blob(content)
	}
	t[p] = Ent{Mode: mode, Sha: sha}
}

func (g *Gen) attrsBlob(lines ...string) Ent {
	return Ent{Mode: "100644", Sha: g.blob([]byte(strings.Join(lines, "\n") + "\n"))}
}

// initialTree returns the attribute files of a fresh root tree.
func (g *Gen) initialTree() Tree {
	t := Tree{}
	var lines []string
	if !g.opt.NoBin {
		lines = append(lines, "*.bin "+lfsAttrs)
	}
	if g.opt.DatInLFS {
		lines = append(lines, "*.dat "+lfsAttrs)
	}
	switch g.opt.Fixup {
	case "plain", "attrs-removed-later":
		lines = append(lines, "*.dat "+lfsAttrs)
		if g.opt.FixupOverrides {
			lines = append(lines, "a/b/*.dat !text !filter !merge !diff", "c[[:space:]]d/*.dat !text -filter -merge -diff")
			t["é/.gitattributes"] = g.attrsBlob("# not in LFS below this directory", "*.dat !filter !diff !merge")
		}
	case "macro":
		lines = append(lines, "[attr]lfsmacro "+lfsAttrs, "*.dat lfsmacro")
	case "nested":
		t["a/.gitattributes"] = g.attrsBlob("*.dat " + lfsAttrs)
	}
	if g.opt.NestedDatAttrs {
		t["a/.gitattributes"] = g.attrsBlob("*.dat " + lfsAttrs)
	}
	if len(lines) > 0 {
		t[".gitattributes"] = g.attrsBlob(lines...)
	}
	return t
}

func keysOf(t Tree, f func(p string, e Ent) bool) []string {
	var ks []string
	for p, e := range t {
		if f(p, e) {
			ks = append(ks, p)
		}
	}
	sort.Strings(ks)
	return ks
}

func isAttrPath(p string) bool { return path.Base(p) == ".gitattributes" }

// mutate applies 1..3 file operations to t.
func (g *Gen) mutate(t Tree) {
	for _, p := range keysOf(t, func(p string, e Ent) bool { return strings.HasPrefix(p, "merged-") }) {
		delete(t, p) // (MergeOnlyLFS) files added by a merge commit live in that commit only
	}
	n := 1 + g.r.Intn(3)
	for i := 0; i < n; i++ {
		files := keysOf(t, func(p string, e Ent) bool {
			return !isAttrPath(p) && !strings.HasPrefix(p, "merged-") && (e.Mode == "100644" || e.Mode == "100755")
		})
		k := g.r.Intn(100)
		switch {
		case k < 34 || len(files) == 0: // data file (import candidates)
			names := datNames
			if g.r.Intn(4) == 0 {
				names = pngNames
			}
			p := genDirs[g.r.Intn(len(genDirs))] + names[g.r.Intn(len(names))]
			mode := "100644"
			if g.r.Intn(7) == 0 {
				mode = "100755"
			}
			g.put(t, p, g.content(), mode)
			g.logf("write %s (%s)", p, mode)
		case k < 46:
			p := genDirs[g.r.Intn(len(genDirs))] + txtNames[g.r.Intn(len(txtNames))]
			g.put(t, p, []byte(fmt.Sprintf("plain text %d\nline two\n", g.r.Intn(1000))), "100644")
			g.logf("write %s", p)
		case k < 56 && g.tracksBin(t):
			p := genDirs[g.r.Intn(len(genDirs))] + binNames[g.r.Intn(len(binNames))]
			g.put(t, p, g.content(), "100644")
			g.logf("write lfs %s", p)
		case k < 63:
			p := files[g.r.Intn(len(files))]
			delete(t, p)
			g.logf("delete %s", p)
		case k < 71: // rename keeps representation and extension
			p := files[g.r.Intn(len(files))]
			q := genDirs[g.r.Intn(len(genDirs))] + fmt.Sprintf("moved%d", g.r.Intn(4)) + path.Ext(p)
			t[q] = t[p]
			delete(t, p)
			g.logf("rename %s -> %s", p, q)
		case k < 78:
			p := files[g.r.Intn(len(files))]
			q := genDirs[g.r.Intn(len(genDirs))] + fmt.Sprintf("copy%d", g.r.Intn(4)) + path.Ext(p)
			t[q] = t[p]
			g.logf("copy %s -> %s", p, q)
		case k < 83:
			p := files[g.r.Intn(len(files))]
			e := t[p]
			if e.Mode == "100644" {
				e.Mode = "100755"
			} else {
				e.Mode = "100644"
			}
			t[p] = e
			g.logf("chmod %s %s", p, e.Mode)
		case k < 90: // symlink whose NAME matches the usual selections
			p := []string{"ln.dat", "a/ln.dat", "link1", "c d/ln.png"}[g.r.Intn(4)]
			target := []string{"d1.dat", "../big.dat", "a/b/d2.dat"}[g.r.Intn(3)]
			if g.r.Intn(3) == 0 {
				// a link committed as a plain file holding its target (core.symlinks=false checkout);
				// a later symlink operation on the same path yields a 100644 -> 120000 typechange
				// with an unchanged blob
				g.put(t, p, []byte(target), "100644")
				g.logf("link-as-plain-file %s -> %s", p, target)
			} else {
				t[p] = Ent{Mode: "120000", Sha: g.blob([]byte(target))}
				g.logf("symlink %s", p)
			}
		case k < 95: // empty file with a selectable name
			p := genDirs[g.r.Intn(len(genDirs))] + []string{"empty.dat", "empty.png"}[g.r.Intn(2)]
			g.put(t, p, []byte{}, "100644")
			g.logf("write empty %s", p)
		default: // nested .gitattributes that is irrelevant to the import selections (must survive)
			if !g.opt.NoNestedBinAttrs {
				t["a/b/.gitattributes"] = g.attrsBlob("*.c text", "*.bin "+lfsAttrs)
				g.logf("nested a/b/.gitattributes")
			}
		}
	}
}

func (g *Gen) writeTree(t Tree) string {
	var sb strings.Builder
	for _, p := range keysOf(t, func(string, Ent) bool { return true }) {
		fmt.Fprintf(&sb, "%s %s\t%s\x00", t[p].Mode, t[p].Sha, p)
	}
	idx := g.env.Root + "/tmp/gen.index"
	res := g.env.Run(sbx.RunOpt{Dir: g.Dir, Stdin: strings.NewReader(sb.String()), Env: []string{"GIT_INDEX_FILE=" + idx}}, "git", "update-index", "-z", "--index-info")
	if !res.OK() {
		panic("generator: update-index failed: " + res.String())
	}
	res = g.env.Run(sbx.RunOpt{Dir: g.Dir, Env: []string{"GIT_INDEX_FILE=" + idx}}, "git", "write-tree")
	if !res.OK() {
		panic("generator: write-tree failed: " + res.String())
	}
	g.env.Run(sbx.RunOpt{Dir: g.Dir}, "rm", "-f", idx)
	return strings.TrimSpace(string(res.Stdout))
}

func (g *Gen) sigLine(base int64) string {
	return fmt.Sprintf("%s %d %s", authors[g.r.Intn(len(authors))], base, zones[g.r.Intn(len(zones))])
}

// commit writes a raw commit object.
func (g *Gen) commit(t Tree, parents []int, labels ...string) int {
	g.tick++
	idx := len(g.C)
	base := int64(1700000000 + g.tick*3600)
	late := false
	if g.opt.Dates == "ancestor-later" {
		late = len(parents) == 0 || len(g.BrO) <= 1 || g.dr.Intn(4) == 0
	}
	subject := fmt.Sprintf("c%d %s", idx, strings.Join(labels, " "))
	msg := subject + "\n\nbody of commit " + fmt.Sprint(idx) + "\n  indented line, trailing space \n\nSigned-off-by: " + authors[g.r.Intn(len(authors))] + "\n"
	var extra string
	if g.opt.Exotic != "" && g.ExoticCommit < 0 && idx >= g.exoticAt {
		g.ExoticCommit = idx
		labels = append(labels, g.opt.Exotic)
		switch g.opt.Exotic {
		case "encoding-header":
			extra = "encoding ISO-8859-1\n"
			msg = subject + " caf\xe9\n\nlatin-1 body \xfc\xdf\n"
		case "gpgsig-header":
			extra = "gpgsig -----BEGIN PGP SIGNATURE-----\n \n iQEzBAABCAAdFiEEfakefakefakefakefakefakefakefakeFAmVerif0ACgkQ\n =AbCd\n -----END PGP SIGNATURE-----\n"
		case "custom-extra-headers":
			extra = "encoding UTF-8\nx-verif-custom some value with  two spaces\n"
		case "message-crlf":
			msg = subject + "\r\n\r\nbody with CRLF line endings\r\nsecond line\r\n"
		case "message-no-trailing-newline":
			msg = subject + "\n\nbody without final newline"
		case "message-empty":
			msg = ""
		case "message-trailing-blank-lines":
			msg = subject + "\n\nbody\n\n\n"
		case "message-leading-blank-line":
			msg = "\n" + subject + "\n"
		default:
			panic("unknown exotic " + g.opt.Exotic)
		}
	}
	var sb strings.Builder
	fmt.Fprintf(&sb, "tree %s\n", g.writeTree(t))
	for _, p := range parents {
		fmt.Fprintf(&sb, "parent %s\n", g.C[p].Sha)
	}
	adate := base - int64(g.r.Intn(100000))
	cdate := base
	switch g.opt.Dates {
	case "ancestor-later":
		if late {
			cdate += 3000 * 3600
			adate += 3000 * 3600
		}
	case "decreasing":
		cdate = int64(1700000000 + (6000-g.tick)*3600)
		adate = cdate - (base - adate)
	case "identical":
		cdate, adate = 1711111111, 1711111111
	case "author-skewed":
		adate = cdate + int64(g.dr.Intn(800*86400)) - 400*86400
	}
	fmt.Fprintf(&sb, "author %s\n", g.sigLine(adate))
	fmt.Fprintf(&sb, "committer %s\n", g.sigLine(cdate))
	sb.WriteString(extra)
	sb.WriteString("\n")
	sb.WriteString(msg)
	sha := g.mustIn([]byte(sb.String()), "hash-object", "-t", "commit", "-w", "--stdin")
	g.C = append(g.C, &GCommit{Idx: idx, Sha: sha, Tree: t.clone(), Parents: parents, Labels: labels, Subject: subject})
	g.logf("commit c%d %s parents=%v labels=%v", idx, sha[:10], parents, labels)
	return idx
}

func (g *Gen) setBranch(name string, idx int) {
	if _, ok := g.Br[name]; !ok {
		g.BrO = append(g.BrO, name)
	}
	g.Br[name] = idx
}

// fixupFlip changes the tracking of *.dat in the root .gitattributes WITHOUT touching the files.
func (g *Gen) fixupFlip(t Tree) {
	var lines []string
	if !g.opt.NoBin {
		lines = append(lines, "*.bin "+lfsAttrs)
	}
	switch g.opt.Fixup {
	case "attrs-added-later":
		t[".gitattributes"] = g.attrsBlob(append(lines, "*.dat "+lfsAttrs)...)
		g.logf("track *.dat from now on (files untouched)")
	case "attrs-removed-later":
		t[".gitattributes"] = g.attrsBlob(append([]string{"# dat no longer tracked"}, lines...)...)
		g.logf("untrack *.dat from now on (files untouched)")
	}
}

func (g *Gen) build() {
	t := g.initialTree()
	// make sure the interesting file kinds exist from the start
	g.put(t, "d1.dat", g.content(), "100644")
	g.put(t, "a/big.dat", g.bytes(1500+g.r.Intn(3000), false), "100644")
	g.put(t, "a/b/run.dat", g.bytes(300+g.r.Intn(3000), false), "100755")
	g.put(t, "c d/x y.dat", g.content(), "100644")
	g.put(t, "img.png", g.bytes(50+g.r.Intn(2500), false), "100644")
	g.put(t, "notes.txt", []byte("hello\n"), "100644")
	if g.opt.FixupOverrides {
		g.put(t, "a/b/big.dat", g.bytes(1200+g.r.Intn(2000), false), "100644")
		g.put(t, "é/d2.dat", g.bytes(200+g.r.Intn(2000), false), "100644")
	}
	if g.tracksBin(t) {
		g.put(t, "f1.bin", g.bytes(10+g.r.Intn(3000), false), "100644")
	}
	if g.opt.BinUnderAB && g.tracksBin(t) {
		g.put(t, "a/b/f2.bin", g.bytes(10+g.r.Intn(3000), false), "100644")
	}
	if g.opt.Gitlink {
		t["sub"] = Ent{Mode: "160000", Sha: "1234567890abcdef1234567890abcdef12345678"}
	}
	// a link first committed as a plain file (core.symlinks=false checkout) and turned into a real
	// symlink by the next commit: 100644 -> 120000 typechange with an unchanged blob, at a path the
	// usual selections match
	typechange := g.r.Intn(2) == 0
	if typechange {
		g.put(t, "ln.dat", []byte("d1.dat"), "100644")
	}
	g.setBranch("main", g.commit(t, nil, "root"))
	if typechange {
		t2 := t.clone()
		e := t2["ln.dat"]
		e.Mode = "120000"
		t2["ln.dat"] = e
		g.logf("typechange ln.dat 100644 -> 120000 (same blob)")
		g.setBranch("main", g.commit(t2, []int{g.Br["main"]}))
	}
	cur := "main"
	names := []string{"br1", "feature/x", "br3", "topic-4"}
	for n := 1; n < g.opt.Commits; n++ {
		k := g.r.Intn(100)
		if g.opt.Dates != "" && n == 3 && len(g.BrO) == 1 {
			k = 0 // the date coordinate needs a fork point
		}
		switch {
		case k < 14 && len(g.BrO) < 5: // new branch from any commit of the current branch's tip
			b := names[(len(g.BrO)-1)%len(names)]
			if _, ok := g.Br[b]; ok {
				b = fmt.Sprintf("%s-%d", b, n)
			}
			from := g.Br[cur]
			g.logf("branch %s from c%d", b, from)
			cur = b
			t := g.C[from].Tree.clone()
			g.mutate(t)
			g.setBranch(b, g.commit(t, []int{from}))
		case k < 26 && len(g.BrO) > 1: // switch
			cur = g.BrO[g.r.Intn(len(g.BrO))]
			t := g.C[g.Br[cur]].Tree.clone()
			g.mutate(t)
			g.fixupFlipOn(cur, t, n)
			g.setBranch(cur, g.commit(t, []int{g.Br[cur]}))
		case k < 40 && len(g.BrO) > 1: // merge of 1..3 other branch tips (parents in random order after the first)
			var others []string
			for _, b := range g.BrO {
				if b != cur && g.Br[b] != g.Br[cur] {
					others = append(others, b)
				}
			}
			if len(others) == 0 {
				n--
				g.tickle()
				continue
			}
			g.r.Shuffle(len(others), func(a, b int) { others[a], others[b] = others[b], others[a] })
			cnt := 1
			if len(others) >= 2 && g.r.Intn(2) == 0 {
				cnt = 2 + g.r.Intn(len(others)-1)
				if cnt > 3 {
					cnt = 3
				}
			}
			t := g.C[g.Br[cur]].Tree.clone()
			parents := []int{g.Br[cur]}
			seenP := map[int]bool{g.Br[cur]: true}
			for _, b := range others[:cnt] {
				if seenP[g.Br[b]] {
					continue
				}
				seenP[g.Br[b]] = true
				parents = append(parents, g.Br[b])
				for p, e := range g.C[g.Br[b]].Tree {
					if _, ok := t[p]; !ok {
						t[p] = e
					}
				}
			}
			lab := "merge"
			if len(parents) > 2 {
				lab = "octopus-merge"
			}
			if g.opt.MergeOnlyLFS {
				for _, p := range keysOf(t, func(p string, e Ent) bool { return strings.HasPrefix(p, "merged-") }) {
					delete(t, p)
				}
				g.put(t, fmt.Sprintf("merged-%d.bin", len(g.C)), g.bytes(100+g.r.Intn(3000), false), "100644")
				lab += "-with-own-changes"
			} else if g.r.Intn(2) == 0 && !g.opt.NoEvilMerge {
				g.mutate(t) // "evil" merge with own changes
				lab += "-with-own-changes"
			}
			g.setBranch(cur, g.commit(t, parents, lab))
		case k < 46 && len(g.BrO) < 5: // orphan root
			b := fmt.Sprintf("orphan%d", len(g.BrO))
			cur = b
			var t Tree
			if g.r.Intn(2) == 0 {
				t = g.initialTree()
			} else {
				t = Tree{} // no .gitattributes at all: migrate has to create it
				if g.opt.DatInLFS || g.opt.Fixup == "plain" {
					t = g.initialTree()
				}
			}
			g.put(t, "o1.dat", g.content(), "100644")
			g.put(t, "a/o2.dat", g.bytes(700+g.r.Intn(2000), false), "100644")
			g.logf("orphan %s", b)
			g.setBranch(b, g.commit(t, nil, "root", "orphan-root"))
		case k < 60: // tag
			g.tag(n)
			n--
			g.tickle()
		default:
			t := g.C[g.Br[cur]].Tree.clone()
			g.mutate(t)
			g.fixupFlipOn(cur, t, n)
			g.setBranch(cur, g.commit(t, []int{g.Br[cur]}))
		}
	}
	if len(g.Tags) == 0 {
		g.tag(99)
	}
	for _, b := range g.BrO {
		g.mustIn(nil, "update-ref", "refs/heads/"+b, g.C[g.Br[b]].Sha)
	}
}

// tickle bounds the number of non-commit steps (tags, skipped merges).
func (g *Gen) tickle() {
	g.tick++
	if g.tick > 6*g.opt.Commits {
		panic("generator: too many non-commit steps")
	}
}

func (g *Gen) fixupFlipOn(cur string, t Tree, n int) {
	if _, ok := t[".gitattributes"]; !ok && g.opt.Fixup == "attrs-removed-later" {
		return // orphan tree without the line
	}
	if n >= g.attrFlip && g.attrFlip > 0 {
		g.fixupFlip(t)
		g.attrFlip = -1
	}
}

func (g *Gen) tag(n int) {
	if len(g.Tags) >= 5 {
		return
	}
	target := g.C[g.r.Intn(len(g.C))]
	name := fmt.Sprintf("v%d.%d", len(g.Tags), n)
	ref := "refs/tags/" + name
	switch k := g.r.Intn(10); {
	case k < 4:
		g.mustIn(nil, "update-ref", ref, target.Sha)
		g.TagLabels[ref] = "lightweight-tag"
	default:
		obj := fmt.Sprintf("object %s\ntype commit\ntag %s\ntagger %s\n\nannotated %s\n\nsecond paragraph of the tag message\n", target.Sha, name, g.sigLine(int64(1700000000+g.tick*3600+17)), name)
		sha := g.mustIn([]byte(obj), "hash-object", "-t", "tag", "-w", "--stdin")
		g.mustIn(nil, "update-ref", ref, sha)
		g.TagLabels[ref] = "annotated-tag"
		if k >= 7 && len(g.Tags) < 4 && g.opt.TagOfTag { // tag of the tag
			g.Tags = append(g.Tags, ref)
			name2 := name + "-outer"
			obj2 := fmt.Sprintf("object %s\ntype tag\ntag %s\ntagger %s\n\nouter tag of %s\n", sha, name2, g.sigLine(int64(1700000000+g.tick*3600+29)), name)
			sha2 := g.mustIn([]byte(obj2), "hash-object", "-t", "tag", "-w", "--stdin")
			ref = "refs/tags/" + name2
			g.mustIn(nil, "update-ref", ref, sha2)
			g.TagLabels[ref] = "annotated-tag-of-tag"
		}
	}
	g.Tags = append(g.Tags, ref)
	g.logf("tag %s (%s) -> c%d", ref, g.TagLabels[ref], target.Idx)
}

// LabelsOf returns the feature labels of the generated commit with this sha.
func (g *Gen) LabelsOf(sha string) []string {
	for _, c := range g.C {
		if c.Sha == sha {
			return c.Labels
		}
	}
	return nil
}

// RawDatPaths lists the non-empty regular *.dat files of t that were committed raw.
func (g *Gen) RawDatPaths(t Tree) []string {
	ptr := map[string]bool{}
	for _, s := range g.ptrBy {
		ptr[s] = true
	}
	return keysOf(t, func(p string, e Ent) bool {
		return strings.HasSuffix(p, ".dat") && (e.Mode == "100644" || e.Mode == "100755") && !ptr[e.Sha] && e.Sha != g.blobBy[sbx.Sha256Hex(nil)]
	})
}
