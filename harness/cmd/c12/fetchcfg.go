package main

// Configuration coordinate: lfs.fetchinclude / lfs.fetchexclude.
//
// git-lfs-config(5) documents both keys as fetch settings ("When fetching, only
// download / do not download objects which match …"); git-lfs-migrate(1) takes
// its path selection from --include / --exclude only. So the expectation of
// every clause is unchanged when the keys are set: the oracle keeps evaluating
// the selection from the command line alone.
//
// A share of the cases of the 12-way rotation (3 in 5, minus --no-rewrite)
// carries the setting {fetchinclude, fetchexclude, both}, written to the
// repository's local config, to the global config or passed with `git -c`.
// The patterns are taken from the directories / extensions the generator uses,
// differ from the case's own --include / --exclude patterns and are chosen so
// that the selected set WOULD change if migrate honoured them (there is a
// selected path the fetchexclude pattern matches, resp. one the fetchinclude
// pattern does not match); a key can only matter where the command line lacks
// the corresponding option, so the setting is moved to such a key when there is
// one ("effective if honoured" is counted).
//
// Lead's decision: `git lfs migrate info` with the same selection must print the
// same report with and without the keys (differential run, import modes only).

import (
	"fmt"
	"sort"
	"strings"

	"verif/harness/sbx"
)

var fetchExcludeCands = []string{"a/**", "*.dat", "c d/**", "a/b/**", "*.png"}
var fetchIncludeCands = []string{"*.dat", "a/**", "*.png", "c d/*.dat"}

type fetchCfg struct {
	Setting string // "" | fetchinclude | fetchexclude | both
	Include string
	Exclude string
	Channel string // local | global | dash-c
}

func (f fetchCfg) trigger() string {
	switch f.Setting {
	case "fetchinclude":
		return "fetchinclude-set"
	case "fetchexclude":
		return "fetchexclude-set"
	}
	return "fetchinclude-and-fetchexclude-set"
}

// planFetchCfg decides the setting of a case of the 12-way rotation ("" for the others).
func planFetchCfg(seed int64, s *caseSpec) string {
	if s.Idx >= nBase || s.Mode == "import-no-rewrite" {
		return ""
	}
	return []string{"", "fetchinclude", "", "fetchexclude", "both"}[(s.Idx+int(seed%97))%5]
}

func (c *caseCtx) applyFetchCfg() {
	spec, g := c.spec, c.gen
	want := spec.FetchCfg
	if want == "" {
		c.run.Count("config_fetch_keys_none", 1)
		return
	}
	sel := spec.Sel
	incFree, excFree := len(sel.Include) == 0, len(sel.Exclude) == 0
	switch {
	case want == "fetchinclude" && !incFree && excFree:
		want = "fetchexclude"
	case want == "fetchexclude" && !excFree && incFree:
		want = "fetchinclude"
	}
	// every regular, non-attribute path of the generated history
	set := map[string]bool{}
	for _, gc := range g.C {
		for p, e := range gc.Tree {
			if !isAttrPath(p) && (e.Mode == "100644" || e.Mode == "100755") {
				set[p] = true
			}
		}
	}
	var paths []string
	for p := range set {
		paths = append(paths, p)
	}
	sort.Strings(paths)
	own := map[string]bool{}
	for _, p := range append(append([]string(nil), sel.Include...), sel.Exclude...) {
		own[p] = true
	}
	pick := func(cands []string, changes func(x string) bool) (string, bool) {
		off := spec.Idx + int(c.run.Seed%97)
		first := ""
		for i := range cands {
			x := cands[(off+i)%len(cands)]
			if own[x] {
				continue
			}
			if first == "" {
				first = x
			}
			if changes(x) {
				return x, true
			}
		}
		return first, false
	}
	f := fetchCfg{Setting: want, Channel: []string{"local", "local", "global", "dash-c"}[(spec.Idx/5+int(c.run.Seed%97))%4]}
	effective := false
	if want != "fetchexclude" {
		x, ok := pick(fetchIncludeCands, func(x string) bool {
			in, out := false, false
			for _, p := range paths {
				if sel.matches(p) {
					if matchOne(x, p) {
						in = true
					} else {
						out = true
					}
				}
			}
			return in && out // a proper, non-empty subset of what the command line selects
		})
		f.Include, effective = x, effective || (ok && incFree)
	}
	if want != "fetchinclude" {
		x, ok := pick(fetchExcludeCands, func(x string) bool {
			for _, p := range paths {
				if sel.matches(p) && matchOne(x, p) {
					return true
				}
			}
			return false
		})
		f.Exclude, effective = x, effective || (ok && excFree)
	}
	kv := [][2]string{}
	if f.Include != "" {
		kv = append(kv, [2]string{"lfs.fetchinclude", f.Include})
	}
	if f.Exclude != "" {
		kv = append(kv, [2]string{"lfs.fetchexclude", f.Exclude})
	}
	for _, e := range kv {
		switch f.Channel {
		case "local":
			c.env.MustGit(g.Dir, "config", e[0], e[1])
		case "global":
			c.env.MustGit(g.Dir, "config", "--global", e[0], e[1])
		case "dash-c":
			c.cfgArgs = append(c.cfgArgs, "-c", e[0]+"="+e[1])
		}
		c.cmds = append(c.cmds, fmt.Sprintf("(%s config %s=%s)", f.Channel, e[0], e[1]))
	}
	c.fetch = f
	c.pathTrig = f.trigger()
	c.run.Count("config_"+want+"_set", 1)
	c.run.Count("config_fetch_keys_channel_"+f.Channel, 1)
	if effective {
		c.run.Count("config_fetch_keys_would_change_selection_if_honoured", 1)
	}
}

// infoDifferential: `git lfs migrate info <args>` must print the same report whether or not the
// fetch keys are set (reference run: both keys overridden by an empty value).
func (c *caseCtx) infoDifferential(dir string, args []string) {
	if c.fetch.Setting == "" {
		return
	}
	base := append([]string{"lfs", "migrate", "info"}, args...)
	ref := c.env.Run(sbx.RunOpt{Dir: dir}, "git", append([]string{"-c", "lfs.fetchinclude=", "-c", "lfs.fetchexclude="}, base...)...)
	got := c.env.Run(sbx.RunOpt{Dir: dir}, "git", append(append([]string(nil), c.cfgArgs...), base...)...)
	c.cmds = append(c.cmds, "git lfs migrate info "+strings.Join(args, " ")+fmt.Sprintf("  # exit %d, with and without the fetch keys", got.Code))
	c.run.Count("migrate_info_differential_runs", 1)
	switch {
	case got.GoCrash() || ref.GoCrash():
		c.viol("go-panic", c.spec.Mode, "git lfs migrate info crashed: "+sbx.Trunc(append(ref.Stderr, got.Stderr...), 3000))
	case ref.TimedOut || got.TimedOut:
		c.run.Inconclusive(fmt.Sprintf("case %d: watchdog fired in migrate info", c.spec.Idx))
	case ref.Code != got.Code || string(ref.Stdout) != string(got.Stdout):
		c.viol("info-report-depends-on-fetch-config", c.fetch.trigger(), fmt.Sprintf("`git lfs migrate info %s` exit %d prints %q without lfs.fetchinclude/lfs.fetchexclude, exit %d %q with %v", strings.Join(args, " "), ref.Code, sbx.Trunc(ref.Stdout, 600), got.Code, sbx.Trunc(got.Stdout, 600), c.fetch))
	default:
		c.run.Count("migrate_info_reports_identical", 1)
		c.run.Count("migrate_info_report_bytes_compared", int64(len(got.Stdout)))
	}
}
