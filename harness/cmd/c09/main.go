// C09 — killing git-lfs at any instant never leaves a bad object in local storage.
//
// Monitors:
//
//	(a) hook enumeration: a discovery run logs every reached crash point (verifhook.Crash)
//	    of a scenario; then one run per (point, ordinal) with SIGKILL injected there, the
//	    storage oracle, a re-run of the same command and comparison with the golden state;
//	(b) strace sweep: SIGKILL injected at the N-th write/rename/link/unlink/openat syscall
//	    of the git-lfs process (hook-free sampling of crash instants);
//	(c) write-discipline trace specification on uninterrupted runs: no file under
//	    lfs/objects is ever opened for writing/creation — objects appear by rename/link only.
package main

import (
	"bytes"
	"fmt"
	"math/rand"
	"os"
	"os/exec"
	"path/filepath"
	"regexp"
	"runtime"
	"sort"
	"strings"
	"sync"
	"syscall"

	"verif/harness/evid"
	"verif/harness/fakelfs"
	"verif/harness/ptrspec"
	"verif/harness/sbx"
)

type scenario struct {
	name string
	// build creates the pre-state under env and returns the repository directory.
	build func(env *sbx.Env, srv *fakelfs.Server, r *rand.Rand) string
	// command to run (in the repository directory)
	prog string
	args []string
	// crashCmd restricts kill injection to git-lfs processes whose arguments contain it
	crashCmd string
	// direct: prog is git-lfs itself (strace sweep possible on it)
	direct bool
	// wantExit: exit status of the uninterrupted command
	wantExit int
	// stdinFile: file (relative to the repository) whose bytes are fed to the command's stdin
	stdinFile string
	// wtWriter: the command writes working-tree files. A kill can leave one truncated; Git
	// (not git-lfs) then runs the clean filter on it during the re-run, which stores one
	// more, self-consistent object. Such extra valid objects are tolerated and counted.
	wtWriter bool
}

func writeFile(p string, b []byte) {
	os.MkdirAll(filepath.Dir(p), 0o755)
	if err := os.WriteFile(p, b, 0o644); err != nil {
		panic(err)
	}
}

func randBytes(r *rand.Rand, n int) []byte {
	b := make([]byte, n)
	r.Read(b)
	return b
}

const attrs = "*.bin filter=lfs diff=lfs merge=lfs -text\n"

// sourceRepo builds a repository with n committed LFS files and pushes the objects to srv ("r").
func sourceRepo(env *sbx.Env, srv *fakelfs.Server, r *rand.Rand, name string, n int) (string, [][]byte) {
	repo := env.InitRepo(name)
	writeFile(filepath.Join(repo, ".gitattributes"), []byte(attrs))
	var contents [][]byte
	for i := 0; i < n; i++ {
		b := randBytes(r, 2000+r.Intn(60000))
		contents = append(contents, b)
		writeFile(filepath.Join(repo, fmt.Sprintf("d%d/f%d.bin", i%2, i)), b)
		srv.Put("r", b)
	}
	env.MustGit(repo, "add", "-A")
	env.MustGit(repo, "commit", "-q", "-m", "files")
	env.MustGit(repo, "config", "lfs.url", srv.Endpoint("r"))
	env.MustGit(repo, "config", "lfs.locksverify", "false")
	env.MustGit(repo, "remote", "add", "origin", srv.URL+"/r.git")
	return repo, contents
}

// pointerClone builds a repository whose working tree and history hold pointers only (no local objects).
func pointerClone(env *sbx.Env, srv *fakelfs.Server, r *rand.Rand, n int, parts bool) string {
	longParts := false
	if n < 0 {
		n, longParts = -n, true
	}
	repo := env.InitRepo("repo")
	writeFile(filepath.Join(repo, ".gitattributes"), []byte(attrs))
	for i := 0; i < n; i++ {
		b := randBytes(r, 3000+r.Intn(80000))
		oid := srv.Put("r", b)
		writeFile(filepath.Join(repo, fmt.Sprintf("d%d/f%d.bin", i%2, i)), []byte(ptrspec.Canonical(ptrspec.Pointer{Oid: oid, Size: int64(len(b))})))
		if parts && i%2 == 0 {
			writeFile(filepath.Join(repo, ".git", "lfs", "incomplete", oid+".part"), b[:len(b)/3])
		}
		if longParts {
			// resume files that already hold (nearly) everything or more: cut off one byte before the end, complete,
			// complete plus trailing garbage, full length of other bytes, and an ordinary third
			var part []byte
			switch i % 5 {
			case 0:
				part = b[:len(b)-1]
			case 1:
				part = b
			case 2:
				part = append(append([]byte{}, b...), randBytes(r, 100)...)
			case 3:
				part = randBytes(r, len(b))
			default:
				part = b[:len(b)/3]
			}
			writeFile(filepath.Join(repo, ".git", "lfs", "incomplete", oid+".part"), part)
		}
	}
	env.PlainGit(repo, "add", "-A")
	env.PlainGit(repo, "commit", "-q", "-m", "pointers")
	env.MustGit(repo, "config", "lfs.url", srv.Endpoint("r"))
	env.MustGit(repo, "config", "lfs.locksverify", "false")
	env.MustGit(repo, "remote", "add", "origin", srv.URL+"/r.git")
	return repo
}

const agentPy = `#!/usr/bin/python3
import sys, json, os, shutil, tempfile
store, scratch = sys.argv[1], sys.argv[2]
for line in sys.stdin:
    m = json.loads(line)
    ev = m.get("event")
    if ev == "init":
        print("{}", flush=True)
    elif ev == "download":
        oid = m["oid"]
        fd, p = tempfile.mkstemp(dir=scratch)
        os.close(fd)
        try:
            shutil.copyfile(os.path.join(store, oid), p)
            print(json.dumps({"event": "complete", "oid": oid, "path": p}), flush=True)
        except Exception as e:
            print(json.dumps({"event": "complete", "oid": oid, "error": {"code": 2, "message": str(e)}}), flush=True)
    elif ev == "terminate":
        break
`

// pointerCloneKeep: like pointerClone, and the objects are also kept in <root>/agent-store/<oid> for the agent.
func pointerCloneKeep(env *sbx.Env, srv *fakelfs.Server, r *rand.Rand, n int) string {
	repo := env.InitRepo("repo")
	writeFile(filepath.Join(repo, ".gitattributes"), []byte(attrs))
	for i := 0; i < n; i++ {
		b := randBytes(r, 3000+r.Intn(150000))
		oid := srv.Put("r", b)
		writeFile(filepath.Join(env.Root, "agent-store", oid), b)
		writeFile(filepath.Join(repo, fmt.Sprintf("d%d/f%d.bin", i%2, i)), []byte(ptrspec.Canonical(ptrspec.Pointer{Oid: oid, Size: int64(len(b))})))
	}
	env.PlainGit(repo, "add", "-A")
	env.PlainGit(repo, "commit", "-q", "-m", "pointers")
	env.MustGit(repo, "config", "lfs.url", srv.Endpoint("r"))
	env.MustGit(repo, "config", "lfs.locksverify", "false")
	env.MustGit(repo, "remote", "add", "origin", srv.URL+"/r.git")
	return repo
}

func scenarios(thorough bool) []scenario {
	sc := []scenario{
		{name: "git-add-filter-process", prog: "git", args: []string{"add", "-A"}, crashCmd: "filter-process",
			build: func(env *sbx.Env, srv *fakelfs.Server, r *rand.Rand) string {
				repo := env.InitRepo("repo")
				writeFile(filepath.Join(repo, ".gitattributes"), []byte(attrs))
				for i := 0; i < 4; i++ {
					writeFile(filepath.Join(repo, fmt.Sprintf("f%d.bin", i)), randBytes(r, 1500+r.Intn(90000)))
				}
				return repo
			}},
		{name: "lfs-fetch-with-parts", prog: "git-lfs", args: []string{"fetch", "origin", "main"}, crashCmd: "fetch", direct: true,
			build: func(env *sbx.Env, srv *fakelfs.Server, r *rand.Rand) string {
				return pointerClone(env, srv, r, 4, true)
			}},
		{name: "lfs-fetch-with-parts-server-ignores-range", prog: "git-lfs", args: []string{"fetch", "origin", "main"}, crashCmd: "fetch", direct: true,
			build: func(env *sbx.Env, srv *fakelfs.Server, r *rand.Rand) string {
				// resume files from an earlier interrupted run, and a server that answers a Range request
				// with 200 and the whole object
				srv.SetHook(func(rq *fakelfs.Request) *fakelfs.Fault {
					if rq.Kind == "storage-get" {
						return &fakelfs.Fault{IgnoreRange: true}
					}
					return nil
				})
				return pointerClone(env, srv, r, 3, true)
			}},
		{name: "lfs-fsck-repair", prog: "git-lfs", args: []string{"fsck"}, crashCmd: "fsck", direct: true, wantExit: 1,
			build: func(env *sbx.Env, srv *fakelfs.Server, r *rand.Rand) string {
				repo, _ := sourceRepo(env, srv, r, "repo", 5)
				// corrupt three objects (replace, never edit in place)
				n := 0
				for rel := range sbx.SnapshotLFS(filepath.Join(repo, ".git")) {
					if strings.HasPrefix(rel, "objects/") && n < 3 {
						sbx.WriteReplace(filepath.Join(repo, ".git", "lfs", rel), []byte(fmt.Sprintf("corrupt %d", n)), 0o644)
						n++
					}
				}
				return repo
			}},
	}
	more := []scenario{
		{name: "lfs-fetch-with-full-length-parts", prog: "git-lfs", args: []string{"fetch", "origin", "main"}, crashCmd: "fetch", direct: true,
			build: func(env *sbx.Env, srv *fakelfs.Server, r *rand.Rand) string {
				return pointerClone(env, srv, r, -5, false)
			}},
		{name: "lfs-clean-oneshot", prog: "git-lfs", args: []string{"clean", "--", "big.bin"}, crashCmd: "clean", direct: true, stdinFile: "big.bin",
			build: func(env *sbx.Env, srv *fakelfs.Server, r *rand.Rand) string {
				repo := env.InitRepo("repo")
				writeFile(filepath.Join(repo, ".gitattributes"), []byte(attrs))
				writeFile(filepath.Join(repo, "big.bin"), randBytes(r, 150000))
				return repo
			}},
		{name: "lfs-pull", prog: "git-lfs", args: []string{"pull"}, crashCmd: "pull", direct: true, wtWriter: true,
			build: func(env *sbx.Env, srv *fakelfs.Server, r *rand.Rand) string {
				return pointerClone(env, srv, r, 4, false)
			}},
		{name: "git-checkout-smudge-download", prog: "git", args: []string{"checkout", "-f", "HEAD", "--", "."}, crashCmd: "filter-process", wtWriter: true,
			build: func(env *sbx.Env, srv *fakelfs.Server, r *rand.Rand) string {
				repo := pointerClone(env, srv, r, 3, false)
				// make git believe the files need to be smudged again
				for i := 0; i < 3; i++ {
					os.Remove(filepath.Join(repo, fmt.Sprintf("d%d/f%d.bin", i%2, i)))
				}
				return repo
			}},
		{name: "lfs-prune", prog: "git-lfs", args: []string{"prune", "--force"}, crashCmd: "prune", direct: true,
			build: func(env *sbx.Env, srv *fakelfs.Server, r *rand.Rand) string {
				repo, _ := sourceRepo(env, srv, r, "repo", 3)
				bare := env.InitBare("origin.git")
				env.MustGit(repo, "remote", "set-url", "origin", bare)
				env.Run(sbx.RunOpt{Dir: repo}, "git-lfs", "update")
				env.MustGit(repo, "push", "-q", "origin", "main")
				// old versions become prunable: replace the files and push again
				for i := 0; i < 3; i++ {
					writeFile(filepath.Join(repo, fmt.Sprintf("d%d/f%d.bin", i%2, i)), randBytes(r, 2000+r.Intn(5000)))
				}
				env.MustGit(repo, "add", "-A")
				env.MustGit(repo, "commit", "-q", "-m", "new versions")
				env.MustGit(repo, "push", "-q", "origin", "main")
				env.MustGit(repo, "config", "lfs.fetchrecentcommitsdays", "0")
				env.MustGit(repo, "config", "lfs.fetchrecentrefsdays", "0")
				env.MustGit(repo, "config", "lfs.pruneoffsetdays", "0")
				return repo
			}},
		{name: "lfs-migrate-import", prog: "git-lfs", args: []string{"migrate", "import", "--everything", "--include=*.dat", "--yes"}, crashCmd: "migrate", direct: true,
			build: func(env *sbx.Env, srv *fakelfs.Server, r *rand.Rand) string {
				repo := env.InitRepo("repo")
				for c := 0; c < 2; c++ {
					for i := 0; i < 3; i++ {
						writeFile(filepath.Join(repo, fmt.Sprintf("m%d.dat", i)), randBytes(r, 1500+r.Intn(40000)))
					}
					env.MustGit(repo, "add", "-A")
					env.MustGit(repo, "commit", "-q", "-m", fmt.Sprintf("c%d", c))
				}
				return repo
			}},
		{name: "clone-reference-store", prog: "git-lfs", args: []string{"pull"}, crashCmd: "pull", direct: true, wtWriter: true,
			build: func(env *sbx.Env, srv *fakelfs.Server, r *rand.Rand) string {
				src, _ := sourceRepo(env, srv, r, "src", 3)
				dst := filepath.Join(env.Root, "repo")
				res := env.Run(sbx.RunOpt{Dir: env.Root, Env: []string{"GIT_LFS_SKIP_SMUDGE=1"}}, "git", "clone", "-q", "--reference", src, src, dst)
				if !res.OK() {
					panic(res.String())
				}
				env.MustGit(dst, "config", "lfs.url", srv.Endpoint("r"))
				env.MustGit(dst, "config", "lfs.locksverify", "false")
				os.RemoveAll(filepath.Join(dst, ".git", "lfs", "objects"))
				return dst
			}},
	}
	// reference store on another filesystem: hard links fail (EXDEV) and the copy fallback runs
	more = append(more, scenario{name: "reference-store-other-filesystem", prog: "git-lfs", args: []string{"fetch", "origin", "main"}, crashCmd: "fetch", direct: true,
		build: func(env *sbx.Env, srv *fakelfs.Server, r *rand.Rand) string {
			shm, err := os.MkdirTemp("/dev/shm", "verif-c09-")
			if err != nil {
				panic("no /dev/shm: " + err.Error())
			}
			shmDirs = append(shmDirs, shm)
			var a, b syscall.Stat_t
			syscall.Stat(shm, &a)
			syscall.Stat(env.Root, &b)
			if a.Dev == b.Dev {
				panic("/dev/shm is not a separate filesystem")
			}
			src0, _ := sourceRepo(env, srv, r, "src", 3)
			src := filepath.Join(shm, "src")
			if err := copyTree(src0, src); err != nil {
				panic(err)
			}
			dst := filepath.Join(env.Root, "repo")
			res := env.Run(sbx.RunOpt{Dir: env.Root, Env: []string{"GIT_LFS_SKIP_SMUDGE=1"}}, "git", "clone", "-q", "--shared", src, dst)
			if !res.OK() {
				panic(res.String())
			}
			env.MustGit(dst, "config", "lfs.url", srv.Endpoint("r"))
			env.MustGit(dst, "config", "lfs.locksverify", "false")
			env.MustGit(dst, "remote", "set-url", "origin", srv.URL+"/r.git")
			// the clone's smudge filter already borrowed the objects; forget them so that the
			// command under test does the borrowing (link fails across filesystems => copy)
			os.RemoveAll(filepath.Join(dst, ".git", "lfs", "objects"))
			return dst
		}})
	// custom transfer agent (standalone): the agent hands git-lfs a finished temporary file which git-lfs
	// verifies and moves into the store; once with the agent's scratch directory on the store's
	// filesystem and once on another one (rename fails with EXDEV)
	for _, other := range []bool{false, true} {
		other := other
		name, want := "custom-agent-fetch", 0
		if other {
			name, want = "custom-agent-scratch-on-other-filesystem", -1
		}
		more = append(more, scenario{name: name, prog: "git-lfs", args: []string{"fetch", "origin", "main"}, crashCmd: "fetch", direct: true, wantExit: want,
			build: func(env *sbx.Env, srv *fakelfs.Server, r *rand.Rand) string {
				repo := pointerCloneKeep(env, srv, r, 3)
				scratch := filepath.Join(env.Root, "agent-scratch")
				if other {
					shm, err := os.MkdirTemp("/dev/shm", "verif-c09-agent-")
					if err != nil {
						panic("no /dev/shm: " + err.Error())
					}
					shmDirs = append(shmDirs, shm)
					scratch = shm
				}
				os.MkdirAll(scratch, 0o755)
				agent := filepath.Join(env.Root, "verif-agent.py")
				writeFile(agent, []byte(agentPy))
				os.Chmod(agent, 0o755)
				env.MustGit(repo, "config", "lfs.customtransfer.va.path", agent)
				env.MustGit(repo, "config", "lfs.customtransfer.va.args", filepath.Join(env.Root, "agent-store")+" "+scratch)
				env.MustGit(repo, "config", "lfs.standalonetransferagent", "va")
				return repo
			}})
	}
	if thorough {
		return append(sc, more...)
	}
	// quick: the three base scenarios plus a rotating sample of the others is chosen by the caller
	return append(sc, more...)
}

var shmDirs []string

func (sc scenario) opt(dir string, env []string) sbx.RunOpt {
	o := sbx.RunOpt{Dir: dir, Env: env}
	if sc.stdinFile != "" {
		if b, err := os.ReadFile(filepath.Join(dir, sc.stdinFile)); err == nil {
			o.Stdin = bytes.NewReader(b)
		}
	}
	return o
}

type pair struct {
	point string
	n     int
}

func copyTree(src, dst string) error {
	return exec.Command("cp", "-a", src, dst).Run()
}

type storeState struct {
	objects []string
	bad     []string
}

// stateOf inspects the LFS store. preBad maps paths of objects that were already
// corrupt in the scenario's pre-state (planted by the driver) to their hash:
// those are not the kill's doing as long as their bytes are unchanged.
func stateOf(gitDir string, preBad map[string]string) (storeState, []string) {
	var st storeState
	var problems []string
	for rel, e := range sbx.SnapshotLFS(gitDir) {
		switch {
		case strings.HasPrefix(rel, "objects/"):
			base := filepath.Base(rel)
			if base != e.Sha && preBad[rel] == e.Sha {
				st.objects = append(st.objects, base+"(pre-existing-corrupt)")
			} else if base != e.Sha {
				problems = append(problems, fmt.Sprintf("lfs/%s has content hashing to %s (size %d)", rel, e.Sha, e.Size))
			} else if !regexp.MustCompile(`^objects/[0-9a-f]{2}/[0-9a-f]{2}/[0-9a-f]{64}$`).MatchString(rel) {
				problems = append(problems, "stray file lfs/"+rel)
			} else {
				st.objects = append(st.objects, base)
			}
		case strings.HasPrefix(rel, "bad/"):
			st.bad = append(st.bad, filepath.Base(rel))
		case strings.HasPrefix(rel, "tmp/"), strings.HasPrefix(rel, "incomplete/"), strings.HasPrefix(rel, "cache/"), strings.HasPrefix(rel, "logs/"):
		default:
			problems = append(problems, "leftover outside temporary areas: lfs/"+rel)
		}
	}
	// nothing of git-lfs may be left elsewhere below the Git directory either: every top-level entry must be
	// one of Git's own
	if ents, err := os.ReadDir(gitDir); err == nil {
		for _, e := range ents {
			n := e.Name()
			if gitOwnTopLevel[n] || strings.HasPrefix(n, "MERGE_") || strings.HasPrefix(n, "rebase-") || strings.HasSuffix(n, ".lock") || strings.HasPrefix(n, "tmp_obj_") {
				continue
			}
			problems = append(problems, "leftover outside temporary areas: .git/"+n)
		}
	}
	sort.Strings(st.objects)
	sort.Strings(st.bad)
	return st, problems
}

var gitOwnTopLevel = map[string]bool{"HEAD": true, "ORIG_HEAD": true, "FETCH_HEAD": true, "AUTO_MERGE": true, "CHERRY_PICK_HEAD": true, "REVERT_HEAD": true, "BISECT_LOG": true,
	"config": true, "config.worktree": true, "description": true, "hooks": true, "info": true, "objects": true, "refs": true, "logs": true, "index": true, "packed-refs": true,
	"COMMIT_EDITMSG": true, "lfs": true, "branches": true, "shallow": true, "worktrees": true, "modules": true, "gitk.cache": true, "filter-repo": true, "sequencer": true}

func (s storeState) String() string {
	return fmt.Sprintf("objects=%v bad=%v", short(s.objects), short(s.bad))
}
func short(xs []string) []string {
	var o []string
	for _, x := range xs {
		if len(x) > 8 {
			x = x[:8]
		}
		o = append(o, x)
	}
	return o
}

var preBadCache sync.Map

func preBadOf(pre string) map[string]string {
	if v, ok := preBadCache.Load(pre); ok {
		return v.(map[string]string)
	}
	m := map[string]string{}
	for rel, e := range sbx.SnapshotLFS(filepath.Join(pre, ".git")) {
		if strings.HasPrefix(rel, "objects/") && filepath.Base(rel) != e.Sha {
			m[rel] = e.Sha
		}
	}
	preBadCache.Store(pre, m)
	return m
}

type job struct {
	sc   scenario
	kind string // hook | strace
	p    pair
	sys  string // strace syscall class
	path string // strace-path: store-relative path whose accesses are the kill sites
}

func main() {
	run := evid.New("C09", "fault_enumeration")
	defer sbx.RemoveBase()
	run.Rule = "per scenario {git add via filter-process, one-shot clean, fetch of N objects with resume parts (a third of the object; one byte short, complete, over-long or of other bytes; server honouring / ignoring Range), pull, checkout with smudge download, migrate import, fsck repair of corrupt objects, prune, pull in a clone with a reference store, fetch with the reference store on another filesystem, fetch through a standalone custom transfer agent with its scratch directory on the same / another filesystem}: a discovery run logs every reached verif crash point (temp-file creation, each copy burst, rename into place, link/copy from a reference store, move to bad/, unlink); one SIGKILL run per (point, scenario-wide ordinal); plus an strace sweep injecting SIGKILL at the N-th write/rename/link/unlink/openat of the git-lfs process; plus a write-discipline trace check (no open-for-write below lfs/objects) on uninterrupted runs. Oracle after each kill: every file under lfs/objects hashes to its name, leftovers only in lfs/tmp|incomplete|bad|cache|logs (and no entry of the Git directory that is not Git's own), re-running the command exits as the uninterrupted run and ends with the same object (and bad/) set as the golden run. Class = (scenario, kill kind, crash point)."
	run.Assumptions = []string{"crash = SIGKILL of a git-lfs process (not power loss); instants between two hooked points are sampled at syscall granularity by the strace sweep only", "strace's when=N counts per thread, so the sweep is sampling: the syscall actually hit is whatever the N-th one of that class was"}
	all := scenarios(run.Thorough())
	var chosen []scenario
	if run.Thorough() {
		for v := 0; v < 3; v++ {
			for _, sc := range all {
				sc := sc
				if v > 0 {
					sc.name = fmt.Sprintf("%s#v%d", sc.name, v)
				}
				chosen = append(chosen, sc)
			}
		}
	} else {
		chosen = append(chosen, all[:4]...)
		// the rest rotates with the seed, except that the scenarios whose temporary area lies on another
		// filesystem (rename/link fail with EXDEV and a fallback runs) are always included
		var rest []scenario
		for _, sc := range all[4:] {
			if strings.Contains(sc.name, "other-filesystem") || sc.name == "lfs-fetch-with-full-length-parts" {
				chosen = append(chosen, sc)
			} else {
				rest = append(rest, sc)
			}
		}
		k := int(run.Seed) % len(rest)
		if k < 0 {
			k = -k
		}
		chosen = append(chosen, rest[k], rest[(k+1)%len(rest)])
	}
	if only := os.Getenv("VERIF_C09_ONLY"); only != "" { // debugging aid: restrict to scenarios whose name contains the value
		var f []scenario
		for _, sc := range all {
			if strings.Contains(sc.name, only) {
				f = append(f, sc)
			}
		}
		chosen = f
	}
	maxHook := run.N(45, 400)
	maxStrace := run.N(14, 80)

	var jobs []job
	type prepared struct {
		sc     scenario
		env    *sbx.Env
		srv    *fakelfs.Server
		pre    string // directory holding the pristine pre-state copy
		golden storeState
		pairs  []pair
	}
	var preps []*prepared
	var pmu sync.Mutex
	var pwg sync.WaitGroup
	for si, sc := range chosen {
		pwg.Add(1)
		go func(si int, sc scenario) {
			defer pwg.Done()
			defer func() {
				if x := recover(); x != nil {
					run.Inconclusive(fmt.Sprintf("scenario %s: setup failed: %v", sc.name, x))
				}
			}()
			r := rand.New(rand.NewSource(run.Seed*977 + int64(si)))
			env := sbx.New()
			srv := fakelfs.New()
			repo := sc.build(env, srv, r)
			pre := filepath.Join(env.Root, "pre")
			if err := copyTree(repo, pre); err != nil {
				panic(err)
			}
			// discovery + golden + write discipline in one uninterrupted run
			work := filepath.Join(env.Root, "golden")
			copyTree(pre, work)
			clog := filepath.Join(env.Root, "crash.log")
			strlog := filepath.Join(env.Root, "strace.log")
			args := append([]string{"-f", "-qq", "-y", "-e", "trace=openat,open,creat,rename,renameat,renameat2,link,linkat,unlink,unlinkat,truncate,ftruncate", "-o", strlog, sc.prog}, sc.args...)
			res := env.Run(sc.opt(work, []string{"VERIF_CRASH_LOG=" + clog, "VERIF_CRASH_GLOBAL=1"}), "strace", args...)
			run.Count("uninterrupted_runs", 1)
			if sc.wantExit == -1 && !res.GoCrash() && res.Signal == "" {
				// the uninterrupted run's own exit status is the reference (the command is expected to fail cleanly)
				sc.wantExit = res.Code
				run.Count("scenarios_whose_uninterrupted_run_fails_cleanly", 1)
			}
			if res.Code != sc.wantExit {
				run.Inconclusive(fmt.Sprintf("scenario %s: uninterrupted run exited %d, expected %d: %s", sc.name, res.Code, sc.wantExit, sbx.Trunc(res.Stderr, 600)))
				return
			}
			golden, problems := stateOf(filepath.Join(work, ".git"), preBadOf(pre))
			for _, p := range problems {
				run.Violation(evid.Sig{Symptom: "bad-store-after-uninterrupted-run", Trigger: sc.name}, p, nil)
			}
			// write discipline
			if b, err := os.ReadFile(strlog); err == nil {
				n := checkDiscipline(run, sc.name, string(b))
				run.Count("strace_lines_checked", int64(n))
			}
			// reachable pairs
			seen := map[pair]bool{}
			var pairs []pair
			if b, err := os.ReadFile(clog); err == nil {
				for _, l := range strings.Split(string(b), "\n") {
					f := strings.Fields(l)
					if len(f) != 4 || f[1] == "KILLED" {
						continue
					}
					var n int
					fmt.Sscan(f[3], &n)
					p := pair{f[2], n}
					if !seen[p] {
						seen[p] = true
						pairs = append(pairs, p)
					}
				}
			}
			run.Count("crash_points_discovered", int64(len(pairs)))
			pmu.Lock()
			preps = append(preps, &prepared{sc, env, srv, pre, golden, pairs})
			pmu.Unlock()
		}(si, sc)
	}
	pwg.Wait()
	sort.Slice(preps, func(i, j int) bool { return preps[i].sc.name < preps[j].sc.name })
	prepOf := map[string]*prepared{}
	r := rand.New(rand.NewSource(run.Seed))
	for _, p := range preps {
		prepOf[p.sc.name] = p
		pairs := p.pairs
		if len(pairs) > maxHook {
			// keep every distinct point (first and last ordinal), sample the rest
			byPoint := map[string][]pair{}
			for _, x := range pairs {
				byPoint[x.point] = append(byPoint[x.point], x)
			}
			var keep []pair
			var rest []pair
			for _, xs := range byPoint {
				keep = append(keep, xs[0])
				if len(xs) > 1 {
					keep = append(keep, xs[len(xs)-1])
					rest = append(rest, xs[1:len(xs)-1]...)
				}
			}
			sort.Slice(rest, func(i, j int) bool { return rest[i].point+fmt.Sprint(rest[i].n) < rest[j].point+fmt.Sprint(rest[j].n) })
			r.Shuffle(len(rest), func(i, j int) { rest[i], rest[j] = rest[j], rest[i] })
			for len(keep) < maxHook && len(rest) > 0 {
				keep = append(keep, rest[0])
				rest = rest[1:]
			}
			pairs = keep
		}
		for _, x := range pairs {
			jobs = append(jobs, job{sc: p.sc, kind: "hook", p: x})
		}
		if p.sc.direct {
			// path-directed kills: at the 1st/2nd syscall of each class that touches a known store path
			var paths []string
			for _, o := range p.golden.objects {
				o = strings.TrimSuffix(o, "(pre-existing-corrupt)")
				paths = append(paths, filepath.Join("objects", o[0:2], o[2:4], o))
			}
			for _, b := range p.golden.bad {
				paths = append(paths, filepath.Join("bad", b))
			}
			for rel := range preBadOf(p.pre) {
				paths = append(paths, rel)
			}
			sort.Strings(paths)
			var pj []job
			for _, rel := range paths {
				for _, sys := range []string{"openat", "write", "renameat,renameat2,rename", "linkat,link", "unlinkat,unlink"} {
					for when := 1; when <= 2; when++ {
						pj = append(pj, job{sc: p.sc, kind: "strace-path", sys: sys, path: rel, p: pair{"", when}})
					}
				}
			}
			r.Shuffle(len(pj), func(i, j int) { pj[i], pj[j] = pj[j], pj[i] })
			if lim := run.N(80, 600); len(pj) > lim {
				pj = pj[:lim]
			}
			jobs = append(jobs, pj...)
			// rename/link/unlink syscalls are few: enumerate the first ordinals; write/openat are many: enumerate a prefix and sample beyond it
			for _, sys := range []string{"renameat,renameat2,rename", "linkat,link", "unlinkat,unlink"} {
				for k := 1; k <= maxStrace; k++ {
					jobs = append(jobs, job{sc: p.sc, kind: "strace", sys: sys, p: pair{"", k}})
				}
			}
			for _, sys := range []string{"write", "openat"} {
				for k := 1; k <= maxStrace; k++ {
					jobs = append(jobs, job{sc: p.sc, kind: "strace", sys: sys, p: pair{"", k}})
				}
				for k := 0; k < maxStrace; k++ {
					jobs = append(jobs, job{sc: p.sc, kind: "strace", sys: sys, p: pair{"", maxStrace + 1 + r.Intn(150)}})
				}
			}
		}
	}

	// Jobs are grouped: ordinal sweeps of one (scenario, syscall class[, path]) run in ascending order within
	// one group and stop after two consecutive ordinals at which the process ended before the N-th such
	// syscall happened (later ordinals cannot be delivered either); every hook job is its own group.
	groupOf := map[string][]job{}
	var order []string
	for i, j := range jobs {
		key := fmt.Sprintf("%s|%s|%s|%s", j.sc.name, j.kind, j.sys, j.path)
		if j.kind == "hook" {
			key += fmt.Sprint("|", i)
		}
		if _, ok := groupOf[key]; !ok {
			order = append(order, key)
		}
		groupOf[key] = append(groupOf[key], j)
	}
	var wg sync.WaitGroup
	ch := make(chan []job)
	var seq int64
	var smu sync.Mutex
	for w := 0; w < runtime.NumCPU(); w++ {
		wg.Add(1)
		go func() {
			defer wg.Done()
			for g := range ch {
				sort.SliceStable(g, func(a, b int) bool { return g[a].p.n < g[b].p.n })
				misses := 0
				lastN := -1
				for gi, j := range g {
					if j.kind != "hook" && j.p.n == lastN {
						continue
					}
					lastN = j.p.n
					if misses >= 2 {
						run.Count("ordinals_skipped_beyond_end_of_process", int64(len(g)-gi))
						break
					}
					p := prepOf[j.sc.name]
					smu.Lock()
					seq++
					id := seq
					smu.Unlock()
					func() {
						defer func() {
							if x := recover(); x != nil {
								run.Inconclusive(fmt.Sprintf("%s %v: harness panic %v", j.sc.name, j.p, x))
							}
						}()
						if killOne(run, p.env, p.pre, p.golden, j, id) {
							misses = 0
						} else {
							misses++
						}
					}()
				}
			}
		}()
	}
	// long groups first
	sort.SliceStable(order, func(a, b int) bool { return len(groupOf[order[a]]) > len(groupOf[order[b]]) })
	for _, k := range order {
		ch <- groupOf[k]
	}
	close(ch)
	wg.Wait()
	for _, p := range preps {
		p.srv.Close()
		p.env.Cleanup()
	}
	for _, d := range shmDirs {
		os.RemoveAll(d)
	}
	run.Finish()
}

var openRE = regexp.MustCompile(`(openat|open|creat)\(.*?"([^"]*/lfs/objects/[^"]*)"[^)]*?(O_WRONLY|O_RDWR|O_CREAT|O_TRUNC|O_APPEND)`)
var truncRE = regexp.MustCompile(`(truncate|ftruncate)\(.*?/lfs/objects/[0-9a-f]{2}/[0-9a-f]{2}/[0-9a-f]{64}`)

// checkDiscipline: trace specification of the object-store write discipline.
func checkDiscipline(run *evid.Run, scen, log string) int {
	n := 0
	for _, l := range strings.Split(log, "\n") {
		n++
		if !strings.Contains(l, "/lfs/objects/") {
			continue
		}
		run.Count("strace_events_on_object_store", 1)
		if m := openRE.FindStringSubmatch(l); m != nil {
			if strings.Contains(l, "O_DIRECTORY") {
				continue
			}
			run.Violation(evid.Sig{Symptom: "object-opened-for-writing", Trigger: scen}, "a path under lfs/objects was opened for writing/creation instead of being renamed or linked into place: "+l, map[string]string{"strace_line": l})
		}
		if truncRE.MatchString(l) {
			run.Violation(evid.Sig{Symptom: "object-truncated-in-place", Trigger: scen}, l, map[string]string{"strace_line": l})
		}
	}
	return n
}

func killOne(run *evid.Run, env *sbx.Env, pre string, golden storeState, j job, id int64) (delivered bool) {
	work := filepath.Join(env.Root, fmt.Sprintf("k%d", id))
	if err := copyTree(pre, work); err != nil {
		panic(err)
	}
	defer os.RemoveAll(work)
	gitDir := filepath.Join(work, ".git")
	sc := j.sc
	var res sbx.Result
	class := ""
	killed := false
	clog := filepath.Join(env.Root, fmt.Sprintf("k%d.log", id))
	defer os.Remove(clog)
	if j.kind == "hook" {
		class = fmt.Sprintf("%s/hook/%s", sc.name, j.p.point)
		res = env.Run(sc.opt(work, []string{fmt.Sprintf("VERIF_CRASH=%s:%d", j.p.point, j.p.n), "VERIF_CRASH_CMD=" + sc.crashCmd, "VERIF_CRASH_LOG=" + clog, "VERIF_CRASH_GLOBAL=1"}), sc.prog, sc.args...)
		if b, err := os.ReadFile(clog); err == nil && bytes.Contains(b, []byte(" KILLED ")) {
			killed = true
		}
	} else if j.kind == "strace-path" {
		area := strings.SplitN(j.path, "/", 2)[0]
		class = fmt.Sprintf("%s/strace-path/%s/%s", sc.name, area, strings.SplitN(j.sys, ",", 2)[0])
		abs := filepath.Join(gitDir, "lfs", j.path)
		args := append([]string{"-f", "-b", "execve", "-qq", "-o", "/dev/null", "-P", abs, "-e", "trace=" + j.sys, "-e", fmt.Sprintf("inject=%s:signal=SIGKILL:when=%d", j.sys, j.p.n), sc.prog}, sc.args...)
		res = env.Run(sc.opt(work, nil), "strace", args...)
		killed = res.Code != sc.wantExit || res.Signal != ""
	} else {
		class = fmt.Sprintf("%s/strace/%s", sc.name, strings.SplitN(j.sys, ",", 2)[0])
		// -b execve: children that exec another program (git) are detached, so only git-lfs itself is killed
		args := append([]string{"-f", "-b", "execve", "-qq", "-o", "/dev/null", "-e", "trace=" + j.sys, "-e", fmt.Sprintf("inject=%s:signal=SIGKILL:when=%d", j.sys, j.p.n), sc.prog}, sc.args...)
		res = env.Run(sc.opt(work, nil), "strace", args...)
		killed = res.Code != sc.wantExit || res.Signal != ""
	}
	run.Count("kill_runs", 1)
	if !killed {
		run.Count("kill_not_delivered", 1)
		return false
	}
	delivered = true
	run.Count("kills_delivered_"+j.kind, 1)
	run.Case(class, map[string]any{"scenario": sc.name, "kind": j.kind, "point": j.p.point, "ordinal": j.p.n, "syscalls": j.sys})
	trig := sc.name + "/" + j.p.point
	if j.kind == "strace" {
		trig = sc.name + "/strace:" + strings.SplitN(j.sys, ",", 2)[0]
	}
	if j.kind == "strace-path" {
		trig = sc.name + "/strace-path:" + strings.SplitN(j.path, "/", 2)[0] + ":" + strings.SplitN(j.sys, ",", 2)[0]
	}
	detail := map[string]any{"scenario": sc.name, "kind": j.kind, "point": j.p.point, "ordinal": j.p.n, "syscall_class": j.sys, "path": j.path, "command": append([]string{sc.prog}, sc.args...)}
	after, problems := stateOf(gitDir, preBadOf(pre))
	for _, p := range problems {
		run.Violation(evid.Sig{Symptom: "bad-store-after-kill", Trigger: trig}, p, detail)
	}
	run.Count("post_kill_store_checks", 1)
	// re-run the same command
	re := env.Run(sc.opt(work, nil), sc.prog, sc.args...)
	run.Count("reruns", 1)
	if re.GoCrash() {
		run.Violation(evid.Sig{Symptom: "go-panic-on-rerun", Trigger: trig}, sbx.Trunc(re.Stderr, 1500), detail)
		return
	}
	if re.Code != sc.wantExit {
		// fsck: after all corrupt objects were moved before the kill the re-run still reports them missing (exit 1) — same status
		detail["rerun"] = re.String()
		detail["state_after_kill"] = after.String()
		run.Violation(evid.Sig{Symptom: "rerun-failed", Trigger: trig}, fmt.Sprintf("re-running %s %v after the kill exited %d (uninterrupted run: %d): %s", sc.prog, sc.args, re.Code, sc.wantExit, sbx.Trunc(re.Stderr, 500)), detail)
		return
	}
	final, problems := stateOf(gitDir, preBadOf(pre))
	for _, p := range problems {
		run.Violation(evid.Sig{Symptom: "bad-store-after-rerun", Trigger: trig}, p, detail)
	}
	if sc.wtWriter && fmt.Sprint(final.bad) == fmt.Sprint(golden.bad) && superset(final.objects, golden.objects) {
		if len(final.objects) > len(golden.objects) {
			run.Count("extra_valid_objects_after_rerun_of_worktree_writer", int64(len(final.objects)-len(golden.objects)))
		}
		return
	}
	if fmt.Sprint(final.objects) != fmt.Sprint(golden.objects) || fmt.Sprint(final.bad) != fmt.Sprint(golden.bad) {
		detail["golden"] = golden.String()
		detail["final"] = final.String()
		run.Violation(evid.Sig{Symptom: "rerun-state-differs-from-uninterrupted-run", Trigger: trig}, fmt.Sprintf("after kill + re-run: %s; uninterrupted run: %s", final, golden), detail)
	}
	return
}

func superset(a, b []string) bool {
	m := map[string]bool{}
	for _, x := range a {
		m[x] = true
	}
	for _, x := range b {
		if !m[x] {
			return false
		}
	}
	return true
}
