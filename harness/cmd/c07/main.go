// C07 — pointer codec: canonical encoder, strict total decoder.
// Runtime monitor: generated pointers / mutants / random bytes are fed to the real
// lfs.Pointer encoder and lfs.DecodePointer; the oracle is ptrspec (written from docs/spec.md).
package main

import (
	"bytes"
	"errors"
	"fmt"
	"io"
	"math/rand"
	"os"
	"path/filepath"
	"runtime"
	"strconv"
	"strings"
	"sync"
	"syscall"

	"github.com/git-lfs/git-lfs/v3/lfs"
	"verif/harness/evid"
	"verif/harness/ptrspec"
)

const hexd = "0123456789abcdef"

func randOid(r *rand.Rand) string {
	b := make([]byte, 64)
	for i := range b {
		b[i] = hexd[r.Intn(16)]
	}
	return string(b)
}

var edgeSizes = []int64{1, 2, 9, 10, 1023, 1024, 1025, 65535, 1 << 31, 1<<31 - 1, 1 << 32, 1<<53 + 1, 1<<63 - 1, 1<<63 - 2, 999999999999999999}

func randSize(r *rand.Rand) int64 {
	switch r.Intn(4) {
	case 0:
		return edgeSizes[r.Intn(len(edgeSizes))]
	case 1:
		return int64(r.Intn(100000)) + 1
	default:
		return r.Int63()>>uint(r.Intn(63)) + 1
	}
}

const wordChars = "abcdefghijklmnopqrstuvwxyzABCDEFGHIJKLMNOPQRSTUVWXYZ0123456789_"

func randName(r *rand.Rand, max int) string {
	n := 1 + r.Intn(max)
	b := make([]byte, n)
	for i := range b {
		b[i] = wordChars[r.Intn(len(wordChars))]
	}
	return string(b)
}

// genPointer draws a valid pointer: size>0, 0..10 extensions with distinct priorities, ascending.
func genPointer(r *rand.Rand) ptrspec.Pointer {
	p := ptrspec.Pointer{Oid: randOid(r), Size: randSize(r)}
	ne := 0
	switch r.Intn(4) {
	case 0:
		ne = 0
	case 1:
		ne = 1
	default:
		ne = r.Intn(11)
	}
	perm := r.Perm(10)[:ne]
	// ascending
	for i := 0; i < 10; i++ {
		for _, q := range perm {
			if q == i {
				p.Exts = append(p.Exts, ptrspec.Ext{Priority: i, Name: randName(r, 8), Oid: randOid(r)})
			}
		}
	}
	return p
}

func toLfs(p ptrspec.Pointer) *lfs.Pointer {
	var exts []*lfs.PointerExtension
	for _, e := range p.Exts {
		exts = append(exts, lfs.NewPointerExtension(e.Name, e.Priority, e.Oid))
	}
	return lfs.NewPointer(p.Oid, p.Size, exts)
}

func fromLfs(p *lfs.Pointer) ptrspec.Pointer {
	q := ptrspec.Pointer{Oid: p.Oid, Size: p.Size}
	for _, e := range p.Extensions {
		q.Exts = append(q.Exts, ptrspec.Ext{Priority: e.Priority, Name: e.Name, Oid: e.Oid})
	}
	return q
}

type verdict struct {
	sym, what string
}

// safeDecode runs the real decoder, converting a panic into a verdict.
func safeDecode(in []byte) (p *lfs.Pointer, err error, pan any) {
	defer func() {
		if x := recover(); x != nil {
			pan = x
		}
	}()
	p, err = lfs.DecodePointer(bytes.NewReader(in))
	return
}

// --- delivery: the decoder's verdict is a function of the byte string, not of how a reader hands it over ---

var errInjected = errors.New("verif: injected read error")

// hostileReader delivers data in the given chunk sizes (0 = an empty read) and, when failAt >= 0,
// returns a non-EOF error once failAt bytes have been delivered.
type hostileReader struct {
	data   []byte
	off    int
	chunks []int
	ci     int
	failAt int
}

func (h *hostileReader) Read(p []byte) (int, error) {
	if h.failAt >= 0 && h.off >= h.failAt {
		return 0, errInjected
	}
	if h.off >= len(h.data) {
		return 0, io.EOF
	}
	n := len(p)
	if len(h.chunks) > 0 {
		n = h.chunks[h.ci%len(h.chunks)]
		h.ci++
	}
	if n > len(p) {
		n = len(p)
	}
	if rest := len(h.data) - h.off; n > rest {
		n = rest
	}
	if h.failAt >= 0 && h.off+n > h.failAt {
		n = h.failAt - h.off
	}
	copy(p, h.data[h.off:h.off+n])
	h.off += n
	return n, nil
}

func decodeVia(rd io.Reader) (p *lfs.Pointer, err error, pan any) {
	defer func() {
		if x := recover(); x != nil {
			pan = x
		}
	}()
	p, err = lfs.DecodePointer(rd)
	return
}

func samePtr(a, b *lfs.Pointer) bool {
	if (a == nil) != (b == nil) {
		return false
	}
	if a == nil {
		return true
	}
	return a.Canonical == b.Canonical && ptrspec.Canonical(fromLfs(a)) == ptrspec.Canonical(fromLfs(b))
}

// checkDelivery: (1) chunked delivery gives the verdict of whole delivery; (2) when the reader fails
// with a non-EOF error before the input was handed over completely, the decoder may reject, but it must
// not accept anything the complete byte string would not decode to.
func checkDelivery(r *rand.Rand, in []byte) (class string, v *verdict) {
	wp, werr, _ := safeDecode(in)
	var chunks []int
	kind := ""
	switch r.Intn(4) {
	case 0:
		chunks, kind = []int{1}, "bytewise"
	case 1:
		chunks, kind = []int{0, 1, 0, 0, 7}, "empty-reads"
	case 2:
		n := 1 + r.Intn(5)
		for i := 0; i < n; i++ {
			chunks = append(chunks, 1+r.Intn(200))
		}
		kind = "random-chunks"
	default:
		if len(in) > 1 {
			k := 1 + r.Intn(len(in)-1)
			chunks = []int{k, 1 << 20}
		}
		kind = "two-chunks"
	}
	if r.Intn(2) == 0 {
		cp, cerr, pan := decodeVia(&hostileReader{data: in, chunks: chunks, failAt: -1})
		if pan != nil {
			return "delivery/" + kind, &verdict{"decoder-panic", fmt.Sprint(pan)}
		}
		if (cerr == nil) != (werr == nil) || (cerr == nil && !samePtr(cp, wp)) {
			return "delivery/" + kind, &verdict{"chunked-delivery-differs", fmt.Sprintf("whole: err=%v; %s: err=%v", werr, kind, cerr)}
		}
		return "delivery/" + kind, nil
	}
	at := 0
	where := "at-0"
	if len(in) > 0 && r.Intn(3) > 0 {
		at = r.Intn(len(in) + 1)
		switch {
		case at == 0:
		case at == len(in):
			where = "at-end"
		default:
			where = "inside"
		}
	}
	fp, ferr, pan := decodeVia(&hostileReader{data: in, chunks: chunks, failAt: at})
	class = "read-error/" + where + "/" + kind
	if pan != nil {
		return class, &verdict{"decoder-panic", fmt.Sprint(pan)}
	}
	if ferr == nil && (werr != nil || !samePtr(fp, wp)) {
		return class, &verdict{"accepted-despite-read-error", fmt.Sprintf("reader failed after %d of %d bytes, decoder returned a pointer (oid %s size %d canonical %v); the complete input decodes to err=%v", at, len(in), fp.Oid, fp.Size, fp.Canonical, werr)}
	}
	return class, nil
}

// checkIndependence: a decoded pointer is a value — decoding other texts afterwards (for instance a
// non-canonical spelling of the same oid and size, as a tree scan over many blobs does) must not change
// what an earlier decode returned.
func checkIndependence(r *rand.Rand, p ptrspec.Pointer) (class string, v *verdict) {
	canon := ptrspec.Canonical(p)
	variants := []string{
		strings.TrimSuffix(canon, "\n"),         // no final newline
		strings.ReplaceAll(canon, "\n", "\r\n"), // CRLF
		canon + "\n",                            // extra blank line
		strings.Replace(canon, "https://git-lfs.github.com/spec/v1", "https://hawser.github.com/spec/v1", 1), // legacy version URL
	}
	alt := variants[r.Intn(len(variants))]
	first, second := canon, alt
	order := "canonical-then-variant"
	if r.Intn(2) == 0 {
		first, second = alt, canon
		order = "variant-then-canonical"
	}
	class = "independence/" + order
	p1, err1, pan := safeDecode([]byte(first))
	if pan != nil {
		return class, &verdict{"decoder-panic", fmt.Sprint(pan)}
	}
	if err1 != nil || p1 == nil {
		return class + "/first-rejected", nil
	}
	before := *p1
	beforeEnc := p1.Encoded()
	p2, err2, pan := safeDecode([]byte(second))
	if pan != nil {
		return class, &verdict{"decoder-panic", fmt.Sprint(pan)}
	}
	if p1.Canonical != before.Canonical || p1.Oid != before.Oid || p1.Size != before.Size || p1.Encoded() != beforeEnc {
		return class, &verdict{"earlier-result-changed-by-later-decode", fmt.Sprintf("first decode (%q...) returned Canonical=%v; after decoding a second text of the same object it reads Canonical=%v", sbxTrunc(first, 40), before.Canonical, p1.Canonical)}
	}
	if err2 == nil && p2 != nil {
		want := second == ptrspec.Canonical(fromLfs(p2))
		if p2.Canonical != want {
			return class, &verdict{"canonical-flag-wrong", fmt.Sprintf("second decode: Canonical=%v, input==canonical is %v", p2.Canonical, want)}
		}
	}
	return class, nil
}

func sbxTrunc(s string, n int) string {
	if len(s) > n {
		return s[:n]
	}
	return s
}

// checkFileDelivery: the same verdict when the bytes are handed over as a named file — a regular file,
// a symbolic link to it, or a FIFO (whose stat size says nothing about its content).
func checkFileDelivery(r *rand.Rand, dir string, seq int, in []byte) (class string, v *verdict) {
	wp, werr, _ := safeDecode(in)
	kind := []string{"regular-file", "symlink", "fifo"}[r.Intn(3)]
	p := filepath.Join(dir, fmt.Sprintf("f%d", seq))
	defer os.Remove(p)
	done := make(chan struct{})
	switch kind {
	case "regular-file":
		os.WriteFile(p, in, 0o644)
		close(done)
	case "symlink":
		t := p + ".target"
		os.WriteFile(t, in, 0o644)
		defer os.Remove(t)
		os.Symlink(t, p)
		close(done)
	case "fifo":
		if err := syscall.Mkfifo(p, 0o600); err != nil {
			return "file-delivery/fifo-unavailable", nil
		}
		go func() {
			defer close(done)
			f, err := os.OpenFile(p, os.O_WRONLY, 0)
			if err != nil {
				return
			}
			f.Write(in)
			f.Close()
		}()
	}
	var fp *lfs.Pointer
	var ferr error
	var pan any
	func() {
		defer func() {
			if x := recover(); x != nil {
				pan = x
			}
		}()
		fp, ferr = lfs.DecodePointerFromFile(p)
	}()
	if kind == "fifo" {
		// unblock the writer if the decoder never opened the FIFO (e.g. it refused by size)
		if f, err := os.OpenFile(p, os.O_RDONLY|syscall.O_NONBLOCK, 0); err == nil {
			io.Copy(io.Discard, f)
			f.Close()
		}
		<-done
	}
	class = "file-delivery/" + kind
	if pan != nil {
		return class, &verdict{"decoder-panic", fmt.Sprint(pan)}
	}
	if (ferr == nil) != (werr == nil) || (ferr == nil && !samePtr(fp, wp)) {
		return class, &verdict{"file-delivery-differs", fmt.Sprintf("whole buffer: err=%v; DecodePointerFromFile(%s): err=%v", werr, kind, ferr)}
	}
	return class, nil
}

// checkDecode: post-conditions on an arbitrary byte string.
func checkDecode(in []byte) (accepted bool, v *verdict) {
	p, err, pan := safeDecode(in)
	if pan != nil {
		return false, &verdict{"decoder-panic", fmt.Sprint(pan)}
	}
	if err != nil {
		return false, nil
	}
	if p == nil {
		return false, &verdict{"nil-pointer-no-error", "decoder returned (nil, nil)"}
	}
	if !ptrspec.OidRE.MatchString(p.Oid) {
		return true, &verdict{"bad-oid-accepted", fmt.Sprintf("oid %q", p.Oid)}
	}
	if p.Size < 0 {
		return true, &verdict{"negative-size-accepted", fmt.Sprint(p.Size)}
	}
	if p.OidType != "sha256" {
		return true, &verdict{"bad-oidtype-accepted", p.OidType}
	}
	last := -1
	for _, e := range p.Extensions {
		if e.Priority <= last {
			return true, &verdict{"ext-priorities-not-unique-ascending", fmt.Sprint(e.Priority, "<=", last)}
		}
		last = e.Priority
		if !ptrspec.OidRE.MatchString(e.Oid) {
			return true, &verdict{"bad-ext-oid-accepted", e.Oid}
		}
	}
	want := string(in) == ptrspec.Canonical(fromLfs(p))
	if p.Canonical != want {
		return true, &verdict{"canonical-flag-wrong", fmt.Sprintf("Canonical=%v but input==canonical(decoded) is %v", p.Canonical, want)}
	}
	// the decoded pointer must re-encode to what the spec says
	if enc := p.Encoded(); enc != ptrspec.Canonical(fromLfs(p)) {
		return true, &verdict{"reencode-not-canonical", enc}
	}
	return true, nil
}

// checkRoundTrip: valid pointer -> Encode -> Decode.
func checkRoundTrip(p ptrspec.Pointer) *verdict {
	lp := toLfs(p)
	enc := lp.Encoded()
	want := ptrspec.Canonical(p)
	if enc != want {
		return &verdict{"encoder-not-canonical", fmt.Sprintf("got %q want %q", enc, want)}
	}
	var buf bytes.Buffer
	if n, err := lp.Encode(&buf); err != nil || n != len(want) || buf.String() != want {
		return &verdict{"encode-writer-differs", fmt.Sprintf("n=%d err=%v", n, err)}
	}
	if len(enc) >= 1024 {
		return nil // not a valid pointer file (spec: < 1024 bytes); encoder judged only
	}
	d, err, pan := safeDecode([]byte(enc))
	if pan != nil {
		return &verdict{"decoder-panic", fmt.Sprint(pan)}
	}
	if err != nil || d == nil {
		return &verdict{"roundtrip-rejected", fmt.Sprint(err)}
	}
	if ptrspec.Canonical(fromLfs(d)) != want || d.Oid != p.Oid || d.Size != p.Size || len(d.Extensions) != len(p.Exts) {
		return &verdict{"roundtrip-differs", fmt.Sprintf("%+v", fromLfs(d))}
	}
	for i, e := range d.Extensions {
		if e.Name != p.Exts[i].Name || e.Priority != p.Exts[i].Priority || e.Oid != p.Exts[i].Oid || e.OidType != "sha256" {
			return &verdict{"roundtrip-differs", fmt.Sprintf("ext %d %+v", i, *e)}
		}
	}
	if !d.Canonical {
		return &verdict{"canonical-flag-wrong", "canonical encoding decoded with Canonical=false"}
	}
	return nil
}

var legacy = []string{"http://git-media.io/v/2", "https://hawser.github.com/spec/v1", "https://git-lfs.github.com/spec/v1", "https://git-lfs.github.com/spec/v2", "https://GIT-LFS.github.com/spec/v1", "git-lfs", ""}

// mutate applies one edit; returns the mutant and the mutation class.
func mutate(r *rand.Rand, s string) (out string, class string) {
	defer func() {
		if recover() != nil { // the edit does not apply to this (already mutated) text
			out, class = s, "inapplicable"
		}
	}()
	return mutate1(r, s)
}

func mutate1(r *rand.Rand, s string) (string, string) {
	lines := strings.SplitAfter(s, "\n")
	if len(lines) > 0 && lines[len(lines)-1] == "" {
		lines = lines[:len(lines)-1]
	}
	pick := func() int { return r.Intn(len(lines)) }
	join := func() string { return strings.Join(lines, "") }
	switch k := r.Intn(30); k {
	case 0: // case flip of one char
		b := []byte(s)
		for t := 0; t < 20; t++ {
			i := r.Intn(len(b))
			c := b[i]
			if c >= 'a' && c <= 'z' {
				b[i] = c - 32
				return string(b), "case-upper"
			}
			if c >= 'A' && c <= 'Z' {
				b[i] = c + 32
				return string(b), "case-lower"
			}
		}
		return string(b), "case-none"
	case 1:
		return strings.ReplaceAll(s, "\n", "\r\n"), "crlf-all"
	case 2:
		i := pick()
		lines[i] = strings.Replace(lines[i], "\n", "\r\n", 1)
		return join(), "crlf-one"
	case 3:
		return strings.TrimSuffix(s, "\n"), "no-final-newline"
	case 4:
		return s + strings.Repeat("\n", 1+r.Intn(3)), "extra-trailing-newlines"
	case 5:
		return strings.Repeat("\n", 1+r.Intn(2)) + s, "leading-newlines"
	case 6:
		i := pick()
		lines[i] = strings.Replace(lines[i], " ", "  ", 1)
		return join(), "double-space"
	case 7:
		i := pick()
		lines[i] = strings.Replace(lines[i], " ", "\t", 1)
		return join(), "tab-separator"
	case 8:
		i := pick()
		lines[i] = strings.Replace(lines[i], "\n", " \n", 1)
		return join(), "trailing-space-line"
	case 9:
		i, j := pick(), pick()
		lines[i], lines[j] = lines[j], lines[i]
		return join(), "swap-lines"
	case 10:
		i := pick()
		lines = append(lines[:i+1], append([]string{lines[i]}, lines[i+1:]...)...)
		return join(), "dup-line"
	case 11:
		i := pick()
		lines = append(lines[:i], lines[i+1:]...)
		return join(), "drop-line"
	case 12:
		i := pick()
		extra := []string{"foo bar\n", "x-custom 1\n", "oid sha256:" + randOid(r) + "\n", "size 5\n", "ext-0-dup sha256:" + randOid(r) + "\n", "ext-10-big sha256:" + randOid(r) + "\n", "ext--1-neg sha256:" + randOid(r) + "\n", "version " + ptrspec.Version + "\n", "\n", "zzz\n"}[r.Intn(10)]
		lines = append(lines[:i], append([]string{extra}, lines[i:]...)...)
		return join(), "insert-line"
	case 13:
		sg := []string{"+", "-", " ", "0", "00", "0x", "1e3", "٣"}[r.Intn(8)]
		return strings.Replace(s, "size ", "size "+sg, 1), "size-prefix"
	case 14:
		big := []string{"9223372036854775808", "18446744073709551616", "99999999999999999999999999", "-1", "-0", "0", "1.5", "", " ", "12 34", "1_000"}[r.Intn(11)]
		i := strings.Index(s, "size ")
		if i < 0 {
			return s, "size-none"
		}
		return s[:i] + "size " + big + "\n", "size-value"
	case 15:
		v := legacy[r.Intn(len(legacy))]
		return strings.Replace(s, ptrspec.Version, v, 1), "version-url"
	case 16:
		return "\xef\xbb\xbf" + s, "bom"
	case 17:
		b := []byte(s)
		b[r.Intn(len(b))] = 0
		return string(b), "nul-byte"
	case 18:
		b := []byte(s)
		b[r.Intn(len(b))] = byte(r.Intn(256))
		return string(b), "random-byte"
	case 19:
		i := r.Intn(len(s))
		return s[:i], "truncate"
	case 20:
		return s + strings.Repeat("x", 1024), "over-1024-tail"
	case 21:
		pad := 1024 - len(s)
		if pad < 0 {
			pad = 0
		}
		return s + strings.Repeat([]string{" ", "\n", "\t"}[r.Intn(3)], pad+r.Intn(3)-1), "pad-to-1024-ws"
	case 22:
		return strings.Replace(s, "oid sha256:", "oid "+[]string{"sha1:", "sha512:", "SHA256:", "sha256 ", "sha256::", ":", ""}[r.Intn(7)], 1), "oid-type"
	case 23:
		i := strings.Index(s, "oid sha256:")
		if i < 0 {
			return s, "oid-none"
		}
		o := i + 11
		alt := []string{s[:o] + s[o+1:], s[:o] + "a" + s[o:], s[:o] + "g" + s[o+1:], s[:o] + strings.ToUpper(s[o:o+64]) + s[o+64:], s[:o] + s[o:o+64] + " " + s[o+64:], s[:o] + " " + s[o:]}
		return alt[r.Intn(len(alt))], "oid-hex"
	case 24:
		return strings.Replace(s, "ext-", []string{"ext-1", "Ext-", "ext_", "ext-a-", "ext-٣-"}[r.Intn(5)], 1), "ext-key"
	case 25:
		// duplicate priority
		i := strings.Index(s, "oid sha256:")
		if i < 0 {
			return s, "oid-none"
		}
		p := r.Intn(10)
		return s[:i] + fmt.Sprintf("ext-%d-a sha256:%s\next-%d-b sha256:%s\n", p, randOid(r), p, randOid(r)) + s[i:], "dup-priority"
	case 26:
		// unsorted priorities
		i := strings.Index(s, "oid sha256:")
		if i < 0 {
			return s, "oid-none"
		}
		return s[:i] + fmt.Sprintf("ext-%d-a sha256:%s\next-%d-b sha256:%s\n", 7, randOid(r), 3, randOid(r)) + s[i:], "unsorted-priority"
	case 27:
		return strings.Replace(s, "\n", "\r", 1), "cr-only"
	case 28:
		return " " + s, "leading-space"
	default:
		return strings.Replace(s, "version ", "version", 1), "version-nospace"
	}
}

func randBytes(r *rand.Rand) []byte {
	n := r.Intn(2049)
	b := make([]byte, n)
	switch r.Intn(3) {
	case 0:
		r.Read(b)
	case 1:
		al := "version oidsize sha256:git-lfshawser\n \n0123456789abcdef-ext"
		for i := range b {
			b[i] = al[r.Intn(len(al))]
		}
	default:
		words := []string{"version ", ptrspec.Version, "\n", "oid ", "sha256:", "size ", "ext-0-a ", "git-media", "hawser", "1", "0", " ", "\r\n", randOid(r)}
		var sb strings.Builder
		for sb.Len() < n {
			sb.WriteString(words[r.Intn(len(words))])
		}
		b = []byte(sb.String())
	}
	return b
}

type viol struct {
	v     verdict
	class string
	input string
}

func main() {
	run := evid.New("C07", "exploration")
	run.Rule = "seeded generator: (a) valid pointers (random oid, size edge values up to 2^63-1, 0-10 extensions with distinct ascending priorities) through Encoded()/Encode()/DecodePointer round trip; (b) 1- and 2-edit mutants of canonical pointers (30 mutation operators) and (c) unstructured/dictionary random byte strings <= 2 kB through DecodePointer; oracle = ptrspec canonical formatter + post-conditions; (d) delivery: the same inputs through readers that chunk (bytewise, empty reads, random, two chunks) must give the whole-buffer verdict, and through readers that fail with a non-EOF error after k bytes must never be accepted as anything the complete input does not decode to; and through lfs.DecodePointerFromFile on a regular file, a symbolic link and a FIFO; (e) independence: decoding a second spelling of the same object (no final newline, CRLF, extra blank line, legacy URL; either order) must not change what the first decode returned. A class is (generator kind, mutation operator(s), accepted/rejected); distinct_nontrivial counts classes observed."
	run.Assumptions = []string{"valid pointer = size>0, extension priorities distinct and ascending, encoded length < 1024 (docs/spec.md)", "ptrspec (harness/ptrspec) is the specification of the canonical form", "DecodePointer is the decoder under test; size-checked wrappers (FromFile/FromBlob) only restrict its domain"}
	sbxTmp, _ := os.MkdirTemp("", "verif-c07-")
	defer os.RemoveAll(sbxTmp)
	total := run.N(1_000_000, 40_000_000)
	workers := runtime.NumCPU()
	per := total / workers
	var wg sync.WaitGroup
	var mu sync.Mutex
	classes := map[string]int{}
	samples := map[string]string{}
	var viols []viol
	accepted, rejected := int64(0), int64(0)
	for w := 0; w < workers; w++ {
		wg.Add(1)
		go func(w int) {
			defer wg.Done()
			r := rand.New(rand.NewSource(run.Seed*1000003 + int64(w)))
			lc := map[string]int{}
			ls := map[string]string{}
			fdir, _ := os.MkdirTemp(sbxTmp, fmt.Sprintf("c07-w%d-", w))
			defer os.RemoveAll(fdir)
			fseq := 0
			var lv []viol
			var acc, rej int64
			note := func(class string, in string, v *verdict, ok bool) {
				if ok {
					class += "/accepted"
					acc++
				} else {
					class += "/rejected"
					rej++
				}
				lc[class]++
				if _, has := ls[class]; !has && len(in) < 400 {
					ls[class] = in
				}
				if v != nil && len(lv) < 50 {
					lv = append(lv, viol{*v, class, in})
				}
			}
			for i := 0; i < per; i++ {
				switch i % 10 {
				case 0, 1: // valid pointer round trip
					p := genPointer(r)
					if i%20 == 0 && len(ptrspec.Canonical(p)) < 1000 {
						ic, iv := checkIndependence(r, p)
						lc[ic]++
						if iv != nil && len(lv) < 50 {
							lv = append(lv, viol{*iv, ic, ptrspec.Canonical(p)})
						}
					}
					v := checkRoundTrip(p)
					note(fmt.Sprintf("valid/exts=%d", len(p.Exts)), ptrspec.Canonical(p), v, v == nil)
					if r.Intn(50) == 0 { // empty pointer
						e := ptrspec.Pointer{Oid: ptrspec.EmptyOid, Size: 0}
						v := checkRoundTrip(e)
						note("valid/empty", "", v, v == nil)
					}
				case 2: // random bytes
					b := randBytes(r)
					ok, v := checkDecode(b)
					note("random", string(b), v, ok)
					if i%40 == 2 {
						dc, dv := checkDelivery(r, b)
						lc[dc+"/random"]++
						if dv != nil && len(lv) < 50 {
							lv = append(lv, viol{*dv, dc + "/random", string(b)})
						}
					}
				default:
					p := genPointer(r)
					if r.Intn(3) > 0 && len(p.Exts) > 2 {
						p.Exts = p.Exts[:r.Intn(3)]
					}
					s := ptrspec.Canonical(p)
					m, c1 := mutate(r, s)
					class := "mutant/" + c1
					if r.Intn(3) == 0 && len(m) > 0 {
						var c2 string
						m, c2 = mutate(r, m)
						class = "mutant2/" + c1 + "+" + c2
					}
					ok, v := checkDecode([]byte(m))
					note(class, m, v, ok)
					if i%4 == 3 {
						in := []byte(m)
						if r.Intn(4) == 0 {
							in = []byte(s)
						}
						if i%64 == 3 {
							fseq++
							fc, fv := checkFileDelivery(r, fdir, fseq, in)
							lc[fc]++
							if fv != nil && len(lv) < 50 {
								lv = append(lv, viol{*fv, fc, string(in)})
							}
						}
						dc, dv := checkDelivery(r, in)
						lc[dc]++
						if _, has := ls[dc]; !has && len(in) < 400 {
							ls[dc] = string(in)
						}
						if dv != nil && len(lv) < 50 {
							lv = append(lv, viol{*dv, dc, string(in)})
						}
					}
				}
			}
			mu.Lock()
			for k, n := range lc {
				classes[k] += n
			}
			for k, s := range ls {
				if _, has := samples[k]; !has {
					samples[k] = s
				}
			}
			viols = append(viols, lv...)
			accepted += acc
			rejected += rej
			mu.Unlock()
		}(w)
	}
	wg.Wait()
	n := 0
	for k, c := range classes {
		run.Case(k, map[string]string{"class": k, "input": samples[k]})
		run.Evals(c - 1)
		n++
	}
	run.Count("decoder_accepted", accepted)
	run.Count("decoder_rejected", rejected)
	seen := map[string]bool{}
	for _, v := range viols {
		trig := strings.SplitN(v.class, "/", 3)
		t := v.class
		if len(trig) >= 2 {
			t = trig[0] + "/" + trig[1]
		}
		key := v.v.sym + "|" + t
		if seen[key] {
			continue
		}
		seen[key] = true
		run.Violation(evid.Sig{Symptom: v.v.sym, Trigger: t}, v.v.what, map[string]string{"class": v.class, "input": v.input, "input_quoted": strconv.Quote(v.input), "what": v.v.what})
	}
	cliSample(run)
	os.RemoveAll(sbxTmp) // Finish exits the process: deferred calls do not run
	run.Finish()
	_ = os.Stdout
}

func cliSample(run *evid.Run) {}
