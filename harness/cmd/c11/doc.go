package main

// Independent reading of the documented allow-list: the bullet list under
// "== LFSCONFIG" in docs/man/git-lfs-config.adoc. No git-lfs code is involved.

import (
	"bufio"
	"fmt"
	"os"
	"regexp"
	"strings"
)

// canonical key as Git defines it: section and variable name are case-insensitive
// (lower-cased here), the subsection is verbatim.
type ckey struct {
	Sec    string
	Sub    string
	HasSub bool
	Key    string
}

func (k ckey) String() string {
	if k.HasSub {
		return k.Sec + "." + k.Sub + "." + k.Key
	}
	return k.Sec + "." + k.Key
}

type docPat struct {
	Raw  string
	Sec  string
	Key  string
	Wild bool // section.<anything non-empty>.key
}

func (p docPat) match(k ckey) bool {
	if p.Sec != k.Sec || p.Key != k.Key {
		return false
	}
	if p.Wild {
		return k.HasSub && k.Sub != ""
	}
	return !k.HasSub
}

var placeholderRE = regexp.MustCompile(`^(\\?\{[^}]*\}|<[^>]*>|\*)$`)

func parseDocAllowList(path string) ([]docPat, error) {
	f, err := os.Open(path)
	if err != nil {
		return nil, err
	}
	defer f.Close()
	var pats []docPat
	in, started := false, false
	sc := bufio.NewScanner(f)
	for sc.Scan() {
		line := strings.TrimRight(sc.Text(), " \t\r")
		if strings.HasPrefix(line, "== ") {
			if in && started {
				break
			}
			in = strings.TrimSpace(strings.TrimPrefix(line, "== ")) == "LFSCONFIG"
			continue
		}
		if !in {
			continue
		}
		if strings.HasPrefix(line, "* ") {
			started = true
			item := strings.Trim(strings.TrimSpace(strings.TrimPrefix(line, "* ")), "`")
			p, err := parsePattern(item)
			if err != nil {
				return nil, err
			}
			pats = append(pats, p)
			continue
		}
		if started && line != "" {
			break // the list is over
		}
	}
	if len(pats) < 5 {
		return nil, fmt.Errorf("only %d allow-list items found under == LFSCONFIG in %s", len(pats), path)
	}
	return pats, nil
}

func parsePattern(item string) (docPat, error) {
	first := strings.Index(item, ".")
	last := strings.LastIndex(item, ".")
	if first < 0 {
		return docPat{}, fmt.Errorf("allow-list item %q is not a key", item)
	}
	p := docPat{Raw: item, Sec: strings.ToLower(item[:first]), Key: strings.ToLower(item[last+1:])}
	if first != last {
		mid := item[first+1 : last]
		if !placeholderRE.MatchString(mid) {
			return docPat{}, fmt.Errorf("allow-list item %q: middle part %q is not a placeholder", item, mid)
		}
		p.Wild = true
	}
	return p, nil
}

func docAllows(pats []docPat, k ckey) bool {
	for _, p := range pats {
		if p.match(k) {
			return true
		}
	}
	return false
}
