package main

import (
	"fmt"
	"math/rand"
	"regexp"
	"strings"
)

// ---------------------------------------------------------------- entries

type entry struct {
	Idx        int    `json:"idx"`
	Slot       string `json:"slot"`    // worktree | index | head
	Name       string `json:"pattern"` // normalised key pattern (signature trigger)
	K          ckey   `json:"key"`     // canonical key, placeholders not yet substituted
	Val        string `json:"value"`
	Known      string `json:"known_family,omitempty"`
	Allowed    bool   `json:"doc_allowed"`
	Overridden bool   `json:"overridden_by_gitconfig,omitempty"`
	Decoy      bool   `json:"decoy,omitempty"`
	Sp         spell  `json:"spelling"`
}

type spell struct {
	SecMask  uint64 `json:"sec_case"`
	KeyMask  uint64 `json:"key_case"`
	SubMask  uint64 `json:"sub_case"`
	Dotted   bool   `json:"dotted_header"`
	ValStyle int    `json:"val_style"`
	Sep      int    `json:"sep"`
	Indent   int    `json:"indent"`
}

type gentry struct {
	Scope   string `json:"scope"` // where the user's setting lives: local | global | env | cmdline | include
	K       ckey   `json:"key"`
	Val     string `json:"value"`
	OKind   string `json:"override_kind,omitempty"` // other | empty | blank | same | boolalt | valueless
	IncFrom string `json:"included_from,omitempty"` // include scope: which file holds the [include] directive (global | local)
}

// coord names the coordinates of one override: kind of value / key pattern / location of the Git setting.
func (g gentry) coord(name string) string {
	k := g.OKind
	if k == "" {
		k = "other"
	}
	if k == "valueless" {
		// one root cause whatever the key and the location: a single signature
		return "override-valueless-bool"
	}
	return fmt.Sprintf("override-%s/%s/%s", k, name, g.Scope)
}

type kase struct {
	Idx         int      `json:"case_index"`
	Kind        string   `json:"kind"`     // single | mixture | precedence | control
	Loc         string   `json:"location"` // worktree | index | head | bare
	Variant     string   `json:"remotes_variant"`
	Entries     []entry  `json:"entries"`
	GitCfg      []gentry `json:"gitconfig"`
	TrackBranch bool     `json:"branch_tracks_remote"`
	OneShot     bool     `json:"one_shot_filters"`
	Creds       bool     `json:"credential_store"`
	Noise       int64    `json:"noise_seed"`
	KnownFamily string   `json:"known_family,omitempty"`
	ExtCmds     bool     `json:"extension_command_set,omitempty"` // extension-priority cases: env, ext list, clean
	Light       bool     `json:"light_command_set,omitempty"` // override cases: env, fetch, pull, push only
	Missing     bool     `json:"missing_object,omitempty"`    // a third pointer whose object exists nowhere (makes skipdownloaderrors / allowincompletepush observable)
}

type variantInfo struct {
	R1, R2 string
	Role1  string
	EP1    string
	// remote name -> url
	Remotes [][2]string
}

var variants = map[string]variantInfo{
	"origin":          {R1: "origin", R2: "other", Role1: "origin", EP1: "http://@HOST@/@TAG@/origin/repo.git/info/lfs", Remotes: [][2]string{{"origin", "http://@HOST@/@TAG@/origin/repo.git"}}},
	"origin-auth":     {R1: "origin", R2: "other", Role1: "origin-auth", EP1: "http://@HOST@/@TAG@/origin-auth/repo.git/info/lfs", Remotes: [][2]string{{"origin", "http://@HOST@/@TAG@/origin-auth/repo.git"}}},
	"origin+other":    {R1: "origin", R2: "other", Role1: "origin", EP1: "http://@HOST@/@TAG@/origin/repo.git/info/lfs", Remotes: [][2]string{{"origin", "http://@HOST@/@TAG@/origin/repo.git"}, {"other", "http://@HOST@/@TAG@/other/repo.git"}}},
	"upstream-only":   {R1: "upstream", R2: "origin", Role1: "upstream", EP1: "http://@HOST@/@TAG@/upstream/repo.git/info/lfs", Remotes: [][2]string{{"upstream", "http://@HOST@/@TAG@/upstream/repo.git"}}},
	"origin+dotted":   {R1: "origin", R2: "a.b", Role1: "origin", EP1: "http://@HOST@/@TAG@/origin/repo.git/info/lfs", Remotes: [][2]string{{"origin", "http://@HOST@/@TAG@/origin/repo.git"}, {"a.b", "http://@HOST@/@TAG@/dotted/repo.git"}}},
	"dotted-only":     {R1: "a.b", R2: "origin", Role1: "dotted", EP1: "http://@HOST@/@TAG@/dotted/repo.git/info/lfs", Remotes: [][2]string{{"a.b", "http://@HOST@/@TAG@/dotted/repo.git"}}},
	"ssh-origin":      {R1: "origin", R2: "other", Role1: "sshhref", EP1: "http://@HOST@/@TAG@/sshhref", Remotes: [][2]string{{"origin", "ssh://git@sshhost/@TAG@/sshorigin/repo.git"}}},
	"gitproto-origin": {R1: "origin", R2: "other", Role1: "gitproto", EP1: "https://@HOST@/@TAG@/gitproto/repo.git/info/lfs", Remotes: [][2]string{{"origin", "git://@HOST@/@TAG@/gitproto/repo.git"}}},
}

var variantWeights = []struct {
	n string
	w int
}{{"origin", 28}, {"origin-auth", 14}, {"origin+other", 20}, {"upstream-only", 10}, {"origin+dotted", 10}, {"dotted-only", 5}, {"ssh-origin", 8}, {"gitproto-origin", 5}}

func pickVariant(r *rand.Rand) string {
	tot := 0
	for _, v := range variantWeights {
		tot += v.w
	}
	x := r.Intn(tot)
	for _, v := range variantWeights {
		if x < v.w {
			return v.n
		}
		x -= v.w
	}
	return "origin"
}

// ---------------------------------------------------------------- substitution

type subst struct {
	Root, Tag, Host, PHost string
	V                      variantInfo
}

func (s subst) apply(x string, idx int) string {
	x = strings.ReplaceAll(x, "@EP1@", s.V.EP1)
	x = strings.ReplaceAll(x, "@K@", fmt.Sprint(idx))
	x = strings.ReplaceAll(x, "@R1@", s.V.R1)
	x = strings.ReplaceAll(x, "@R2@", s.V.R2)
	x = strings.ReplaceAll(x, "@ROOT@", s.Root)
	x = strings.ReplaceAll(x, "@TAG@", s.Tag)
	x = strings.ReplaceAll(x, "@PHOST@", s.PHost)
	x = strings.ReplaceAll(x, "@HOST@", s.Host)
	return x
}

// ---------------------------------------------------------------- spelling

func caseMask(s string, mask uint64) string {
	b := []byte(s)
	for i := range b {
		if mask&(1<<(uint(i)%64)) != 0 && b[i] >= 'a' && b[i] <= 'z' {
			b[i] -= 32
		}
	}
	return string(b)
}

var dottedOK = regexp.MustCompile(`^[a-z0-9.-]+$`)

func escQuoted(v string) string {
	var sb strings.Builder
	for _, c := range v {
		switch c {
		case '\\':
			sb.WriteString(`\\`)
		case '"':
			sb.WriteString(`\"`)
		case '\n':
			sb.WriteString(`\n`)
		case '\t':
			sb.WriteString(`\t`)
		default:
			sb.WriteRune(c)
		}
	}
	return sb.String()
}

func needsQuote(v string) bool {
	return v == "" || strings.ContainsAny(v, "#;\"\\\n\t") || v[0] == ' ' || v[len(v)-1] == ' '
}

func spellValue(v string, style int) string {
	if needsQuote(v) {
		return `"` + escQuoted(v) + `"`
	}
	switch style % 6 {
	case 0, 1:
		return v
	case 2:
		return `"` + v + `"`
	case 3:
		return v + "   ; trailing comment"
	case 4: // partially quoted
		h := len(v) / 2
		return v[:h] + `"` + v[h:] + `"`
	default: // continuation line
		h := len(v) / 2
		if h == 0 || v[h] == ' ' || v[h-1] == ' ' {
			return v
		}
		return v[:h] + "\\\n" + v[h:]
	}
}

// header returns the section header text of an entry (after substitution of the subsection).
func (e entry) header(sub string) string {
	sec := caseMask(e.K.Sec, e.Sp.SecMask)
	if !e.K.HasSub {
		return "[" + sec + "]"
	}
	if e.Sp.Dotted && dottedOK.MatchString(sub) {
		return "[" + sec + "." + caseMask(sub, e.Sp.SubMask) + "]"
	}
	return "[" + sec + ` "` + strings.NewReplacer(`\`, `\\`, `"`, `\"`).Replace(sub) + `"]`
}

func (e entry) line(val string) string {
	ind := []string{"\t", "  ", "", "\t \t"}[e.Sp.Indent%4]
	sep := []string{" = ", "=", "\t=  ", " ="}[e.Sp.Sep%4]
	return ind + caseMask(e.K.Key, e.Sp.KeyMask) + sep + spellValue(val, e.Sp.ValStyle)
}

// render produces the text of one .lfsconfig from the entries of a slot.
func render(entries []entry, s subst, noise int64) string {
	if len(entries) == 0 {
		// not the empty file: an empty blob is what git-lfs takes for the pointer of an empty object
		return "# no entries\n"
	}
	r := rand.New(rand.NewSource(noise))
	var sb strings.Builder
	last := ""
	for _, e := range entries {
		sub := s.apply(e.K.Sub, e.Idx)
		h := e.header(sub)
		if r.Intn(5) == 0 {
			sb.WriteString([]string{"# comment [lfs] url = x\n", "\n", "; [core] askpass = y\n", "   \n"}[r.Intn(4)])
		}
		if h != last || r.Intn(2) == 0 {
			sb.WriteString(h)
			if r.Intn(6) == 0 {
				sb.WriteString(" # c")
			}
			sb.WriteString("\n")
			last = h
		}
		sb.WriteString(e.line(s.apply(e.Val, e.Idx)))
		sb.WriteString("\n")
	}
	return sb.String()
}

// expectKV is what Git's own parser must read back from the rendered text (generator self-check).
func expectKV(entries []entry, s subst) [][2]string {
	var out [][2]string
	for _, e := range entries {
		k := e.K
		k.Sub = s.apply(k.Sub, e.Idx)
		out = append(out, [2]string{k.String(), s.apply(e.Val, e.Idx)})
	}
	return out
}

// ---------------------------------------------------------------- generation

type generator struct {
	pats   []docPat
	seed   int64
	perm   []int // permutation of unsafeTemplates for stratified single-key cases
	nKnown map[string]int
	// override cases: permutation of the 25 (kind, where) pairs and the key each pair starts with
	pairPerm []int
	keyOff   []int
}

func newGenerator(pats []docPat, seed int64) *generator {
	r := rand.New(rand.NewSource(seed*7919 + 17))
	g := &generator{pats: pats, seed: seed, perm: r.Perm(len(unsafeTemplates)), nKnown: map[string]int{}}
	r2 := rand.New(rand.NewSource(seed*104729 + 5))
	g.pairPerm = r2.Perm(25)
	for i := 0; i < 25; i++ {
		g.keyOff = append(g.keyOff, r2.Intn(len(allowedTemplates)))
	}
	return g
}

func (g *generator) mkEntry(r *rand.Rand, t tmpl, idx int, slot string) entry {
	e := entry{Idx: idx, Slot: slot, Name: t.Name, Known: t.Known}
	e.K = ckey{Sec: t.Sec, Key: t.Key}
	if t.Subs != nil {
		e.K.HasSub = true
		e.K.Sub = t.Subs[r.Intn(len(t.Subs))]
	}
	e.Val = t.Vals[r.Intn(len(t.Vals))]
	e.Allowed = docAllows(g.pats, e.K)
	e.Sp = spell{ValStyle: r.Intn(6), Sep: r.Intn(4), Indent: r.Intn(4)}
	switch r.Intn(4) {
	case 0: // canonical lower case
	case 1: // upper case
		e.Sp.SecMask, e.Sp.KeyMask, e.Sp.SubMask = ^uint64(0), ^uint64(0), ^uint64(0)
	default:
		e.Sp.SecMask, e.Sp.KeyMask, e.Sp.SubMask = r.Uint64(), r.Uint64(), r.Uint64()
	}
	e.Sp.Dotted = r.Intn(3) == 0
	return e
}

func (g *generator) randUnsafe(r *rand.Rand, allowKnown bool) tmpl {
	for {
		t := unsafeTemplates[r.Intn(len(unsafeTemplates))]
		if t.Known != "" && !allowKnown {
			continue
		}
		return t
	}
}

func tmplByName(list []tmpl, name string) tmpl {
	for _, t := range list {
		if t.Name == name {
			return t
		}
	}
	panic("no template " + name)
}

// genCase draws case number i. singleOrdinal counts the single-key cases drawn so far (stratification).
func (g *generator) genCase(i int) kase {
	r := rand.New(rand.NewSource(g.seed*1000003 + int64(i)))
	c := kase{Idx: i, Noise: r.Int63()}
	switch x := i % 20; {
	case x < 10:
		c.Kind = "single"
	case x < 16:
		c.Kind = "mixture"
	case x < 19:
		c.Kind = "precedence"
	default:
		c.Kind = "control"
	}
	c.Loc = []string{"worktree", "worktree", "index", "head", "bare"}[r.Intn(5)]
	c.Variant = pickVariant(r)
	c.TrackBranch = r.Intn(6) == 0
	c.OneShot = r.Intn(2) == 0
	c.Creds = r.Intn(5) != 0
	slot := c.Loc
	if slot == "bare" {
		slot = "head"
	}
	idx := 0
	add := func(t tmpl, slot string) *entry {
		e := g.mkEntry(r, t, idx, slot)
		idx++
		c.Entries = append(c.Entries, e)
		return &c.Entries[len(c.Entries)-1]
	}
	addAllowed := func(n int) {
		for j := 0; j < n; j++ {
			t := allowedTemplates[r.Intn(len(allowedTemplates))]
			if t.Name == "lfs.url" && r.Intn(2) == 0 { // keep remote-derived endpoints visible most of the time
				t = allowedTemplates[2+r.Intn(len(allowedTemplates)-2)]
			}
			add(t, slot)
		}
	}
	nAllowed := func() int {
		switch x := r.Intn(20); {
		case x < 11:
			return 0
		case x < 16:
			return 1
		case x < 19:
			return 2
		default:
			return 3
		}
	}
	switch c.Kind {
	case "single":
		ord := i/20*10 + i%20 // ordinal among single cases
		t := unsafeTemplates[g.perm[ord%len(unsafeTemplates)]]
		if t.Pref != "" && r.Intn(4) != 0 {
			switch t.Pref {
			case "auth-nocreds":
				c.Variant, c.Creds = "origin-auth", false
			case "auth":
				c.Variant = "origin-auth"
			case "ssh":
				c.Variant = "ssh-origin"
			case "two":
				c.Variant = "origin+other"
			case "dotted":
				c.Variant = []string{"origin+dotted", "dotted-only"}[r.Intn(2)]
			}
		}
		add(t, slot)
		c.KnownFamily = t.Known
		if r.Intn(8) == 0 { // the same unsafe key twice (other spelling, possibly other value)
			e := g.mkEntry(r, t, idx, slot)
			e.K = c.Entries[0].K
			idx++
			c.Entries = append(c.Entries, e)
		}
		addAllowed(nAllowed())
	case "mixture":
		n := 2 + r.Intn(7)
		switch r.Intn(10) {
		case 0, 1, 2: // transfer-agent combination
			add(tmplByName(unsafeTemplates, "lfs.standalonetransferagent"), slot).Val = "sent"
			e := add(tmplByName(unsafeTemplates, "lfs.customtransfer.<n>.path"), slot)
			e.K.Sub = "customtransfer.sent"
			n -= 2
		case 3, 4: // filter extension without the (separately recorded) priority key
			e := add(tmplByName(unsafeTemplates, "lfs.extension.<n>.clean"), slot)
			e.K.Sub = "extension.sent"
			e = add(tmplByName(unsafeTemplates, "lfs.extension.<n>.smudge"), slot)
			e.K.Sub = "extension.sent"
			n -= 2
		}
		for j := 0; j < n; j++ {
			t := g.randUnsafe(r, c.KnownFamily == "" && r.Intn(3) == 0)
			if t.Known != "" {
				c.KnownFamily = t.Known
			}
			add(t, slot)
		}
		addAllowed(nAllowed())
	case "precedence":
		na := 1 + r.Intn(3)
		for j := 0; j < na; j++ {
			add(allowedTemplates[r.Intn(len(allowedTemplates))], slot)
		}
		nover := 0
		for j := range c.Entries {
			if j == 0 || r.Intn(3) > 0 {
				e := c.Entries[j]
				vals := gitcfgValues[e.Name]
				c.GitCfg = append(c.GitCfg, gentry{Scope: []string{"local", "global", "env"}[r.Intn(3)], K: e.K, Val: vals[r.Intn(len(vals))], OKind: "other"})
				nover++
			}
		}
		if r.Intn(2) == 0 {
			add(g.randUnsafe(r, false), slot)
		}
	case "control":
		addAllowed(1 + r.Intn(3))
	}
	// user's own git configuration may also carry keys that are unsafe in .lfsconfig: legitimate there
	if c.Kind != "precedence" && r.Intn(8) == 0 {
		c.GitCfg = append(c.GitCfg, gentry{Scope: "local", K: ckey{Sec: "lfs", Key: "concurrenttransfers"}, Val: "2"})
	}
	// a remote name with a dot in it makes a 4-part key: that is the (separately recorded) dotted-name family
	vi := variants[c.Variant]
	for j := range c.Entries {
		e := &c.Entries[j]
		if e.K.Sec != "remote" || !e.K.HasSub || e.Allowed {
			continue
		}
		sub := strings.NewReplacer("@R1@", vi.R1, "@R2@", vi.R2).Replace(e.K.Sub)
		if !strings.Contains(sub, ".") {
			continue
		}
		if c.KnownFamily == "" || c.KnownFamily == "remote-dotted" {
			e.Name, e.Known, c.KnownFamily = "remote.<dotted-name>.<non-lfsurl>", "remote-dotted", "remote-dotted"
		} else {
			e.K.Sub = "evil"
		}
	}
	r.Shuffle(len(c.Entries), func(a, b int) { c.Entries[a], c.Entries[b] = c.Entries[b], c.Entries[a] })
	// duplicates of an allow-listed key: the last one wins in both twins
	if r.Intn(6) == 0 {
		for _, e := range c.Entries {
			if e.Allowed {
				t := tmplByName(allowedTemplates, e.Name)
				d := g.mkEntry(r, t, idx, slot)
				d.K = e.K
				idx++
				c.Entries = append(c.Entries, d)
				break
			}
		}
	}
	// decoys in the locations that are NOT consulted
	var others []string
	switch c.Loc {
	case "worktree":
		others = []string{"index", "head"}
	case "index":
		others = []string{"head"}
	}
	for _, o := range others {
		if r.Intn(3) != 0 {
			continue
		}
		d := add(tmplByName(allowedTemplates, "lfs.url"), o)
		d.Val = "http://@HOST@/@TAG@/decoy-" + o
		d.Decoy = true
		if r.Intn(5) < 2 {
			names := []string{"core.askpass", "lfs.standalonetransferagent", "http.proxy", "lfs.extension.<n>.clean", "url.<base>.insteadof", "lfs.storage", "core.sshcommand"}
			d := add(tmplByName(unsafeTemplates, names[r.Intn(len(names))]), o)
			d.Decoy = true
		}
	}
	// which allow-listed entries does the user's git configuration override?
	for j := range c.Entries {
		e := &c.Entries[j]
		for _, ge := range c.GitCfg {
			if e.Allowed && ge.K == e.K {
				e.Overridden = true
			}
		}
	}
	return c
}

// ---------------------------------------------------------------- override cases
//
// Precedence clause, stratified: every allow-listed key x kind of the value the
// user's Git configuration holds x place that setting lives in. Case j of the
// block takes the j-th (kind, where) pair of a seeded permutation of the 25
// pairs and walks the keys so that 10 consecutive blocks of 25 visit every
// triple once.

var overrideKinds = []string{"other", "empty", "blank", "same", "boolalt"}
var overrideWheres = []string{"local", "global", "cmdline", "env", "include"}
var boolKeys = map[string]bool{"lfs.locksverify": true, "lfs.skipdownloaderrors": true, "lfs.allowincompletepush": true}
var boolSpellings = []string{"yes", "on", "1", "True", "TRUE", "no", "off", "0", "False", "FALSE"}

// overrideValue draws what the user's Git configuration holds for a key that .lfsconfig sets to e.Val.
func overrideValue(r *rand.Rand, e entry, kind, where string) (string, string) {
	switch kind {
	case "empty":
		return "", kind
	case "blank": // Git keeps such a value when it is quoted in a file, and verbatim after -c key= / in GIT_CONFIG_VALUE_n
		return []string{"  ", " ", " \t"}[r.Intn(3)], kind
	case "same":
		return e.Val, kind
	case "valueless": // `key` without "= value" is Git's third spelling of true
		return "", kind
	case "boolalt":
		if !boolKeys[e.Name] { // not a boolean: the rarest kind instead
			return "", "empty"
		}
		for {
			if v := boolSpellings[r.Intn(len(boolSpellings))]; v != e.Val {
				return v, kind
			}
		}
	}
	vals := gitcfgValues[e.Name]
	return vals[r.Intn(len(vals))], "other"
}

func boolTemplates() []tmpl {
	var out []tmpl
	for _, t := range allowedTemplates {
		if boolKeys[t.Name] {
			out = append(out, t)
		}
	}
	return out
}

func (g *generator) genOverrideCase(i, j int) kase {
	r := rand.New(rand.NewSource(g.seed*1000003 + int64(i)))
	c := kase{Idx: i, Noise: r.Int63(), Kind: "override", Light: true, Missing: true}
	c.Loc = []string{"worktree", "worktree", "index", "head", "bare"}[r.Intn(5)]
	c.Variant = pickVariant(r)
	c.TrackBranch = r.Intn(6) == 0
	c.OneShot = r.Intn(2) == 0
	c.Creds = r.Intn(5) != 0
	if j%8 == 7 { // now and then the whole command set
		c.Light = false
	}
	slot := c.Loc
	if slot == "bare" {
		slot = "head"
	}
	nk := len(allowedTemplates)
	pair := g.pairPerm[j%25]
	kind, where := overrideKinds[pair/5], overrideWheres[pair%5]
	t := allowedTemplates[(g.keyOff[j%25]+j/25)%nk]
	if kind == "boolalt" { // only the boolean keys have other spellings: walk those
		b := j / 25
		t = boolTemplates()[(g.keyOff[j%25]+b+b/3)%3]
		// the valueless spelling at a fixed place of every block (GIT_CONFIG_VALUE_n cannot express it);
		// over 9 blocks every (boolean key, where) pair gets it once
		if where != "env" && (b+pair%5)%3 == 0 {
			kind = "valueless"
		}
	}
	switch t.Name {
	case "lfs.gitprotocol": // read for git:// remotes only
		c.Variant = "gitproto-origin"
	default:
		if c.Variant == "gitproto-origin" { // that layout runs no network command
			c.Variant = "origin"
		}
	}
	idx := 0
	over := func(t tmpl, kind, where string) {
		e := g.mkEntry(r, t, idx, slot)
		idx++
		if t.Name == "lfs.<url>.access" && r.Intn(3) > 0 { // mostly the subsection that matches the endpoint in use
			e.K.Sub = "@EP1@"
		}
		v, k := overrideValue(r, e, kind, where)
		ge := gentry{Scope: where, K: e.K, Val: v, OKind: k}
		if where == "include" {
			ge.IncFrom = []string{"global", "local"}[r.Intn(2)]
		}
		c.Entries = append(c.Entries, e)
		c.GitCfg = append(c.GitCfg, ge)
	}
	over(t, kind, where)
	// up to two more overridden keys, each with a kind and a place of its own (never next to the valueless
	// spelling, which has a signature of its own; never lfs.url / lfs.gitprotocol, which would hide or need
	// the primary key's effect). A difference is minimised entry by entry before it gets its signature.
	if c.GitCfg[0].OKind != "valueless" {
		used := map[string]bool{t.Name: true, "lfs.url": true, "lfs.gitprotocol": true}
		for n := r.Intn(3); n > 0; {
			t2 := allowedTemplates[r.Intn(nk)]
			if used[t2.Name] {
				continue
			}
			used[t2.Name] = true
			n--
			k2 := overrideKinds[r.Intn(len(overrideKinds))] // boolalt on a non-boolean key becomes "empty"
			over(t2, k2, overrideWheres[r.Intn(len(overrideWheres))])
		}
	}
	// and sometimes an allow-listed key the user does not set
	if r.Intn(3) == 0 {
		for {
			t3 := allowedTemplates[r.Intn(nk)]
			dup := false
			for _, e := range c.Entries {
				if e.Name == t3.Name {
					dup = true
				}
			}
			if !dup {
				e := g.mkEntry(r, t3, idx, slot)
				idx++
				c.Entries = append(c.Entries, e)
				break
			}
		}
	}
	for j := range c.Entries {
		e := &c.Entries[j]
		for _, ge := range c.GitCfg {
			if e.Allowed && ge.K == e.K {
				e.Overridden = true
			}
		}
	}
	return c
}

// ---------------------------------------------------------------- confusion cases
//
// One key per case from confusionTemplates (visited round-robin from a seeded start), sometimes next to an
// allow-listed lfs.url (the repository also names the server). Nothing unsafe in the user's configuration.

func (g *generator) genConfusionCase(i, j int) kase {
	r := rand.New(rand.NewSource(g.seed*1000003 + int64(i)))
	c := kase{Idx: i, Noise: r.Int63(), Kind: "confusion", Light: true}
	c.Loc = []string{"worktree", "worktree", "index", "head", "bare"}[r.Intn(5)]
	for c.Variant = pickVariant(r); c.Variant == "gitproto-origin"; { // that layout runs no network command
		c.Variant = pickVariant(r)
	}
	c.OneShot = r.Intn(2) == 0
	c.Creds = r.Intn(5) != 0
	slot := c.Loc
	if slot == "bare" {
		slot = "head"
	}
	t := confusionTemplates[(int(g.seed%7+7)+j)%len(confusionTemplates)]
	c.Entries = append(c.Entries, g.mkEntry(r, t, 0, slot))
	if r.Intn(3) == 0 {
		c.Entries = append(c.Entries, g.mkEntry(r, tmplByName(allowedTemplates, "lfs.url"), 1, slot))
	}
	if r.Intn(2) == 0 {
		c.Entries[0], c.Entries[len(c.Entries)-1] = c.Entries[len(c.Entries)-1], c.Entries[0]
	}
	return c
}

// ---------------------------------------------------------------- extension-priority cases
//
// Precedence clause on derived state: the user's own Git configuration fully defines 1-3 filter extensions
// (clean and smudge commands that exist, distinct priorities, 0 among them in two cases of three) and .lfsconfig
// sets another priority for one of these names. git-lfs folds all sources into one Extension record per name,
// so "the Git value wins" must hold for the record, not only for the raw key. Same differential oracle: the
// reference twin's .lfsconfig lacks the key. In one case of six the user gives the target no priority at all:
// that is the recorded documentation gap (priority is honoured from .lfsconfig) and keeps its trigger.

var extNames = []string{"alpha", "beta", "gamma"}

func extKey(name, key string) ckey {
	return ckey{Sec: "lfs", HasSub: true, Sub: "extension." + name, Key: key}
}

func (g *generator) genExtPrioCase(i, j int) kase {
	r := rand.New(rand.NewSource(g.seed*1000003 + int64(i)))
	c := kase{Idx: i, Noise: r.Int63(), Kind: "extprio", ExtCmds: true}
	c.Loc = []string{"worktree", "index", "head"}[(j+j/3+int(g.seed%3+3))%3]
	c.Variant = "origin"
	c.Creds = true
	where := overrideWheres[(j/3+int(g.seed%5+5))%len(overrideWheres)]
	incFrom := []string{"global", "local"}[r.Intn(2)]
	n := 1 + r.Intn(3)
	names := append([]string{}, extNames...)
	r.Shuffle(len(names), func(a, b int) { names[a], names[b] = names[b], names[a] })
	names = names[:n]
	prios := r.Perm(4)[:n] // distinct, from 0..3
	target := 0
	gap := j%6 == 5
	switch {
	case gap: // the target gets no priority (= 0): keep 0 free
		for k := range prios {
			if prios[k] == 0 {
				prios[k] = 4
			}
		}
	case j%3 != 2: // the target's own priority is 0
		for k := range prios {
			if prios[k] == 0 {
				prios[k] = prios[target]
			}
		}
		prios[target] = 0
	default: // ... is positive
		if prios[target] == 0 {
			prios[target] = 4
		}
	}
	for k, nm := range names {
		prog := "@ROOT@/bin/ext-" + nm
		add := func(key, val, kind string) {
			c.GitCfg = append(c.GitCfg, gentry{Scope: where, K: extKey(nm, key), Val: val, OKind: kind, IncFrom: incFrom})
		}
		add("clean", prog+" clean %f", "")
		add("smudge", prog+" smudge %f", "")
		if k == target && gap {
			continue
		}
		kind := ""
		if k == target {
			kind = "prioN"
			if prios[k] == 0 {
				kind = "prio0"
			}
		}
		add("priority", fmt.Sprint(prios[k]), kind)
	}
	// what .lfsconfig says for the target: a priority no extension of the user has
	vals := []string{"5", "6", "9"}
	zeroFree := true
	for k := range prios {
		if prios[k] == 0 && !(gap && k == target) {
			zeroFree = false
		}
	}
	if zeroFree && !gap {
		vals = append(vals, "0")
	}
	t := tmplByName(unsafeTemplates, "lfs.extension.<n>.priority")
	slot := c.Loc
	e := g.mkEntry(r, t, 0, slot)
	e.K = extKey(names[target], "priority")
	e.Val = vals[r.Intn(len(vals))]
	e.Sp.Dotted = false // extension names keep their case only in the quoted form
	if gap {
		c.KnownFamily = e.Known
	} else {
		e.Known = ""
		e.Overridden = true
	}
	c.Entries = append(c.Entries, e)
	if r.Intn(3) == 0 { // an allow-listed key the user does not set
		c.Entries = append(c.Entries, g.mkEntry(r, tmplByName(allowedTemplates, "lfs.fetchexclude"), 1, slot))
	}
	return c
}

func (c kase) class() string {
	switch c.Kind {
	case "confusion":
		for _, e := range c.Entries {
			if e.Name != "lfs.url" {
				return fmt.Sprintf("confusion/%s/%s.%s.%s", c.Loc, e.K.Sec, e.K.Sub, e.K.Key)
			}
		}
	case "extprio":
		user := "unset"
		where := ""
		n := 0
		for _, g := range c.GitCfg {
			where = g.Scope
			if g.K.Key == "clean" {
				n++
			}
		}
		for _, e := range c.Entries {
			if e.K.Key == "priority" {
				for _, g := range c.GitCfg {
					if g.K == e.K {
						user = g.OKind
					}
				}
				return fmt.Sprintf("extprio/%s/%s/user=%s/lfsconfig=%s/exts=%d", c.Loc, where, user, e.Val, n)
			}
		}
	case "single":
		for _, e := range c.Entries {
			if !e.Allowed && !e.Decoy {
				return fmt.Sprintf("single/%s/%s", c.Loc, e.Name)
			}
		}
	case "mixture":
		n := 0
		for _, e := range c.Entries {
			if !e.Allowed {
				n++
			}
		}
		k := c.KnownFamily
		if k == "" {
			k = "-"
		}
		return fmt.Sprintf("mixture/%s/%s/unsafe=%d/known=%s", c.Loc, c.Variant, n, k)
	case "precedence":
		var names []string
		for _, e := range c.Entries {
			if e.Overridden {
				names = append(names, e.Name)
			}
		}
		sc := ""
		if len(c.GitCfg) > 0 {
			sc = c.GitCfg[0].Scope
		}
		return fmt.Sprintf("precedence/%s/%s/%s", c.Loc, sc, strings.Join(uniq(names), "+"))
	case "override":
		if len(c.GitCfg) > 0 {
			g := c.GitCfg[0]
			for _, e := range c.Entries {
				if e.K == g.K {
					return fmt.Sprintf("override-%s/%s/%s", g.OKind, e.Name, g.Scope)
				}
			}
		}
	}
	return fmt.Sprintf("%s/%s/%s", c.Kind, c.Loc, c.Variant)
}

func uniq(in []string) []string {
	seen := map[string]bool{}
	var out []string
	for _, s := range in {
		if !seen[s] {
			seen[s] = true
			out = append(out, s)
		}
	}
	return out
}

// filterDoc is the reference restriction of a case's entries: what the statement says may take effect.
// An entry survives iff the documented list allows its key and the user's git configuration does not set the same key.
func filterDoc(entries []entry) []entry {
	var out []entry
	for _, e := range entries {
		if e.Allowed && !e.Overridden {
			out = append(out, e)
		}
	}
	return out
}

func slotEntries(entries []entry, slot string) []entry {
	var out []entry
	for _, e := range entries {
		if e.Slot == slot {
			out = append(out, e)
		}
	}
	return out
}
