package main

// Fake LFS endpoint + sentinel proxy, both inside the driver. Every URL the
// driver hands out has the form http://HOST/<tag>/<role>/..., so each request
// is attributed to one twin (tag) and one role (which configuration value led
// there).

import (
	"encoding/base64"
	"encoding/json"
	"fmt"
	"io"
	"net"
	"net/http"
	"sort"
	"strings"
	"sync"
)

type server struct {
	Host  string // host:port of the LFS listener
	PHost string // host:port of the sentinel proxy
	mu    sync.Mutex
	logs  map[string][]string // tag -> contact lines
	objs  map[string][]byte   // oid -> content
	total int64
	stray []string
}

var standardTransfers = map[string]bool{"basic": true, "lfs-standalone-file": true, "ssh": true, "tus": true}

func pickHostIP() string {
	ifs, _ := net.InterfaceAddrs()
	for _, a := range ifs {
		if ipn, ok := a.(*net.IPNet); ok {
			ip := ipn.IP.To4()
			if ip != nil && !ip.IsLoopback() && !ip.IsLinkLocalUnicast() {
				// must be bindable and connectable
				l, err := net.Listen("tcp", ip.String()+":0")
				if err == nil {
					l.Close()
					return ip.String()
				}
			}
		}
	}
	return "127.0.0.1"
}

func startServer() (*server, error) {
	s := &server{logs: map[string][]string{}, objs: map[string][]byte{}}
	ip := pickHostIP()
	l1, err := net.Listen("tcp", ip+":0")
	if err != nil {
		return nil, err
	}
	l2, err := net.Listen("tcp", ip+":0")
	if err != nil {
		return nil, err
	}
	s.Host = l1.Addr().String()
	s.PHost = l2.Addr().String()
	go http.Serve(l1, http.HandlerFunc(s.handleLFS))
	go http.Serve(l2, http.HandlerFunc(s.handleProxy))
	return s, nil
}

func (s *server) record(tag, line string) {
	s.mu.Lock()
	s.total++
	if tag == "" {
		if len(s.stray) < 20 {
			s.stray = append(s.stray, line)
		}
	} else {
		s.logs[tag] = append(s.logs[tag], line)
	}
	s.mu.Unlock()
}

// take returns the set of distinct contact lines of a tag and forgets them.
func (s *server) take(tag string) []string {
	s.mu.Lock()
	l := s.logs[tag]
	delete(s.logs, tag)
	s.mu.Unlock()
	l = uniq(l)
	sort.Strings(l)
	return l
}

func splitTag(path string) (tag, role, rest string) {
	p := strings.SplitN(strings.TrimPrefix(path, "/"), "/", 3)
	if len(p) < 2 || !strings.HasPrefix(p[0], "T-") {
		return "", "", path
	}
	tag, role = p[0], p[1]
	if len(p) == 3 {
		rest = p[2]
	}
	return
}

func (s *server) handleProxy(w http.ResponseWriter, r *http.Request) {
	// a request arriving here means an http proxy setting took effect
	who := "?"
	if pa := r.Header.Get("Proxy-Authorization"); strings.HasPrefix(pa, "Basic ") {
		if b, err := base64.StdEncoding.DecodeString(pa[6:]); err == nil {
			who = strings.TrimSuffix(string(b), ":")
		}
	}
	target := r.URL.Path
	if r.Method == http.MethodConnect {
		target = r.Host
	}
	tag, role, rest := splitTag(target)
	s.record(tag, fmt.Sprintf("PROXY[%s] %s role=%s %s", who, r.Method, role, rest))
	http.Error(w, "sentinel proxy", http.StatusBadGateway)
}

func (s *server) handleLFS(w http.ResponseWriter, r *http.Request) {
	tag, role, rest := splitTag(r.URL.Path)
	body, _ := io.ReadAll(io.LimitReader(r.Body, 1<<20))
	auth := r.Header.Get("Authorization") != ""
	xs := r.Header.Get("X-Sentinel")
	extra := ""
	var breq struct {
		Operation string   `json:"operation"`
		Transfers []string `json:"transfers"`
		Objects   []struct {
			Oid  string `json:"oid"`
			Size int64  `json:"size"`
		} `json:"objects"`
	}
	isBatch := r.Method == "POST" && strings.HasSuffix(rest, "objects/batch")
	if isBatch {
		json.Unmarshal(body, &breq)
		tr := append([]string{}, breq.Transfers...)
		sort.Strings(tr)
		var oids []string
		for _, o := range breq.Objects {
			oids = append(oids, o.Oid[:min(8, len(o.Oid))])
		}
		sort.Strings(oids)
		extra = fmt.Sprintf(" op=%s transfers=%s oids=%s", breq.Operation, strings.Join(tr, ","), strings.Join(oids, ","))
	}
	line := fmt.Sprintf("%s role=%s %s auth=%v", r.Method, role, rest, auth)
	if xs != "" {
		line += " x-sentinel=" + xs
	}
	s.record(tag, line+extra)

	if strings.HasSuffix(role, "-auth") && !auth && !strings.HasPrefix(rest, "store/") { // API needs credentials; action hrefs are pre-authenticated
		w.Header().Set("Www-Authenticate", `Basic realm="verif"`)
		w.Header().Set("Lfs-Authenticate", `Basic realm="verif"`)
		w.Header().Set("Content-Type", "application/vnd.git-lfs+json")
		w.WriteHeader(401)
		w.Write([]byte(`{"message":"auth required"}`))
		return
	}
	switch {
	case isBatch:
		chosen := "basic"
		for _, t := range breq.Transfers {
			if !standardTransfers[t] {
				chosen = t // hostile server: selects whatever custom agent the client offers
			}
		}
		type action struct {
			Href string `json:"href"`
		}
		type obj struct {
			Oid           string            `json:"oid"`
			Size          int64             `json:"size"`
			Authenticated bool              `json:"authenticated,omitempty"`
			Actions       map[string]action `json:"actions,omitempty"`
			Error         *struct {
				Code    int    `json:"code"`
				Message string `json:"message"`
			} `json:"error,omitempty"`
		}
		resp := struct {
			Transfer string `json:"transfer"`
			Objects  []obj  `json:"objects"`
		}{Transfer: chosen, Objects: []obj{}}
		for _, o := range breq.Objects {
			ob := obj{Oid: o.Oid, Size: o.Size, Authenticated: true}
			if breq.Operation == "download" {
				s.mu.Lock()
				_, have := s.objs[o.Oid]
				s.mu.Unlock()
				if have {
					ob.Actions = map[string]action{"download": {Href: fmt.Sprintf("http://%s/%s/%s/store/%s", s.Host, tag, role, o.Oid)}}
				} else {
					ob.Error = &struct {
						Code    int    `json:"code"`
						Message string `json:"message"`
					}{404, "object not found"}
				}
			}
			// upload: no actions = the server already has the object; it asks for the ones it has never heard of
			// (only the "exists nowhere" object of the override cases)
			if breq.Operation == "upload" {
				s.mu.Lock()
				_, have := s.objs[o.Oid]
				s.mu.Unlock()
				if !have {
					ob.Actions = map[string]action{"upload": {Href: fmt.Sprintf("http://%s/%s/%s/store/%s", s.Host, tag, role, o.Oid)}}
				}
			}
			resp.Objects = append(resp.Objects, ob)
		}
		w.Header().Set("Content-Type", "application/vnd.git-lfs+json")
		json.NewEncoder(w).Encode(resp)
	case r.Method == "GET" && strings.HasPrefix(rest, "store/"):
		s.mu.Lock()
		b, ok := s.objs[strings.TrimPrefix(rest, "store/")]
		s.mu.Unlock()
		if !ok {
			http.NotFound(w, r)
			return
		}
		w.Header().Set("Content-Type", "application/octet-stream")
		w.Write(b)
	case r.Method == "PUT" && strings.HasPrefix(rest, "store/"):
		w.WriteHeader(200) // recorded above, not stored: the twins must see the same server
	case r.Method == "POST" && strings.HasSuffix(rest, "locks/verify"):
		w.Header().Set("Content-Type", "application/vnd.git-lfs+json")
		w.Write([]byte(`{"ours":[],"theirs":[]}`))
	case r.Method == "GET" && strings.HasSuffix(strings.SplitN(rest, "?", 2)[0], "locks"):
		w.Header().Set("Content-Type", "application/vnd.git-lfs+json")
		w.Write([]byte(`{"locks":[]}`))
	default:
		w.Header().Set("Content-Type", "application/vnd.git-lfs+json")
		w.WriteHeader(404)
		w.Write([]byte(`{"message":"not found"}`))
	}
}
