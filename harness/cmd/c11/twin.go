package main

import (
	"bytes"
	"fmt"
	"os"
	"path/filepath"
	"regexp"
	"sort"
	"strings"
	"time"

	"verif/harness/sbx"
)

var (
	objA   = bytes.Repeat([]byte("verif C11 object A\n"), 40)
	objB   = bytes.Repeat([]byte("verif C11 object B, present in the local store\n"), 30)
	objNew = bytes.Repeat([]byte("verif C11 new file cleaned by the filter\n"), 25)
	// exists neither locally nor at the endpoint (override cases only)
	objGone = bytes.Repeat([]byte("verif C11 object that exists nowhere\n"), 20)
)

func pointerText(b []byte) string {
	return fmt.Sprintf("version https://git-lfs.github.com/spec/v1\noid sha256:%s\nsize %d\n", sbx.Sha256Hex(b), len(b))
}

type cmdObs struct {
	Label string `json:"cmd"`
	Code  int    `json:"exit"`
	Out   string `json:"stdout"`
	Err   string `json:"stderr,omitempty"`
}

type obs struct {
	Cmds     []cmdObs          `json:"commands"`
	Contacts []string          `json:"contacts"`
	Sentinel []string          `json:"sentinel_log"`
	SSH      []string          `json:"ssh_log"`
	State    []string          `json:"state"`
	Crash    []string          `json:"go_crash,omitempty"`
	TimedOut bool              `json:"timed_out,omitempty"`
	Files    map[string]string `json:"lfsconfig_text"`
	GenErr   string            `json:"generator_selfcheck_error,omitempty"`
	// number of the user's Git settings Git itself was asked to read back
	GitCfgChecked int `json:"gitconfig_selfchecked,omitempty"`
}

type twin struct {
	c     kase
	env   *sbx.Env
	s     subst
	dir   string // repository the commands run in
	roots []string
	o     *obs
	extra []string
	gitc  []string // `-c key=value` options every git command of the twin carries (user's one-shot settings)
	stdin []byte   // input of the next command only
}

func slotPresent(c kase, slot string) bool {
	loc := c.Loc
	if loc == "bare" {
		loc = "head"
	}
	if slot == loc {
		return true
	}
	for _, e := range c.Entries {
		if e.Slot == slot {
			return true
		}
	}
	return false
}

var rateRE = regexp.MustCompile(`[0-9.]+ [KMGT]?B/s`)

// progress meter lines are printed or not depending on timer ticks; what they report is observed through requests and final state
var progressRE = regexp.MustCompile(`(?m)^(Uploading|Downloading|Checking out) LFS objects:.*\n?`)

func (t *twin) norm(b []byte) string {
	s := string(b)
	for _, r := range t.roots {
		s = strings.ReplaceAll(s, r, "$ROOT")
	}
	s = strings.ReplaceAll(s, t.s.Tag, "T-X")
	s = rateRE.ReplaceAllString(s, "N B/s")
	s = progressRE.ReplaceAllString(s, "")
	return s
}

func (t *twin) run(label string, sortLines bool, dropLines string, name string, args ...string) sbx.Result {
	if name == "git" && len(t.gitc) > 0 {
		args = append(append([]string{}, t.gitc...), args...)
	}
	full := append([]string{"-u", "GIT_ASKPASS", "-u", "SSH_ASKPASS", name}, args...)
	opt := sbx.RunOpt{Dir: t.dir, Env: t.extra}
	if t.stdin != nil {
		opt.Stdin = bytes.NewReader(t.stdin)
		t.stdin = nil
	}
	res := t.env.Run(opt, "env", full...)
	out := t.norm(res.Stdout)
	if dropLines != "" || sortLines {
		var keep []string
		for _, l := range strings.Split(out, "\n") {
			if dropLines != "" && strings.Contains(l, dropLines) {
				continue
			}
			keep = append(keep, l)
		}
		if sortLines {
			sort.Strings(keep)
		}
		out = strings.Join(keep, "\n")
	}
	t.o.Cmds = append(t.o.Cmds, cmdObs{Label: label, Code: res.Code, Out: out, Err: sbx.Trunc([]byte(t.norm(res.Stderr)), 1200)})
	if res.GoCrash() {
		t.o.Crash = append(t.o.Crash, label+": "+sbx.Trunc(res.Stderr, 1500))
	}
	if res.TimedOut {
		t.o.TimedOut = true
	}
	return res
}

func must(err error) {
	if err != nil {
		panic(err)
	}
}

func cfgQuote(v string) string { return `"` + escQuoted(v) + `"` }

func cfgBlock(k ckey, val string) string {
	h := "[" + k.Sec + "]"
	if k.HasSub {
		h = "[" + k.Sec + ` "` + strings.NewReplacer(`\`, `\\`, `"`, `\"`).Replace(k.Sub) + `"]`
	}
	return h + "\n\t" + k.Key + " = " + cfgQuote(val) + "\n"
}

// cfgBlockValueless: `key` alone on its line, which Git reads as boolean true.
func cfgBlockValueless(k ckey) string {
	b := cfgBlock(k, "")
	return b[:strings.LastIndex(b, " = ")] + "\n"
}

// runTwin materialises the case with the given entries and runs the command set.
func runTwin(c kase, entries []entry, srv *server) *obs {
	env := sbx.New()
	defer env.Cleanup()
	env.Timeout = 3 * time.Minute
	t := &twin{c: c, env: env, o: &obs{Files: map[string]string{}}}
	t.s = subst{Root: env.Root, Tag: "T-" + filepath.Base(env.Root), Host: srv.Host, PHost: srv.PHost, V: variants[c.Variant]}
	t.roots = []string{env.Root}
	if rp, err := filepath.EvalSymlinks(env.Root); err == nil && rp != env.Root {
		t.roots = append([]string{rp}, t.roots...)
	}
	root := env.Root
	// sentinel programs: one per entry of the CASE, so that both twins have the same layout
	must(os.MkdirAll(filepath.Join(root, "sentinel"), 0o755))
	for _, e := range c.Entries {
		sc := fmt.Sprintf("#!/bin/sh\necho \"s%d $*\" >> '%s/sentinel.log'\necho sentinel-output\nexit 0\n", e.Idx, root)
		must(os.WriteFile(filepath.Join(root, "sentinel", fmt.Sprintf("s%d", e.Idx)), []byte(sc), 0o755))
	}
	// the ssh the user has on PATH (legitimate): answers git-lfs-authenticate, refuses git-lfs-transfer
	must(os.MkdirAll(filepath.Join(root, "bin"), 0o755))
	ssh := fmt.Sprintf(`#!/bin/sh
for a in "$@"; do last="$a"; done
echo "ssh: $last" >> '%s/ssh.log'
case "$last" in
  git-lfs-authenticate*) echo '{"href":"http://%s/%s/sshhref","header":{"X-Via":"ssh"}}'; exit 0;;
esac
exit 1
`, root, srv.Host, t.s.Tag)
	must(os.WriteFile(filepath.Join(root, "bin", "ssh"), []byte(ssh), 0o755))
	// filter extensions the user may have configured (extension-priority cases): each marks every line it sees
	for _, n := range extNames {
		sc := fmt.Sprintf("#!/bin/sh\nexec sed 's/^/%s:/'\n", n)
		must(os.WriteFile(filepath.Join(root, "bin", "ext-"+n), []byte(sc), 0o755))
	}
	t.extra = []string{"PATH=" + filepath.Join(root, "bin") + ":" + sbx.BinDir + ":/usr/local/bin:/usr/bin:/bin"}
	// files an include directive could name
	must(os.WriteFile(filepath.Join(root, "inc-abs.cfg"), []byte("[lfs]\n\turl = http://"+srv.Host+"/"+t.s.Tag+"/included-abs\n"), 0o644))

	// user's global configuration
	glob := ""
	if c.Creds {
		glob += "[credential]\n\thelper = store\n"
		must(os.WriteFile(filepath.Join(env.Home, ".git-credentials"), []byte("http://user:pass@"+srv.Host+"\n"), 0o600))
	}
	local := ""
	nenv := 0
	incText := map[string]string{} // file holding the [include] directive -> text of the included file
	wants := map[string]string{} // key -> record `git config -z -l` must print last for it
	wantRank := map[string]int{}
	for _, g := range c.GitCfg {
		k := g.K
		k.Sub = t.s.apply(k.Sub, 0)
		v := t.s.apply(g.Val, 0)
		valueless := g.OKind == "valueless"
		// the record Git prints LAST for a key is the one of the strongest place that sets it (global file, the
		// file it includes at its end, local file, the file that one includes at its end, GIT_CONFIG_KEY_n,
		// -c), and within one place the later one; not the one the generator happened to emit last
		rank := map[string]int{"global": 0, "include": 1, "local": 2, "env": 4, "cmdline": 5}[g.Scope]
		if g.Scope == "include" && g.IncFrom != "global" {
			rank = 3
		}
		if g.Scope != "global" && g.Scope != "include" && g.Scope != "env" && g.Scope != "cmdline" {
			rank = 2
		}
		if rank >= wantRank[k.String()] {
			wantRank[k.String()] = rank
			wants[k.String()] = k.String() + "\n" + v
			if valueless {
				wants[k.String()] = k.String()
			}
		}
		blk := cfgBlock(k, v)
		if valueless {
			blk = cfgBlockValueless(k)
		}
		switch g.Scope {
		case "global":
			glob += blk
		case "env":
			t.extra = append(t.extra, fmt.Sprintf("GIT_CONFIG_KEY_%d=%s", nenv, k.String()), fmt.Sprintf("GIT_CONFIG_VALUE_%d=%s", nenv, v))
			nenv++
		case "cmdline":
			if valueless {
				t.gitc = append(t.gitc, "-c", k.String())
			} else {
				t.gitc = append(t.gitc, "-c", k.String()+"="+v)
			}
		case "include":
			incText[g.IncFrom] += blk
		default:
			local += blk
		}
	}
	for from, txt := range incText {
		p := filepath.Join(root, "user-inc-"+from+".cfg")
		must(os.WriteFile(p, []byte(txt), 0o644))
		d := "[include]\n\tpath = " + cfgQuote(p) + "\n"
		if from == "global" {
			glob += d
		} else {
			local += d
		}
	}
	if nenv > 0 {
		t.extra = append(t.extra, fmt.Sprintf("GIT_CONFIG_COUNT=%d", nenv))
	}
	if glob != "" {
		f, err := os.OpenFile(filepath.Join(env.Home, ".gitconfig"), os.O_APPEND|os.O_WRONLY, 0o644)
		must(err)
		f.WriteString(glob)
		f.Close()
	}
	for _, rm := range t.s.V.Remotes {
		local += fmt.Sprintf("[remote \"%s\"]\n\turl = %s\n\tfetch = +refs/heads/*:refs/remotes/%s/*\n", rm[0], t.s.apply(rm[1], 0), rm[0])
	}
	if c.TrackBranch {
		local += fmt.Sprintf("[branch \"main\"]\n\tremote = %s\n\tmerge = refs/heads/main\n", t.s.V.R1)
	}

	// the three places a .lfsconfig can live in
	text := map[string]string{}
	for _, slot := range []string{"head", "index", "worktree"} {
		if slotPresent(c, slot) {
			se := slotEntries(entries, slot)
			text[slot] = render(se, t.s, c.Noise+int64(len(slot)))
			t.o.Files[slot] = t.norm([]byte(text[slot]))
		}
	}

	work := env.InitRepo("repo")
	wr := func(name string, b []byte) { must(os.WriteFile(filepath.Join(work, name), b, 0o644)) }
	wr(".gitattributes", []byte("*.bin filter=lfs diff=lfs merge=lfs -text\n"))
	wr("a.bin", []byte(pointerText(objA)))
	wr("b.bin", []byte(pointerText(objB)))
	if c.Missing {
		wr("c.bin", []byte(pointerText(objGone)))
	}
	if h, ok := text["head"]; ok {
		wr(".lfsconfig", []byte(h))
	}
	env.MustPlainGit(work, "add", "-A")
	env.MustPlainGit(work, "commit", "-q", "-m", "init")
	gitDir := filepath.Join(work, ".git")
	bare := c.Loc == "bare"
	if bare {
		gitDir = env.InitBare("repo.git")
		env.MustPlainGit(work, "push", "-q", gitDir, "main")
		t.dir = gitDir
	} else {
		t.dir = work
		_, headHas := text["head"]
		if i, ok := text["index"]; ok {
			wr(".lfsconfig", []byte(i))
			env.MustPlainGit(work, "add", ".lfsconfig")
		} else if headHas {
			env.MustPlainGit(work, "rm", "-q", "--cached", ".lfsconfig")
		}
		if w, ok := text["worktree"]; ok {
			wr(".lfsconfig", []byte(w))
		} else {
			os.Remove(filepath.Join(work, ".lfsconfig"))
		}
		wr("inc.cfg", []byte("[lfs]\n\turl = http://"+srv.Host+"/"+t.s.Tag+"/included-rel\n"))
	}
	must(sbx.WriteReplace(sbx.ObjectPath(gitDir, sbx.Sha256Hex(objB)), objB, 0o644))
	f, err := os.OpenFile(filepath.Join(gitDir, "config"), os.O_APPEND|os.O_WRONLY, 0o644)
	must(err)
	f.WriteString(local)
	f.Close()

	// generator self-check: Git's own parser must read back exactly the intended keys and values
	for slot, txt := range text {
		if err := selfCheck(env, txt, expectKV(slotEntries(entries, slot), t.s)); err != nil {
			t.o.GenErr = fmt.Sprintf("slot %s: %v\n%s", slot, err, txt)
			return t.o
		}
	}

	// ... and Git itself must report the user's setting exactly as intended (last value of the key)
	if len(wants) > 0 {
		if err := t.gitCfgSelfCheck(wants); err != nil {
			t.o.GenErr = "git configuration: " + err.Error()
			return t.o
		}
		t.o.GitCfgChecked = len(wants)
	}

	v := t.s.V
	pushRemote := v.R1
	if (c.Variant == "origin+dotted" || c.Variant == "origin+other") && c.Noise%2 == 0 {
		pushRemote = v.R2
	}
	gitf := func(args ...string) []string {
		if c.OneShot {
			return append([]string{"-c", "filter.lfs.process="}, args...)
		}
		return args
	}
	if c.Variant == "gitproto-origin" {
		// git:// remote: only lfs.gitprotocol (allow-listed) is of interest and it is visible in env;
		// network commands would talk TLS / git protocol to the plain http listener and sit in retry loops
		t.run("env", true, "", "git", "lfs", "env")
		if !bare {
			t.run("ls-files", false, "", "git", "lfs", "ls-files")
			t.run("status", false, ".lfsconfig", "git", "lfs", "status")
		}
	} else if c.ExtCmds {
		t.run("env", true, "", "git", "lfs", "env")
		t.run("ext-list", false, "", "git", "lfs", "ext", "list")
		t.stdin = objNew
		t.run("clean", false, "", "git", "lfs", "clean", "--", "data.bin")
	} else if c.Light && bare {
		t.run("env", true, "", "git", "lfs", "env")
		t.run("fetch", false, "", "git", "lfs", "fetch", v.R1, "main")
		t.run("push", false, "", "git", "lfs", "push", pushRemote, "main")
	} else if c.Light {
		t.run("env", true, "", "git", "lfs", "env")
		t.run("fetch", false, "", "git", "lfs", "fetch")
		t.run("pull", false, "", "git", "lfs", "pull")
		t.run("push", false, "", "git", "lfs", "push", pushRemote, "main")
	} else if bare {
		t.run("env", true, "", "git", "lfs", "env")
		t.run("ls-files", false, "", "git", "lfs", "ls-files", "main")
		t.run("fetch", false, "", "git", "lfs", "fetch", v.R1, "main")
		t.run("push", false, "", "git", "lfs", "push", pushRemote, "main")
		t.run("locks", false, "", "git", "lfs", "locks")
	} else {
		t.run("env", true, "", "git", "lfs", "env")
		t.run("ls-files", false, "", "git", "lfs", "ls-files")
		t.run("status", false, ".lfsconfig", "git", "lfs", "status")
		t.run("fetch", false, "", "git", "lfs", "fetch")
		t.run("pull", false, "", "git", "lfs", "pull")
		wr("new.bin", objNew)
		t.run("add", false, "", "git", gitf("add", "new.bin")...)
		os.Remove(filepath.Join(work, "a.bin"))
		t.run("checkout", false, "", "git", gitf("checkout", "--", "a.bin")...)
		t.run("push-dry-run", false, "", "git", "lfs", "push", "--dry-run", pushRemote, "main")
		t.run("push", false, "", "git", "lfs", "push", pushRemote, "main")
		t.run("locks", false, "", "git", "lfs", "locks")
	}

	// final state
	if !bare {
		r := env.PlainGit(work, "ls-files", "-s", "--", "*.bin", ".gitattributes")
		for _, l := range strings.Split(strings.TrimSpace(string(r.Stdout)), "\n") {
			t.o.State = append(t.o.State, "index: "+l)
		}
		for _, n := range []string{"a.bin", "b.bin", "new.bin", "c.bin"} {
			if n == "c.bin" && !c.Missing {
				continue
			}
			h, sz, err := sbx.Sha256File(filepath.Join(work, n))
			if err != nil {
				t.o.State = append(t.o.State, "worktree: "+n+" missing")
			} else {
				t.o.State = append(t.o.State, fmt.Sprintf("worktree: %s sha256=%s size=%d", n, h[:12], sz))
			}
		}
		t.o.State = append(t.o.State, "repodir: "+strings.Join(lsNames(work), ","))
	}
	for rel, e := range sbx.SnapshotLFS(gitDir) {
		if strings.HasPrefix(rel, "objects/") {
			t.o.State = append(t.o.State, fmt.Sprintf("store: %s mode=%o", rel, e.Mode.Perm()))
		}
	}
	t.o.State = append(t.o.State, "rootdir: "+strings.Join(lsNames(root), ","))
	sort.Strings(t.o.State)
	t.o.Sentinel = readLines(filepath.Join(root, "sentinel.log"), t)
	t.o.SSH = uniq(readLines(filepath.Join(root, "ssh.log"), t))
	t.o.Contacts = srv.take(t.s.Tag)
	return t.o
}

func lsNames(d string) []string {
	es, _ := os.ReadDir(d)
	var n []string
	for _, e := range es {
		n = append(n, e.Name())
	}
	sort.Strings(n)
	return n
}

func readLines(p string, t *twin) []string {
	b, err := os.ReadFile(p)
	if err != nil {
		return nil
	}
	var out []string
	for _, l := range strings.Split(strings.TrimSpace(t.norm(b)), "\n") {
		if l != "" {
			out = append(out, l)
		}
	}
	return out
}

// gitCfgSelfCheck asks Git (same directory, environment and -c options as every command of the twin) for its
// whole configuration and compares the LAST record of every key the case sets with what the generator intended,
// including "kept blank" and "no value at all". .lfsconfig is not part of Git's configuration, so it cannot interfere.
func (t *twin) gitCfgSelfCheck(wants map[string]string) error {
	args := append(append([]string{"-u", "GIT_ASKPASS", "-u", "SSH_ASKPASS", "git"}, t.gitc...), "config", "-z", "-l")
	r := t.env.Run(sbx.RunOpt{Dir: t.dir, Env: t.extra}, "env", args...)
	if !r.OK() {
		return fmt.Errorf("git config -z -l failed: %s", r.Stderr)
	}
	last := map[string]string{}
	for _, rec := range strings.Split(string(r.Stdout), "\x00") {
		if rec != "" {
			last[strings.SplitN(rec, "\n", 2)[0]] = rec
		}
	}
	for key, want := range wants {
		if last[key] != want {
			return fmt.Errorf("key %s: git reads record %q, generator intended %q", key, last[key], want)
		}
	}
	return nil
}

// selfCheck parses the rendered text with `git config -z` (unambiguous, NUL separated) and compares.
func selfCheck(env *sbx.Env, text string, want [][2]string) error {
	p := filepath.Join(env.Root, "tmp", "selfcheck.cfg")
	if err := os.WriteFile(p, []byte(text), 0o644); err != nil {
		return err
	}
	defer os.Remove(p)
	if strings.TrimSpace(text) == "" && len(want) == 0 {
		return nil
	}
	r := env.Run(sbx.RunOpt{Dir: env.Root}, "git", "config", "--no-includes", "-z", "-l", "-f", p)
	if !r.OK() {
		return fmt.Errorf("git cannot parse the generated file: %s", r.Stderr)
	}
	var got [][2]string
	for _, rec := range strings.Split(string(r.Stdout), "\x00") {
		if rec == "" {
			continue
		}
		kv := strings.SplitN(rec, "\n", 2)
		if len(kv) == 1 {
			kv = append(kv, "")
		}
		got = append(got, [2]string{kv[0], kv[1]})
	}
	if len(got) != len(want) {
		return fmt.Errorf("git reads %d entries, generator intended %d: %q vs %q", len(got), len(want), got, want)
	}
	for i := range got {
		if got[i] != want[i] {
			return fmt.Errorf("entry %d: git reads %q, generator intended %q", i, got[i], want[i])
		}
	}
	return nil
}

// ---------------------------------------------------------------- comparison

func diffObs(a, b *obs) []string {
	var d []string
	for i := range a.Cmds {
		if i >= len(b.Cmds) {
			break
		}
		x, y := a.Cmds[i], b.Cmds[i]
		if x.Code != y.Code {
			d = append(d, fmt.Sprintf("%s: exit code %d vs %d (stderr with L: %s)", x.Label, x.Code, y.Code, sbx.Trunc([]byte(x.Err), 400)))
		}
		if x.Out != y.Out {
			d = append(d, fmt.Sprintf("%s: stdout differs: %s", x.Label, lineDiff(x.Out, y.Out)))
		}
	}
	if len(a.Cmds) != len(b.Cmds) {
		d = append(d, "different number of commands ran")
	}
	if s := setDiff(a.Contacts, b.Contacts); s != "" {
		d = append(d, "contacts differ: "+s)
	}
	if s := setDiff(a.State, b.State); s != "" {
		d = append(d, "final state differs: "+s)
	}
	if s := setDiff(a.SSH, b.SSH); s != "" {
		d = append(d, "ssh invocations differ: "+s)
	}
	if s := setDiff(a.Sentinel, b.Sentinel); s != "" {
		d = append(d, "sentinel log differs: "+s)
	}
	return d
}

func lineDiff(a, b string) string {
	return setDiff(strings.Split(a, "\n"), strings.Split(b, "\n"))
}

func setDiff(a, b []string) string {
	ma, mb := map[string]int{}, map[string]int{}
	for _, x := range a {
		ma[x]++
	}
	for _, x := range b {
		mb[x]++
	}
	var out []string
	for _, x := range a {
		if ma[x] != mb[x] {
			out = append(out, "with-L{"+x+"}")
			mb[x] = ma[x]
		}
	}
	for _, x := range b {
		if ma[x] != mb[x] {
			out = append(out, "with-filter_doc(L){"+x+"}")
			ma[x] = mb[x]
		}
	}
	if len(out) > 8 {
		out = append(out[:8], fmt.Sprintf("… %d more", len(out)-8))
	}
	return strings.Join(out, " ")
}
