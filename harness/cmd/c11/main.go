// C11 — a repository's .lfsconfig can only set the documented safe keys.
//
// Runtime monitor, differential + sentinels. For a generated .lfsconfig L the
// same command set is run in twin repositories, one holding L and one holding
// filter_doc(L): L restricted to the allow-list printed in
// docs/man/git-lfs-config.adoc (parsed by doc.go; no git-lfs code involved) and
// to the keys the user's own Git configuration does not set as well. The
// statement says exactly that both must behave alike. Observables: normalised
// stdout and exit code of every command (`git lfs env` first), the requests
// seen by the in-driver LFS endpoint / sentinel proxy, executions of sentinel
// programs named by configuration values, the final index / work tree / object
// store. A difference is minimised key by key before it gets a signature.
//
// Precedence clause ("a value also set in Git's own configuration always
// wins"): besides the random precedence cases a stratified block walks every
// allow-listed key x kind of the Git-side value {other non-empty value, empty
// string, whitespace only, the very value .lfsconfig holds, boolean spelled
// differently, boolean as a bare key} x place of the Git-side setting
// {.git/config, ~/.gitconfig, `git -c`, GIT_CONFIG_COUNT/KEY/VALUE, included
// file}. The oracle is the same differential: the twin whose .lfsconfig lacks
// the key holds the identical Git configuration, so whatever git-lfs makes of
// an empty/blank/odd value it must make of it in both twins; no defaulting
// rule of git-lfs is assumed. Git itself is asked (`git config -z -l`, same
// cwd/env/-c) to confirm it reads the setting as the generator intended.
//
// Derived state: git-lfs folds lfs.extension.<n>.* of all sources into one
// record per name, so the precedence block also holds cases in which the
// user's configuration defines the extensions completely and .lfsconfig names
// another priority for one of them (observed through env, ext list and the
// ext-N-name lines of clean). Allow-listed shapes that merely CONTAIN an unsafe
// key (remote.<lfs.customtransfer.n.path>.lfsurl ...) are kept by both twins;
// there the verdict comes from the execution marker of the sentinel program.
//
// Weakest reading taken: stderr is NOT compared (the warning listing ignored
// keys legitimately differs); a key outside the allow-list that changes nothing
// observable is fine.
package main

import (
	"encoding/json"
	"fmt"
	"os"
	"path/filepath"
	"regexp"
	"runtime"
	"sort"
	"strings"
	"sync"
	"time"

	"verif/harness/evid"
	"verif/harness/sbx"
)

type verdict struct {
	Sig    evid.Sig
	What   string
	Detail map[string]any
}

type evaluator struct {
	run *evid.Run
	srv *server
	gen *generator
}

var sentScriptRE = regexp.MustCompile(`^s(\d+)( |$)`)
var sentContactRE = regexp.MustCompile(`role=sentinel-(\d+)|PROXY\[s(\d+)\]|x-sentinel=s(\d+)`)

func entryByIdx(c kase, idx int) *entry {
	for i := range c.Entries {
		if c.Entries[i].Idx == idx {
			return &c.Entries[i]
		}
	}
	return nil
}

func atoi(s string) int {
	n := 0
	fmt.Sscanf(s, "%d", &n)
	return n
}

func without(entries []entry, idx int) []entry {
	var out []entry
	for _, e := range entries {
		if e.Idx != idx {
			out = append(out, e)
		}
	}
	return out
}

// evalCase runs one generated case and returns the violations it shows (nil = held).
func (ev *evaluator) evalCase(c kase) []verdict {
	run := ev.run
	all := c.Entries
	ref := filterDoc(all)
	a := runTwin(c, all, ev.srv)
	b := runTwin(c, ref, ev.srv)
	run.Count("twin_runs", 2)
	for _, o := range []*obs{a, b} {
		if o.GenErr != "" {
			fmt.Fprintf(os.Stderr, "generator self-check failed in case %d: %s\n", c.Idx, o.GenErr)
			sbx.RemoveBase()
			run.Infra("generator self-check failed in case %d: %s", c.Idx, o.GenErr)
		}
		run.Count("commands_run", int64(len(o.Cmds)))
		run.Count("requests_distinct_observed", int64(len(o.Contacts)))
		run.Count("generator_selfchecks_by_git_config_z", int64(len(o.Files)))
	}
	run.Count("env_outputs_compared", 1)
	run.Count("command_outputs_compared", int64(len(a.Cmds)))
	nSent, nOver := 0, 0
	for _, e := range all {
		if strings.Contains(e.Val+e.K.Sub, "sentinel") || strings.Contains(e.Val, "@PHOST@") || strings.Contains(e.Val, "X-Sentinel") {
			nSent++
		}
		if e.Overridden {
			nOver++
		}
	}
	run.Count("sentinel_checks", int64(nSent))
	run.Count("listener_checks", 1)
	run.Count("precedence_checks", int64(nOver))
	for _, g := range c.GitCfg {
		if g.OKind == "" {
			continue
		}
		run.Count("override_kind_"+g.OKind, 1)
		run.Count("override_where_"+g.Scope, 1)
		if c.Kind == "override" {
			run.Count("override_checks_stratified", 1)
		}
	}
	run.Count("gitconfig_settings_read_back_by_git", int64(a.GitCfgChecked+b.GitCfgChecked))
	if len(a.SSH) > 0 {
		run.Count("cases_with_ssh_invocation", 1)
	}
	for _, l := range a.Contacts {
		if strings.Contains(l, "auth=true") {
			run.Count("cases_with_authenticated_request", 1)
			break
		}
	}

	detail := func(extra map[string]any) map[string]any {
		d := map[string]any{"case": c, "with_L": a, "with_filter_doc_L": b}
		for k, v := range extra {
			d[k] = v
		}
		return d
	}
	var out []verdict
	for _, o := range []*obs{a, b} {
		for _, cr := range o.Crash {
			out = append(out, verdict{evid.Sig{Symptom: "go-panic", Trigger: "cmd=" + strings.SplitN(cr, ":", 2)[0]}, "git-lfs crashed: " + cr, detail(nil)})
		}
	}
	// (2) sentinels: direct attribution through the name of the script / role
	seen := map[string]bool{}
	for _, l := range a.Sentinel {
		if m := sentScriptRE.FindStringSubmatch(l); m != nil {
			if e := entryByIdx(c, atoi(m[1])); e != nil && !seen["x"+e.Name] {
				seen["x"+e.Name] = true
				out = append(out, verdict{evid.Sig{Symptom: "sentinel-executed", Trigger: "key=" + e.Name},
					fmt.Sprintf("a program named by %s in .lfsconfig (%s) was executed: %s", e.K, c.Loc, l), detail(nil)})
			}
		}
	}
	inB := map[string]bool{}
	for _, l := range b.Contacts {
		inB[l] = true
	}
	for _, l := range a.Contacts {
		if inB[l] {
			continue
		}
		if m := sentContactRE.FindStringSubmatch(l); m != nil {
			id := m[1] + m[2] + m[3]
			if e := entryByIdx(c, atoi(id)); e != nil && !e.Allowed && !seen["c"+e.Name] {
				seen["c"+e.Name] = true
				out = append(out, verdict{evid.Sig{Symptom: "sentinel-contacted", Trigger: "key=" + e.Name},
					fmt.Sprintf("a listener named only by %s in .lfsconfig (%s) was contacted: %s", e.K, c.Loc, l), detail(nil)})
			}
		}
	}
	// a transfer agent the user never configured is offered to the server (even if no program got as far as running)
	if c.Kind == "confusion" && len(out) == 0 {
		for _, l := range a.Contacts {
			if i := strings.Index(l, " transfers="); i >= 0 {
				for _, tr := range strings.Split(strings.Fields(l[i+1:])[0][len("transfers="):], ",") {
					if tr != "" && !standardTransfers[tr] && len(out) == 0 {
						e := c.Entries[0]
						for _, x := range c.Entries {
							if x.Name != "lfs.url" {
								e = x
							}
						}
						out = append(out, verdict{evid.Sig{Symptom: "custom-transfer-offered", Trigger: "key=" + e.Name},
							fmt.Sprintf("transfer agent %q, defined by nothing but %s in .lfsconfig (%s), is offered in a batch request: %s", tr, e.K, c.Loc, l), detail(nil)})
					}
				}
			}
		}
	}
	if c.Kind == "confusion" {
		run.Count("confusion_cases_marker_and_offer_checked", 1)
	}
	if c.Kind == "extprio" {
		run.Count("extension_priority_checks", 1)
	}
	if len(out) > 0 {
		return out
	}
	if a.TimedOut || b.TimedOut { // sentinel evidence above stands on its own; a comparison of truncated runs does not
		run.Inconclusive(fmt.Sprintf("case %d: watchdog fired", c.Idx))
		return nil
	}
	// (1)+(3) differential
	d := diffObs(a, b)
	if len(d) == 0 {
		return nil
	}
	// a difference must be reproducible, otherwise an observable is flaky (harness problem, not a verdict)
	b2 := runTwin(c, ref, ev.srv)
	a2 := runTwin(c, all, ev.srv)
	run.Count("twin_runs", 2)
	run.Count("confirmation_reruns", 2)
	if x := diffObs(b, b2); len(x) > 0 {
		run.Inconclusive(fmt.Sprintf("case %d: reference twin is not deterministic: %s", c.Idx, strings.Join(x, " | ")))
		return nil
	}
	if x := diffObs(a2, b); len(x) == 0 {
		run.Inconclusive(fmt.Sprintf("case %d: difference did not reproduce: %s", c.Idx, strings.Join(d, " | ")))
		return nil
	}
	// minimise: remove one removed-by-filter entry at a time while the difference persists
	cur := all
	var removed []entry
	for _, e := range all {
		if !(e.Allowed && !e.Overridden) {
			removed = append(removed, e)
		}
	}
	if len(removed) > 1 {
		for _, e := range removed {
			try := without(cur, e.Idx)
			o := runTwin(c, try, ev.srv)
			run.Count("twin_runs", 1)
			run.Count("minimisation_runs", 1)
			if o.TimedOut {
				continue
			}
			if len(diffObs(o, b)) > 0 {
				cur = try
			}
		}
	}
	var names, coords []string
	allOver := true
	var culprits []entry
	for _, e := range cur {
		if !(e.Allowed && !e.Overridden) {
			culprits = append(culprits, e)
			names = append(names, e.Name)
			if !e.Overridden {
				allOver = false
			}
			for _, g := range c.GitCfg {
				if g.K == e.K {
					coords = append(coords, g.coord(e.Name))
				}
			}
		}
	}
	names = uniq(names)
	sort.Strings(names)
	coords = uniq(coords)
	sort.Strings(coords)
	sym := "behaviour-differs"
	what := "behaviour with L differs from behaviour with filter_doc(L)"
	trigger := "key=" + strings.Join(names, "+")
	if allOver && len(culprits) > 0 {
		// the twins hold the same Git configuration and differ only in whether .lfsconfig also sets the key
		sym = "lfsconfig-wins-over-gitconfig"
		what = "a key set both in .lfsconfig and in git configuration: removing it from .lfsconfig changes behaviour"
		trigger = strings.Join(coords, "+")
	}
	var ck []string
	for _, e := range culprits {
		ck = append(ck, fmt.Sprintf("%s=%q", e.K, e.Val))
		for _, g := range c.GitCfg {
			if g.K == e.K {
				ck = append(ck, fmt.Sprintf("git configuration (%s, %s): %s=%q", g.Scope, g.OKind, g.K, g.Val))
			}
		}
	}
	return []verdict{{evid.Sig{Symptom: sym, Trigger: trigger},
		fmt.Sprintf("%s; location=%s variant=%s; minimal cause: %s; differences: %s", what, c.Loc, c.Variant, strings.Join(ck, ", "), strings.Join(d, " | ")),
		detail(map[string]any{"minimal_entries": culprits, "differences": d})}}
}

func main() {
	run := evid.New("C11", "exploration")
	run.Rule = "seeded generator of .lfsconfig files from a table of every key git-lfs/git reads (lfs.*, lfs.<url>.*, lfs.customtransfer.*, lfs.extension.*, remote.*, branch.*, credential.*, core.*, http.*, url.*, filter.*, ssh.*, include*) with random case, quoted/dotted section syntax, quoting, comments, continuation lines, duplicates; 50% of the cases hold exactly one key outside the documented allow-list (templates visited round-robin), 30% mixtures (minimised key by key on failure), 15% precedence cases (allow-listed key also set in local/global/environment git configuration), 5% controls; plus a stratified precedence block (one case per (kind of Git-side value in {other, empty, blank, same, boolalt|valueless}, place of the Git-side setting in {local, global, cmdline, env, include}) pair per 25 cases, keys walked so that 10 blocks visit every triple; 0-2 further overridden keys per case; command set env/fetch/pull/push with an object that exists nowhere so that lfs.skipdownloaderrors and lfs.allowincompletepush are observable); plus extension-priority cases (the user's Git configuration, in one of the five places, fully defines 1-3 filter extensions with existing commands and distinct priorities, 0 for the target in two of three; .lfsconfig in worktree/index/HEAD sets another priority for the same name; commands env, ext list, clean; one case in six leaves the target without a priority = the recorded documentation gap); plus confusion cases (one key of the allow-listed shapes remote.<name>.lfsurl / lfs.<url>.access whose subsection spells out lfs.customtransfer.<n>.path|args|direction|concurrent, lfs.extension.<n>.clean|smudge or lfs.standalonetransferagent, value = sentinel program; oracle = execution marker, else a non-standard transfer offered in a batch request); location in {work tree, index only, HEAD only, bare} with decoy files in the locations that are not consulted; 8 remote layouts (http, auth-demanding, two remotes, single non-origin, dotted names, ssh, git://). Each case runs the command set in twin repositories (L vs filter_doc(L)) and compares stdout+exit code, requests at the in-driver endpoint, sentinel executions, final state. A class is (kind, location, key pattern | mixture shape | overridden keys)."
	run.Assumptions = []string{
		"allow-list = bullet list under '== LFSCONFIG' in docs/man/git-lfs-config.adoc; {*} and {name} match any non-empty subsection",
		"stderr is not an observable (the 'unsafe keys were ignored' warning legitimately differs)",
		"a key set in both places wins in git configuration iff removing it from .lfsconfig is unobservable",
		"that holds for every value Git's configuration can give the key (empty, blank, bare boolean key included): the twins share the Git configuration, read back with git config -z -l, so no defaulting rule of git-lfs is assumed",
		"syntactically invalid .lfsconfig files are out of scope (every generated file is parsed back with git config -z)",
		"proxy sentinels can only fire when the fake endpoint listens on a non-loopback address (git-lfs never proxies loopback); see coverage.listener_host",
	}
	repo := os.Getenv("VERIF_REPO")
	if repo == "" {
		repo = "/repo"
	}
	pats, err := parseDocAllowList(filepath.Join(repo, "docs/man/git-lfs-config.adoc"))
	if err != nil {
		run.Infra("cannot read the documented allow-list: %v", err)
	}
	var praw []string
	for _, p := range pats {
		praw = append(praw, p.Raw)
	}
	run.Set("documented_allow_list", praw)
	for _, t := range allowedTemplates {
		k := ckey{Sec: t.Sec, Key: t.Key, HasSub: t.Subs != nil, Sub: "x"}
		if !docAllows(pats, k) {
			run.Infra("template %s is expected to be allow-listed by the documentation but is not", t.Name)
		}
	}
	for _, t := range unsafeTemplates {
		k := ckey{Sec: t.Sec, Key: t.Key, HasSub: t.Subs != nil, Sub: "x"}
		if docAllows(pats, k) {
			run.Infra("template %s is in the unsafe table but the documentation allows it", t.Name)
		}
	}
	if _, err := os.Stat(filepath.Join(sbx.BinDir, "git-lfs")); err != nil {
		run.Infra("no git-lfs binary in %s", sbx.BinDir)
	}
	srv, err := startServer()
	if err != nil {
		run.Infra("cannot start the fake endpoint: %v", err)
	}
	for _, b := range [][]byte{objA, objB, objNew} {
		srv.objs[sbx.Sha256Hex(b)] = b
	}
	if os.Getenv("C11_SERVE") != "" { // development aid: only serve, for manual probing
		fmt.Println(srv.Host, srv.PHost)
		select {}
	}
	run.Set("listener_host", srv.Host)
	run.Set("proxy_sentinel_effective", !strings.HasPrefix(srv.Host, "127."))
	ev := &evaluator{run: run, srv: srv, gen: newGenerator(pats, run.Seed)}

	var cases []kase
	if p := evid.ReplayPath(); p != "" {
		b, err := os.ReadFile(p)
		if err != nil {
			run.Infra("replay: %v", err)
		}
		var w struct {
			Detail struct {
				Case kase `json:"case"`
			} `json:"detail"`
		}
		if err := json.Unmarshal(b, &w); err != nil {
			run.Infra("replay: %v", err)
		}
		cases = []kase{w.Detail.Case}
		run.Case("replay-mode", nil)
		run.SetMinEvaluations(1)
	} else {
		n := run.N(150, 3000)
		if v := os.Getenv("C11_N"); v != "" { // development aid only
			n = atoi(v)
		}
		for i := 0; i < n; i++ {
			if v := os.Getenv("C11_ONLY"); v != "" && atoi(v) != i { // development aid only
				continue
			}
			c := ev.gen.genCase(i)
			if f := os.Getenv("C11_FILTER"); f != "" && !strings.Contains(c.class(), f) { // development aid only
				continue
			}
			cases = append(cases, c)
		}
		// precedence clause, stratified block: (key, kind of the Git-side value, place of the Git-side setting)
		nOver := run.N(25, 1000)
		if v := os.Getenv("C11_NOVER"); v != "" { // development aid only
			nOver = atoi(v)
		}
		for j := 0; j < nOver; j++ {
			c := ev.gen.genOverrideCase(n+j, j)
			if f := os.Getenv("C11_FILTER"); f != "" && !strings.Contains(c.class(), f) { // development aid only
				continue
			}
			cases = append(cases, c)
		}
		// precedence clause on derived state (extension records) and allow-listed keys that spell out unsafe ones
		nExt, nConf := run.N(12, 300), run.N(8, 160)
		if v := os.Getenv("C11_NEXT"); v != "" { // development aid only
			nExt = atoi(v)
		}
		if v := os.Getenv("C11_NCONF"); v != "" { // development aid only
			nConf = atoi(v)
		}
		for j := 0; j < nExt+nConf; j++ {
			var c kase
			if j < nExt {
				c = ev.gen.genExtPrioCase(n+nOver+j, j)
			} else {
				c = ev.gen.genConfusionCase(n+nOver+j, j-nExt)
			}
			if f := os.Getenv("C11_FILTER"); f != "" && !strings.Contains(c.class(), f) { // development aid only
				continue
			}
			cases = append(cases, c)
		}
		n = len(cases)
		run.SetMinEvaluations(n * 9 / 10)
	}

	type result struct {
		c  kase
		vs []verdict
	}
	results := make([]result, len(cases))
	jobs := make(chan int)
	var wg sync.WaitGroup
	workers := runtime.NumCPU()
	if workers > 16 {
		workers = 16
	}
	for w := 0; w < workers; w++ {
		wg.Add(1)
		go func() {
			defer wg.Done()
			for i := range jobs {
				t0 := time.Now()
				results[i] = result{cases[i], ev.evalCase(cases[i])}
				if os.Getenv("C11_DEBUG") != "" {
					fmt.Fprintf(os.Stderr, "case %d %s: %.1fs verdicts=%d\n", i, cases[i].class(), time.Since(t0).Seconds(), len(results[i].vs))
				}
			}
		}()
	}
	for i := range cases {
		jobs <- i
	}
	close(jobs)
	wg.Wait()

	reported := map[string]bool{}
	for _, r := range results {
		run.Case(r.c.class(), map[string]any{"class": r.c.class(), "case": r.c.Idx, "location": r.c.Loc, "variant": r.c.Variant, "entries": len(r.c.Entries)})
		for _, e := range r.c.Entries {
			run.Count("entries_generated", 1)
			if !e.Allowed {
				run.Count("unsafe_entries_generated", 1)
			}
		}
		if r.c.KnownFamily != "" {
			run.Count("cases_with_recorded_trigger_family", 1)
		}
		for _, v := range r.vs {
			key := v.Sig.String()
			if reported[key] && run.IsKnown(v.Sig) {
				run.Violation(v.Sig, v.What, nil) // counted, witness not needed again
				continue
			}
			if reported[key] {
				run.Count("repeat_of_reported_signature", 1)
				continue
			}
			reported[key] = true
			run.Violation(v.Sig, v.What, v.Detail)
		}
	}
	srv.mu.Lock()
	run.Count("requests_total", srv.total)
	if len(srv.stray) > 0 {
		run.Set("stray_requests", srv.stray)
	}
	srv.mu.Unlock()
	sbx.RemoveBase()
	run.Finish()
}
