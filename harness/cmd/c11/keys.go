package main

// Key table: every configuration key git-lfs reads (grep of the tree for
// Git.Get/Bool/Int/URLConfig keys) plus Git's own credential.*, core.*, http.*,
// url.*, filter.*, ssh.*, remote.*.*, include.* keys.
//
// Placeholders substituted per twin: @ROOT@ scratch root, @TAG@ url tag of the
// twin, @HOST@ host:port of the fake LFS server, @PHOST@ host:port of the
// sentinel proxy, @K@ index of the entry, @R1@/@R2@ first/second remote of the
// repository variant, @EP1@ the LFS endpoint derived from remote @R1@.

type tmpl struct {
	Name  string   // normalised key pattern used in signatures
	Sec   string   // section (lower case)
	Subs  []string // candidate subsections; nil = two-part key
	Key   string   // variable name (lower case)
	Vals  []string // candidate values
	Known string   // family of an already confirmed observation ("" = none)
	Pref  string   // repository layout in which the key would matter most (used for 3 of 4 single-key cases)
}

const (
	vProg  = "@ROOT@/sentinel/s@K@"
	vProgA = "@ROOT@/sentinel/s@K@ --arg %f"
	vURL   = "http://@HOST@/@TAG@/sentinel-@K@"
	vURLg  = "http://@HOST@/@TAG@/sentinel-@K@/repo.git"
	vProxy = "http://s@K@@@PHOST@"
	vPath  = "@ROOT@/sentinel-path-@K@"
)

var urlSubs = []string{"http://@HOST@/", "http://@HOST@", "http://@HOST@/@TAG@/", "@EP1@", "http://*/"}
var remoteSubs = []string{"@R1@", "@R2@", "evil"}
var dottedSubs = []string{"a.b", "x.y", "@R1@.x", "a.b.c"}
var bools = []string{"true", "false", "1", "yes"}
var ints = []string{"1", "3", "0", "100"}

var unsafeTemplates = []tmpl{
	// ---- lfs.* two-part keys outside the allow-list
	{Name: "lfs.standalonetransferagent", Sec: "lfs", Key: "standalonetransferagent", Vals: []string{"lfs-standalone-file", "sent"}},
	{Name: "lfs.concurrenttransfers", Sec: "lfs", Key: "concurrenttransfers", Vals: ints},
	{Name: "lfs.basictransfersonly", Sec: "lfs", Key: "basictransfersonly", Vals: bools},
	{Name: "lfs.tustransfers", Sec: "lfs", Key: "tustransfers", Vals: bools},
	{Name: "lfs.storage", Sec: "lfs", Key: "storage", Vals: []string{vPath, "../elsewhere"}},
	{Name: "lfs.fetchrecentalways", Sec: "lfs", Key: "fetchrecentalways", Vals: bools},
	{Name: "lfs.fetchrecentcommitsdays", Sec: "lfs", Key: "fetchrecentcommitsdays", Vals: ints},
	{Name: "lfs.fetchrecentrefsdays", Sec: "lfs", Key: "fetchrecentrefsdays", Vals: ints},
	{Name: "lfs.fetchrecentremoterefs", Sec: "lfs", Key: "fetchrecentremoterefs", Vals: []string{"false"}},
	{Name: "lfs.pruneoffsetdays", Sec: "lfs", Key: "pruneoffsetdays", Vals: ints},
	{Name: "lfs.pruneremotetocheck", Sec: "lfs", Key: "pruneremotetocheck", Vals: []string{"@R2@", "evil"}, Pref: "two"},
	{Name: "lfs.pruneverifyremotealways", Sec: "lfs", Key: "pruneverifyremotealways", Vals: []string{"true"}},
	{Name: "lfs.pruneverifyunreachablealways", Sec: "lfs", Key: "pruneverifyunreachablealways", Vals: []string{"true"}},
	{Name: "lfs.cachecredentials", Sec: "lfs", Key: "cachecredentials", Vals: []string{"false"}, Pref: "auth"},
	{Name: "lfs.dialtimeout", Sec: "lfs", Key: "dialtimeout", Vals: ints},
	{Name: "lfs.keepalive", Sec: "lfs", Key: "keepalive", Vals: ints},
	{Name: "lfs.tlstimeout", Sec: "lfs", Key: "tlstimeout", Vals: ints},
	{Name: "lfs.activitytimeout", Sec: "lfs", Key: "activitytimeout", Vals: ints},
	{Name: "lfs.forceprogress", Sec: "lfs", Key: "forceprogress", Vals: []string{"true"}},
	{Name: "lfs.setlockablereadonly", Sec: "lfs", Key: "setlockablereadonly", Vals: []string{"false"}},
	{Name: "lfs.lockignoredfiles", Sec: "lfs", Key: "lockignoredfiles", Vals: []string{"true"}},
	{Name: "lfs.largefilewarning", Sec: "lfs", Key: "largefilewarning", Vals: bools},
	{Name: "lfs.defaulttokenttl", Sec: "lfs", Key: "defaulttokenttl", Vals: ints, Pref: "ssh"},
	{Name: "lfs.repositoryformatversion", Sec: "lfs", Key: "repositoryformatversion", Vals: []string{"1", "7"}},
	{Name: "lfs.batch", Sec: "lfs", Key: "batch", Vals: []string{"false"}},
	{Name: "lfs.contenttype", Sec: "lfs", Key: "contenttype", Vals: []string{"false"}},
	{Name: "lfs.sshtransfer", Sec: "lfs", Key: "sshtransfer", Vals: []string{"always", "never"}, Pref: "ssh"},
	{Name: "lfs.access", Sec: "lfs", Key: "access", Vals: []string{"basic", "negotiate"}},
	{Name: "lfs.<url>.locksverify", Sec: "lfs", Subs: urlSubs, Key: "locksverify", Vals: bools},
	{Name: "lfs.lfspushurl", Sec: "lfs", Key: "lfspushurl", Vals: []string{vURL}},
	{Name: "lfs.urlx", Sec: "lfs", Key: "urlx", Vals: []string{vURL}},
	{Name: "lfs.pushurls", Sec: "lfs", Key: "pushurls", Vals: []string{vURL}},
	// ---- lfs.<x>.<y>
	{Name: "lfs.transfer.maxretries", Sec: "lfs", Subs: []string{"transfer"}, Key: "maxretries", Vals: ints},
	{Name: "lfs.transfer.maxretrydelay", Sec: "lfs", Subs: []string{"transfer"}, Key: "maxretrydelay", Vals: ints},
	{Name: "lfs.transfer.maxverifies", Sec: "lfs", Subs: []string{"transfer"}, Key: "maxverifies", Vals: ints},
	{Name: "lfs.transfer.batchsize", Sec: "lfs", Subs: []string{"transfer"}, Key: "batchsize", Vals: ints},
	{Name: "lfs.transfer.enablehrefrewrite", Sec: "lfs", Subs: []string{"transfer"}, Key: "enablehrefrewrite", Vals: []string{"true"}},
	{Name: "lfs.remote.autodetect", Sec: "lfs", Subs: []string{"remote"}, Key: "autodetect", Vals: []string{"true"}, Pref: "two"},
	{Name: "lfs.remote.searchall", Sec: "lfs", Subs: []string{"remote"}, Key: "searchall", Vals: []string{"true"}, Pref: "two"},
	{Name: "lfs.ssh.retries", Sec: "lfs", Subs: []string{"ssh"}, Key: "retries", Vals: ints, Pref: "ssh"},
	{Name: "lfs.ssh.automultiplex", Sec: "lfs", Subs: []string{"ssh"}, Key: "automultiplex", Vals: []string{"false"}, Pref: "ssh"},
	{Name: "lfs.<url>.standalonetransferagent", Sec: "lfs", Subs: urlSubs, Key: "standalonetransferagent", Vals: []string{"lfs-standalone-file", "sent"}},
	{Name: "lfs.<url>.sshtransfer", Sec: "lfs", Subs: []string{"ssh://git@sshhost/@TAG@/sshorigin/repo.git", "http://@HOST@/"}, Key: "sshtransfer", Vals: []string{"always", "never"}, Pref: "ssh"},
	{Name: "lfs.<url>.contenttype", Sec: "lfs", Subs: urlSubs, Key: "contenttype", Vals: []string{"false"}},
	{Name: "lfs.<url>.activitytimeout", Sec: "lfs", Subs: urlSubs, Key: "activitytimeout", Vals: ints},
	{Name: "lfs.<url>.url", Sec: "lfs", Subs: urlSubs, Key: "url", Vals: []string{vURL}},
	{Name: "lfs.customtransfer.<n>.path", Sec: "lfs", Subs: []string{"customtransfer.sent", "customtransfer.other"}, Key: "path", Vals: []string{vProg}},
	{Name: "lfs.customtransfer.<n>.args", Sec: "lfs", Subs: []string{"customtransfer.sent"}, Key: "args", Vals: []string{"--x"}},
	{Name: "lfs.customtransfer.<n>.concurrent", Sec: "lfs", Subs: []string{"customtransfer.sent"}, Key: "concurrent", Vals: []string{"false"}},
	{Name: "lfs.customtransfer.<n>.direction", Sec: "lfs", Subs: []string{"customtransfer.sent"}, Key: "direction", Vals: []string{"both", "download"}},
	{Name: "lfs.extension.<n>.clean", Sec: "lfs", Subs: []string{"extension.sent", "extension.x1"}, Key: "clean", Vals: []string{vProgA}},
	{Name: "lfs.extension.<n>.smudge", Sec: "lfs", Subs: []string{"extension.sent", "extension.x1"}, Key: "smudge", Vals: []string{vProgA}},
	{Name: "lfs.extension.<n>.priority", Sec: "lfs", Subs: []string{"extension.sent", "extension.x2"}, Key: "priority", Vals: []string{"0", "3"}, Known: "ext-priority"},
	{Name: "lfs.extension.<n>.<other>", Sec: "lfs", Subs: []string{"extension.sent", "extension.x3"}, Key: "bogus", Vals: []string{"1"}, Known: "ext-other"},
	{Name: "lfs.extension.<n.m>.clean", Sec: "lfs", Subs: []string{"extension.a.b"}, Key: "clean", Vals: []string{vProgA}},
	// ---- remote.*
	{Name: "remote.<2-part>", Sec: "remote", Key: "lfsdefault", Vals: []string{"@R2@", "evil"}, Known: "remote2", Pref: "two"},
	{Name: "remote.<2-part>", Sec: "remote", Key: "lfspushdefault", Vals: []string{"@R2@", "evil"}, Known: "remote2", Pref: "two"},
	{Name: "remote.<2-part>", Sec: "remote", Key: "pushdefault", Vals: []string{"@R2@", "evil"}, Known: "remote2", Pref: "two"},
	{Name: "remote.<2-part>", Sec: "remote", Key: "whatever", Vals: []string{"1"}, Known: "remote2", Pref: "two"},
	{Name: "remote.<name>.url", Sec: "remote", Subs: remoteSubs, Key: "url", Vals: []string{vURLg}},
	{Name: "remote.<name>.pushurl", Sec: "remote", Subs: remoteSubs, Key: "pushurl", Vals: []string{vURLg}},
	{Name: "remote.<name>.lfspushurl", Sec: "remote", Subs: remoteSubs, Key: "lfspushurl", Vals: []string{vURL}},
	{Name: "remote.<name>.fetch", Sec: "remote", Subs: remoteSubs, Key: "fetch", Vals: []string{"+refs/heads/*:refs/remotes/evil/*"}},
	{Name: "remote.<name>.proxy", Sec: "remote", Subs: remoteSubs, Key: "proxy", Vals: []string{vProxy}},
	{Name: "remote.<name>.lfsurlx", Sec: "remote", Subs: remoteSubs, Key: "lfsurlx", Vals: []string{vURL}},
	{Name: "remote.<name>.uploadpack", Sec: "remote", Subs: remoteSubs, Key: "uploadpack", Vals: []string{vProg}},
	{Name: "remote.<dotted-name>.<non-lfsurl>", Sec: "remote", Subs: dottedSubs, Key: "url", Vals: []string{vURLg}, Known: "remote-dotted", Pref: "dotted"},
	{Name: "remote.<dotted-name>.<non-lfsurl>", Sec: "remote", Subs: dottedSubs, Key: "pushurl", Vals: []string{vURLg}, Known: "remote-dotted", Pref: "dotted"},
	{Name: "remote.<dotted-name>.<non-lfsurl>", Sec: "remote", Subs: dottedSubs, Key: "lfspushurl", Vals: []string{vURL}, Known: "remote-dotted", Pref: "dotted"},
	{Name: "remote.<dotted-name>.<non-lfsurl>", Sec: "remote", Subs: dottedSubs, Key: "whatever", Vals: []string{"1"}, Known: "remote-dotted", Pref: "dotted"},
	{Name: "branch.<b>.remote", Sec: "branch", Subs: []string{"main"}, Key: "remote", Vals: []string{"@R2@", "evil"}, Pref: "two"},
	{Name: "branch.<b>.pushremote", Sec: "branch", Subs: []string{"main"}, Key: "pushremote", Vals: []string{"@R2@", "evil"}, Pref: "two"},
	{Name: "branch.<b>.merge", Sec: "branch", Subs: []string{"main"}, Key: "merge", Vals: []string{"refs/heads/evil"}, Pref: "two"},
	// ---- credential.*
	{Name: "credential.helper", Sec: "credential", Key: "helper", Vals: []string{vProg, "!" + vProg}, Pref: "auth"},
	{Name: "credential.<url>.helper", Sec: "credential", Subs: urlSubs, Key: "helper", Vals: []string{vProg}, Pref: "auth"},
	{Name: "credential.usehttppath", Sec: "credential", Key: "usehttppath", Vals: []string{"true"}, Pref: "auth"},
	{Name: "credential.<url>.usehttppath", Sec: "credential", Subs: urlSubs, Key: "usehttppath", Vals: []string{"true"}, Pref: "auth"},
	{Name: "credential.protectprotocol", Sec: "credential", Key: "protectprotocol", Vals: []string{"false"}, Pref: "auth"},
	{Name: "credential.skipwwwauth", Sec: "credential", Key: "skipwwwauth", Vals: []string{"true"}, Pref: "auth"},
	{Name: "credential.username", Sec: "credential", Key: "username", Vals: []string{"evil"}, Pref: "auth"},
	// ---- core.*
	{Name: "core.askpass", Sec: "core", Key: "askpass", Vals: []string{vProg}, Pref: "auth-nocreds"},
	{Name: "core.sshcommand", Sec: "core", Key: "sshcommand", Vals: []string{vProg, vProg + " -x"}, Pref: "ssh"},
	{Name: "core.hookspath", Sec: "core", Key: "hookspath", Vals: []string{vPath}},
	{Name: "core.sharedrepository", Sec: "core", Key: "sharedrepository", Vals: []string{"0666", "all", "group"}},
	{Name: "core.attributesfile", Sec: "core", Key: "attributesfile", Vals: []string{vPath}},
	{Name: "core.autocrlf", Sec: "core", Key: "autocrlf", Vals: []string{"true", "input"}},
	{Name: "core.fsmonitor", Sec: "core", Key: "fsmonitor", Vals: []string{vProg}},
	{Name: "core.pager", Sec: "core", Key: "pager", Vals: []string{vProg}},
	{Name: "core.editor", Sec: "core", Key: "editor", Vals: []string{vProg}},
	{Name: "core.gitproxy", Sec: "core", Key: "gitproxy", Vals: []string{vProg}},
	{Name: "core.quotepath", Sec: "core", Key: "quotepath", Vals: []string{"true"}},
	{Name: "core.worktree", Sec: "core", Key: "worktree", Vals: []string{vPath}},
	// ---- http.*
	{Name: "http.proxy", Sec: "http", Key: "proxy", Vals: []string{vProxy}},
	{Name: "http.<url>.proxy", Sec: "http", Subs: urlSubs, Key: "proxy", Vals: []string{vProxy}},
	{Name: "http.sslverify", Sec: "http", Key: "sslverify", Vals: []string{"false"}},
	{Name: "http.<url>.sslverify", Sec: "http", Subs: urlSubs, Key: "sslverify", Vals: []string{"false"}},
	{Name: "http.sslcainfo", Sec: "http", Key: "sslcainfo", Vals: []string{vPath}},
	{Name: "http.<url>.sslcainfo", Sec: "http", Subs: urlSubs, Key: "sslcainfo", Vals: []string{vPath}},
	{Name: "http.sslcapath", Sec: "http", Key: "sslcapath", Vals: []string{vPath}},
	{Name: "http.sslcert", Sec: "http", Key: "sslcert", Vals: []string{vPath}},
	{Name: "http.sslkey", Sec: "http", Key: "sslkey", Vals: []string{vPath}},
	{Name: "http.cookiefile", Sec: "http", Key: "cookiefile", Vals: []string{vPath}},
	{Name: "http.extraheader", Sec: "http", Key: "extraheader", Vals: []string{"X-Sentinel: s@K@"}},
	{Name: "http.<url>.extraheader", Sec: "http", Subs: urlSubs, Key: "extraheader", Vals: []string{"X-Sentinel: s@K@"}},
	{Name: "http.version", Sec: "http", Key: "version", Vals: []string{"HTTP/1.1", "HTTP/2"}},
	{Name: "http.sslbackend", Sec: "http", Key: "sslbackend", Vals: []string{"schannel"}},
	{Name: "https.proxy", Sec: "https", Key: "proxy", Vals: []string{vProxy}},
	// ---- url.*
	{Name: "url.<base>.insteadof", Sec: "url", Subs: []string{"http://@HOST@/@TAG@/sentinel-@K@/"}, Key: "insteadof", Vals: []string{"http://@HOST@/@TAG@/", "http://@HOST@/", "http://"}},
	{Name: "url.<base>.pushinsteadof", Sec: "url", Subs: []string{"http://@HOST@/@TAG@/sentinel-@K@/"}, Key: "pushinsteadof", Vals: []string{"http://@HOST@/@TAG@/", "http://@HOST@/", "http://"}},
	// ---- filter.*, ssh.*, misc
	{Name: "filter.lfs.clean", Sec: "filter", Subs: []string{"lfs"}, Key: "clean", Vals: []string{vProgA}},
	{Name: "filter.lfs.smudge", Sec: "filter", Subs: []string{"lfs"}, Key: "smudge", Vals: []string{vProgA}},
	{Name: "filter.lfs.process", Sec: "filter", Subs: []string{"lfs"}, Key: "process", Vals: []string{vProg}},
	{Name: "filter.lfs.required", Sec: "filter", Subs: []string{"lfs"}, Key: "required", Vals: []string{"false"}},
	{Name: "filter.<other>.clean", Sec: "filter", Subs: []string{"evil"}, Key: "clean", Vals: []string{vProgA}},
	{Name: "ssh.variant", Sec: "ssh", Key: "variant", Vals: []string{"simple", "putty", "tortoiseplink"}, Pref: "ssh"},
	{Name: "user.name", Sec: "user", Key: "name", Vals: []string{"Evil Name", "Evil \"Q\" \\ # name\twith tab"}},
	{Name: "user.email", Sec: "user", Key: "email", Vals: []string{"evil@example.com"}},
	{Name: "extensions.objectformat", Sec: "extensions", Key: "objectformat", Vals: []string{"sha256"}},
	{Name: "alias.<x>", Sec: "alias", Key: "lfs", Vals: []string{"!" + vProg}},
	{Name: "protocol.<p>.allow", Sec: "protocol", Subs: []string{"ext"}, Key: "allow", Vals: []string{"always"}},
	{Name: "safe.directory", Sec: "safe", Key: "directory", Vals: []string{"*"}},
	{Name: "gc.auto", Sec: "gc", Key: "auto", Vals: []string{"1"}},
	{Name: "foo.<x>.access", Sec: "foo", Subs: []string{"bar"}, Key: "access", Vals: []string{"basic"}},
	{Name: "http.<url>.access", Sec: "http", Subs: urlSubs, Key: "access", Vals: []string{"basic"}},
	// ---- include directives
	{Name: "include.path", Sec: "include", Key: "path", Vals: []string{"inc.cfg", "@ROOT@/inc-abs.cfg"}, Known: "include"},
	{Name: "includeif.<cond>.path", Sec: "includeif", Subs: []string{"gitdir:/", "gitdir:**"}, Key: "path", Vals: []string{"inc.cfg", "@ROOT@/inc-abs.cfg"}, Known: "includeif"},
	// ---- `git config -l` is line based: spellings that produce extra / truncated lines
	{Name: "<section>.<subsection-with-equals>.<key>", Sec: "lfs", Subs: []string{"url=http://@HOST@/@TAG@/injected-@K@/"}, Key: "zzz", Vals: []string{"1"}, Known: "sub-equals"},
	{Name: "<unsafe-key>=<value-with-newline>", Sec: "lfs", Key: "zzz", Vals: []string{"x\nlfs.url=http://@HOST@/@TAG@/injected-@K@", "x\nlfs.pushurl=http://@HOST@/@TAG@/injected-@K@"}, Known: "value-newline"},
}

// Allowed by the documented list (verified against the parsed list at start-up).
var allowedTemplates = []tmpl{
	{Name: "lfs.url", Sec: "lfs", Key: "url", Vals: []string{"http://@HOST@/@TAG@/lfscfg-url", "http://@HOST@/@TAG@/lfscfg-url-auth"}},
	{Name: "lfs.pushurl", Sec: "lfs", Key: "pushurl", Vals: []string{"http://@HOST@/@TAG@/lfscfg-push"}},
	{Name: "lfs.fetchexclude", Sec: "lfs", Key: "fetchexclude", Vals: []string{"*.skip", "b.bin", "a.bin,sub/", "sp ace/*, q\"uote\\back;semi #hash"}},
	{Name: "lfs.fetchinclude", Sec: "lfs", Key: "fetchinclude", Vals: []string{"*.bin", "a.bin"}},
	{Name: "lfs.gitprotocol", Sec: "lfs", Key: "gitprotocol", Vals: []string{"http", "https"}},
	{Name: "lfs.locksverify", Sec: "lfs", Key: "locksverify", Vals: []string{"true", "false"}},
	{Name: "lfs.skipdownloaderrors", Sec: "lfs", Key: "skipdownloaderrors", Vals: bools},
	{Name: "lfs.allowincompletepush", Sec: "lfs", Key: "allowincompletepush", Vals: bools},
	{Name: "lfs.<url>.access", Sec: "lfs", Subs: []string{"http://@HOST@/", "http://@HOST@/@TAG@/", "@EP1@", "http://@HOST@/@TAG@/lfscfg-url"}, Key: "access", Vals: []string{"basic", "none"}},
	{Name: "remote.<name>.lfsurl", Sec: "remote", Subs: []string{"@R1@", "@R2@", "extra", "a.b"}, Key: "lfsurl", Vals: []string{"http://@HOST@/@TAG@/lfscfg-remote"}},
}

// values a user's own Git configuration uses for the allow-listed keys in precedence cases
var gitcfgValues = map[string][]string{
	"lfs.url":                 {"http://@HOST@/@TAG@/gitcfg-url"},
	"lfs.pushurl":             {"http://@HOST@/@TAG@/gitcfg-push"},
	"lfs.fetchexclude":        {"*.gitcfg"},
	"lfs.fetchinclude":        {"*.bin,gitcfg"},
	"lfs.gitprotocol":         {"http", "https"},
	"lfs.locksverify":         {"true", "false"},
	"lfs.skipdownloaderrors":  {"true", "false"},
	"lfs.allowincompletepush": {"true", "false"},
	"lfs.<url>.access":        {"none", "basic"},
	"remote.<name>.lfsurl":    {"http://@HOST@/@TAG@/gitcfg-remote"},
}

// Keys that ARE on the documented allow-list by their shape (remote.<name>.lfsurl, lfs.<url>.access) but whose
// subsection spells out an unsafe key. Both twins keep them (the documentation allows the key), so the oracle is
// not the differential but the execution marker: the value names a sentinel program, and nothing in the user's
// configuration defines a transfer agent or an extension. The fake endpoint selects any non-standard transfer
// the client offers (hostile server named by, or reachable through, the repository).
const cfCustomPath = "<allow-listed-key-embedding-lfs.customtransfer.n.path>"

var confusionTemplates = []tmpl{
	{Name: cfCustomPath, Sec: "remote", Subs: []string{"lfs.customtransfer.sent.path"}, Key: "lfsurl", Vals: []string{vProg}},
	{Name: cfCustomPath, Sec: "lfs", Subs: []string{"customtransfer.sent.path"}, Key: "access", Vals: []string{vProg}},
	{Name: cfCustomPath, Sec: "remote", Subs: []string{"x.lfs.customtransfer.sent.path.y", "@R1@.lfs.customtransfer.sent.path"}, Key: "lfsurl", Vals: []string{vProg}},
	{Name: cfCustomPath, Sec: "lfs", Subs: []string{"http://@HOST@/lfs.customtransfer.sent.path", "xlfs.customtransfer.sent.path"}, Key: "access", Vals: []string{vProg}},
	{Name: "<allow-listed-key-embedding-lfs.customtransfer.n.other>", Sec: "remote", Subs: []string{"lfs.customtransfer.sent.args", "lfs.customtransfer.sent.direction", "lfs.customtransfer.sent.concurrent"}, Key: "lfsurl", Vals: []string{vProg}},
	{Name: "<allow-listed-key-embedding-lfs.customtransfer.n.other>", Sec: "lfs", Subs: []string{"customtransfer.sent.args", "customtransfer.sent.direction"}, Key: "access", Vals: []string{vProg}},
	{Name: "<allow-listed-key-embedding-lfs.extension.n.cmd>", Sec: "remote", Subs: []string{"lfs.extension.sent.clean", "lfs.extension.sent.smudge"}, Key: "lfsurl", Vals: []string{vProgA}},
	{Name: "<allow-listed-key-embedding-lfs.extension.n.cmd>", Sec: "lfs", Subs: []string{"extension.sent.clean", "extension.sent.smudge", "extension.sent.priority"}, Key: "access", Vals: []string{vProgA}},
	{Name: "<allow-listed-key-embedding-lfs.standalonetransferagent>", Sec: "remote", Subs: []string{"lfs.standalonetransferagent", "lfs.@EP1@.standalonetransferagent"}, Key: "lfsurl", Vals: []string{"sent", vProg}},
	{Name: "<allow-listed-key-embedding-lfs.standalonetransferagent>", Sec: "lfs", Subs: []string{"standalonetransferagent", "@EP1@.standalonetransferagent"}, Key: "access", Vals: []string{"sent", vProg}},
	// the same confusion in keys that are not allow-listed: dropped by the filter, must stay invisible to every key scanner
	{Name: "remote.<embedding-lfs.customtransfer.n.path>.lfspushurl", Sec: "remote", Subs: []string{"lfs.customtransfer.sent.path"}, Key: "lfspushurl", Vals: []string{vProg}},
	{Name: "lfs.<embedding-customtransfer.n.path>.locksverify", Sec: "lfs", Subs: []string{"customtransfer.sent.path"}, Key: "locksverify", Vals: []string{vProg}},
}
