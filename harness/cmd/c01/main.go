// C01 — clean then smudge returns the original bytes; the pointer names the SHA-256
// of what is stored. Runtime monitor over generated (content, delivery schedule,
// mode, working-tree state, extension) cases; oracle = byte equality + SHA-256
// computed by the driver, pointer parsed by ptrspec.
package main

import (
	"bytes"
	"fmt"
	"math/rand"
	"os"
	"path/filepath"
	"runtime"
	"strings"
	"sync"

	"verif/harness/evid"
	"verif/harness/filt"
	"verif/harness/fpclient"
	"verif/harness/ptrspec"
	"verif/harness/sbx"
)

var sizes = []int{0, 1, 2, 100, 1023, 1024, 1025, 4096, 65515, 65516, 65517, 131075}
var contents = []string{"random", "textlf", "textcrlf", "zero", "ptrprefix", "lookalike", "whitespace"}
var wtStates = []string{"absent", "same", "short0", "short10", "short1024", "longer"}
var modes = []string{"oneshot", "filter-process", "git-add-checkout", "hash-object-process", "hash-object-oneshot", "merge-driver"}

type tcase struct {
	Idx     int
	Mode    string
	Size    int
	Content string
	Wt      string
	Ext     bool
	Chunk   string
	Pk      string
}

func (c tcase) class() string {
	e := "noext"
	if c.Ext {
		e = "ext"
	}
	return fmt.Sprintf("%s/%s/%s/wt-%s/%s/%s%s", c.Mode, filt.SizeClass(c.Size), c.Content, c.Wt, e, c.Chunk, c.Pk)
}

// trigger: the coordinates that matter for attributing a defect
func (c tcase) trigger() string {
	return fmt.Sprintf("%s/wt-%s/%s%s", c.Mode, c.Wt, c.Chunk, c.Pk)
}

type runner struct {
	run *evid.Run
}

func setWt(path string, state string, b []byte) {
	os.MkdirAll(filepath.Dir(path), 0o755)
	os.Remove(path)
	switch state {
	case "absent":
	case "same":
		os.WriteFile(path, b, 0o644)
	case "short0":
		os.WriteFile(path, nil, 0o644)
	case "short10":
		os.WriteFile(path, []byte("0123456789"), 0o644)
	case "short1024":
		os.WriteFile(path, bytes.Repeat([]byte("w"), 1024), 0o644)
	case "longer":
		os.WriteFile(path, append(append([]byte{}, b...), bytes.Repeat([]byte("L"), 5000)...), 0o644)
	}
}

func (rn *runner) viol(c tcase, sym, what string, extra map[string]any) {
	d := map[string]any{"case": c, "what": what}
	for k, v := range extra {
		d[k] = v
	}
	rn.run.Violation(evid.Sig{Symptom: sym, Trigger: c.trigger()}, what, d)
}

func (rn *runner) exec(c tcase, seed int64) {
	run := rn.run
	r := rand.New(rand.NewSource(seed))
	var opts []sbx.Opt
	if c.Mode == "hash-object-oneshot" || c.Chunk == "noprocess" {
		opts = append(opts, sbx.OneShotFilters())
	}
	env := sbx.New(opts...)
	defer env.Cleanup()
	repo := env.InitRepo("repo")
	gitDir := filepath.Join(repo, ".git")
	os.WriteFile(filepath.Join(repo, ".gitattributes"), []byte("*.bin filter=lfs diff=lfs merge=lfs -text\n"), 0o644)
	if c.Mode == "ext-fault" {
		for _, kv := range filt.InstallFaultyExt(env, c.Chunk) {
			env.MustGit(repo, "config", kv[0], kv[1])
		}
	} else if c.Ext {
		for _, kv := range filt.InstallExt(env) {
			env.MustGit(repo, "config", kv[0], kv[1])
		}
	}
	b := filt.Content(r, c.Content, c.Size)
	path := "dir/f.bin"
	abs := filepath.Join(repo, path)
	os.MkdirAll(filepath.Dir(abs), 0o755)

	checkSmudged := func(got []byte, how string) {
		run.Count("smudge_outputs_compared", 1)
		if !bytes.Equal(got, b) {
			rn.viol(c, "smudge-mismatch", fmt.Sprintf("%s returned %d bytes (sha %s), original %d bytes (sha %s)", how, len(got), sbx.Sha256Hex(got), len(b), sbx.Sha256Hex(b)), nil)
		}
	}
	checkCleaned := func(out []byte, how string) (ptrspec.Pointer, bool) {
		run.Count("clean_outputs_judged", 1)
		p, sym, what := filt.CheckClean(gitDir, b, out, c.Ext)
		if sym != "" {
			rn.viol(c, sym, how+": "+what, map[string]any{"clean_output": sbx.Trunc(out, 600)})
			return p, false
		}
		return p, true
	}

	switch c.Mode {
	case "oneshot":
		setWt(abs, c.Wt, b)
		plan := filt.ChunkPlan{Name: "whole"}
		for _, p := range filt.Plans(r, len(b)) {
			if p.Name == c.Chunk {
				plan = p
			}
		}
		if c.Chunk == "cptr" { // first write(2) ends exactly where the embedded pointer text ends
			plan = filt.ChunkPlan{Name: "cptr", Sizes: []int{filt.PtrPrefixLen(), 1 << 20}}
		}
		res := filt.RunChunked(env, repo, plan.Split(b), 12, nil, "git-lfs", "clean", "--", path)
		run.Count("processes", 1)
		if res.GoCrash() {
			rn.viol(c, "go-panic", "git lfs clean crashed: "+sbx.Trunc(res.Stderr, 1500), nil)
			return
		}
		if !res.OK() {
			rn.viol(c, "clean-failed", "git lfs clean exited non-zero: "+res.String(), nil)
			return
		}
		if _, ok := checkCleaned(res.Stdout, "git lfs clean"); !ok {
			return
		}
		// smudge, pointer delivered in chunks too
		sm := filt.RunChunked(env, repo, plan.Split(res.Stdout), 12, nil, "git-lfs", "smudge", "--", path)
		run.Count("processes", 1)
		if sm.GoCrash() {
			rn.viol(c, "go-panic", "git lfs smudge crashed: "+sbx.Trunc(sm.Stderr, 1500), nil)
			return
		}
		if !sm.OK() {
			rn.viol(c, "smudge-failed", "git lfs smudge exited non-zero: "+sm.String(), nil)
			return
		}
		checkSmudged(sm.Stdout, "git lfs smudge")
	case "filter-process":
		setWt(abs, c.Wt, b)
		var pk fpclient.Packetizer
		switch c.Pk {
		case "/pk1":
			pk = fpclient.Fixed(1)
		case "/pk2":
			pk = fpclient.Fixed(2)
		case "/pk100":
			pk = fpclient.Fixed(100)
		case "/pk8192":
			pk = fpclient.Fixed(8192)
		case "/pk65515":
			pk = fpclient.Fixed(65515)
		case "/pk65516":
			pk = fpclient.Fixed(65516)
		default:
			pk = fpclient.Sizes(1+r.Intn(5000), 1+r.Intn(300), 1+r.Intn(65516))
		}
		cl, err := fpclient.Start(env, repo, []string{"clean", "smudge"}, nil)
		if err != nil {
			if cl != nil {
				cl.Kill()
			}
			rn.viol(c, "filter-process-handshake-failed", err.Error(), nil)
			return
		}
		run.Count("processes", 1)
		resp := cl.Do(fpclient.Request{Command: "clean", Path: path, Payload: b, Pk: pk, GapEvery: 3})
		if !resp.OK() {
			code, se := cl.Close()
			sym := "clean-failed"
			if strings.Contains(se, "panic:") || strings.Contains(se, "fatal error:") {
				sym = "go-panic"
			}
			rn.viol(c, sym, fmt.Sprintf("filter-process clean answer: %+v exit=%d stderr=%s", summarize(resp), code, sbx.Trunc([]byte(se), 1200)), nil)
			return
		}
		if _, ok := checkCleaned(resp.Content, "filter-process clean"); !ok {
			cl.Close()
			return
		}
		// a second request on the same process must still be in sync (unread payload would desynchronise it)
		sm := cl.Do(fpclient.Request{Command: "smudge", Path: path, Payload: resp.Content, Pk: pk})
		code, se := cl.Close()
		if !sm.OK() {
			rn.viol(c, "smudge-failed", fmt.Sprintf("filter-process smudge answer: %+v exit=%d stderr=%s", summarize(sm), code, sbx.Trunc([]byte(se), 1200)), nil)
			return
		}
		checkSmudged(sm.Content, "filter-process smudge")
		if code != 0 {
			rn.viol(c, "filter-process-exit-nonzero", fmt.Sprintf("exit %d: %s", code, sbx.Trunc([]byte(se), 800)), nil)
		}
	case "git-add-checkout":
		os.WriteFile(abs, b, 0o644)
		extra := []string{}
		a := env.Git(repo, append(extra, "add", "--", path)...)
		run.Count("processes", 1)
		if a.GoCrash() {
			rn.viol(c, "go-panic", "git add: "+sbx.Trunc(a.Stderr, 1500), nil)
			return
		}
		if !a.OK() {
			rn.viol(c, "clean-failed", "git add failed: "+a.String(), nil)
			return
		}
		blob := env.PlainGit(repo, "cat-file", "blob", ":"+path)
		if _, ok := checkCleaned(blob.Stdout, "index blob after git add"); !ok {
			return
		}
		os.Remove(abs)
		co := env.Git(repo, append(extra, "checkout", "--", path)...)
		if co.GoCrash() {
			rn.viol(c, "go-panic", "git checkout: "+sbx.Trunc(co.Stderr, 1500), nil)
			return
		}
		if !co.OK() {
			rn.viol(c, "smudge-failed", "git checkout failed: "+co.String(), nil)
			return
		}
		got, _ := os.ReadFile(abs)
		checkSmudged(got, "git checkout")
	case "hash-object-process", "hash-object-oneshot":
		setWt(abs, c.Wt, b)
		args := []string{}
		args = append(args, "hash-object", "-w", "--path="+path, "--stdin")
		ho := env.GitIn(repo, b, args...)
		run.Count("processes", 1)
		if ho.GoCrash() {
			rn.viol(c, "go-panic", "git hash-object: "+sbx.Trunc(ho.Stderr, 1500), nil)
			return
		}
		if !ho.OK() {
			rn.viol(c, "clean-failed", "git hash-object --path --stdin failed: "+ho.String(), nil)
			return
		}
		sha := strings.TrimSpace(string(ho.Stdout))
		blob := env.PlainGit(repo, "cat-file", "blob", sha)
		p, ok := checkCleaned(blob.Stdout, "blob written by git hash-object --path --stdin")
		if !ok {
			return
		}
		_ = p
		sm := env.Run(sbx.RunOpt{Dir: repo, Stdin: bytes.NewReader(blob.Stdout)}, "git-lfs", "smudge", "--", path)
		if !sm.OK() {
			rn.viol(c, "smudge-failed", "git lfs smudge failed: "+sm.String(), nil)
			return
		}
		checkSmudged(sm.Stdout, "git lfs smudge")
	case "merge-driver":
		rn.mergeCase(c, env, repo, gitDir, r)
	case "ext-fault":
		rn.extFault(c, env, repo, gitDir, path, abs, b, checkCleaned, checkSmudged)
	case "progress-env":
		rn.progressEnv(c, env, repo, path, abs, b, checkCleaned, checkSmudged)
	case "fsize-limit":
		rn.fsizeLimit(c, env, repo, path, abs, b, checkCleaned, checkSmudged)
	case "ext-chain":
		rn.extChain(c, env, repo, gitDir, path, abs, b, checkSmudged)
	case "store-damage":
		rn.storeDamage(c, env, repo, gitDir, path, abs, b, checkCleaned, checkSmudged)
	}
}

// extChain: two or three chained pointer extensions (priorities 0,1[,2]; each adds 1 to every byte on clean
// and subtracts it on smudge). The pointer must carry one ext line per stage naming the SHA-256 of that
// stage's INPUT, its oid/size must name the stored object (the last stage's output), and smudge must give
// the original bytes back.
func (rn *runner) extChain(c tcase, env *sbx.Env, repo, gitDir, path, abs string, b []byte, checkSmudged func([]byte, string)) {
	run := rn.run
	n := 2
	if c.Chunk == "three" {
		n = 3
	}
	filt.InstallExt(env) // writes the reversible +1/-1 program <root>/verif-ext
	prog := filepath.Join(env.Root, "verif-ext")
	names := []string{"va", "vb", "vc"}[:n]
	for i, nm := range names {
		env.MustGit(repo, "config", "lfs.extension."+nm+".clean", prog+" clean %f")
		env.MustGit(repo, "config", "lfs.extension."+nm+".smudge", prog+" smudge %f")
		env.MustGit(repo, "config", "lfs.extension."+nm+".priority", fmt.Sprint(i))
	}
	stage := [][]byte{b}
	for i := 0; i < n; i++ {
		stage = append(stage, filt.ExtTransform(stage[i]))
	}
	var out []byte
	how := "git lfs clean"
	if c.Pk == "/git-add" {
		how = "git add"
		os.WriteFile(abs, b, 0o644)
		a := env.Git(repo, "add", "--", path)
		run.Count("processes", 1)
		if a.GoCrash() {
			rn.viol(c, "go-panic", "git add: "+sbx.Trunc(a.Stderr, 1500), nil)
			return
		}
		if !a.OK() {
			if n >= 3 {
				// the pinned tree cannot run three or more chained extensions at all (pipeExtensions wires the
				// middle stage's stdin to a pipe nobody writes to): a refusal, counted, outside this property
				run.Count("ext_chain_of_three_refused", 1)
				return
			}
			rn.viol(c, "clean-failed", "git add failed with "+fmt.Sprint(n)+" chained extensions: "+a.String(), nil)
			return
		}
		out = env.PlainGit(repo, "cat-file", "blob", ":"+path).Stdout
	} else {
		setWt(abs, c.Wt, b)
		res := env.Run(sbx.RunOpt{Dir: repo, Stdin: bytes.NewReader(b)}, "git-lfs", "clean", "--", path)
		run.Count("processes", 1)
		if res.GoCrash() {
			rn.viol(c, "go-panic", "git lfs clean crashed: "+sbx.Trunc(res.Stderr, 1500), nil)
			return
		}
		if !res.OK() {
			if n >= 3 {
				run.Count("ext_chain_of_three_refused", 1)
				return
			}
			rn.viol(c, "clean-failed", "git lfs clean failed with "+fmt.Sprint(n)+" chained extensions: "+res.String(), nil)
			return
		}
		out = res.Stdout
	}
	run.Count("clean_outputs_judged", 1)
	run.Count("ext_chain_cleans", 1)
	p, ok := ptrspec.ParseCanonical(out)
	if !ok {
		rn.viol(c, "pointer-not-canonical", how+": "+string(sbx.Trunc(out, 400)), nil)
		return
	}
	if len(p.Exts) != n {
		rn.viol(c, "pointer-extension-line-wrong", fmt.Sprintf("%s: %d extension lines, want %d: %+v", how, len(p.Exts), n, p.Exts), nil)
		return
	}
	for i, e := range p.Exts {
		if e.Name != names[i] || e.Priority != i || e.Oid != sbx.Sha256Hex(stage[i]) {
			rn.viol(c, "pointer-extension-line-wrong", fmt.Sprintf("%s: extension line %d is %+v, want ext-%d-%s sha256:%s (the input of that stage)", how, i, e, i, names[i], sbx.Sha256Hex(stage[i])), nil)
			return
		}
	}
	want := stage[n]
	if p.Oid != sbx.Sha256Hex(want) || p.Size != int64(len(want)) {
		rn.viol(c, "pointer-does-not-name-stored-bytes", fmt.Sprintf("%s: pointer oid %s size %d, the last extension's output hashes to %s size %d", how, p.Oid, p.Size, sbx.Sha256Hex(want), len(want)), map[string]any{"clean_output": string(sbx.Trunc(out, 600))})
		return
	}
	stored, err := filt.ReadObject(gitDir, p.Oid)
	if err != nil || !bytes.Equal(stored, want) {
		rn.viol(c, "stored-object-differs-from-input", fmt.Sprintf("%s: object %s: %v / %d bytes, want the last stage's %d bytes", how, p.Oid, err, len(stored), len(want)), nil)
		return
	}
	sm := env.Run(sbx.RunOpt{Dir: repo, Stdin: bytes.NewReader(out)}, "git-lfs", "smudge", "--", path)
	run.Count("processes", 1)
	if sm.GoCrash() {
		rn.viol(c, "go-panic", "git lfs smudge crashed: "+sbx.Trunc(sm.Stderr, 1500), nil)
		return
	}
	if !sm.OK() {
		rn.viol(c, "smudge-failed", "git lfs smudge failed with chained extensions: "+sm.String(), nil)
		return
	}
	checkSmudged(sm.Stdout, "git lfs smudge through "+fmt.Sprint(n)+" chained extensions")
}

// fsizeLimit: the filter runs with RLIMIT_FSIZE below (or just above) the size of the content, so that
// writes to the temporary object file fail with EFBIG part-way ("disk full"). The filter may refuse;
// a reported success must still satisfy the round-trip oracle. Chunk = limit as a fraction of the size.
func (rn *runner) fsizeLimit(c tcase, env *sbx.Env, repo, path, abs string, b []byte, checkCleaned func([]byte, string) (ptrspec.Pointer, bool), checkSmudged func([]byte, string)) {
	run := rn.run
	limit := int64(len(b))
	switch c.Chunk {
	case "limit-94pct":
		limit = int64(len(b)) * 94 / 100
	case "limit-half":
		limit = int64(len(b)) / 2
	case "limit-4096":
		limit = 4096
	case "limit-exact":
		limit = int64(len(b))
	case "limit-plus-1":
		limit = int64(len(b)) + 1
	}
	if c.Pk == "/git-add" {
		os.WriteFile(abs, b, 0o644)
		// only the filter process is limited: git itself must be able to write its index and objects
		wrap := filepath.Join(env.Root, "lfs-limited")
		prog, args := sbx.FsizeWrap(limit, "git-lfs", "filter-process")
		os.WriteFile(wrap, []byte("#!/bin/sh\nexec "+prog+" "+shellQuote(args)+"\n"), 0o755)
		env.MustGit(repo, "config", "filter.lfs.process", wrap)
		a := env.Git(repo, "add", "--", path)
		run.Count("processes", 1)
		if a.GoCrash() {
			rn.viol(c, "go-panic", "git add: "+sbx.Trunc(a.Stderr, 1500), nil)
			return
		}
		if !a.OK() {
			run.Count("fsize_limit_clean_refused", 1)
			return
		}
		run.Count("fsize_limit_clean_reported_success", 1)
		ptr := env.PlainGit(repo, "cat-file", "blob", ":"+path).Stdout
		checkCleaned(ptr, fmt.Sprintf("index blob after git add with the filter's RLIMIT_FSIZE=%d", limit))
		return
	}
	setWt(abs, c.Wt, b)
	prog, args := sbx.FsizeWrap(limit, "git-lfs", "clean", "--", path)
	res := env.Run(sbx.RunOpt{Dir: repo, Stdin: bytes.NewReader(b)}, prog, args...)
	run.Count("processes", 1)
	if res.GoCrash() {
		rn.viol(c, "go-panic", "git lfs clean crashed: "+sbx.Trunc(res.Stderr, 1500), nil)
		return
	}
	if !res.OK() {
		run.Count("fsize_limit_clean_refused", 1)
		return
	}
	run.Count("fsize_limit_clean_reported_success", 1)
	if _, ok := checkCleaned(res.Stdout, fmt.Sprintf("git lfs clean (exit 0) with RLIMIT_FSIZE=%d", limit)); !ok {
		return
	}
	// smudge under the same limit (the working file is written by the caller, so only temp files count)
	prog, args = sbx.FsizeWrap(limit, "git-lfs", "smudge", "--", path)
	sm := env.Run(sbx.RunOpt{Dir: repo, Stdin: bytes.NewReader(res.Stdout)}, prog, args...)
	if sm.GoCrash() {
		rn.viol(c, "go-panic", "git lfs smudge crashed: "+sbx.Trunc(sm.Stderr, 1500), nil)
		return
	}
	if !sm.OK() {
		run.Count("fsize_limit_smudge_refused", 1)
		return
	}
	checkSmudged(sm.Stdout, fmt.Sprintf("git lfs smudge (exit 0) with RLIMIT_FSIZE=%d", limit))
}

func shellQuote(args []string) string {
	var out []string
	for _, a := range args {
		out = append(out, "'"+strings.ReplaceAll(a, "'", "'\\''")+"'")
	}
	return strings.Join(out, " ")
}

// progressEnv: GIT_LFS_PROGRESS names a file to which the filters append progress lines. Whatever it
// names (a usable absolute path, a relative path, a path below a missing or unwritable directory, a
// directory), a filter run that reports success must still satisfy the round-trip oracle.
func (rn *runner) progressEnv(c tcase, env *sbx.Env, repo, path, abs string, b []byte, checkCleaned func([]byte, string) (ptrspec.Pointer, bool), checkSmudged func([]byte, string)) {
	run := rn.run
	val := ""
	switch c.Chunk {
	case "abs-ok":
		val = filepath.Join(env.Root, "progress.log")
	case "relative":
		val = "progress.log"
	case "missing-dir":
		val = filepath.Join(env.Root, "no", "such", "dir", "progress.log")
	case "below-a-file":
		os.WriteFile(filepath.Join(env.Root, "plainfile"), []byte("x"), 0o644)
		val = filepath.Join(env.Root, "plainfile", "progress.log")
	case "is-directory":
		val = env.Dir("progressdir")
	case "dev-full":
		val = "/dev/full"
	}
	penv := []string{"GIT_LFS_PROGRESS=" + val}
	var ptr []byte
	if c.Pk == "/git-add" {
		os.WriteFile(abs, b, 0o644)
		a := env.Run(sbx.RunOpt{Dir: repo, Env: penv}, "git", "add", "--", path)
		run.Count("processes", 1)
		if a.GoCrash() {
			rn.viol(c, "go-panic", "git add: "+sbx.Trunc(a.Stderr, 1500), nil)
			return
		}
		if !a.OK() {
			run.Count("progress_env_clean_refused", 1)
			return
		}
		ptr = env.PlainGit(repo, "cat-file", "blob", ":"+path).Stdout
		if _, ok := checkCleaned(ptr, "index blob after git add with GIT_LFS_PROGRESS="+c.Chunk); !ok {
			return
		}
		os.Remove(abs)
		co := env.Run(sbx.RunOpt{Dir: repo, Env: penv}, "git", "checkout", "--", path)
		if co.GoCrash() {
			rn.viol(c, "go-panic", "git checkout: "+sbx.Trunc(co.Stderr, 1500), nil)
			return
		}
		if !co.OK() {
			run.Count("progress_env_smudge_refused", 1)
			return
		}
		got, _ := os.ReadFile(abs)
		checkSmudged(got, "git checkout (exit 0) with GIT_LFS_PROGRESS="+c.Chunk)
		return
	}
	setWt(abs, c.Wt, b)
	res := env.Run(sbx.RunOpt{Dir: repo, Stdin: bytes.NewReader(b), Env: penv}, "git-lfs", "clean", "--", path)
	run.Count("processes", 1)
	if res.GoCrash() {
		rn.viol(c, "go-panic", "git lfs clean crashed: "+sbx.Trunc(res.Stderr, 1500), nil)
		return
	}
	if !res.OK() {
		run.Count("progress_env_clean_refused", 1)
		// the object may still be needed for the smudge half: clean again without the variable
		res = env.Run(sbx.RunOpt{Dir: repo, Stdin: bytes.NewReader(b)}, "git-lfs", "clean", "--", path)
		if !res.OK() {
			return
		}
	} else if _, ok := checkCleaned(res.Stdout, "git lfs clean (exit 0) with GIT_LFS_PROGRESS="+c.Chunk); !ok {
		return
	}
	sm := env.Run(sbx.RunOpt{Dir: repo, Stdin: bytes.NewReader(res.Stdout), Env: penv}, "git-lfs", "smudge", "--", path)
	run.Count("processes", 1)
	if sm.GoCrash() {
		rn.viol(c, "go-panic", "git lfs smudge crashed: "+sbx.Trunc(sm.Stderr, 1500), nil)
		return
	}
	if !sm.OK() {
		run.Count("progress_env_smudge_refused", 1)
		return
	}
	run.Count("progress_env_smudge_reported_success", 1)
	checkSmudged(sm.Stdout, "git lfs smudge (exit 0) with GIT_LFS_PROGRESS="+c.Chunk)
}

// extFault: a configured pointer extension whose clean or smudge program fails (exits non-zero,
// possibly after emitting part of its output). The filter may refuse (non-zero exit, `git add`
// fails); what it must not do is report success with a pointer that does not lead back to the
// original bytes, or with smudged bytes that are not the original.
func (rn *runner) extFault(c tcase, env *sbx.Env, repo, gitDir, path, abs string, b []byte, checkCleaned func([]byte, string) (ptrspec.Pointer, bool), checkSmudged func([]byte, string)) {
	run := rn.run
	var ptr []byte
	how := "git lfs clean"
	if c.Pk == "/git-add" {
		how = "git add"
		os.WriteFile(abs, b, 0o644)
		a := env.Git(repo, "add", "--", path)
		run.Count("processes", 1)
		if a.GoCrash() {
			rn.viol(c, "go-panic", "git add: "+sbx.Trunc(a.Stderr, 1500), nil)
			return
		}
		if !a.OK() {
			run.Count("ext_fault_clean_refused", 1)
			if blob := env.PlainGit(repo, "cat-file", "blob", ":"+path); blob.OK() {
				rn.viol(c, "failed-clean-staged-something", "git add failed but the index holds a blob for the path: "+sbx.Trunc(blob.Stdout, 300), nil)
			}
			return
		}
		ptr = env.PlainGit(repo, "cat-file", "blob", ":"+path).Stdout
	} else {
		setWt(abs, c.Wt, b)
		res := env.Run(sbx.RunOpt{Dir: repo, Stdin: bytes.NewReader(b)}, "git-lfs", "clean", "--", path)
		run.Count("processes", 1)
		if res.GoCrash() {
			rn.viol(c, "go-panic", "git lfs clean crashed: "+sbx.Trunc(res.Stderr, 1500), nil)
			return
		}
		if !res.OK() {
			run.Count("ext_fault_clean_refused", 1)
			return
		}
		ptr = res.Stdout
	}
	// clean reported success: then the pointer must be right (stored object = extension image of the
	// input, oid/size match it) ...
	run.Count("ext_fault_clean_reported_success", 1)
	p, sym, what := filt.CheckClean(gitDir, b, ptr, true)
	run.Count("clean_outputs_judged", 1)
	if sym != "" {
		rn.viol(c, sym, how+" reported success although the extension failed: "+what, map[string]any{"clean_output": sbx.Trunc(ptr, 600)})
		return
	}
	_ = p
	// the configuration may change between clean and smudge: the extension the pointer names is gone,
	// or is configured under another name, or with another priority
	switch c.Chunk {
	case "smudge-ext-unconfigured":
		env.MustGit(repo, "config", "--remove-section", "lfs.extension.vx")
	case "smudge-ext-renamed":
		env.MustGit(repo, "config", "--rename-section", "lfs.extension.vx", "lfs.extension.vy")
	case "smudge-ext-other-priority":
		env.MustGit(repo, "config", "lfs.extension.vx.priority", "3")
	}
	// ... and smudging it either fails or returns the original bytes
	sm := env.Run(sbx.RunOpt{Dir: repo, Stdin: bytes.NewReader(ptr)}, "git-lfs", "smudge", "--", path)
	run.Count("processes", 1)
	if sm.GoCrash() {
		rn.viol(c, "go-panic", "git lfs smudge crashed: "+sbx.Trunc(sm.Stderr, 1500), nil)
		return
	}
	if !sm.OK() {
		run.Count("ext_fault_smudge_refused", 1)
		return
	}
	run.Count("ext_fault_smudge_reported_success", 1)
	checkSmudged(sm.Stdout, "git lfs smudge (exit 0) with a failing extension")
}

func summarize(r fpclient.Resp) map[string]any {
	return map[string]any{"status1": r.Status1, "status2": r.Status2, "content_len": len(r.Content), "proto_err": r.ProtoErr, "eof": r.EOF, "timeout": r.TimedOut}
}

// mergeCase: three-way merge of an LFS text file through `git lfs merge-driver`.
// Expected merged bytes come from `git merge-file -p` on the three raw versions.
func (rn *runner) mergeCase(c tcase, env *sbx.Env, repo, gitDir string, r *rand.Rand) {
	run := rn.run
	env.MustGit(repo, "config", "merge.lfs.name", "LFS merge driver")
	env.MustGit(repo, "config", "merge.lfs.driver", "git lfs merge-driver --ancestor %O --current %A --other %B --marker-size %L --output %A")
	// sizes chosen so that the merged pointer is shorter / equal / longer than the pointer it overwrites
	mkLines := func(n int, tag string) []string {
		var ls []string
		for i := 0; i < n; i++ {
			ls = append(ls, fmt.Sprintf("%s line %03d %s", tag, i, strings.Repeat("x", 20+r.Intn(10))))
		}
		return ls
	}
	base := mkLines(24+r.Intn(10), "base")
	ours := append([]string{}, base...)
	theirs := append([]string{}, base...)
	switch c.Wt { // reuse the Wt coordinate as the length relation of the merged pointer to the current one
	case "shorter-pointer":
		// ours just above 1000 bytes total, theirs removes enough to drop a digit
		ours[0] = ours[0] + strings.Repeat("O", 1010-min(1010, len(strings.Join(base, "\n"))+1)+5)
		theirs[len(theirs)-1] = "t"
		theirs = theirs[:len(theirs)-3]
	case "longer-pointer":
		ours[0] = "o"
		theirs[len(theirs)-1] = theirs[len(theirs)-1] + strings.Repeat("T", 2000)
	default:
		ours[0] = ours[0] + " ours"
		theirs[len(theirs)-1] = theirs[len(theirs)-1] + " theirs"
	}
	txt := func(ls []string) []byte { return []byte(strings.Join(ls, "\n") + "\n") }
	path := "m.bin"
	abs := filepath.Join(repo, path)
	commit := func(msg string) {
		env.MustGit(repo, "add", "-A")
		env.MustGit(repo, "commit", "-q", "-m", msg)
	}
	os.WriteFile(abs, txt(base), 0o644)
	commit("base")
	env.MustGit(repo, "checkout", "-q", "-b", "theirs")
	os.WriteFile(abs, txt(theirs), 0o644)
	commit("theirs")
	env.MustGit(repo, "checkout", "-q", "main")
	os.WriteFile(abs, txt(ours), 0o644)
	commit("ours")
	// expected merge result by git's own merge-file on raw files
	d := env.Dir("mf")
	os.WriteFile(filepath.Join(d, "o"), txt(ours), 0o644)
	os.WriteFile(filepath.Join(d, "b"), txt(base), 0o644)
	os.WriteFile(filepath.Join(d, "t"), txt(theirs), 0o644)
	mf := env.Git(d, "merge-file", "-p", "o", "b", "t")
	if mf.Code != 0 {
		run.Inconclusive(fmt.Sprintf("case %d: generated merge conflicts (merge-file exit %d)", c.Idx, mf.Code))
		return
	}
	want := mf.Stdout
	m := env.Git(repo, "merge", "-q", "--no-edit", "theirs")
	run.Count("processes", 1)
	if m.GoCrash() {
		rn.viol(c, "go-panic", "git merge: "+sbx.Trunc(m.Stderr, 1500), nil)
		return
	}
	if !m.OK() {
		rn.viol(c, "merge-failed", "git merge through the LFS merge driver failed: "+m.String(), nil)
		return
	}
	blob := env.PlainGit(repo, "cat-file", "blob", "HEAD:"+path)
	run.Count("clean_outputs_judged", 1)
	p, ok := ptrspec.ParseCanonical(blob.Stdout)
	if !ok {
		rn.viol(c, "pointer-not-canonical", fmt.Sprintf("merged blob is not a canonical pointer: %q", sbx.Trunc(blob.Stdout, 400)), nil)
		return
	}
	if p.Oid != sbx.Sha256Hex(want) || p.Size != int64(len(want)) {
		rn.viol(c, "pointer-oid-mismatch", fmt.Sprintf("merged pointer %s/%d, git merge-file result hashes to %s/%d", p.Oid, p.Size, sbx.Sha256Hex(want), len(want)), nil)
		return
	}
	stored, err := filt.ReadObject(gitDir, p.Oid)
	if err != nil || !bytes.Equal(stored, want) {
		rn.viol(c, "stored-object-differs-from-input", fmt.Sprintf("stored merged object wrong or missing (%v)", err), nil)
		return
	}
	got, _ := os.ReadFile(abs)
	run.Count("smudge_outputs_compared", 1)
	if !bytes.Equal(got, want) {
		rn.viol(c, "smudge-mismatch", fmt.Sprintf("working tree after merge has %d bytes (sha %s), expected merged text %d bytes", len(got), sbx.Sha256Hex(got), len(want)), nil)
	}
}

func min(a, b int) int {
	if a < b {
		return a
	}
	return b
}

func main() {
	run := evid.New("C01", "exploration")
	defer sbx.RemoveBase()
	run.Rule = "seeded cases over sizes {0,1,2,100,1023,1024,1025,4096,65515,65516,65517,131075,(3MB)} x content {random, text LF/CRLF, zeros, pointer-prefix+payload, pointer look-alike, complete pointer-shaped texts that are not pointers (negative/empty/overflowing/hex/float size, oid of 63/65/upper-case/non-hex digits or type md5, unknown or missing version, missing size)} x mode {one-shot clean/smudge fed through a pipe in write(2) chunk plans whole/1/7/512/1023/1024/1025/4096/random with pauses, filter-process via an independent pkt-line client with packet sizes 1/2/100/8192/65515/65516/random, git add + git checkout (process and one-shot filters), git hash-object --path --stdin (process and one-shot), git merge through git lfs merge-driver with merged pointer shorter/equal/longer than the overwritten one} x working-tree file at the path {absent, same, empty, 10 bytes, 1024 bytes, longer} x {no extension, one reversible extension, two or three chained extensions}; plus a pointer extension whose clean or smudge program fails (partial output + exit 3, no output + exit 1, full output + exit 1, smudge side not inverting the transform) or whose configuration changes between clean and smudge (removed, renamed, other priority) driven one-shot and by git add: the filter may refuse, but a reported success must still satisfy the oracle; the same with GIT_LFS_PROGRESS naming a usable file, a relative path, a path below a missing directory or below a plain file, a directory, /dev/full; and with RLIMIT_FSIZE of the filter process at 4096 bytes / half / 94 % / exactly / one more than the content size (writes to the temporary object file fail with EFBIG); and with the stored object's length changed between clean and smudge (bytes appended, one byte short, emptied; smudged one-shot, through filter-process and by git checkout): smudge may refuse, a reported success must give back the original bytes. Oracle: output parses as canonical pointer (ptrspec), oid/size = SHA-256/length of the stored object, stored object = input (or extension image), smudge output = input; merge result vs git merge-file. Class = all coordinates."
	run.Assumptions = []string{"inputs are non-pointers by construction (pointer pass-through is C08)", "pipe chunking with pauses is a legal OS schedule; nothing is assumed about timing", "git merge-file is the authority on the expected three-way merge result"}
	rn := &runner{run: run}
	r := rand.New(rand.NewSource(run.Seed))
	var cases []tcase
	add := func(c tcase) { c.Idx = len(cases); cases = append(cases, c) }
	// systematic part: every size class x mode (rotating the other coordinates)
	k := 0
	rounds := run.N(4, 40)
	for round := 0; round < rounds; round++ {
		for _, sz := range sizes {
			for _, m := range modes {
				if m == "merge-driver" {
					continue
				}
				k++
				c := tcase{Mode: m, Size: sz, Content: contents[(k+round)%len(contents)], Wt: wtStates[(k/2+round)%len(wtStates)], Ext: (k+round)%5 == 0}
				if c.Content == "ptrprefix" && sz < 1024 {
					c.Content = "lookalike" // pointer text + few bytes is judged by C08
				}
				switch m {
				case "oneshot":
					ps := filt.Plans(r, sz)
					c.Chunk = ps[(k+round)%len(ps)].Name
				case "filter-process":
					c.Pk = []string{"/pk1", "/pk2", "/pk100", "/pk8192", "/pk65515", "/pk65516", "/pkrand"}[(k+round)%7]
					if sz > 5000 && (c.Pk == "/pk1" || c.Pk == "/pk2") {
						c.Pk = "/pk100"
					}
				case "git-add-checkout":
					c.Wt = "same"
					if (k+round)%2 == 0 {
						c.Chunk = "noprocess"
					}
				}
				add(c)
			}
		}
	}
	// all (size-class x mode x worktree-state) triples around the cut-offs, thorough only keeps everything
	for _, sz := range []int{1023, 1024, 1025, 4096} {
		for _, m := range []string{"oneshot", "filter-process", "hash-object-process", "hash-object-oneshot"} {
			for _, wt := range wtStates {
				c := tcase{Mode: m, Size: sz, Content: "random", Wt: wt}
				if m == "oneshot" {
					c.Chunk = []string{"whole", "c512", "c1024"}[len(cases)%3]
				}
				if m == "filter-process" {
					c.Pk = "/pk100"
				}
				if run.Thorough() || (len(cases)%2 == 0) {
					add(c)
				} else {
					cases = append(cases, tcase{Idx: -1})
				}
			}
		}
	}
	for _, sz := range []int{1024, 1025, 4096, 65516} {
		for _, wt := range []string{"absent", "same"} {
			add(tcase{Mode: "oneshot", Size: sz, Content: "ptrprefix", Wt: wt, Chunk: "cptr"})
		}
	}
	for _, sz := range []int{1, 2, 100, 1023, 1024, 4096} {
		for _, m := range []string{"oneshot", "filter-process", "git-add-checkout", "hash-object-process"} {
			c := tcase{Mode: m, Size: sz, Content: "whitespace", Wt: "same"}
			if m == "oneshot" {
				c.Chunk = "whole"
			}
			if m == "filter-process" {
				c.Pk = "/pk100"
			}
			add(c)
		}
	}
	// complete texts of pointer shape that are not pointers (negative or malformed size, oid of wrong length or
	// alphabet, unknown version ...): content like any other
	for i, kind := range filt.MalformedKinds {
		ms := []string{"oneshot", "filter-process", "git-add-checkout", "hash-object-process", "hash-object-oneshot"}
		if !run.Thorough() {
			ms = []string{ms[i%len(ms)], ms[(i+2)%len(ms)]}
		}
		for _, m := range ms {
			c := tcase{Mode: m, Size: len(filt.MalformedPointer(kind)), Content: "ptrmalformed:" + kind, Wt: "same", Ext: i%4 == 3}
			if m == "oneshot" {
				c.Chunk = []string{"whole", "c1", "c7"}[i%3]
			}
			if m == "filter-process" {
				c.Pk = []string{"/pk100", "/pk1", "/pk8192"}[i%3]
			}
			add(c)
		}
	}
	for _, kind := range []string{"clean-partial", "clean-nooutput", "clean-full-exit", "smudge-partial", "smudge-nooutput", "smudge-identity", "smudge-ext-unconfigured", "smudge-ext-renamed", "smudge-ext-other-priority"} {
		for _, via := range []string{"/oneshot", "/git-add"} {
			for _, sz := range []int{1, 4900, 70000}[:run.N(2, 3)] {
				add(tcase{Mode: "ext-fault", Size: sz, Content: "random", Wt: "absent", Ext: true, Chunk: kind, Pk: via})
			}
		}
	}
	for _, kind := range []string{"abs-ok", "relative", "missing-dir", "below-a-file", "is-directory", "dev-full"} {
		for _, via := range []string{"/oneshot", "/git-add"} {
			for _, sz := range []int{4900, 200000}[:run.N(1, 2)] {
				add(tcase{Mode: "progress-env", Size: sz, Content: "random", Wt: "absent", Chunk: kind, Pk: via})
				if kind == "abs-ok" && via == "/oneshot" {
					// with a usable progress file the copy runs with a progress callback: whatever sits at the path must still not matter
					for _, wt := range []string{"same", "short0", "short10", "short1024", "longer"} {
						add(tcase{Mode: "progress-env", Size: sz, Content: "random", Wt: wt, Chunk: kind, Pk: via})
					}
				}
			}
		}
	}
	for _, kind := range []string{"two", "three"} {
		for _, via := range []string{"/oneshot", "/git-add"} {
			for _, sz := range []int{1, 1025, 70000}[:run.N(2, 3)] {
				add(tcase{Mode: "ext-chain", Size: sz, Content: "random", Wt: "absent", Chunk: kind, Pk: via})
			}
		}
	}
	for _, kind := range []string{"limit-94pct", "limit-half", "limit-4096", "limit-exact", "limit-plus-1"} {
		for _, via := range []string{"/oneshot", "/git-add"} {
			for _, sz := range []int{5000, 70000, 200000}[:run.N(2, 3)] {
				add(tcase{Mode: "fsize-limit", Size: sz, Content: "random", Wt: "absent", Chunk: kind, Pk: via})
			}
		}
	}
	for _, kind := range []string{"extended", "one-byte-short", "emptied"} {
		for _, via := range []string{"/oneshot", "/filter-process", "/checkout"} {
			for _, sz := range []int{1025, 70000, 200000}[:run.N(2, 3)] {
				add(tcase{Mode: "store-damage", Size: sz, Content: "random", Wt: "absent", Chunk: kind, Pk: via})
			}
		}
	}
	for _, rel := range []string{"shorter-pointer", "same-pointer", "longer-pointer"} {
		for i := 0; i < run.N(2, 12); i++ {
			add(tcase{Mode: "merge-driver", Wt: rel, Size: 1000, Content: "textlf"})
		}
	}
	if run.Thorough() {
		for _, m := range []string{"oneshot", "filter-process", "git-add-checkout"} {
			c := tcase{Mode: m, Size: 3<<20 + 17, Content: "random", Wt: "absent", Chunk: "c4096", Pk: "/pk65516"}
			if m != "oneshot" {
				c.Chunk = ""
			}
			if m != "filter-process" {
				c.Pk = ""
			}
			add(c)
		}
	}
	var wg sync.WaitGroup
	jobs := make(chan tcase)
	for w := 0; w < runtime.NumCPU(); w++ {
		wg.Add(1)
		go func() {
			defer wg.Done()
			for c := range jobs {
				func() {
					defer func() {
						if x := recover(); x != nil {
							run.Inconclusive(fmt.Sprintf("case %d: harness panic: %v", c.Idx, x))
						}
					}()
					rn.exec(c, run.Seed*100003+int64(c.Idx))
					run.Case(c.class(), c)
				}()
			}
		}()
	}
	for _, c := range cases {
		if c.Idx >= 0 {
			jobs <- c
		}
	}
	close(jobs)
	wg.Wait()
	run.Finish()
}
