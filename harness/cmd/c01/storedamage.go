package main

import (
	"bytes"
	"fmt"
	"os"

	"verif/harness/fpclient"
	"verif/harness/ptrspec"
	"verif/harness/sbx"
)

// storeDamage: between clean and smudge the stored object changes its LENGTH (one byte short, emptied, or with
// bytes appended: a restore gone wrong, a write through a hard link shared with another store). Smudge compares
// the file's length with the pointer's size before copying from it; there is nothing to download from here, so it
// may refuse, but a smudge that reports success must still give back exactly the bytes clean consumed.
// (Damage that keeps the length is not generated: smudge does not re-hash the store, C02/C13 cover its integrity.)
// c.Chunk = kind of damage, c.Pk = how the pointer is smudged.
func (rn *runner) storeDamage(c tcase, env *sbx.Env, repo, gitDir, path, abs string, b []byte, checkCleaned func([]byte, string) (ptrspec.Pointer, bool), checkSmudged func([]byte, string)) {
	run := rn.run
	var ptr []byte
	if c.Pk == "/checkout" {
		os.WriteFile(abs, b, 0o644)
		a := env.Git(repo, "add", "--", path)
		run.Count("processes", 1)
		if a.GoCrash() {
			rn.viol(c, "go-panic", "git add: "+sbx.Trunc(a.Stderr, 1500), nil)
			return
		}
		if !a.OK() {
			rn.viol(c, "clean-failed", "git add failed: "+a.String(), nil)
			return
		}
		ptr = env.PlainGit(repo, "cat-file", "blob", ":"+path).Stdout
	} else {
		res := env.Run(sbx.RunOpt{Dir: repo, Stdin: bytes.NewReader(b)}, "git-lfs", "clean", "--", path)
		run.Count("processes", 1)
		if res.GoCrash() {
			rn.viol(c, "go-panic", "git lfs clean crashed: "+sbx.Trunc(res.Stderr, 1500), nil)
			return
		}
		if !res.OK() {
			rn.viol(c, "clean-failed", "git lfs clean exited non-zero: "+res.String(), nil)
			return
		}
		ptr = res.Stdout
	}
	p, ok := checkCleaned(ptr, "clean before the store was damaged")
	if !ok {
		return
	}
	op := sbx.ObjectPath(gitDir, p.Oid)
	stored, err := os.ReadFile(op)
	if err != nil {
		rn.viol(c, "object-not-stored", "after clean: "+err.Error(), nil)
		return
	}
	var damaged []byte
	switch c.Chunk {
	case "extended":
		damaged = append(append([]byte{}, stored...), bytes.Repeat([]byte{0xd7}, 46)...)
	case "one-byte-short":
		damaged = stored[:len(stored)-1]
	case "emptied":
		damaged = []byte{}
	}
	// replace, do not write in place: the object may be hard-linked elsewhere
	os.Remove(op)
	if err := os.WriteFile(op, damaged, 0o444); err != nil {
		run.Infra("cannot plant damaged object: %v", err)
		return
	}
	run.Count("store_damage_"+c.Chunk, 1)
	refused := func(how string) { run.Count("smudge_refused_object_of_wrong_length", 1) }
	switch c.Pk {
	case "/oneshot":
		sm := env.Run(sbx.RunOpt{Dir: repo, Stdin: bytes.NewReader(ptr)}, "git-lfs", "smudge", "--", path)
		run.Count("processes", 1)
		if sm.GoCrash() {
			rn.viol(c, "go-panic", "git lfs smudge crashed: "+sbx.Trunc(sm.Stderr, 1500), nil)
			return
		}
		if !sm.OK() {
			refused("one-shot")
			return
		}
		checkSmudged(sm.Stdout, "git lfs smudge with the stored object "+c.Chunk)
	case "/filter-process":
		cl, err := fpclient.Start(env, repo, []string{"clean", "smudge"}, nil)
		if err != nil {
			if cl != nil {
				cl.Kill()
			}
			rn.viol(c, "filter-process-handshake-failed", err.Error(), nil)
			return
		}
		run.Count("processes", 1)
		sm := cl.Do(fpclient.Request{Command: "smudge", Path: path, Payload: ptr, Pk: fpclient.Fixed(65516)})
		_, se := cl.Close()
		if bytes.Contains([]byte(se), []byte("panic:")) || bytes.Contains([]byte(se), []byte("fatal error:")) {
			rn.viol(c, "go-panic", "filter-process crashed: "+sbx.Trunc([]byte(se), 1500), nil)
			return
		}
		if !sm.OK() {
			refused("filter-process")
			return
		}
		checkSmudged(sm.Content, "filter-process smudge with the stored object "+c.Chunk)
	case "/checkout":
		os.Remove(abs)
		co := env.Git(repo, "checkout", "--", path)
		run.Count("processes", 1)
		if co.GoCrash() {
			rn.viol(c, "go-panic", "git checkout: "+sbx.Trunc(co.Stderr, 1500), nil)
			return
		}
		got, rerr := os.ReadFile(abs)
		if !co.OK() || rerr != nil {
			refused("checkout")
			return
		}
		if bytes.Equal(got, ptr) {
			// the pointer text was left in place (download skipped): nothing wrong was delivered
			refused("checkout-left-pointer")
			return
		}
		checkSmudged(got, fmt.Sprintf("git checkout (exit 0) with the stored object %s", c.Chunk))
	}
}
