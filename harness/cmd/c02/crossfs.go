package main

// Part E — the local object store on another filesystem than the temporary area (.git/lfs/objects is a
// symbolic link into /dev/shm), process level, with and without an injected write error on the object's
// final path (strace -P <final path> -e inject=write:error=ENOSPC|EIO:when=N). rename(2) of the verified
// temporary file into place fails with EXDEV on the pinned tree, so the fetch fails and nothing appears at
// the final path; whatever an implementation does instead, the property's clauses stay the same: reported
// success => the final path hashes to the oid; reported failure => the final path is as before; every file
// in the store hashes to its name.

import (
	"fmt"
	"math/rand"
	"os"
	"path/filepath"
	"strings"
	"syscall"

	"verif/harness/evid"
	"verif/harness/fakelfs"
	"verif/harness/ptrspec"
	"verif/harness/sbx"
)

func crossFsPart(run *evid.Run) {
	shm, err := os.MkdirTemp("/dev/shm", "verif-c02-")
	if err != nil {
		run.Count("crossfs_skipped_no_dev_shm", 1)
		return
	}
	defer os.RemoveAll(shm)
	var a, b syscall.Stat_t
	syscall.Stat(shm, &a)
	syscall.Stat(sbx.Base(), &b)
	if a.Dev == b.Dev {
		run.Count("crossfs_skipped_same_filesystem", 1)
		return
	}
	n := run.N(9, 120)
	for i := 0; i < n; i++ {
		crossFsCase(run, shm, i)
	}
}

func crossFsCase(run *evid.Run, shm string, idx int) {
	r := rand.New(rand.NewSource(run.Seed*9173 + int64(idx)*37 + 11))
	env := sbx.New()
	defer env.Cleanup()
	srv := fakelfs.New()
	defer srv.Close()
	repo := env.InitRepo("repo")
	os.WriteFile(filepath.Join(repo, ".gitattributes"), []byte("*.bin filter=lfs diff=lfs merge=lfs -text\n"), 0o644)
	data := make([]byte, 20000+r.Intn(400000))
	r.Read(data)
	oid := srv.Put("r", data)
	os.WriteFile(filepath.Join(repo, "f.bin"), []byte(ptrspec.Canonical(ptrspec.Pointer{Oid: oid, Size: int64(len(data))})), 0o644)
	env.PlainGit(repo, "add", "-A")
	env.PlainGit(repo, "commit", "-q", "-m", "pointer")
	env.MustGit(repo, "config", "lfs.url", srv.Endpoint("r"))
	env.MustGit(repo, "config", "lfs.locksverify", "false")
	env.MustGit(repo, "remote", "add", "origin", srv.URL+"/r.git")
	store := filepath.Join(shm, fmt.Sprintf("objects-%d-%d", run.Seed, idx))
	os.MkdirAll(store, 0o755)
	defer os.RemoveAll(store)
	os.MkdirAll(filepath.Join(repo, ".git", "lfs"), 0o755)
	os.RemoveAll(filepath.Join(repo, ".git", "lfs", "objects"))
	if err := os.Symlink(store, filepath.Join(repo, ".git", "lfs", "objects")); err != nil {
		run.Inconclusive("crossfs: " + err.Error())
		return
	}
	final := filepath.Join(store, oid[0:2], oid[2:4], oid)
	finalVia := filepath.Join(repo, ".git", "lfs", "objects", oid[0:2], oid[2:4], oid)
	kind := []string{"no-injection", "write-ENOSPC", "write-EIO", "write-ENOSPC"}[idx%4]
	when := 1 + (idx/4)%3
	var res sbx.Result
	if kind == "no-injection" {
		res = env.Run(sbx.RunOpt{Dir: repo}, "git-lfs", "fetch", "origin", "main")
	} else {
		errno := strings.TrimPrefix(kind, "write-")
		res = env.Run(sbx.RunOpt{Dir: repo}, "strace", "-f", "-b", "execve", "-qq", "-o", "/dev/null", "-P", final, "-P", finalVia, "-e", "trace=write,pwrite64,writev", "-e", fmt.Sprintf("inject=write,pwrite64,writev:error=%s:when=%d", errno, when), "git-lfs", "fetch", "origin", "main")
	}
	run.Count("crossfs_commands", 1)
	sha, _, err := sbx.Sha256File(final)
	state := sha
	if err != nil {
		state = "absent"
	}
	class := fmt.Sprintf("store-on-other-filesystem/%s/exit%d/final-%s", kind, res.Code, map[bool]string{true: "valid", false: state[:6]}[state == oid])
	run.Case(class, map[string]any{"case": idx, "kind": kind, "when": when, "exit": res.Code, "final": state, "stderr": sbx.Trunc(res.Stderr, 300)})
	trig := "store-on-other-filesystem/" + kind
	detail := map[string]any{"case": idx, "oid": oid, "size": len(data), "kind": kind, "when": when, "exit": res.Code, "final_path_state": state, "stderr": sbx.Trunc(res.Stderr, 800)}
	if res.GoCrash() {
		run.Violation(evid.Sig{Symptom: "go-panic", Trigger: trig}, sbx.Trunc(res.Stderr, 1500), detail)
		return
	}
	if res.Code == 0 {
		run.Count("crossfs_reported_success", 1)
		if state != oid {
			run.Violation(evid.Sig{Symptom: "success-but-final-path-not-the-object", Trigger: trig}, fmt.Sprintf("git lfs fetch exited 0 but the final path of %s (%d bytes) is %s", oid[:12], len(data), state), detail)
		}
	} else {
		run.Count("crossfs_reported_failure", 1)
		if state != "absent" && state != oid {
			run.Violation(evid.Sig{Symptom: "failure-but-final-path-changed", Trigger: trig}, fmt.Sprintf("git lfs fetch exited %d and left %s at the final path of %s (it was absent)", res.Code, state, oid[:12]), detail)
		}
	}
	filepath.Walk(store, func(p string, fi os.FileInfo, err error) error {
		if err == nil && fi.Mode().IsRegular() {
			if s, _, e := sbx.Sha256File(p); e == nil && s != filepath.Base(p) && p != final {
				run.Violation(evid.Sig{Symptom: "store-holds-invalid-object", Trigger: trig}, p+" hashes to "+s, detail)
			}
		}
		return nil
	})
}
