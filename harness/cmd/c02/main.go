// C02 — a download that reports success left bytes hashing to the requested OID;
// a download that reports failure left the final location untouched.
//
// Part A (in-process, -race): the real tq.TransferQueue with the REAL basic
// download adapter and the real custom-transfer adapter against the in-driver
// fake LFS server / a scripted transfer agent (this binary run as "verif-agent"),
// with scripted faults per GET attempt and pre-existing .part / final-path states.
// Part B (process level): two race-instrumented `git lfs fetch` processes fetch
// the same objects concurrently while an observer hashes the final paths; the
// history is checked with porcupine against a write-once register.
package main

import (
	"bufio"
	"encoding/json"
	"flag"
	"fmt"
	"math/rand"
	"net/http"
	"os"
	"path/filepath"
	"strings"
	"sync"
	"syscall"
	"time"

	"github.com/git-lfs/git-lfs/v3/fs"
	"github.com/git-lfs/git-lfs/v3/lfsapi"
	"github.com/git-lfs/git-lfs/v3/lfshttp"
	"github.com/git-lfs/git-lfs/v3/tq"
	"github.com/git-lfs/git-lfs/v3/verifhook"
	"verif/harness/evid"
	"verif/harness/fakelfs"
	"verif/harness/sbx"
	"verif/harness/shard"
)

var partStates = []string{"absent", "valid-1", "valid-half", "valid-size-2", "garbage-1", "garbage-half", "garbage-size-2", "len-size-1", "len-size", "longer"}
var getFaults = []string{"ok", "200-ignore-range", "206-wrong-start", "206-no-content-range", "206-malformed-content-range", "416", "404", "500", "503", "429", "429-no-retry-after", "429-garbage-retry-after", "429-date-retry-after", "cut-after-k", "short-body", "extra-bytes", "bitflip", "other-object", "empty-body", "reset", "redirect", "wrong-length-header"}
var agentFaults = []string{"ok", "truncated-file", "other-object-file", "missing-file", "final-path-itself", "wrong-oid-reply", "error-reply", "premature-exit", "garbage-line", "progress-then-ok"}

type tcase struct {
	Idx        int
	Adapter    string // basic | custom
	Size       int
	Part       string
	FinalPre   string // absent | garbage
	MaxRetries int
	Script     []string
	Objects    int // number of objects in the queue (the first one is the scripted victim)
}

func (c tcase) class() string {
	first := "ok"
	if len(c.Script) > 0 {
		first = c.Script[0]
	}
	return fmt.Sprintf("%s/part-%s/first-%s/final-%s/r%d", c.Adapter, c.Part, first, c.FinalPre, c.MaxRetries)
}

type result struct {
	Case       tcase
	Success    bool
	Errors     []string
	PreExists  bool
	PreSha     string
	PostExists bool
	PostSha    string
	SameInode  bool
	Requests   int
	GetStatus  []int
	Leftovers  []string
	BadObjects []string
	Viol       []viol
	Inconcl    string
	Attempts   int
}

type viol struct{ Sym, Trig, What string }

func gen(seed int64, idx int, systematic []tcase) tcase {
	if idx < len(systematic) {
		c := systematic[idx]
		c.Idx = idx
		return c
	}
	r := rand.New(rand.NewSource(seed*1000003 + int64(idx)*7919))
	c := tcase{Idx: idx, Adapter: "basic", Size: []int{1, 2, 1000, 70000}[r.Intn(4)], Part: partStates[r.Intn(len(partStates))], FinalPre: "absent", MaxRetries: 1 + r.Intn(3), Objects: 1 + r.Intn(3)}
	if r.Intn(8) == 0 {
		c.FinalPre = "garbage"
	}
	if r.Intn(4) == 0 {
		c.Adapter = "custom"
		n := 1 + r.Intn(c.MaxRetries+1)
		for i := 0; i < n; i++ {
			c.Script = append(c.Script, agentFaults[r.Intn(len(agentFaults))])
		}
		return c
	}
	n := 1 + r.Intn(c.MaxRetries+2)
	for i := 0; i < n; i++ {
		f := getFaults[r.Intn(len(getFaults))]
		if (f == "429" || f == "429-date-retry-after") && r.Intn(3) != 0 {
			f = "503"
		}
		c.Script = append(c.Script, f)
	}
	return c
}

func systematicCases() []tcase {
	var out []tcase
	// every (.part state x first-response class) pair
	for _, p := range partStates {
		for _, f := range getFaults {
			out = append(out, tcase{Adapter: "basic", Size: 1000, Part: p, FinalPre: "absent", MaxRetries: 2, Script: []string{f}, Objects: 1})
		}
	}
	for _, f := range agentFaults {
		for _, fp := range []string{"absent", "garbage"} {
			out = append(out, tcase{Adapter: "custom", Size: 1000, Part: "absent", FinalPre: fp, MaxRetries: 1, Script: []string{f}, Objects: 1})
		}
	}
	return out
}

func content(seed int64, n int) []byte {
	b := make([]byte, n)
	rand.New(rand.NewSource(seed)).Read(b)
	return b
}

func statFile(p string) (bool, string, uint64) {
	fi, err := os.Stat(p)
	if err != nil {
		return false, "", 0
	}
	sha, _, _ := sbx.Sha256File(p)
	var ino uint64
	if st, ok := fi.Sys().(*syscall.Stat_t); ok {
		ino = st.Ino
	}
	return true, sha, ino
}

func runCase(c tcase, scratch string, seed int64) *result {
	res := &result{Case: c}
	srv := fakelfs.New()
	defer srv.Close()
	root := filepath.Join(scratch, fmt.Sprintf("c%d", c.Idx))
	gitdir := filepath.Join(root, ".git")
	os.MkdirAll(gitdir, 0o755)
	defer os.RemoveAll(root)

	type obj struct {
		oid  string
		data []byte
	}
	var objs []obj
	for i := 0; i < c.Objects; i++ {
		sz := c.Size
		if i > 0 {
			sz = 300 + i
		}
		d := content(seed*31+int64(c.Idx)*17+int64(i), sz)
		objs = append(objs, obj{srv.Put("r", d), d})
	}
	other := content(seed*31+int64(c.Idx)*17+999, c.Size)
	victim := objs[0]

	scriptFile := filepath.Join(root, "agent-script.json")
	gitEnv := map[string]string{
		"lfs.url":                              srv.Endpoint("r"),
		"lfs.transfer.maxretries":              fmt.Sprint(c.MaxRetries),
		"lfs.concurrenttransfers":              "3",
		"remote.origin.url":                    srv.URL + "/repo.git",
		"lfs." + srv.Endpoint("r") + ".access": "none",
	}
	self, _ := os.Executable()
	if c.Adapter == "custom" {
		gitEnv["lfs.customtransfer.vagent.path"] = self
		gitEnv["lfs.customtransfer.vagent.args"] = "verif-agent " + scriptFile
		gitEnv["lfs.customtransfer.vagent.concurrent"] = "false"
	}
	client, err := lfsapi.NewClient(lfshttp.NewContext(nil, map[string]string{}, gitEnv))
	if err != nil {
		res.Inconcl = err.Error()
		return res
	}
	defer client.Close()
	f := fs.New(client.OSEnv(), gitdir, root, "", 0o755)
	final, _ := f.ObjectPath(victim.oid)
	incomplete := filepath.Join(f.LFSStorageDir, "incomplete")
	os.MkdirAll(incomplete, 0o755)

	// pre-existing .part
	n := len(victim.data)
	clamp := func(k int) int {
		if k < 0 {
			return 0
		}
		if k > n {
			return n
		}
		return k
	}
	garbage := func(k int) []byte { return content(int64(k)+77, k) }
	var part []byte
	switch c.Part {
	case "absent":
	case "valid-1":
		part = victim.data[:clamp(1)]
	case "valid-half":
		part = victim.data[:clamp(n/2)]
	case "valid-size-2":
		part = victim.data[:clamp(n-2)]
	case "garbage-1":
		part = garbage(1)
	case "garbage-half":
		part = garbage(clamp(n / 2))
	case "garbage-size-2":
		part = garbage(clamp(n - 2))
	case "len-size-1":
		part = garbage(clamp(n - 1))
	case "len-size":
		part = garbage(n)
	case "longer":
		part = garbage(n + 100)
	}
	if c.Part != "absent" {
		os.WriteFile(filepath.Join(incomplete, victim.oid+".part"), part, 0o644)
	}
	if c.FinalPre == "garbage" {
		os.MkdirAll(filepath.Dir(final), 0o755)
		os.WriteFile(final, []byte("pre-existing garbage at the final path"), 0o644)
	}
	res.PreExists, res.PreSha, _ = statFile(final)
	_, _, preIno := statFile(final)

	// server script for the victim's GETs
	var mu sync.Mutex
	attempt := 0
	srv.SetHook(func(r *fakelfs.Request) *fakelfs.Fault {
		if r.Kind == "batch" && c.Adapter == "custom" {
			return &fakelfs.Fault{Transfer: "vagent"}
		}
		if r.Kind != "storage-get" || r.Oid != victim.oid || c.Adapter == "custom" {
			return nil // (the agent fetches through the storage URL itself; its misbehaviour is scripted in the agent)
		}
		mu.Lock()
		k := attempt
		attempt++
		mu.Unlock()
		how := "ok"
		if k < len(c.Script) {
			how = c.Script[k]
		}
		switch how {
		case "ok":
			return nil
		case "200-ignore-range":
			return &fakelfs.Fault{IgnoreRange: true}
		case "206-wrong-start":
			return &fakelfs.Fault{WrongRangeStart: 1 + int64(k)}
		case "206-no-content-range":
			return &fakelfs.Fault{NoContentRange: true}
		case "206-malformed-content-range":
			return &fakelfs.Fault{ContentRange: "bytes banana"}
		case "416", "404", "500", "503":
			var st int
			fmt.Sscan(how, &st)
			return &fakelfs.Fault{Status: st}
		case "429":
			return &fakelfs.Fault{Status: 429, Header: map[string]string{"Retry-After": "1"}}
		case "429-no-retry-after":
			return &fakelfs.Fault{Status: 429}
		case "429-garbage-retry-after": // neither whole seconds nor an HTTP date
			return &fakelfs.Fault{Status: 429, Header: map[string]string{"Retry-After": []string{"1.5", "120s", "soon", "-1", ""}[k%5]}}
		case "429-date-retry-after":
			return &fakelfs.Fault{Status: 429, Header: map[string]string{"Retry-After": time.Now().Add(1500 * time.Millisecond).UTC().Format(http.TimeFormat)}}
		case "cut-after-k":
			return &fakelfs.Fault{CloseAfter: 1 + n/3}
		case "short-body":
			return &fakelfs.Fault{ReplaceBody: true, Body: victim.data[:clamp(n/2)], IgnoreRange: true}
		case "extra-bytes":
			return &fakelfs.Fault{ExtraBytes: 7}
		case "bitflip":
			b := append([]byte{}, victim.data...)
			b[len(b)/2] ^= 0x10
			return &fakelfs.Fault{ReplaceBody: true, Body: b}
		case "other-object":
			return &fakelfs.Fault{ReplaceBody: true, Body: other}
		case "empty-body":
			return &fakelfs.Fault{ReplaceBody: true, Body: []byte{}, IgnoreRange: true}
		case "reset":
			return &fakelfs.Fault{Reset: true}
		case "redirect":
			return &fakelfs.Fault{Status: 302, Header: map[string]string{"Location": fmt.Sprintf("%s/s/r/%s?t=%s&redir=%d", srv.URL, victim.oid, r.Token, k)}}
		case "wrong-length-header":
			return &fakelfs.Fault{Header: map[string]string{"X-Verif": "cl"}, CloseAfter: n - 1}
		}
		return nil
	})
	if c.Adapter == "custom" {
		sc := map[string]any{"victim": victim.oid, "script": c.Script, "server": srv.URL, "other": filepath.Join(root, "other.bin"), "final": final, "dir": root}
		os.WriteFile(filepath.Join(root, "other.bin"), other, 0o644)
		b, _ := json.Marshal(sc)
		os.WriteFile(scriptFile, b, 0o644)
	}

	verifhook.SetRetryScale(0.01)
	m := tq.NewManifest(f, client, "download", "origin")
	q := tq.NewTransferQueue(tq.Download, m, "origin")
	watch := q.Watch()
	got := map[string]int{}
	var wwg sync.WaitGroup
	wwg.Add(1)
	go func() {
		defer wwg.Done()
		for t := range watch {
			got[t.Oid]++
		}
	}()
	done := make(chan struct{})
	go func() {
		defer close(done)
		for i, o := range objs {
			p, _ := f.ObjectPath(o.oid)
			q.Add(fmt.Sprintf("file%d.bin", i), p, o.oid, int64(len(o.data)), false, nil)
		}
		q.Wait()
	}()
	select {
	case <-done:
	case <-time.After(4 * time.Minute):
		res.Inconcl = "watchdog: queue did not finish within 4 minutes"
		return res
	}
	wwg.Wait()
	for _, e := range q.Errors() {
		res.Errors = append(res.Errors, e.Error())
	}
	res.Success = got[victim.oid] > 0
	var postIno uint64
	res.PostExists, res.PostSha, postIno = statFile(final)
	res.SameInode = preIno == postIno
	for _, rq := range srv.Log() {
		if rq.Kind == "storage-get" && rq.Oid == victim.oid {
			res.Requests++
			res.GetStatus = append(res.GetStatus, rq.Status)
		}
	}
	if c.Adapter == "custom" {
		if b, err := os.ReadFile(filepath.Join(root, "agent-attempts")); err == nil {
			res.Attempts = len(strings.Fields(string(b)))
		}
	}
	trig := c.Adapter + "/part-" + c.Part + "/" + strings.Join(c.Script, ",")
	add := func(sym, what string) { res.Viol = append(res.Viol, viol{sym, trig, what}) }
	if res.Success {
		if !res.PostExists {
			add("success-but-no-object", "download of "+victim.oid+" reported successful, final path does not exist")
		} else if res.PostSha != victim.oid {
			add("success-with-bad-object", fmt.Sprintf("download reported successful, final path hashes to %s, want %s", res.PostSha, victim.oid))
		}
	} else {
		if len(res.Errors) == 0 {
			add("neither-success-nor-error", "object neither delivered nor covered by an error")
		}
		if res.PreExists != res.PostExists || res.PreSha != res.PostSha {
			// a failed download must not create or replace the final file ... unless what it put there is the valid object
			// (weakest reading: the property forbids creating/replacing at the final location on reported failure)
			add("failure-touched-final-path", fmt.Sprintf("download reported failed (%v) but final path changed: before exists=%v sha=%s, after exists=%v sha=%s", trunc(res.Errors), res.PreExists, res.PreSha, res.PostExists, res.PostSha))
		} else if res.PreExists && !res.SameInode {
			add("failure-replaced-final-path", "download reported failed but the final file was replaced (inode changed)")
		}
	}
	// other objects of the queue: success => valid
	for _, o := range objs[1:] {
		p, _ := f.ObjectPath(o.oid)
		ex, sha, _ := statFile(p)
		if got[o.oid] > 0 && (!ex || sha != o.oid) {
			add("success-with-bad-object", "bystander object "+o.oid+" reported successful but file is bad")
		}
	}
	// leftovers and stray objects
	snap := sbx.SnapshotLFS(gitdir)
	for rel, e := range snap {
		switch {
		case strings.HasPrefix(rel, "objects/"):
			if filepath.Base(rel) != e.Sha && !(c.FinalPre == "garbage" && filepath.Base(rel) == victim.oid && !res.Success) {
				res.BadObjects = append(res.BadObjects, rel)
				add("bad-object-in-store", fmt.Sprintf("lfs/%s hashes to %s", rel, e.Sha))
			}
		case strings.HasPrefix(rel, "incomplete/"), strings.HasPrefix(rel, "tmp/"), strings.HasPrefix(rel, "cache/"):
		default:
			res.Leftovers = append(res.Leftovers, rel)
			add("leftover-outside-temp-areas", "file left at lfs/"+rel)
		}
	}
	return res
}

func trunc(es []string) []string {
	var out []string
	for i, e := range es {
		if i > 3 {
			break
		}
		if len(e) > 200 {
			e = e[:200]
		}
		out = append(out, e)
	}
	return out
}

// ---- scripted transfer agent (custom adapter peer) ----

func agentMain(scriptFile string) {
	var sc struct {
		Victim string
		Script []string
		Other  string
		Final  string
		Dir    string
	}
	b, _ := os.ReadFile(scriptFile)
	json.Unmarshal(b, &sc)
	in := bufio.NewScanner(os.Stdin)
	in.Buffer(make([]byte, 1<<20), 1<<24)
	out := bufio.NewWriter(os.Stdout)
	say := func(v any) {
		b, _ := json.Marshal(v)
		out.Write(b)
		out.WriteByte('\n')
		out.Flush()
	}
	for in.Scan() {
		var msg map[string]any
		if json.Unmarshal(in.Bytes(), &msg) != nil {
			continue
		}
		switch msg["event"] {
		case "init":
			say(map[string]any{})
		case "terminate":
			return
		case "download":
			oid, _ := msg["oid"].(string)
			// fetch the object from the fake server's store through its storage URL
			act, _ := msg["action"].(map[string]any)
			href, _ := act["href"].(string)
			data := fetch(href)
			how := "ok"
			if oid == sc.Victim {
				af := filepath.Join(sc.Dir, "agent-attempts")
				prev, _ := os.ReadFile(af)
				k := len(strings.Fields(string(prev)))
				os.WriteFile(af, append(prev, []byte("x ")...), 0o644)
				if k < len(sc.Script) {
					how = sc.Script[k]
				}
			}
			tmp := filepath.Join(sc.Dir, fmt.Sprintf("agent-dl-%s-%d", oid[:8], time.Now().UnixNano()))
			switch how {
			case "ok", "progress-then-ok":
				os.WriteFile(tmp, data, 0o644)
				if how == "progress-then-ok" {
					say(map[string]any{"event": "progress", "oid": oid, "bytesSoFar": len(data) / 2, "bytesSinceLast": len(data) / 2})
				}
				say(map[string]any{"event": "complete", "oid": oid, "path": tmp})
			case "truncated-file":
				os.WriteFile(tmp, data[:len(data)/2], 0o644)
				say(map[string]any{"event": "complete", "oid": oid, "path": tmp})
			case "other-object-file":
				say(map[string]any{"event": "complete", "oid": oid, "path": sc.Other})
			case "missing-file":
				say(map[string]any{"event": "complete", "oid": oid, "path": tmp + ".does-not-exist"})
			case "final-path-itself":
				say(map[string]any{"event": "complete", "oid": oid, "path": sc.Final})
			case "wrong-oid-reply":
				os.WriteFile(tmp, data, 0o644)
				say(map[string]any{"event": "complete", "oid": strings.Repeat("0", 64), "path": tmp})
			case "error-reply":
				say(map[string]any{"event": "complete", "oid": oid, "error": map[string]any{"code": 2, "message": "verif agent error"}})
			case "premature-exit":
				os.Exit(3)
			case "garbage-line":
				out.WriteString("this is not json\n")
				out.Flush()
			}
		}
	}
}

func fetch(href string) []byte {
	// the fake server's storage URL answers plain GETs
	resp, err := httpGet(href)
	if err != nil {
		return nil
	}
	return resp
}

func main() {
	if len(os.Args) >= 3 && os.Args[1] == "verif-agent" {
		agentMain(os.Args[2])
		return
	}
	// Part C peer: this binary as the fake `ssh` (sshpeer.go)
	if len(os.Args) >= 3 && os.Args[1] == "verif-ssh" {
		sshPeerMain(os.Args[2], os.Args[3:])
		return
	}
	if filepath.Base(os.Args[0]) == "ssh" && os.Getenv("VERIF_SSH_SCRIPT") != "" {
		sshPeerMain(os.Getenv("VERIF_SSH_SCRIPT"), os.Args[1:])
		return
	}
	flag.Parse()
	if shard.IsChild() {
		var seed int64
		fmt.Sscan(shard.Arg(), &seed)
		// named after the parent so that it can remove what a killed child left behind
		scratch, _ := os.MkdirTemp("", fmt.Sprintf("verif-c02-%d-", os.Getppid()))
		defer os.RemoveAll(scratch)
		sys := systematicCases()
		shard.Child(func(i int) any { return runCase(gen(seed, i, sys), scratch, seed) })
		return
	}
	run := evid.New("C02", "fault_enumeration")
	defer sbx.RemoveBase()
	run.Rule = "Part A: the real transfer queue with the real basic download adapter / custom-transfer adapter (in-process, -race) against a scripted fake LFS server or scripted transfer agent: systematic table of every (.part state x first GET answer class) pair and every agent misbehaviour, plus seeded random scripts of length 1..retries+2 over 22 GET fault classes (status 200/206/416/404/5xx, 429 with Retry-After in seconds / as HTTP date / absent / unparsable, body exact/prefix/cut connection/extra bytes/bit flip/other object/empty, Content-Range correct/wrong start/missing/malformed, ignore Range, reset, redirect) x 10 .part states x pre-existing garbage at the final path x 1-3 objects. Oracle: reported success => SHA-256(final path) == oid; reported failure => final path identical (existence, hash, inode) to before; nothing left outside lfs/incomplete|tmp; every file under lfs/objects hashes to its name. Part C: the real pure-SSH download adapter of the git-lfs binary (git lfs fetch / pull, process level) against a scripted fake ssh peer speaking the git-lfs-transfer pkt-line protocol: every get-object answer class (sizes announced wrong/missing/duplicated/malformed, data short/long/bit-flipped/substituted/empty, status 404/500/206/garbage, missing delimiter, delimiter or empty packet inside the data, close before/inside the data, extra packets after the flush, tiny/maximal packets) and every batch answer class (noop / upload action / omitted / unknown oid / wrong size) once, a sample of (.part state x answer class) pairs, garbage at the final path, seeded random scripts over 1-4 objects of 1 B-200 kB; three ways of installing the ssh program, three URL forms, three sshtransfer settings; class = (.part state, first answer, final pre-state, command, exit). Part D: the built-in standalone file agent (file:// remote, git lfs fetch / pull at process level) with each source object in the remote's store one of {intact, missing, truncated, extended, bit-flipped, another object's bytes, empty, a directory}, optional garbage at the final path; same oracle at process level. Part E: the local object store on another filesystem than the temporary area (.git/lfs/objects a symbolic link into /dev/shm), git lfs fetch at process level with and without an injected write error (ENOSPC/EIO at the 1st-3rd write) on the object's final path; same oracle. Part B: two race-instrumented git-lfs processes fetching the same objects with an observer; porcupine write-once-register check. Class = (adapter, .part state, first answer, final pre-state, retries)."
	run.Assumptions = []string{"success = the object is delivered on the queue's Watch channel; failure = it is not and an error is reported", "back-off sleeps scaled by 0.01 through the verif hook", "Part C (pure SSH adapter) is judged at process level: a command that exits 0 reports every object of the tree successful; a command that exits non-zero reports nothing per object, so each object must be either untouched or valid; in addition the adapter's own success report is read from the verif-tagged hook event adapter.attempt.ok (VERIF_TRACE)", "the fake ssh ignores host, port and all ssh options and refuses git-lfs-authenticate; pure SSH is selected by lfs.<url>.sshtransfer=always, lfs.sshtransfer=always or the default negotiate order", "the ssh adapter never resumes from lfs/incomplete/<oid>.part (it downloads into a fresh temp file); the .part states are still planted to show they have no influence"}
	sys := systematicCases()
	total := len(sys) + run.N(160, 3000)
	if run.Quick() {
		// quick: a third of the systematic table (rotating with the seed) + random scripts
		total = len(sys) + 160
	}
	if os.Getenv("VERIF_C02_PART") == "E" { // development aid: Part E alone (never set by ./check)
		crossFsPart(run)
		run.Finish()
	}
	if os.Getenv("VERIF_C02_PART") == "D" { // development aid: Part D alone (never set by ./check)
		standalonePart(run)
		run.Finish()
	}
	if os.Getenv("VERIF_C02_PART") == "C" { // development aid: Part C alone (never set by ./check)
		sshPart(run)
		run.Finish()
	}
	results := shard.Parent(total, fmt.Sprint(run.Seed), []string{"GORACE=halt_on_error=0"})
	if left, _ := filepath.Glob(filepath.Join(os.TempDir(), fmt.Sprintf("verif-c02-%d-*", os.Getpid()))); len(left) > 0 {
		// scratch directories of children that were killed before their deferred clean-up ran
		for _, d := range left {
			os.RemoveAll(d)
		}
	}
	for _, r := range results {
		if r.Crashed {
			if r.Idx < 0 {
				run.Inconclusive(r.Stderr)
				continue
			}
			c := gen(run.Seed, r.Idx, sys)
			run.Case(c.class(), nil)
			msg := r.Panic
			if msg == "" {
				msg = "child died"
			}
			run.Violation(evid.Sig{Symptom: "go-panic", Trigger: c.Adapter + "/part-" + c.Part + "/" + strings.Join(c.Script, ",")}, msg, map[string]any{"case": c, "stderr": r.Stderr})
			continue
		}
		var res result
		if json.Unmarshal(r.Raw, &res) != nil {
			continue
		}
		out := "failure"
		if res.Success {
			out = "success"
		}
		run.Case(res.Case.class()+"/"+out, map[string]any{"case": res.Case, "success": res.Success, "get_statuses": res.GetStatus, "errors": trunc(res.Errors)})
		run.Count("downloads_reported_"+out, 1)
		run.Count("storage_get_requests", int64(res.Requests))
		run.Count("agent_attempts", int64(res.Attempts))
		if res.Inconcl != "" {
			run.Inconclusive(fmt.Sprintf("case %d: %s", res.Case.Idx, res.Inconcl))
		}
		for _, v := range res.Viol {
			run.Violation(evid.Sig{Symptom: v.Sym, Trigger: v.Trig}, v.What, map[string]any{"result": res})
		}
	}
	sshPart(run)
	standalonePart(run)
	crossFsPart(run)
	twoProcess(run)
	run.Finish()
}
