package main

// Part C (process level): the REAL pure-SSH download adapter (tq/ssh.go, ssh/*)
// of the git-lfs binary against the scripted fake `ssh` peer of sshpeer.go.
//
// Per case: one sbx env + one repository whose tree holds canonical pointer
// files for N objects, remote origin = an ssh URL on a host that is never
// resolved (the fake ssh ignores it), pure SSH forced with
// lfs[.<url>].sshtransfer=always (or left to the default "negotiate" with the
// peer refusing git-lfs-authenticate), the fake ssh installed through
// GIT_SSH_COMMAND / GIT_SSH / core.sshCommand, pre-existing
// .git/lfs/incomplete/<oid>.part states and optionally garbage at the final
// path; then `git lfs fetch origin main` or `git lfs pull origin`.
//
// Oracle (bytes hashed by the driver, nothing of git-lfs involved):
//   - command exits 0  => every object of the tree is present and hashes to its name;
//   - command exits !0 => every object individually: final path unchanged
//     (existence, SHA-256, inode) or holding exactly the right bytes (a failed
//     command may have completed some objects);
//   - the adapter hook "adapter.attempt.ok <oid>" (verif build tag, VERIF_TRACE)
//     => that object is present and valid, whatever the exit code;
//   - every file under lfs/objects hashes to its name (but for garbage the
//     driver itself planted and that is still untouched); nothing is left
//     outside lfs/incomplete, lfs/tmp, lfs/cache;
//   - no Go panic.
// A case in which the peer saw no get-object request at all is inconclusive.

import (
	"bufio"
	"bytes"
	"encoding/json"
	"fmt"
	"math/rand"
	"os"
	"path/filepath"
	"runtime"
	"sort"
	"strings"
	"sync"
	"time"

	"verif/harness/evid"
	"verif/harness/ptrspec"
	"verif/harness/sbx"
)

type sshCase struct {
	Idx        int
	Size       int
	Part       string
	FinalPre   string // absent | garbage
	MaxRetries int
	Script     []string // get-object faults for the victim, per attempt
	BatchFault string   // "" or a batch fault for the victim
	Objects    int      // objects in the tree (the first one is the scripted victim)
	Cmd        string   // fetch | pull
	Install    string   // ssh-command | git-ssh | core-sshcommand
	URL        string   // ssh-url | ssh-url-port | scp-like
	Mode       string   // always-url | always-global | negotiate-default
	Concurrent int
	Multiplex  bool
}

func (c sshCase) faults() []string {
	var f []string
	if c.BatchFault != "" {
		f = append(f, c.BatchFault)
	}
	return append(f, c.Script...)
}

func (c sshCase) trigger() string {
	return "ssh/part-" + c.Part + "/" + strings.Join(c.faults(), ",")
}

func (c sshCase) class() string {
	first := "ok"
	if f := c.faults(); len(f) > 0 {
		first = f[0]
	}
	return fmt.Sprintf("ssh/part-%s/first-%s/final-%s/%s", c.Part, first, c.FinalPre, c.Cmd)
}

type sshObjState struct {
	Oid        string
	Size       int
	PreExists  bool
	PreSha     string
	PostExists bool
	PostSha    string
	SameInode  bool
	AdapterOK  bool
}

type sshResult struct {
	Case               sshCase
	Exit               int
	TimedOut           bool
	Stderr             string
	Objs               []sshObjState
	Sessions           int
	Ended              int
	AuthCalls          int
	Batches            int
	GetByFault         map[string]int
	GetRequests        int
	BytesSent          int64
	AttemptOK          int
	AttemptFail        int
	Multiplexed        int
	NoTransferDeclared int
	PortArgs           int
	Viol               []viol
	Inconcl            string
	CommandLines       []string
}

func sshBaseCase() sshCase {
	return sshCase{Size: 1000, Part: "absent", FinalPre: "absent", MaxRetries: 2, Objects: 1, Cmd: "fetch", Install: "ssh-command", URL: "ssh-url", Mode: "always-url", Concurrent: 3, Multiplex: true}
}

// sshCases builds the fixed-length case list of the tier.
func sshCases(seed int64, quick bool) []sshCase {
	var out []sshCase
	installs := []string{"ssh-command", "git-ssh", "core-sshcommand"}
	urls := []string{"ssh-url", "ssh-url-port", "scp-like"}
	modes := []string{"always-url", "always-global", "negotiate-default"}
	vary := func(c *sshCase, k int) {
		c.Install = installs[k%3]
		c.URL = urls[(k/3)%3]
		c.Mode = modes[(k/2)%3]
		c.Multiplex = k%4 != 3
	}
	// (a) every get-object fault class once as the first answer, .part absent
	for i, f := range sshGetFaults {
		c := sshBaseCase()
		c.Script = []string{f}
		vary(&c, i+int(seed))
		out = append(out, c)
	}
	// (b) every batch fault class once; two bystanders so that the session still carries downloads
	for i, f := range sshBatchFaults {
		c := sshBaseCase()
		c.BatchFault = f
		c.Objects = 3
		vary(&c, i+int(seed)+1)
		out = append(out, c)
	}
	// (c) (.part state x fault) pairs: a rotating sample in the quick tier, the full table in the thorough tier;
	//     and every fault with garbage already sitting at the final path (thorough) / a rotating sample (quick)
	type pair struct{ p, f string }
	var pairs []pair
	for _, p := range partStates[1:] {
		for _, f := range sshGetFaults {
			pairs = append(pairs, pair{p, f})
		}
	}
	step, off := 1, 0
	if quick {
		step = 11 // co-prime with len(partStates)-1 and len(sshGetFaults): walks through both coordinates
		off = int(((seed % 11) + 11) % 11)
	}
	for i := off; i < len(pairs); i += step {
		c := sshBaseCase()
		c.Part, c.Script = pairs[i].p, []string{pairs[i].f}
		vary(&c, i)
		if i%5 == 0 {
			c.Cmd = "pull"
		}
		out = append(out, c)
	}
	for i, f := range sshGetFaults {
		if quick && (i+int(seed%4)+4)%4 != 0 {
			continue
		}
		c := sshBaseCase()
		c.FinalPre, c.Script = "garbage", []string{f}
		vary(&c, i+2)
		out = append(out, c)
	}
	return out
}

func sshRandomCase(seed int64, idx int) sshCase {
	r := rand.New(rand.NewSource(seed*1000033 + int64(idx)*7927 + 5))
	c := sshCase{
		Size:       []int{1, 2, 1000, 70000, 200000}[r.Intn(5)],
		Part:       partStates[r.Intn(len(partStates))],
		FinalPre:   "absent",
		MaxRetries: 1 + r.Intn(3),
		Objects:    1 + r.Intn(4),
		Cmd:        "fetch",
		Install:    []string{"ssh-command", "git-ssh", "core-sshcommand"}[r.Intn(3)],
		URL:        []string{"ssh-url", "ssh-url-port", "scp-like"}[r.Intn(3)],
		Mode:       []string{"always-url", "always-global", "negotiate-default"}[r.Intn(3)],
		Concurrent: 1 + r.Intn(4),
		Multiplex:  r.Intn(4) != 0,
	}
	if r.Intn(3) == 0 {
		c.Cmd = "pull"
	}
	if r.Intn(5) == 0 {
		c.FinalPre = "garbage"
	}
	if r.Intn(10) == 0 {
		c.BatchFault = sshBatchFaults[r.Intn(len(sshBatchFaults))]
		if c.Objects < 2 {
			c.Objects = 2
		}
	}
	n := 1 + r.Intn(c.MaxRetries+2)
	for i := 0; i < n; i++ {
		c.Script = append(c.Script, sshGetFaults[r.Intn(len(sshGetFaults))])
	}
	return c
}

const sshFinalGarbage = "pre-existing garbage at the final path"

func runSSHCase(c sshCase, seed int64) *sshResult {
	res := &sshResult{Case: c, GetByFault: map[string]int{}}
	env := sbx.New()
	defer env.Cleanup()
	env.Timeout = 4 * time.Minute
	repo := env.InitRepo("repo")
	gitDir := filepath.Join(repo, ".git")
	peerDir := env.Dir("peer")
	self, _ := os.Executable()

	// objects: the driver is the only holder of the true bytes
	type obj struct {
		oid  string
		data []byte
	}
	var objs []obj
	sc := sshScript{Dir: peerDir, Objects: map[string]string{}, Get: map[string][]string{}, Batch: map[string]string{}}
	os.WriteFile(filepath.Join(repo, ".gitattributes"), []byte("*.bin filter=lfs diff=lfs merge=lfs -text\n"), 0o644)
	for i := 0; i < c.Objects; i++ {
		sz := c.Size
		if i > 0 {
			sz = []int{300, 66000, 7, 1500}[(i-1)%4] + i
		}
		d := content(seed*37+int64(c.Idx)*19+int64(i)+1_000_000, sz)
		o := obj{sbx.Sha256Hex(d), d}
		objs = append(objs, o)
		f := filepath.Join(peerDir, fmt.Sprintf("obj-%d", i))
		os.WriteFile(f, d, 0o644)
		sc.Objects[o.oid] = f
		os.WriteFile(filepath.Join(repo, fmt.Sprintf("f%d.bin", i)), []byte(ptrspec.Canonical(ptrspec.Pointer{Oid: o.oid, Size: int64(len(d))})), 0o644)
	}
	victim := objs[0]
	other := content(seed*37+int64(c.Idx)*19+999_999, c.Size)
	sc.Other = filepath.Join(peerDir, "other.bin")
	os.WriteFile(sc.Other, other, 0o644)
	sc.Get[victim.oid] = c.Script
	if c.BatchFault != "" {
		sc.Batch[victim.oid] = c.BatchFault
	}
	scriptFile := filepath.Join(peerDir, "script.json")
	b, _ := json.Marshal(sc)
	os.WriteFile(scriptFile, b, 0o644)

	if r := env.PlainGit(repo, "add", "-A"); !r.OK() {
		res.Inconcl = "setup: git add failed: " + sbx.Trunc(r.Stderr, 300)
		return res
	}
	if r := env.PlainGit(repo, "commit", "-q", "-m", "pointers"); !r.OK() {
		res.Inconcl = "setup: git commit failed: " + sbx.Trunc(r.Stderr, 300)
		return res
	}
	var url, cfgURL string
	switch c.URL {
	case "ssh-url-port":
		url = "ssh://git@verif.invalid:2222/repo.git"
		cfgURL = url
	case "scp-like":
		url = "git@verif.invalid:repo.git"
		cfgURL = "ssh://git@verif.invalid/repo.git"
	default:
		url = "ssh://git@verif.invalid/repo.git"
		cfgURL = url
	}
	env.MustGit(repo, "remote", "add", "origin", url)
	switch c.Mode {
	case "always-url":
		env.MustGit(repo, "config", "lfs."+cfgURL+".sshtransfer", "always")
	case "always-global":
		env.MustGit(repo, "config", "lfs.sshtransfer", "always")
	case "negotiate-default":
		// nothing: pure SSH is tried first; the peer refuses git-lfs-authenticate
	}
	env.MustGit(repo, "config", "lfs.transfer.maxretries", fmt.Sprint(c.MaxRetries))
	env.MustGit(repo, "config", "lfs.concurrenttransfers", fmt.Sprint(c.Concurrent))
	if !c.Multiplex {
		env.MustGit(repo, "config", "lfs.ssh.automultiplex", "false")
	}
	trace := filepath.Join(peerDir, "hook.trace")
	extra := []string{"VERIF_RETRY_SCALE=0.01", "VERIF_TRACE=" + trace}
	switch c.Install {
	case "git-ssh":
		bin := env.Dir("fakebin")
		link := filepath.Join(bin, "ssh")
		if err := os.Symlink(self, link); err != nil {
			res.Inconcl = "setup: symlink: " + err.Error()
			return res
		}
		extra = append(extra, "GIT_SSH="+link, "VERIF_SSH_SCRIPT="+scriptFile)
	case "core-sshcommand":
		env.MustGit(repo, "config", "core.sshCommand", self+" verif-ssh "+scriptFile)
	default:
		extra = append(extra, "GIT_SSH_COMMAND="+self+" verif-ssh "+scriptFile)
	}

	// pre-existing .part of the victim and pre-state of the final paths
	incomplete := filepath.Join(gitDir, "lfs", "incomplete")
	os.MkdirAll(incomplete, 0o755)
	n := len(victim.data)
	clamp := func(k int) int {
		if k < 0 {
			return 0
		}
		if k > n {
			return n
		}
		return k
	}
	garbage := func(k int) []byte { return content(int64(k)+77, k) }
	var part []byte
	switch c.Part {
	case "valid-1":
		part = victim.data[:clamp(1)]
	case "valid-half":
		part = victim.data[:clamp(n/2)]
	case "valid-size-2":
		part = victim.data[:clamp(n-2)]
	case "garbage-1":
		part = garbage(1)
	case "garbage-half":
		part = garbage(clamp(n / 2))
	case "garbage-size-2":
		part = garbage(clamp(n - 2))
	case "len-size-1":
		part = garbage(clamp(n - 1))
	case "len-size":
		part = garbage(n)
	case "longer":
		part = garbage(n + 100)
	}
	if c.Part != "absent" {
		os.WriteFile(filepath.Join(incomplete, victim.oid+".part"), part, 0o644)
	}
	final := sbx.ObjectPath(gitDir, victim.oid)
	if c.FinalPre == "garbage" {
		// (its length differs from every object size used, otherwise fetch would take the object for present and not download)
		os.MkdirAll(filepath.Dir(final), 0o755)
		os.WriteFile(final, []byte(sshFinalGarbage), 0o644)
	}
	preIno := map[string]uint64{}
	for _, o := range objs {
		st := sshObjState{Oid: o.oid, Size: len(o.data)}
		var ino uint64
		st.PreExists, st.PreSha, ino = statFile(sbx.ObjectPath(gitDir, o.oid))
		preIno[o.oid] = ino
		res.Objs = append(res.Objs, st)
	}

	// the command under test
	args := []string{"lfs", "fetch", "origin", "main"}
	if c.Cmd == "pull" {
		args = []string{"lfs", "pull", "origin"}
	}
	res.CommandLines = []string{"git " + strings.Join(args, " "), strings.Join(extra, " ")}
	r := env.Run(sbx.RunOpt{Dir: repo, Env: extra}, "git", args...)
	res.Exit, res.TimedOut = r.Code, r.TimedOut
	res.Stderr = sbx.Trunc(r.Stderr, 1500)

	// what the peer saw
	victimGets := 0
	if f, err := os.Open(filepath.Join(peerDir, "peer.log")); err == nil {
		s := bufio.NewScanner(f)
		s.Buffer(make([]byte, 1<<16), 1<<22)
		for s.Scan() {
			var e sshEvent
			if json.Unmarshal(s.Bytes(), &e) != nil {
				continue
			}
			switch e.Ev {
			case "session":
				res.Sessions++
				if strings.Contains(e.Note, "-oControlMaster=") {
					res.Multiplexed++
				}
				if strings.Contains(e.Note, "-p 2222") {
					res.PortArgs++
				}
			case "end":
				res.Ended++
				res.BytesSent += e.Bytes
			case "auth":
				res.AuthCalls++
			case "batch":
				res.Batches++
			case "get-object":
				res.GetRequests++
				res.GetByFault[e.Fault]++
				if e.Oid == victim.oid {
					victimGets++
				}
			}
		}
		f.Close()
	}
	// what the adapter hook saw
	adapterOK := map[string]bool{}
	if tb, err := os.ReadFile(trace); err == nil {
		for _, l := range bytes.Split(tb, []byte("\n")) {
			var e struct {
				Kind string `json:"kind"`
				Oid  string `json:"oid"`
			}
			if json.Unmarshal(l, &e) != nil {
				continue
			}
			switch e.Kind {
			case "adapter.attempt.ok":
				adapterOK[e.Oid] = true
				res.AttemptOK++
			case "adapter.attempt.fail":
				res.AttemptFail++
			}
		}
	}

	trig := c.trigger()
	add := func(sym, what string) { res.Viol = append(res.Viol, viol{sym, trig, what}) }
	if r.GoCrash() {
		add("go-panic", "git "+strings.Join(args, " ")+" crashed: "+sbx.Trunc(r.Stderr, 1500))
	}
	if r.TimedOut {
		// every peer action is finite; when every session that started has also ended (nothing is left that
		// could still send a byte) and the command still has not returned, it hangs. Otherwise: no verdict.
		if res.Sessions > 0 && res.Ended >= res.Sessions {
			add("fetch-hung", fmt.Sprintf("git %s did not return within %v although all %d peer sessions had ended", strings.Join(args, " "), env.Timeout, res.Sessions))
		} else {
			res.Inconcl = fmt.Sprintf("watchdog: command did not return within %v (peer sessions %d, ended %d)", env.Timeout, res.Sessions, res.Ended)
		}
		return res
	}
	for i := range res.Objs {
		st := &res.Objs[i]
		var ino uint64
		st.PostExists, st.PostSha, ino = statFile(sbx.ObjectPath(gitDir, st.Oid))
		st.SameInode = ino == preIno[st.Oid]
		st.AdapterOK = adapterOK[st.Oid]
		valid := st.PostExists && st.PostSha == st.Oid
		unchanged := st.PreExists == st.PostExists && st.PreSha == st.PostSha && (!st.PreExists || st.SameInode)
		who := "object"
		if i == 0 {
			who = "victim object"
		}
		switch {
		case i == 0 && (c.BatchFault == "batch-noop" || c.BatchFault == "batch-upload-action") && victimGets == 0:
			// The peer answered the batch with no download action for this object ("noop": the server declares
			// that no transfer is needed) and git-lfs never asked for it: no download of this object took place,
			// so none was reported successful or failed, whatever the exit code (git lfs fetch --json lists no
			// transfer for it either). Weakest reading of the statement: C02 demands nothing of the object's
			// presence here (that a fetch exiting 0 leaves every object present is C04's business; "declared by
			// the server to need no transfer" is a legitimate outcome in C06). What C02 still forbids is that
			// the final path was created or replaced with wrong bytes.
			res.NoTransferDeclared++
			if !valid && !unchanged {
				add("failure-touched-final-path", fmt.Sprintf("%s %s was declared to need no transfer by the batch answer, yet its final path changed without holding the right bytes: after exists=%v sha=%s", who, st.Oid, st.PostExists, st.PostSha))
			}
		case r.Code == 0 && !st.PostExists:
			add("success-but-no-object", fmt.Sprintf("git %s exited 0 but %s %s is not in local storage", strings.Join(args, " "), who, st.Oid))
		case r.Code == 0 && !valid:
			add("success-with-bad-object", fmt.Sprintf("git %s exited 0 but %s %s hashes to %s", strings.Join(args, " "), who, st.Oid, st.PostSha))
		case r.Code != 0 && !valid && !unchanged:
			add("failure-touched-final-path", fmt.Sprintf("git %s exited %d; final path of %s %s changed without holding the right bytes: before exists=%v sha=%s, after exists=%v sha=%s same-inode=%v", strings.Join(args, " "), r.Code, who, st.Oid, st.PreExists, st.PreSha, st.PostExists, st.PostSha, st.SameInode))
		}
		if st.AdapterOK && !valid && r.Code != 0 {
			add("success-with-bad-object", fmt.Sprintf("the ssh adapter reported the download of %s %s successful (adapter.attempt.ok) but the final path exists=%v sha=%s", who, st.Oid, st.PostExists, st.PostSha))
		}
	}
	for rel, e := range sbx.SnapshotLFS(gitDir) {
		switch {
		case strings.HasPrefix(rel, "objects/"):
			name := filepath.Base(rel)
			planted := c.FinalPre == "garbage" && name == victim.oid && e.Sha == sbx.Sha256Hex([]byte(sshFinalGarbage)) && e.Inode == preIno[victim.oid]
			if name != e.Sha && !planted {
				add("bad-object-in-store", fmt.Sprintf("lfs/%s hashes to %s", rel, e.Sha))
			}
		case strings.HasPrefix(rel, "incomplete/"), strings.HasPrefix(rel, "tmp/"), strings.HasPrefix(rel, "cache/"):
		default:
			add("leftover-outside-temp-areas", "file left at lfs/"+rel)
		}
	}
	if res.GetRequests == 0 && len(res.Viol) == 0 {
		res.Inconcl = fmt.Sprintf("the fake ssh peer received no get-object request (sessions=%d batches=%d auth=%d exit=%d): no download was attempted, nothing to judge; stderr: %s", res.Sessions, res.Batches, res.AuthCalls, r.Code, sbx.Trunc(r.Stderr, 300))
	}
	return res
}

// sshPart: Part C.
func sshPart(run *evid.Run) {
	cases := sshCases(run.Seed, run.Quick())
	total := run.N(60, 1500)
	if len(cases) > total {
		total = len(cases)
	}
	for i := len(cases); i < total; i++ {
		cases = append(cases, sshRandomCase(run.Seed, i))
	}
	for i := range cases {
		cases[i].Idx = i
	}
	results := make([]*sshResult, len(cases))
	sbx.Base() // create the scratch root before the workers start
	workers := runtime.NumCPU()
	if workers > 16 {
		workers = 16
	}
	jobs := make(chan int)
	var wg sync.WaitGroup
	for w := 0; w < workers; w++ {
		wg.Add(1)
		go func() {
			defer wg.Done()
			for i := range jobs {
				r := runSSHCase(cases[i], run.Seed)
				if r.Inconcl != "" && len(r.Viol) == 0 {
					r = runSSHCase(cases[i], run.Seed) // inconclusive cases are retried once
				}
				results[i] = r
			}
		}()
	}
	for i := range cases {
		jobs <- i
	}
	close(jobs)
	wg.Wait()

	for _, res := range results {
		out := "exit0"
		if res.Exit != 0 {
			out = "exit-nonzero"
		}
		if res.TimedOut {
			out = "timeout"
		}
		run.Case(res.Case.class()+"/"+out, map[string]any{"case": res.Case, "exit": res.Exit, "get_object_by_fault": res.GetByFault, "sessions": res.Sessions, "adapter_ok": res.AttemptOK, "adapter_fail": res.AttemptFail, "stderr": sbx.Trunc([]byte(res.Stderr), 300)})
		run.Count("ssh_cases", 1)
		run.Count("ssh_commands_"+out, 1)
		run.Count("ssh_cmd_"+res.Case.Cmd, 1)
		run.Count("ssh_install_"+res.Case.Install, 1)
		run.Count("ssh_mode_"+res.Case.Mode, 1)
		run.Count("ssh_sessions", int64(res.Sessions))
		run.Count("ssh_sessions_with_multiplex_options", int64(res.Multiplexed))
		run.Count("ssh_sessions_with_port_option", int64(res.PortArgs))
		run.Count("ssh_authenticate_calls", int64(res.AuthCalls))
		run.Count("ssh_batch_requests", int64(res.Batches))
		run.Count("ssh_get_object_requests", int64(res.GetRequests))
		run.Count("ssh_bytes_sent_by_peer", res.BytesSent)
		run.Count("ssh_adapter_attempts_ok", int64(res.AttemptOK))
		run.Count("ssh_adapter_attempts_failed", int64(res.AttemptFail))
		run.Count("ssh_objects_judged", int64(len(res.Objs)))
		run.Count("ssh_objects_declared_no_transfer_by_batch_answer", int64(res.NoTransferDeclared))
		var fs []string
		for f := range res.GetByFault {
			fs = append(fs, f)
		}
		sort.Strings(fs)
		for _, f := range fs {
			run.Count("ssh_get_object/"+f, int64(res.GetByFault[f]))
		}
		if res.Case.BatchFault != "" {
			run.Count("ssh_batch_fault/"+res.Case.BatchFault, 1)
		}
		if res.Inconcl != "" {
			run.Inconclusive(fmt.Sprintf("ssh case %d (%s): %s", res.Case.Idx, res.Case.trigger(), res.Inconcl))
		}
		for _, v := range res.Viol {
			run.Violation(evid.Sig{Symptom: v.Sym, Trigger: v.Trig}, v.What, map[string]any{"result": res})
		}
	}
}
