package main

import (
	"io"
	"net/http"
)

func httpGet(url string) ([]byte, error) {
	resp, err := http.Get(url)
	if err != nil {
		return nil, err
	}
	defer resp.Body.Close()
	return io.ReadAll(resp.Body)
}
