package main

// Part D — the built-in standalone file transfer agent (`git-lfs standalone-file`, used for file:// remotes),
// process level: `git lfs fetch` / `git lfs pull` from a bare repository whose lfs/objects holds, for each
// wanted object, one of {intact, missing, truncated, extended, bit-flipped, another object's bytes, empty file,
// a directory}. Oracle (the property's): a command that exits 0 reports every wanted object downloaded, so each
// must hash to its id at the final path; after a command that exits non-zero every wanted object's final path
// is either absent/unchanged or valid; whatever the exit status, every file below lfs/objects hashes to its name.

import (
	"fmt"
	"math/rand"
	"os"
	"path/filepath"
	"sort"
	"strings"

	"verif/harness/evid"
	"verif/harness/ptrspec"
	"verif/harness/sbx"
)

var standaloneDamage = []string{"intact", "intact", "missing", "truncated", "extended", "bitflip", "other-object", "empty", "directory"}

func standalonePart(run *evid.Run) {
	n := run.N(24, 400)
	for i := 0; i < n; i++ {
		standaloneCase(run, i)
	}
}

func standaloneCase(run *evid.Run, idx int) {
	r := rand.New(rand.NewSource(run.Seed*7723 + int64(idx)*131 + 5))
	env := sbx.New()
	defer env.Cleanup()
	bare := env.InitBare("origin.git")
	repo := env.InitRepo("repo")
	os.WriteFile(filepath.Join(repo, ".gitattributes"), []byte("*.bin filter=lfs diff=lfs merge=lfs -text\n"), 0o644)
	k := 1 + r.Intn(4)
	type obj struct {
		oid    string
		data   []byte
		damage string
		path   string
	}
	var objs []obj
	for j := 0; j < k; j++ {
		b := make([]byte, 1+r.Intn(90000))
		r.Read(b)
		o := obj{oid: sbx.Sha256Hex(b), data: b, path: fmt.Sprintf("d/f%d.bin", j)}
		// systematic rotation of the damage kind for the first object, random for the others
		o.damage = standaloneDamage[(idx+j*3)%len(standaloneDamage)]
		if j > 0 {
			o.damage = standaloneDamage[r.Intn(len(standaloneDamage))]
		}
		objs = append(objs, o)
		p := filepath.Join(repo, o.path)
		os.MkdirAll(filepath.Dir(p), 0o755)
		os.WriteFile(p, []byte(ptrspec.Canonical(ptrspec.Pointer{Oid: o.oid, Size: int64(len(b))})), 0o644)
	}
	env.PlainGit(repo, "add", "-A")
	env.PlainGit(repo, "commit", "-q", "-m", "pointers")
	env.MustGit(repo, "remote", "add", "origin", "file://"+bare)
	env.PlainGit(repo, "push", "-q", "--no-verify", "origin", "main")
	env.MustGit(repo, "config", "lfs.locksverify", "false")
	var kinds []string
	for i, o := range objs {
		dst := sbx.ObjectPath(bare, o.oid)
		os.MkdirAll(filepath.Dir(dst), 0o755)
		var w []byte
		switch o.damage {
		case "intact":
			w = o.data
		case "missing":
			kinds = append(kinds, o.damage)
			continue
		case "truncated":
			w = o.data[:len(o.data)/2]
		case "extended":
			w = append(append([]byte{}, o.data...), []byte("extra")...)
		case "bitflip":
			w = append([]byte{}, o.data...)
			w[r.Intn(len(w))] ^= 0x10
		case "other-object":
			w = objs[(i+1)%len(objs)].data
			if len(objs) == 1 {
				w = []byte("some other object")
			}
		case "empty":
			w = []byte{}
		case "directory":
			os.MkdirAll(dst, 0o755)
			kinds = append(kinds, o.damage)
			continue
		}
		os.WriteFile(dst, w, 0o644)
		kinds = append(kinds, o.damage)
	}
	// optional pre-existing garbage at a final path of the clone (must not survive a reported success)
	pre := "final-absent"
	if r.Intn(4) == 0 {
		pre = "final-garbage"
		p := sbx.ObjectPath(filepath.Join(repo, ".git"), objs[0].oid)
		os.MkdirAll(filepath.Dir(p), 0o755)
		os.WriteFile(p, []byte("garbage at the final path"), 0o644)
	}
	before := map[string]string{}
	for _, o := range objs {
		sha, _, err := sbx.Sha256File(sbx.ObjectPath(filepath.Join(repo, ".git"), o.oid))
		if err != nil {
			sha = "absent"
		}
		before[o.oid] = sha
	}
	cmd := []string{"fetch", "origin", "main"}
	if idx%3 == 1 {
		cmd = []string{"pull"}
	}
	res := env.Run(sbx.RunOpt{Dir: repo}, "git-lfs", cmd...)
	run.Count("standalone_commands", 1)
	sort.Strings(kinds)
	class := fmt.Sprintf("standalone-file/%s/%s/%s/exit%d", strings.Join(kinds, "+"), pre, cmd[0], res.Code)
	run.Case(class, map[string]any{"case": idx, "damage": kinds, "command": cmd, "exit": res.Code, "stderr": sbx.Trunc(res.Stderr, 300)})
	trig := "standalone-file/" + objs[0].damage
	if res.GoCrash() {
		run.Violation(evid.Sig{Symptom: "go-panic", Trigger: trig}, sbx.Trunc(res.Stderr, 1500), map[string]any{"case": idx, "damage": kinds})
		return
	}
	if res.TimedOut {
		run.Inconclusive(fmt.Sprintf("standalone case %d: watchdog fired", idx))
		return
	}
	for _, o := range objs {
		p := sbx.ObjectPath(filepath.Join(repo, ".git"), o.oid)
		sha, _, err := sbx.Sha256File(p)
		state := sha
		if err != nil {
			state = "absent"
		}
		run.Count("standalone_final_paths_checked", 1)
		detail := map[string]any{"case": idx, "oid": o.oid, "source_damage": o.damage, "all_damage": kinds, "command": cmd, "exit": res.Code, "before": before[o.oid], "after": state, "stderr": sbx.Trunc(res.Stderr, 600)}
		t := "standalone-file/" + o.damage
		if res.Code == 0 {
			if state != o.oid {
				run.Violation(evid.Sig{Symptom: "success-but-final-path-not-the-object", Trigger: t}, fmt.Sprintf("git lfs %s exited 0 but %s (source object in the file:// remote: %s) is %s at the final path", cmd[0], o.oid[:12], o.damage, state), detail)
			}
			continue
		}
		if state != o.oid && state != before[o.oid] {
			run.Violation(evid.Sig{Symptom: "failure-but-final-path-changed", Trigger: t}, fmt.Sprintf("git lfs %s exited %d and the final path of %s went from %s to %s (source object: %s)", cmd[0], res.Code, o.oid[:12], before[o.oid], state, o.damage), detail)
		}
	}
	if res.Code == 0 {
		run.Count("standalone_reported_success", 1)
	} else {
		run.Count("standalone_reported_failure", 1)
	}
	for _, bad := range sbx.BadObjects(sbx.SnapshotLFS(filepath.Join(repo, ".git"))) {
		if pre == "final-garbage" && strings.Contains(bad.Path, objs[0].oid) && res.Code != 0 {
			continue // planted by the driver and legitimately untouched by a failed command
		}
		run.Violation(evid.Sig{Symptom: "store-holds-invalid-object", Trigger: trig}, fmt.Sprintf("after git lfs %s: %s has content hashing to %s", cmd[0], bad.Path, bad.Sha), map[string]any{"case": idx, "damage": kinds, "exit": res.Code})
	}
}
