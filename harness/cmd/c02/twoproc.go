package main

import (
	"fmt"
	"math/rand"
	"os"
	"path/filepath"
	"sync"
	"sync/atomic"
	"time"

	"github.com/anishathalye/porcupine"
	"verif/harness/evid"
	"verif/harness/fakelfs"
	"verif/harness/ptrspec"
	"verif/harness/sbx"
)

type regIn struct {
	Oid  string
	Kind string // fetch | read
}
type regOut struct {
	OK    bool   // fetch: process exited 0
	Value string // read: absent | valid | invalid
}

var regNModel = porcupine.NondeterministicModel{
	Partition: func(h []porcupine.Operation) [][]porcupine.Operation {
		m := map[string][]porcupine.Operation{}
		var keys []string
		for _, op := range h {
			k := op.Input.(regIn).Oid
			if _, ok := m[k]; !ok {
				keys = append(keys, k)
			}
			m[k] = append(m[k], op)
		}
		var out [][]porcupine.Operation
		for _, k := range keys {
			out = append(out, m[k])
		}
		return out
	},
	Init: func() []any { return []any{false} },
	Step: func(st, in, out any) []any {
		s := st.(bool)
		i, o := in.(regIn), out.(regOut)
		if i.Kind == "fetch" {
			if o.OK {
				return []any{true} // a successful fetch leaves the object present and valid
			}
			return []any{s, true} // a failed fetch may still have completed this object
		}
		switch o.Value {
		case "absent":
			if !s {
				return []any{s}
			}
		case "valid":
			if s {
				return []any{s}
			}
		}
		return nil // "invalid": a reader must never see bytes that do not hash to the name
	},
	Equal: func(a, b any) bool { return a.(bool) == b.(bool) },
	DescribeOperation: func(in, out any) string {
		return fmt.Sprintf("%s(%s) -> %+v", in.(regIn).Kind, in.(regIn).Oid[:8], out.(regOut))
	},
}

var regModel = regNModel.ToModel()

// twoProcess: Part B.
func twoProcess(run *evid.Run) {
	n := run.N(6, 60)
	var clock0 = time.Now()
	now := func() int64 { return int64(time.Since(clock0)) }
	for h := 0; h < n; h++ {
		r := rand.New(rand.NewSource(run.Seed*4099 + int64(h)))
		env := sbx.New(sbx.WithRace())
		srv := fakelfs.New()
		repo := env.InitRepo("repo")
		gitDir := filepath.Join(repo, ".git")
		env.MustGit(repo, "config", "lfs.url", srv.Endpoint("r"))
		env.MustGit(repo, "config", "lfs.locksverify", "false")
		env.MustGit(repo, "remote", "add", "origin", srv.URL+"/repo.git")
		env.MustGit(repo, "config", "lfs.transfer.maxretries", "3")
		os.WriteFile(filepath.Join(repo, ".gitattributes"), []byte("*.bin filter=lfs diff=lfs merge=lfs -text\n"), 0o644)
		var oids []string
		nobj := 3 + r.Intn(4)
		for i := 0; i < nobj; i++ {
			data := make([]byte, 20000+r.Intn(200000))
			r.Read(data)
			oid := srv.Put("r", data)
			oids = append(oids, oid)
			os.WriteFile(filepath.Join(repo, fmt.Sprintf("f%d.bin", i)), []byte(ptrspec.Canonical(ptrspec.Pointer{Oid: oid, Size: int64(len(data))})), 0o644)
		}
		env.PlainGit(repo, "add", "-A")
		env.PlainGit(repo, "commit", "-q", "-m", "pointers")
		faulty := h%2 == 1
		var reqs int64
		srv.SetHook(func(rq *fakelfs.Request) *fakelfs.Fault {
			if rq.Kind != "storage-get" {
				return nil
			}
			k := atomic.AddInt64(&reqs, 1)
			time.Sleep(time.Duration(1+k%7) * time.Millisecond)
			if faulty && k%3 == 0 {
				return &fakelfs.Fault{CloseAfter: 5000}
			}
			return nil
		})
		var ops []porcupine.Operation
		var mu sync.Mutex
		stop := make(chan struct{})
		var owg sync.WaitGroup
		reads := 0
		for ob := 0; ob < 2; ob++ {
			owg.Add(1)
			go func(ob int) {
				defer owg.Done()
				for {
					select {
					case <-stop:
						return
					default:
					}
					for _, oid := range oids {
						call := now()
						v := "absent"
						if sha, _, err := sbx.Sha256File(sbx.ObjectPath(gitDir, oid)); err == nil {
							if sha == oid {
								v = "valid"
							} else {
								v = "invalid"
							}
						}
						ret := now()
						mu.Lock()
						ops = append(ops, porcupine.Operation{ClientId: 2 + ob, Input: regIn{oid, "read"}, Call: call, Output: regOut{Value: v}, Return: ret})
						reads++
						mu.Unlock()
					}
					time.Sleep(200 * time.Microsecond)
				}
			}(ob)
		}
		var pwg sync.WaitGroup
		crashed := ""
		var cmu sync.Mutex
		for p := 0; p < 2; p++ {
			pwg.Add(1)
			go func(p int) {
				defer pwg.Done()
				call := now()
				res := env.Git(repo, "lfs", "fetch", "origin", "main")
				if p == 1 {
					// the second process uses the other spelling so both are not byte-identical invocations
				}
				ret := now()
				if res.GoCrash() {
					cmu.Lock()
					crashed = sbx.Trunc(res.Stderr, 2000)
					cmu.Unlock()
				}
				if !res.OK() && !faulty {
					run.Inconclusive(fmt.Sprintf("history %d: git lfs fetch failed against a fault-free server: %s", h, sbx.Trunc(res.Stderr, 400)))
				}
				mu.Lock()
				for _, oid := range oids {
					ops = append(ops, porcupine.Operation{ClientId: p, Input: regIn{oid, "fetch"}, Call: call, Output: regOut{OK: res.OK()}, Return: ret})
				}
				mu.Unlock()
				run.Count("fetch_processes", 1)
				if res.OK() {
					run.Count("fetch_processes_ok", 1)
				}
			}(p)
		}
		pwg.Wait()
		time.Sleep(2 * time.Millisecond)
		close(stop)
		owg.Wait()
		// final reads
		for _, oid := range oids {
			call := now()
			v := "absent"
			if sha, _, err := sbx.Sha256File(sbx.ObjectPath(gitDir, oid)); err == nil {
				if sha == oid {
					v = "valid"
				} else {
					v = "invalid"
				}
			}
			ops = append(ops, porcupine.Operation{ClientId: 4, Input: regIn{oid, "read"}, Call: call, Output: regOut{Value: v}, Return: now()})
		}
		run.Count("observer_reads", int64(reads))
		run.Count("two_process_storage_gets", atomic.LoadInt64(&reqs))
		cls := "two-process/clean-server"
		if faulty {
			cls = "two-process/cut-connections"
		}
		run.Case(cls, map[string]any{"history": h, "objects": nobj, "operations": len(ops), "observer_reads": reads})
		if crashed != "" {
			run.Violation(evid.Sig{Symptom: "go-panic", Trigger: cls}, "git lfs fetch crashed: "+crashed, nil)
		}
		res, info := porcupine.CheckOperationsVerbose(regModel, ops, 60*time.Second)
		switch res {
		case porcupine.Illegal:
			_ = info
			var bad []string
			for _, op := range ops {
				if o := op.Output.(regOut); o.Value == "invalid" {
					bad = append(bad, regModel.DescribeOperation(op.Input, op.Output))
				}
			}
			run.Violation(evid.Sig{Symptom: "history-not-linearizable", Trigger: cls}, "two concurrent fetches + observers: history is not a linearization of a write-once register (valid object appears once and stays, never invalid bytes at the final path)", map[string]any{"invalid_reads": bad, "ops": len(ops)})
		case porcupine.Unknown:
			run.Inconclusive(fmt.Sprintf("history %d: porcupine timed out", h))
		}
		// race reports of the instrumented binary
		logs, _ := filepath.Glob(filepath.Join(env.Root, "race.log*"))
		for _, l := range logs {
			b, _ := os.ReadFile(l)
			cnt := 0
			for i := 0; i+18 <= len(b); i++ {
				if string(b[i:i+18]) == "WARNING: DATA RACE" {
					cnt++
				}
			}
			run.Count("race_reports_in_fetch_processes", int64(cnt))
		}
		srv.Close()
		env.Cleanup()
	}
}
