package main

// Fake `ssh` program (Part C peer): this binary run as
//
//	<c02> verif-ssh <scriptfile> [ssh options…] [user@]host "git-lfs-transfer <path> <operation>"
//
// (through GIT_SSH_COMMAND / core.sshCommand) or through a symlink named `ssh`
// (GIT_SSH, script file in $VERIF_SSH_SCRIPT). It ignores host, port and every
// ssh option, refuses `git-lfs-authenticate` (so that only the pure SSH
// protocol can work) and speaks the git-lfs-transfer pkt-line protocol of
// /repo/docs/proposals/ssh_adapter.md on stdin/stdout with its own, independent
// pkt-line codec. get-object answers are scripted per (oid, attempt number),
// batch answers per oid. Everything the peer sees is appended to <dir>/peer.log
// (one JSON object per line) for the driver.

import (
	"bufio"
	"encoding/json"
	"fmt"
	"io"
	"os"
	"os/signal"
	"path/filepath"
	"strconv"
	"strings"
	"syscall"
)

// get-object fault classes (victim object, per attempt).
var sshGetFaults = []string{
	"ok", "tiny-packets", "max-packets",
	"size-smaller", "size-larger", "size-zero",
	"short-data", "long-data", "bitflip", "other-object", "empty-data",
	"status-404", "status-500", "status-206-full",
	"garbage-status", "missing-size", "bad-size", "duplicate-size", "no-delim",
	"premature-close", "close-before-status", "extra-after-flush",
	"delim-mid-data", "empty-packet-mid-data",
}

// batch fault classes (victim object).
var sshBatchFaults = []string{"batch-noop", "batch-upload-action", "batch-omit", "batch-unknown-oid", "batch-wrong-size"}

type sshScript struct {
	Dir     string              `json:"dir"`     // state + log directory
	Objects map[string]string   `json:"objects"` // oid -> file holding the true content
	Other   string              `json:"other"`   // file holding some other object's bytes
	Get     map[string][]string `json:"get"`     // oid -> fault per get-object attempt (past the end: ok)
	Batch   map[string]string   `json:"batch"`   // oid -> batch fault
}

type sshEvent struct {
	Pid     int    `json:"pid"`
	Ev      string `json:"ev"` // session | auth | version | batch | get-object | quit | other | end
	Oid     string `json:"oid,omitempty"`
	Fault   string `json:"fault,omitempty"`
	Attempt int    `json:"attempt,omitempty"`
	Bytes   int64  `json:"bytes,omitempty"`
	N       int    `json:"n,omitempty"`
	Note    string `json:"note,omitempty"`
}

type sshPeer struct {
	sc   sshScript
	in   *bufio.Reader
	out  *bufio.Writer
	sent int64
}

func (p *sshPeer) log(e sshEvent) {
	e.Pid = os.Getpid()
	b, _ := json.Marshal(e)
	f, err := os.OpenFile(filepath.Join(p.sc.Dir, "peer.log"), os.O_WRONLY|os.O_APPEND|os.O_CREATE, 0o644)
	if err != nil {
		return
	}
	f.Write(append(b, '\n')) // one write(2) with O_APPEND: lines of concurrent sessions do not interleave
	f.Close()
}

func (p *sshPeer) end(note string, code int) {
	p.out.Flush()
	p.log(sshEvent{Ev: "end", Note: note, Bytes: p.sent})
	os.Exit(code)
}

// ---- pkt-line codec (independent of github.com/git-lfs/pktline) ----

const (
	pktData  = 0
	pktFlush = 1
	pktDelim = 2
	pktEOF   = 3
)

func (p *sshPeer) readPkt() (int, []byte) {
	var hdr [4]byte
	if _, err := io.ReadFull(p.in, hdr[:]); err != nil {
		return pktEOF, nil
	}
	n, err := strconv.ParseUint(string(hdr[:]), 16, 32)
	if err != nil {
		return pktEOF, nil
	}
	switch {
	case n == 0:
		return pktFlush, nil
	case n == 1:
		return pktDelim, nil
	case n < 4:
		return pktEOF, nil
	}
	b := make([]byte, n-4)
	if _, err := io.ReadFull(p.in, b); err != nil {
		return pktEOF, nil
	}
	return pktData, b
}

func (p *sshPeer) raw(b []byte) {
	n, err := p.out.Write(b)
	p.sent += int64(n)
	if err != nil {
		p.log(sshEvent{Ev: "end", Note: "write failed: " + err.Error(), Bytes: p.sent})
		os.Exit(0)
	}
}
func (p *sshPeer) pkt(b []byte)  { p.raw([]byte(fmt.Sprintf("%04x", len(b)+4))); p.raw(b) }
func (p *sshPeer) text(s string) { p.pkt([]byte(s + "\n")) }
func (p *sshPeer) flush() {
	p.raw([]byte("0000"))
	if err := p.out.Flush(); err != nil {
		p.log(sshEvent{Ev: "end", Note: "flush failed: " + err.Error(), Bytes: p.sent})
		os.Exit(0)
	}
}
func (p *sshPeer) delim() { p.raw([]byte("0001")) }

func (p *sshPeer) data(b []byte, chunk int) {
	for len(b) > 0 {
		k := chunk
		if k > len(b) {
			k = len(b)
		}
		p.pkt(b[:k])
		b = b[k:]
	}
}

// request = command, args…, [delim, lines…], flush
func (p *sshPeer) readRequest() (cmd string, args, lines []string, ok bool) {
	seenDelim := false
	first := true
	for {
		k, b := p.readPkt()
		switch k {
		case pktEOF:
			return "", nil, nil, false
		case pktFlush:
			return cmd, args, lines, !first
		case pktDelim:
			seenDelim = true
		default:
			s := strings.TrimSuffix(string(b), "\n")
			switch {
			case first:
				cmd = s
				first = false
			case seenDelim:
				lines = append(lines, s)
			default:
				args = append(args, s)
			}
		}
	}
}

// nextAttempt returns how many get-object requests for oid were seen before this one, across all sessions of the case.
func (p *sshPeer) nextAttempt(oid string) int {
	lk, err := os.OpenFile(filepath.Join(p.sc.Dir, "attempts.lock"), os.O_RDWR|os.O_CREATE, 0o644)
	if err == nil {
		syscall.Flock(int(lk.Fd()), syscall.LOCK_EX)
		defer func() { syscall.Flock(int(lk.Fd()), syscall.LOCK_UN); lk.Close() }()
	}
	f := filepath.Join(p.sc.Dir, "att-"+oid)
	prev, _ := os.ReadFile(f)
	os.WriteFile(f, append(prev, 'x'), 0o644)
	return len(prev)
}

func (p *sshPeer) status(code int, args []string, msg string) {
	p.text(fmt.Sprintf("status %d", code))
	for _, a := range args {
		p.text(a)
	}
	if msg != "" {
		p.delim()
		p.text(msg)
	}
	p.flush()
}

func (p *sshPeer) object(code int, sizeArgs []string, body []byte, chunk int) {
	p.text(fmt.Sprintf("status %d", code))
	for _, a := range sizeArgs {
		p.text(a)
	}
	p.delim()
	p.data(body, chunk)
	p.flush()
}

func (p *sshPeer) getObject(oid string) {
	file, have := p.sc.Objects[oid]
	if !have {
		p.log(sshEvent{Ev: "get-object", Oid: oid, Fault: "unknown-object-404"})
		p.status(404, nil, "verif peer: no such object")
		return
	}
	body, _ := os.ReadFile(file)
	k := p.nextAttempt(oid)
	fault := "ok"
	if s := p.sc.Get[oid]; k < len(s) {
		fault = s[k]
	}
	n := len(body)
	size := func(v int) []string { return []string{fmt.Sprintf("size=%d", v)} }
	// logged on receipt: the client may stop reading in the middle of a large answer, and then this process ends inside a write
	p.log(sshEvent{Ev: "get-object", Oid: oid, Fault: fault, Attempt: k})
	switch fault {
	case "ok":
		p.object(200, size(n), body, 32768)
	case "tiny-packets":
		p.object(200, size(n), body, 1+n%7)
	case "max-packets":
		p.object(200, size(n), body, 65516)
	case "size-smaller":
		v := n - 3
		if v < 0 {
			v = 0
		}
		p.object(200, size(v), body, 32768)
	case "size-larger":
		p.object(200, size(n+3), body, 32768)
	case "size-zero":
		p.object(200, size(0), body, 32768)
	case "short-data":
		p.object(200, size(n), body[:n/2], 32768)
	case "long-data":
		p.object(200, size(n), append(append([]byte{}, body...), []byte("PADDING")...), 32768)
	case "bitflip":
		b := append([]byte{}, body...)
		b[n/2] ^= 0x10
		p.object(200, size(n), b, 32768)
	case "other-object":
		b, _ := os.ReadFile(p.sc.Other)
		p.object(200, size(len(b)), b, 32768)
	case "empty-data":
		p.object(200, size(n), nil, 32768)
	case "status-404":
		p.status(404, nil, "verif peer: object not found")
	case "status-500":
		p.status(500, nil, "verif peer: internal error")
	case "status-206-full":
		p.object(206, size(n), body, 32768)
	case "garbage-status":
		p.text("banana 200")
		p.text(fmt.Sprintf("size=%d", n))
		p.delim()
		p.data(body, 32768)
		p.flush()
	case "missing-size":
		p.object(200, nil, body, 32768)
	case "bad-size":
		p.object(200, []string{"size=many"}, body, 32768)
	case "duplicate-size":
		p.object(200, append(size(n), size(n)...), body, 32768)
	case "no-delim":
		p.text("status 200")
		p.text(fmt.Sprintf("size=%d", n))
		p.flush()
	case "premature-close":
		p.text("status 200")
		p.text(fmt.Sprintf("size=%d", n))
		p.delim()
		p.data(body[:n/2], 32768)
		p.out.Flush()
		p.log(sshEvent{Ev: "end", Note: "premature close (scripted)", Bytes: p.sent})
		os.Exit(3)
	case "close-before-status":
		p.log(sshEvent{Ev: "end", Note: "close before status (scripted)", Bytes: p.sent})
		os.Exit(3)
	case "extra-after-flush":
		p.object(200, size(n), body, 32768)
		p.text("verif-extra-packet-after-flush")
		p.flush()
	case "delim-mid-data":
		p.text("status 200")
		p.text(fmt.Sprintf("size=%d", n))
		p.delim()
		p.data(body[:n/2], 32768)
		p.delim()
		p.data(body[n/2:], 32768)
		p.flush()
	case "empty-packet-mid-data":
		p.text("status 200")
		p.text(fmt.Sprintf("size=%d", n))
		p.delim()
		p.data(body[:n/2], 32768)
		p.raw([]byte("0004"))
		p.data(body[n/2:], 32768)
		p.flush()
	default: // not a fault name of this peer: answered correctly
		p.object(200, size(n), body, 32768)
	}
}

func (p *sshPeer) batch(args, lines []string) {
	p.log(sshEvent{Ev: "batch", N: len(lines), Note: strings.Join(args, " ")})
	p.text("status 200")
	p.text("hash-algo=sha256")
	p.delim()
	unknown := false
	for _, l := range lines {
		f := strings.Fields(l)
		if len(f) < 2 {
			continue
		}
		oid, size := f[0], f[1]
		_, have := p.sc.Objects[oid]
		bf := p.sc.Batch[oid]
		if bf != "" {
			p.log(sshEvent{Ev: "batch-fault", Oid: oid, Fault: bf})
		}
		switch {
		case bf == "batch-noop":
			p.text(oid + " " + size + " noop")
		case bf == "batch-upload-action":
			p.text(oid + " " + size + " upload")
		case bf == "batch-omit":
		case bf == "batch-wrong-size":
			v, _ := strconv.Atoi(size)
			p.text(fmt.Sprintf("%s %d download", oid, v+5))
		case bf == "batch-unknown-oid":
			unknown = true
			p.text(oid + " " + size + " download")
		case have:
			p.text(oid + " " + size + " download")
		default:
			p.text(oid + " " + size + " noop")
		}
	}
	if unknown {
		p.text(strings.Repeat("ab", 32) + " 42 download")
	}
	p.flush()
}

func sshPeerMain(scriptFile string, argv []string) {
	signal.Ignore(syscall.SIGPIPE) // a closed pipe is an ordinary write error: the session logs its end
	p := &sshPeer{in: bufio.NewReaderSize(os.Stdin, 1<<16), out: bufio.NewWriterSize(os.Stdout, 1<<16)}
	b, err := os.ReadFile(scriptFile)
	if err != nil || json.Unmarshal(b, &p.sc) != nil {
		fmt.Fprintln(os.Stderr, "verif-ssh: cannot read script file", scriptFile)
		os.Exit(255)
	}
	// the remote command is the last argument: "git-lfs-transfer <path> <operation>"
	remote := ""
	if len(argv) > 0 {
		remote = argv[len(argv)-1]
	}
	opts := strings.Join(argv[:max(0, len(argv)-1)], " ")
	f := strings.Fields(remote)
	if len(f) >= 1 && f[0] == "git-lfs-authenticate" {
		p.log(sshEvent{Ev: "auth", Note: remote})
		fmt.Fprintln(os.Stderr, "verif-ssh: git-lfs-authenticate is not offered by this host")
		os.Exit(1)
	}
	if len(f) != 3 || f[0] != "git-lfs-transfer" {
		p.log(sshEvent{Ev: "other", Note: strings.Join(argv, " ")})
		fmt.Fprintln(os.Stderr, "verif-ssh: unsupported remote command:", remote)
		os.Exit(127)
	}
	p.log(sshEvent{Ev: "session", Note: f[2] + " " + f[1] + " | " + opts})
	p.text("version=1")
	p.flush()
	for {
		cmd, args, lines, ok := p.readRequest()
		if !ok {
			p.end("stdin closed", 0)
		}
		switch {
		case cmd == "version 1":
			p.log(sshEvent{Ev: "version"})
			p.status(200, nil, "")
		case strings.HasPrefix(cmd, "version "):
			p.status(400, nil, "verif peer: unsupported version")
		case cmd == "batch":
			if f[2] != "download" {
				p.status(403, nil, "verif peer: download only")
				continue
			}
			p.batch(args, lines)
		case strings.HasPrefix(cmd, "get-object "):
			p.getObject(strings.TrimPrefix(cmd, "get-object "))
		case cmd == "quit":
			p.log(sshEvent{Ev: "quit"})
			p.status(200, nil, "")
			p.end("quit", 0)
		default:
			p.log(sshEvent{Ev: "other", Note: cmd})
			p.status(405, nil, "verif peer: command not supported")
		}
	}
}
