package main

// Observation point of C17: the driver binary itself, installed under the name
// `git` as the first PATH entry of the process under test. For `git credential
// <op>` it records argv and the exact stdin bytes (and, in exec mode, what the
// real git answered) into $VERIF_C17_LOG before it answers; everything else is
// passed to the real git untouched.
//
// Installed under the name git-credential-verifc17 it is the recording
// credential helper used by the end-to-end part.

import (
	"bytes"
	"encoding/json"
	"fmt"
	"io"
	"os"
	"os/exec"
	"path/filepath"
	"sort"
	"strings"
	"syscall"
)

const realGit = "/usr/bin/git"

type record struct {
	Kind   string   `json:"kind"` // "git" (shim) or "helper"
	Seq    int      `json:"seq"`
	Argv   []string `json:"argv"` // without argv[0]
	Op     string   `json:"op"`
	Stdin  []byte   `json:"stdin"`
	Stdout []byte   `json:"stdout"`
	Exit   int      `json:"exit"`
	Mode   string   `json:"mode"`
}

// findSubcommand returns the first non-option argument of a git command line.
func findSubcommand(args []string) (string, int) {
	for i := 0; i < len(args); i++ {
		a := args[i]
		if a == "-c" || a == "-C" || a == "--git-dir" || a == "--work-tree" || a == "--namespace" {
			i++
			continue
		}
		if strings.HasPrefix(a, "-") {
			continue
		}
		return a, i
	}
	return "", -1
}

// writeRecord stores rec under a strictly increasing sequence number (O_EXCL), atomically.
func writeRecord(dir string, rec *record) {
	ents, _ := os.ReadDir(dir)
	n := 0
	for _, e := range ents {
		if strings.HasPrefix(e.Name(), "seq-") {
			n++
		}
	}
	for ; ; n++ {
		f, err := os.OpenFile(filepath.Join(dir, fmt.Sprintf("seq-%06d", n)), os.O_CREATE|os.O_EXCL|os.O_WRONLY, 0o644)
		if err != nil {
			if os.IsExist(err) {
				continue
			}
			fmt.Fprintf(os.Stderr, "verif-c17-shim: cannot write record: %v\n", err)
			os.Exit(97)
		}
		f.Close()
		break
	}
	rec.Seq = n
	b, _ := json.Marshal(rec)
	tmp := filepath.Join(dir, fmt.Sprintf("tmp-%06d", n))
	if err := os.WriteFile(tmp, b, 0o644); err != nil {
		fmt.Fprintf(os.Stderr, "verif-c17-shim: cannot write record: %v\n", err)
		os.Exit(97)
	}
	if err := os.Rename(tmp, filepath.Join(dir, fmt.Sprintf("rec-%06d.json", n))); err != nil {
		fmt.Fprintf(os.Stderr, "verif-c17-shim: cannot write record: %v\n", err)
		os.Exit(97)
	}
}

// readRecords returns the completed records of dir in sequence order and removes them.
func readRecords(dir string, remove bool) ([]record, error) {
	ents, err := os.ReadDir(dir)
	if err != nil {
		return nil, err
	}
	var names []string
	for _, e := range ents {
		names = append(names, e.Name())
	}
	sort.Strings(names)
	var out []record
	for _, n := range names {
		p := filepath.Join(dir, n)
		if strings.HasPrefix(n, "rec-") {
			b, err := os.ReadFile(p)
			if err != nil {
				return nil, err
			}
			var r record
			if err := json.Unmarshal(b, &r); err != nil {
				return nil, fmt.Errorf("%s: %v", n, err)
			}
			out = append(out, r)
		}
		if remove {
			os.Remove(p)
		}
	}
	return out, nil
}

func execReal(args []string) {
	err := syscall.Exec(realGit, append([]string{"git"}, args...), os.Environ())
	fmt.Fprintf(os.Stderr, "verif-c17-shim: exec %s: %v\n", realGit, err)
	os.Exit(98)
}

func shimMain() {
	args := os.Args[1:]
	sub, idx := findSubcommand(args)
	logdir := os.Getenv("VERIF_C17_LOG")
	if sub != "credential" || logdir == "" {
		execReal(args)
	}
	stdin, _ := io.ReadAll(os.Stdin)
	rec := &record{Kind: "git", Argv: args, Stdin: stdin, Mode: os.Getenv("VERIF_C17_MODE")}
	if idx+1 < len(args) {
		rec.Op = args[idx+1]
	}
	var out []byte
	code := 0
	switch rec.Mode {
	case "exec":
		// the real git runs the configured helper chain; we sit in between
		cmd := exec.Command(realGit, args...)
		cmd.Stdin = bytes.NewReader(stdin)
		var so bytes.Buffer
		cmd.Stdout = &so
		cmd.Stderr = os.Stderr
		err := cmd.Run()
		out = so.Bytes()
		if err != nil {
			if ee, ok := err.(*exec.ExitError); ok {
				code = ee.ExitCode()
			} else {
				code = 99
			}
		}
	default: // "answer": deterministic answers, the real git is not involved
		if rec.Op == "fill" {
			nfill := 0
			if ents, err := os.ReadDir(logdir); err == nil {
				for _, e := range ents {
					if strings.HasPrefix(e.Name(), "rec-") {
						if b, err := os.ReadFile(filepath.Join(logdir, e.Name())); err == nil {
							var r record
							if json.Unmarshal(b, &r) == nil && r.Kind == "git" && r.Op == "fill" {
								nfill++
							}
						}
					}
				}
			}
			if d := os.Getenv("VERIF_C17_ANSWERS"); d != "" {
				if b, err := os.ReadFile(filepath.Join(d, fmt.Sprintf("fill.%d", nfill))); err == nil {
					out = b
					break
				}
			}
			out = append([]byte{}, stdin...)
			for _, k := range []string{"username", "password"} {
				if !bytes.HasPrefix(stdin, []byte(k+"=")) && !bytes.Contains(stdin, []byte("\n"+k+"=")) {
					out = append(out, []byte(k+"=verif"+k[:4]+"\n")...)
				}
			}
		}
	}
	rec.Stdout = out
	rec.Exit = code
	writeRecord(logdir, rec)
	os.Stdout.Write(out)
	os.Exit(code)
}

// helperMain: `git-credential-verifc17 get|store|erase`, run by the real git.
func helperMain() {
	stdin, _ := io.ReadAll(os.Stdin)
	rec := &record{Kind: "helper", Argv: os.Args[1:], Stdin: stdin}
	if len(os.Args) > 1 {
		rec.Op = os.Args[1]
	}
	var out []byte
	if rec.Op == "get" {
		out = []byte("username=verifuser\npassword=verifpass\n")
	}
	rec.Stdout = out
	if d := os.Getenv("VERIF_C17_LOG"); d != "" {
		writeRecord(d, rec)
	}
	os.Stdout.Write(out)
	os.Exit(0)
}
