package main

// Part B, second shape (several credential look-ups inside ONE git-lfs process):
// `git lfs smudge` asks the batch API on http://localhost:PORT (host "api"), whose
// answer points at object storage on http://127.0.0.1:PORT (host "store", a different
// host for git-lfs) with an href carrying a percent-encoded token in userinfo and/or
// path. credential.<url>.protectProtocol is set per host. Every recorded
// `git credential` exchange is judged by the setting that applies to the host it names.

import (
	"encoding/json"
	"fmt"
	"os"
	"path/filepath"
	"strconv"
	"strings"
	"time"

	"verif/harness/evid"
	"verif/harness/sbx"
)

type caseH struct {
	Idx                int    `json:"idx"`
	Api, Store, Global string // unset|true|false
	Loc                string // href-user | href-path | href-both
	Tok                string
	tokS               string
	UserDec, PathDec   string
	UserEnc, PathEnc   string
}

func eff(host, global string) bool {
	switch host {
	case "true":
		return true
	case "false":
		return false
	}
	return global != "false"
}

func onoff(b bool) string {
	if b {
		return "on"
	}
	return "off"
}

func (c *caseH) class() string {
	return fmt.Sprintf("B/href/%s/%s/api=%s,store=%s,global=%s", c.Loc, c.Tok, c.Api, c.Store, c.Global)
}
func (c *caseH) trigger() string {
	return fmt.Sprintf("%s-%s-api-%s-store-%s", c.Loc, c.Tok, onoff(eff(c.Api, c.Global)), onoff(eff(c.Store, c.Global)))
}

var hrefTokens = []token{{"cr", "\r"}, {"cr", "\r"}, {"cr", "\r"}, {"cr", "\r"}, {"lf", "\n"}, {"nul", "\x00"}, {"crlf", "\r\n"}, {"tab", "\t"}}

func genCaseH(seed int64, idx int) *caseH {
	r := caseRand(seed, 9_000_000+idx)
	c := &caseH{Idx: idx}
	type sh struct{ api, store, global, loc, tok string }
	sys := []sh{
		{"false", "unset", "unset", "href-both", "cr"}, // the API host opted out, storage protected by default
		{"false", "unset", "unset", "href-user", "cr"},
		{"false", "unset", "unset", "href-path", "cr"},
		{"unset", "false", "unset", "href-user", "cr"}, // storage opted out: CR must pass through
		{"true", "unset", "false", "href-user", "cr"},  // global off, API host on
		{"false", "true", "unset", "href-user", "cr"},
		{"false", "unset", "unset", "href-user", "lf"},
		{"false", "false", "unset", "href-both", "nul"},
		{"false", "unset", "unset", "href-user", "tab"},
		{"unset", "unset", "unset", "href-both", "cr"},
	}
	if idx < len(sys) {
		s := sys[idx]
		c.Api, c.Store, c.Global, c.Loc, c.Tok = s.api, s.store, s.global, s.loc, s.tok
	} else {
		set := []string{"unset", "true", "false"}
		c.Api, c.Store = set[r.Intn(3)], set[r.Intn(3)]
		c.Global = []string{"unset", "unset", "false", "true"}[r.Intn(4)]
		c.Loc = []string{"href-user", "href-path", "href-both"}[r.Intn(3)]
		c.Tok = hrefTokens[r.Intn(len(hrefTokens))].Name
	}
	for _, t := range hrefTokens {
		if t.Name == c.Tok {
			c.tokS = t.S
		}
	}
	if c.Loc != "href-user" && (c.Tok == "cr" || c.Tok == "tab") {
		// a URL-scoped setting for a URL whose decoded path has a control byte is a separate coordinate
		// (examined in part A, trigger urlscoped-setting-lost-path-cr): keep the storage host unscoped here
		c.Store = "unset"
	}
	pos := positions[r.Intn(3)]
	c.UserDec, c.PathDec = "stor", "store/obj"+randAlnum(r, 1, 3)
	if c.Loc != "href-path" {
		c.UserDec = place(r, c.UserDec, c.tokS, pos)
	}
	if c.Loc != "href-user" {
		c.PathDec = place(r, c.PathDec, c.tokS+"host=evil.example", "middle")
	}
	c.UserEnc, c.PathEnc = pctEncode(r, c.UserDec), pctEncode(r, c.PathDec)
	return c
}

func runCaseH(sh *e2eShared, c *caseH) {
	run := sh.run
	const realm = `Basic realm="verif href"`
	data := []byte("verif c17 object " + strconv.Itoa(c.Idx) + "\n")
	oid := sbx.Sha256Hex(data)
	srv, err := startRawServer([]byte("WWW-Authenticate: "+realm+"\r\n"), 0)
	if err != nil {
		run.Inconclusive("cannot listen: " + err.Error())
		return
	}
	defer srv.ln.Close()
	port := strconv.Itoa(srv.port())
	apiHost, storeHost := "localhost:"+port, "127.0.0.1:"+port
	href := "http://" + c.UserEnc + "@" + storeHost + "/" + c.PathEnc + "/" + oid
	srv.ok200 = func(first string) []byte {
		f := strings.Fields(first)
		if len(f) >= 2 && f[0] == "POST" && strings.HasSuffix(f[1], "/objects/batch") {
			body, _ := json.Marshal(map[string]any{"transfer": "basic", "objects": []any{map[string]any{"oid": oid, "size": len(data), "authenticated": false,
				"actions": map[string]any{"download": map[string]any{"href": href}}}}})
			return []byte(fmt.Sprintf("HTTP/1.1 200 OK\r\nContent-Type: application/vnd.git-lfs+json\r\nContent-Length: %d\r\nConnection: close\r\n\r\n%s", len(body), body))
		}
		if len(f) >= 2 && f[0] == "GET" && strings.HasPrefix(f[1], "/store") {
			return append([]byte(fmt.Sprintf("HTTP/1.1 200 OK\r\nContent-Type: application/octet-stream\r\nContent-Length: %d\r\nConnection: close\r\n\r\n", len(data))), data...)
		}
		return []byte("HTTP/1.1 404 Not Found\r\nContent-Length: 2\r\nConnection: close\r\n\r\n{}")
	}

	env := sbx.New()
	defer env.Cleanup()
	env.Timeout = 3 * time.Minute
	logdir := env.Dir("c17log")
	env.Extra = append(env.Extra, "PATH="+sh.shimDir+":"+sbx.BinDir+":/usr/local/bin:/usr/bin:/bin", "VERIF_C17_LOG="+logdir, "VERIF_C17_MODE=exec")
	repo := env.InitRepo("repo")
	apiURL := "http://" + apiHost + "/repo.git/info/lfs"
	env.MustGit(repo, "config", "lfs.url", apiURL)
	env.MustGit(repo, "config", "lfs."+apiURL+".access", "basic")
	env.MustGit(repo, "config", "lfs.http://"+storeHost+"/.access", "basic")
	env.MustGit(repo, "config", "credential.helper", filepath.Join(sh.shimDir, "git-credential-verifc17"))
	env.MustGit(repo, "config", "credential.useHttpPath", "true")
	env.MustGit(repo, "config", "lfs.transfer.maxretries", "1") // a refused exchange is final; do not sit out the retry back-off
	if c.Global != "unset" {
		env.MustGit(repo, "config", "credential.protectProtocol", c.Global)
	}
	if c.Api != "unset" {
		env.MustGit(repo, "config", "credential.http://"+apiHost+".protectProtocol", c.Api)
	}
	if c.Store != "unset" {
		env.MustGit(repo, "config", "credential.http://"+storeHost+".protectProtocol", c.Store)
	}
	pointer := fmt.Sprintf("version https://git-lfs.github.com/spec/v1\noid sha256:%s\nsize %d\n", oid, len(data))
	res := env.Run(sbx.RunOpt{Dir: repo, Stdin: strings.NewReader(pointer)}, "git-lfs", "smudge")
	run.Count("e2e_runs", 1)
	run.Count("e2e_href_runs", 1)
	all, err := readRecords(logdir, false)
	if err != nil {
		run.Inconclusive("cannot read shim log: " + err.Error())
		return
	}
	var recs []record
	for _, r := range all {
		if r.Kind == "git" {
			recs = append(recs, r)
		} else {
			run.Count("e2e_helper_records", 1)
		}
	}
	srv.mu.Lock()
	nreq, reqLines := srv.requests, append([]string{}, srv.reqLines...)
	run.Count("e2e_http_requests", int64(srv.requests))
	run.Count("e2e_http_requests_authorized", int64(srv.authorized))
	srv.mu.Unlock()
	run.Count("e2e_git_credential_records", int64(len(recs)))
	downloaded := string(res.Stdout) == string(data)
	summary := map[string]any{"class": c.class(), "href": href, "git_lfs_exit": res.Code, "credential_ops": opsOf(recs), "http_requests": nreq, "object_downloaded": downloaded, "stderr_tail": lastLine(res.Stderr)}
	run.Case(c.class(), summary)
	sh.mu.Lock()
	if len(sh.summaries) < 160 {
		sh.summaries = append(sh.summaries, summary)
	}
	sh.mu.Unlock()

	protect := map[string]bool{apiHost: eff(c.Api, c.Global), storeHost: eff(c.Store, c.Global)}
	detail := func() map[string]any {
		d := map[string]any{"class": c.class(), "idx": c.Idx, "href_in_batch_response": href, "api_url": apiURL,
			"config":                  fmt.Sprintf("credential.protectProtocol=%s credential.http://%s.protectProtocol=%s credential.http://%s.protectProtocol=%s credential.useHttpPath=true lfs.<api>.access=basic lfs.http://%s/.access=basic", c.Global, apiHost, c.Api, storeHost, c.Store, storeHost),
			"protection_that_applies": fmt.Sprintf("%s: %v, %s: %v", apiHost, protect[apiHost], storeHost, protect[storeHost]),
			"git_lfs_exit":            res.Code, "git_lfs_stderr": sbx.Trunc(res.Stderr, 2000), "http": reqLines,
			"repro": "git init r && cd r && set the config above && printf 'version https://git-lfs.github.com/spec/v1\\noid sha256:<oid>\\nsize <n>\\n' | git lfs smudge   # batch answers 200 with actions.download.href = href_in_batch_response; both hosts answer 401 until helper credentials arrive; `git` shim first on PATH records `git credential` stdin"}
		var rs []map[string]any
		for _, r := range recs {
			rs = append(rs, map[string]any{"argv": r.Argv, "stdin_quoted": strconv.Quote(sbxTrunc(string(r.Stdin))), "exit": r.Exit})
		}
		d["git_credential_records"] = rs
		return d
	}
	if res.TimedOut {
		run.Inconclusive(fmt.Sprintf("e2e href case %d (%s): watchdog fired", c.Idx, c.class()))
		return
	}
	if res.GoCrash() {
		sh.viol(evid.Sig{Symptom: "go-panic", Trigger: c.trigger()}, "git-lfs crashed: "+sbx.Trunc(res.Stderr, 300), detail())
		return
	}
	allowed := map[string]map[string]bool{
		apiHost:   {"protocol=http": true, "host=" + apiHost: true, "path=repo.git/info/lfs": true, "wwwauth[]=" + realm: true},
		storeHost: {"protocol=http": true, "host=" + storeHost: true, "username=" + c.UserDec: true, "path=" + c.PathDec + "/" + oid: true, "wwwauth[]=" + realm: true},
	}
	fillOut := map[string]bool{}
	for _, r := range recs {
		if r.Op == "fill" {
			ls, _ := splitLines(r.Stdout)
			for _, l := range ls {
				fillOut[l] = true
			}
		}
	}
	fills := map[string]int{}
	for _, r := range recs {
		run.Count("e2e_bytes_compared", int64(len(r.Stdin)))
		run.Count("e2e_op_"+r.Op, 1)
		lines, term := splitLines(r.Stdin)
		if !term {
			sh.viol(evid.Sig{Symptom: "e2e-unterminated-line", Trigger: c.trigger()}, "stdin of git credential "+r.Op+" does not end with LF", detail())
			return
		}
		if n := len(lines); n > 0 && lines[n-1] == "" {
			lines = lines[:n-1]
		}
		// which URL is this exchange about? exactly the host it names
		host := ""
		for _, l := range lines {
			if l == "host="+apiHost {
				host = apiHost
			}
			if l == "host="+storeHost {
				host = storeHost
			}
		}
		if host == "" {
			sh.viol(evid.Sig{Symptom: "e2e-underivable-line", Trigger: c.trigger()}, "git credential "+r.Op+" names neither the API host nor the storage host", detail())
			return
		}
		if r.Op == "fill" {
			fills[host]++
		}
		if strings.Contains(string(r.Stdin), "\x00") {
			sh.viol(evid.Sig{Symptom: "e2e-forbidden-byte-in-stdin", Trigger: c.trigger()}, fmt.Sprintf("NUL byte in the stdin of git credential %s for %s", r.Op, host), detail())
			return
		}
		if protect[host] && strings.Contains(string(r.Stdin), "\r") {
			sh.viol(evid.Sig{Symptom: "e2e-forbidden-byte-in-stdin", Trigger: c.trigger()}, fmt.Sprintf("CR byte in the stdin of git credential %s for %s, a URL for which protection is on (it is off only for another URL used earlier by the same process)", r.Op, host), detail())
			return
		}
		seen := map[string]int{}
		for _, l := range lines {
			run.Count("e2e_lines_checked", 1)
			ok := l == "capability[]=authtype" || l == "capability[]=state" || allowed[host][l] || (r.Op != "fill" && fillOut[l])
			if !ok {
				sh.viol(evid.Sig{Symptom: "e2e-underivable-line", Trigger: c.trigger()}, fmt.Sprintf("git credential %s for %s received line %s, which is not one key=value pair derivable from the URL, the WWW-Authenticate header or the helper's answer", r.Op, host, strconv.Quote(sbxTrunc(l))), detail())
				return
			}
			if i := strings.IndexByte(l, '='); i > 0 {
				seen[l[:i]]++
			}
		}
		for _, k := range singleKeys {
			if seen[k] > 1 {
				sh.viol(evid.Sig{Symptom: "e2e-duplicate-key", Trigger: c.trigger()}, fmt.Sprintf("key %s sent %d times to git credential %s", k, seen[k], r.Op), detail())
				return
			}
		}
	}
	if fills[apiHost] == 0 {
		run.Inconclusive(fmt.Sprintf("e2e href case %d (%s): no credential fill for the API host, scenario did not run: %s", c.Idx, c.class(), lastLine(res.Stderr)))
		return
	}
	storeRecs := 0
	for _, r := range recs {
		if strings.Contains("\n"+string(r.Stdin), "\nhost="+storeHost+"\n") {
			storeRecs++
		}
	}
	refuse, why := mustRefuse([]kv{{"username", []string{c.UserDec}}, {"path", []string{c.PathDec}}}, protect[storeHost])
	if refuse {
		if storeRecs != 0 {
			sh.viol(evid.Sig{Symptom: "e2e-exchange-not-refused", Trigger: c.trigger()}, "git credential took place for the storage host although the href's "+why, detail())
			return
		}
		if res.Code == 0 && downloaded {
			sh.viol(evid.Sig{Symptom: "e2e-refusal-without-error", Trigger: c.trigger()}, "git lfs smudge succeeded although the href's "+why, detail())
			return
		}
		run.Count("e2e_refusals_observed", 1)
		run.Count("e2e_href_refusals_after_other_url", 1)
	} else {
		if fills[storeHost] == 0 {
			sh.viol(evid.Sig{Symptom: "e2e-exchange-missing", Trigger: c.trigger()}, "no git credential fill for the storage host although no value has a forbidden byte for that URL", detail())
			return
		}
		run.Count("e2e_passthrough_observed", 1)
		run.Count("e2e_href_passthrough_after_other_url", 1)
	}
}

// runCaseR — redirect shape: the wrapper obtained for URL A is used (Approve) after git-lfs obtained another one for URL B.
// `git lfs locks` against A=http://localhost:PORT (protection on by default); the helper answers A's fill with CRLF line
// ends (so the credentials git-lfs holds for A end in CR); A redirects (307) to B=http://127.0.0.1:PORT, for which
// credentials are filled next; after the 200 git-lfs approves B's and then A's credentials. A's approve carries CR and
// must be refused because protection is on for A, whatever the setting for B is.
func runCaseR(sh *e2eShared, variant int) {
	run := sh.run
	bSetting := []string{"false", "unset"}[variant%2]
	class := "B/redirect/approve-of-first-url-after-second-lookup/cr/A=unset,B=" + bSetting
	trigger := "redirect-stale-wrapper-inter-" + onoff(bSetting != "false") + "-cr"
	const realm = `Basic realm="verif redirect"`
	srv, err := startRawServer([]byte("WWW-Authenticate: "+realm+"\r\n"), 0)
	if err != nil {
		run.Inconclusive("cannot listen: " + err.Error())
		return
	}
	defer srv.ln.Close()
	port := strconv.Itoa(srv.port())
	aHost, bHost := "localhost:"+port, "127.0.0.1:"+port
	srv.ok200 = func(first string) []byte {
		f := strings.Fields(first)
		if len(f) >= 2 && strings.HasPrefix(f[1], "/redir/") {
			body := `{"locks":[]}`
			return []byte(fmt.Sprintf("HTTP/1.1 200 OK\r\nContent-Type: application/vnd.git-lfs+json\r\nContent-Length: %d\r\nConnection: close\r\n\r\n%s", len(body), body))
		}
		return []byte("HTTP/1.1 307 Temporary Redirect\r\nLocation: http://" + bHost + "/redir/locks\r\nContent-Length: 0\r\nConnection: close\r\n\r\n")
	}
	env := sbx.New()
	defer env.Cleanup()
	env.Timeout = 3 * time.Minute
	logdir := env.Dir("c17log")
	answers := env.Dir("c17answers")
	os.WriteFile(filepath.Join(answers, "fill.0"), []byte("protocol=http\r\nhost="+aHost+"\r\nusername=stage\r\npassword=p1\r\n"), 0o644)
	os.WriteFile(filepath.Join(answers, "fill.1"), []byte("protocol=http\nhost="+bHost+"\nusername=stage\npassword=p2\n"), 0o644)
	env.Extra = append(env.Extra, "PATH="+sh.shimDir+":"+sbx.BinDir+":/usr/local/bin:/usr/bin:/bin", "VERIF_C17_LOG="+logdir, "VERIF_C17_MODE=answer", "VERIF_C17_ANSWERS="+answers)
	repo := env.InitRepo("repo")
	env.MustGit(repo, "config", "remote.origin.url", "http://"+aHost+"/org/repo.git")
	env.MustGit(repo, "config", "credential.helper", filepath.Join(sh.shimDir, "git-credential-verifc17"))
	if bSetting != "unset" {
		env.MustGit(repo, "config", "credential.http://"+bHost+".protectProtocol", bSetting)
	}
	res := env.Run(sbx.RunOpt{Dir: repo}, "git-lfs", "locks")
	run.Count("e2e_runs", 1)
	run.Count("e2e_redirect_runs", 1)
	recs, err := readRecords(logdir, false)
	if err != nil {
		run.Inconclusive("cannot read shim log: " + err.Error())
		return
	}
	srv.mu.Lock()
	nreq, reqLines := srv.requests, append([]string{}, srv.reqLines...)
	srv.mu.Unlock()
	run.Count("e2e_http_requests", int64(nreq))
	run.Count("e2e_git_credential_records", int64(len(recs)))
	summary := map[string]any{"class": class, "git_lfs_exit": res.Code, "credential_ops": opsOf(recs), "http_requests": nreq, "stderr_tail": lastLine(res.Stderr)}
	run.Case(class, summary)
	sh.mu.Lock()
	sh.summaries = append(sh.summaries, summary)
	sh.mu.Unlock()
	if res.TimedOut {
		run.Inconclusive("e2e redirect case: watchdog fired")
		return
	}
	protect := map[string]bool{aHost: true, bHost: bSetting != "false"}
	fills := map[string]int{}
	var rs []map[string]any
	for _, r := range recs {
		rs = append(rs, map[string]any{"argv": r.Argv, "stdin_quoted": strconv.Quote(sbxTrunc(string(r.Stdin)))})
	}
	detail := map[string]any{"class": class, "config": "remote.origin.url=http://" + aHost + "/org/repo.git credential.http://" + bHost + ".protectProtocol=" + bSetting,
		"scenario":     "GET A/locks -> 401; fill(A) answered with CRLF line ends; GET A/locks with credentials -> 307 to B; fill(B); GET B -> 200; approve(B); approve(A)",
		"git_lfs_exit": res.Code, "git_lfs_stderr": sbx.Trunc(res.Stderr, 1500), "http": reqLines, "git_credential_records": rs}
	for _, r := range recs {
		run.Count("e2e_bytes_compared", int64(len(r.Stdin)))
		run.Count("e2e_op_"+r.Op, 1)
		lines, _ := splitLines(r.Stdin)
		host := ""
		for _, l := range lines {
			if v, ok := strings.CutPrefix(l, "host="); ok {
				host = strings.TrimSuffix(v, "\r")
			}
		}
		if r.Op == "fill" {
			fills[host]++
		}
		if pr, known := protect[host]; known && pr && strings.Contains(string(r.Stdin), "\r") {
			sh.viol(evid.Sig{Symptom: "e2e-forbidden-byte-in-stdin", Trigger: trigger}, fmt.Sprintf("CR bytes in the stdin of git credential %s for %s, a URL for which protection is on; git-lfs looked up credentials for %s (protection %s) in between", r.Op, host, bHost, onoff(protect[bHost])), detail)
			return
		}
	}
	if fills[aHost] == 0 || fills[bHost] == 0 {
		run.Inconclusive("e2e redirect case: scenario did not run (fills: " + fmt.Sprint(fills) + "): " + lastLine(res.Stderr))
		return
	}
	run.Count("e2e_redirect_scenarios_completed", 1)
}
