package main

// Part A, sequence family: ONE creds.CredentialHelperContext is reused for 2-4
// exchanges over different URLs, with credential.<url>.protectProtocol set per
// host ({unset,true,false}) plus the global credential.protectProtocol. Every
// exchange is judged by the setting that applies to ITS url: CR refused iff
// protection is on for that url; LF/NUL always refused.
//
// Modelled legitimate behaviour (never flagged):
//   - a refused Fill puts the command helper on the skip list of that wrapper's
//     CredentialHelpers: later calls on the SAME wrapper do not reach git;
//   - the context-wide credential cache (lfs.cachecredentials): a Fill whose
//     protocol//host//path key was approved earlier is answered from the cache,
//     an Approve of a cached key returns without reaching git, a refused Approve
//     and every Reject drop the entry.

import (
	"fmt"
	"net/url"
	"strconv"

	"github.com/git-lfs/git-lfs/v3/config"
	"github.com/git-lfs/git-lfs/v3/creds"
)

var seqHosts = []string{"a.example", "b.example:8080", "c.example", "127.0.0.1:9000"}

type seqOp struct {
	Op    string `json:"op"`
	Pairs []kv   `json:"pairs"`
}

type seqStep struct {
	Host      int     `json:"host"`
	Path      string  `json:"path"`
	Style     string  `json:"style"` // direct | context
	Key       string  `json:"key"`
	Tok       string  `json:"tok"`
	Pos       string  `json:"pos"`
	Ops       []seqOp `json:"ops"`   // first op, then (like lfsapi) an optional approve/reject on the same wrapper
	Stale     bool    `json:"stale"` // another GetCredentialHelper (InterHost) happens between obtaining and using the wrapper
	InterHost int     `json:"inter_host"`
}

type caseSeq struct {
	Idx      int       `json:"idx"`
	Global   string    `json:"global"`   // unset|true|false
	HostSet  []string  `json:"host_set"` // per seqHosts: unset|true|false
	CacheOff bool      `json:"cache_off"`
	Steps    []seqStep `json:"steps"`
}

// protectFor: the setting that applies to host i (URL-specific wins over the global one; default on).
func (c *caseSeq) protectFor(i int) bool {
	switch c.HostSet[i] {
	case "true":
		return true
	case "false":
		return false
	}
	return c.Global != "false"
}

func (c *caseSeq) config() map[string][]string {
	m := map[string][]string{"credential.usehttppath": {"true"}}
	if c.Global != "unset" {
		m["credential.protectprotocol"] = []string{c.Global}
	}
	for i, s := range c.HostSet {
		if s != "unset" {
			m["credential.http://"+seqHosts[i]+".protectprotocol"] = []string{s}
		}
	}
	if c.CacheOff {
		m["lfs.cachecredentials"] = []string{"false"}
	}
	return m
}

var seqTokens = []token{{"cr", "\r"}, {"cr", "\r"}, {"cr", "\r"}, {"cr", "\r"}, {"cr", "\r"}, {"cr", "\r"}, {"lf", "\n"}, {"nul", "\x00"}, {"tab", "\t"}, {"none", ""}}

func genCaseSeq(seed int64, idx int) *caseSeq {
	r := caseRand(seed, 5_000_000+idx)
	set := []string{"unset", "true", "false"}
	c := &caseSeq{Idx: idx, Global: set[r.Intn(3)], CacheOff: r.Intn(2) == 0}
	if r.Intn(2) == 0 {
		c.Global = "unset"
	}
	for range seqHosts {
		c.HostSet = append(c.HostSet, set[r.Intn(3)])
	}
	n := 2 + r.Intn(3)
	// at most one stale-wrapper step per sequence, always the last one (one trigger per case)
	staleAt := -1
	if idx%5 == 4 {
		staleAt = n - 1
	}
	for si := 0; si < n; si++ {
		st := seqStep{Host: r.Intn(len(seqHosts)), Path: "org/repo" + strconv.Itoa(r.Intn(3)) + ".git"}
		if r.Intn(3) > 0 && si > 0 { // mostly a different host than the previous step
			for st.Host == c.Steps[si-1].Host {
				st.Host = r.Intn(len(seqHosts))
			}
		}
		t := seqTokens[r.Intn(len(seqTokens))]
		st.Tok, st.Pos = t.Name, positions[r.Intn(4)]
		host := seqHosts[st.Host]
		if r.Intn(2) == 0 {
			st.Style = "context"
			st.Key = []string{"username", "path", "wwwauth[]", "state[]"}[r.Intn(4)]
			if si == staleAt && st.Key == "path" {
				st.Key = "username" // one trigger per case: keep the control byte out of the URL path in stale-wrapper steps
			}
			pairs := []kv{{"protocol", []string{"http"}}, {"host", []string{host}}}
			for _, k := range []string{"username", "path", "wwwauth[]", "state[]"} {
				if k != st.Key && k != "path" && r.Intn(2) == 0 {
					continue
				}
				nv := 1
				if isMulti(k) {
					nv = 1 + r.Intn(3)
				}
				vals := make([]string, nv)
				for i := range vals {
					vals[i] = baseValue(r, k)
					if k == "path" {
						vals[i] = st.Path
					}
				}
				if k == st.Key && st.Tok != "none" {
					e := r.Intn(nv)
					vals[e] = place(r, vals[e], t.S, st.Pos)
				}
				pairs = append(pairs, kv{k, vals})
			}
			st.Ops = []seqOp{{"fill", pairs}}
		} else {
			st.Style = "direct"
			keys := []string{"path", "username", "password", "wwwauth[]", "state[]", "authtype", "credential"}
			st.Key = keys[r.Intn(len(keys))]
			pairs := []kv{{"protocol", []string{"http"}}, {"host", []string{host}}}
			for _, k := range keys {
				if k != st.Key && r.Intn(2) == 0 {
					continue
				}
				nv := 1
				if isMulti(k) {
					nv = 1 + r.Intn(3)
				}
				vals := make([]string, nv)
				for i := range vals {
					vals[i] = baseValue(r, k)
					if k == "path" {
						vals[i] = st.Path
					}
				}
				if k == st.Key && st.Tok != "none" {
					e := r.Intn(nv)
					vals[e] = place(r, vals[e], t.S, st.Pos)
				}
				pairs = append(pairs, kv{k, vals})
			}
			st.Ops = []seqOp{{[]string{"fill", "approve", "reject"}[r.Intn(3)], pairs}}
		}
		if st.Ops[0].Op == "fill" && r.Intn(3) == 0 {
			// lfsapi approves/rejects what it filled, on the same wrapper
			fp := append([]kv{}, st.Ops[0].Pairs...)
			has := false
			for _, p := range fp {
				if p.K == "password" {
					has = true
				}
			}
			if !has {
				fp = append(fp, kv{"password", []string{"verifpass"}})
			}
			st.Ops = append(st.Ops, seqOp{[]string{"approve", "reject"}[r.Intn(2)], fp})
		}
		if si == staleAt {
			st.Stale = true
			st.InterHost = (st.Host + 1 + r.Intn(len(seqHosts)-1)) % len(seqHosts)
		}
		c.Steps = append(c.Steps, st)
	}
	return c
}

func firstOf(pairs []kv, k string) string {
	for _, p := range pairs {
		if p.K == k && len(p.V) > 0 {
			return p.V[0]
		}
	}
	return ""
}

type seqCall struct {
	err      error
	panicVal any
}

func seqDo(w *creds.CredentialHelperWrapper, style string, first bool, op seqOp) (res seqCall) {
	defer func() {
		if x := recover(); x != nil {
			res.panicVal = x
		}
	}()
	if style == "context" && first {
		res.err = w.FillCreds() // Input built by GetCredentialHelper from the URL, the headers and the state
		return
	}
	m := creds.Creds{}
	for _, p := range op.Pairs {
		m[p.K] = append([]string{}, p.V...)
	}
	switch op.Op {
	case "fill":
		_, res.err = w.CredentialHelper.Fill(m)
	case "approve":
		res.err = w.CredentialHelper.Approve(m)
	default:
		res.err = w.CredentialHelper.Reject(m)
	}
	return
}

func runSeqCases(out *workerOut, seed int64, w, W, nSeq int, logdir string) {
	osEnv := config.EnvironmentOf(config.MapFetcher(map[string][]string{}))
	for idx := w; idx < nSeq; idx += W {
		c := genCaseSeq(seed, idx)
		gitEnv := config.EnvironmentOf(config.MapFetcher(c.config()))
		ctx := creds.NewCredentialHelperContext(gitEnv, osEnv)
		out.Counters["a_seq_contexts"]++
		cache := map[string]bool{}
		priorAny, priorOff := false, false
		for si := range c.Steps {
			st := &c.Steps[si]
			host := seqHosts[st.Host]
			protect := c.protectFor(st.Host)
			prior := "none"
			if priorOff {
				prior = "off"
			} else if priorAny {
				prior = "on"
			}
			u := &url.URL{Scheme: "http", Host: host, Path: "/" + st.Path}
			if st.Style == "context" {
				p0 := st.Ops[0].Pairs
				if un := firstOf(p0, "username"); un != "" {
					u.User = url.User(un)
				}
				u.Path = "/" + firstOf(p0, "path")
				var www, state []string
				for _, p := range p0 {
					if p.K == "wwwauth[]" {
						www = p.V
					}
					if p.K == "state[]" {
						state = p.V
					}
				}
				ctx.SetWWWAuthHeaders(www)
				ctx.SetStateFields(state)
			}
			wr := ctx.GetCredentialHelper(nil, u)
			priorAny = true
			if !protect {
				priorOff = true
			}
			shape := "fresh"
			if st.Stale {
				shape = "stale-wrapper"
				ctx.GetCredentialHelper(nil, &url.URL{Scheme: "http", Host: seqHosts[st.InterHost], Path: "/other/repo.git"})
				if !c.protectFor(st.InterHost) {
					priorOff = true
				}
				shape += map[bool]string{true: "-inter-on", false: "-inter-off"}[c.protectFor(st.InterHost)]
			}
			// separate coordinate: the URL handed to GetCredentialHelper has a control byte in its (decoded) path while a
			// URL-scoped credential.<url>.protectProtocol differs from the global setting
			lostScope := st.Style == "context" && st.Key == "path" && (st.Tok == "cr" || st.Tok == "tab") && c.HostSet[st.Host] != "unset" && protect != (c.Global != "false")
			if lostScope {
				shape += "+ctl-in-url-path,scoped!=global"
			}
			skipped := false
			for oi, op := range st.Ops {
				class := fmt.Sprintf("A/seq/%s/%s/protect=%v/prior=%s/%s/%s/%s", st.Style, op.Op, protect, prior, shape, keyShort(st.Key), st.Tok)
				if oi > 0 {
					class += "/followup"
				}
				out.Classes[class]++
				if _, ok := out.Samples[class]; !ok && st.Tok == "cr" && prior == "off" && protect && len(out.Samples) < 5 {
					out.Samples[class] = map[string]any{"class": class, "global": c.Global, "host_settings": fmt.Sprint(seqHosts, c.HostSet), "url": "http://" + host + "/" + st.Path, "pairs": quotePairs(op.Pairs)}
				}
				trigger := "ctxreuse-prior-" + prior + "-" + keyShort(st.Key) + "-value-" + st.Tok
				if st.Stale {
					trigger = shape + "-" + st.Tok
				} else if lostScope {
					trigger = "urlscoped-setting-lost-path-" + st.Tok
				}
				// model of the legitimate no-exchange paths
				key := firstOf(op.Pairs, "protocol") + "//" + firstOf(op.Pairs, "host") + "//" + firstOf(op.Pairs, "path")
				refuse, why := mustRefuse(op.Pairs, protect)
				mayBeAbsent := skipped
				switch op.Op {
				case "fill":
					if !c.CacheOff && cache[key] {
						mayBeAbsent = true
						out.Counters["a_seq_cache_hits_modelled"]++
					}
				case "approve":
					if !c.CacheOff {
						if cache[key] {
							mayBeAbsent = true
							out.Counters["a_seq_cache_hits_modelled"]++
						} else if skipped || !refuse {
							// stored by the cache; only a refusing command helper makes CredentialHelpers.Approve drop it again
							cache[key] = true
						}
					}
				default:
					delete(cache, key)
				}
				res := seqDo(&wr, st.Style, oi == 0, op)
				recs, err := readRecords(logdir, true)
				if err != nil {
					out.Inconcl = append(out.Inconcl, "cannot read shim log: "+err.Error())
					continue
				}
				out.Counters["a_seq_calls"]++
				if skipped {
					out.Counters["a_seq_calls_after_refused_fill_modelled"]++
				}
				viol := func(sym, what string) {
					if !out.admit(sym, trigger) {
						return
					}
					d := map[string]any{"case": class, "idx": 10_000_000 + c.Idx, "sequence": c.Idx, "step": si, "op_index": oi, "global": c.Global, "host_settings": fmt.Sprint(seqHosts, c.HostSet), "cache_off": c.CacheOff,
						"url": "http://" + host + "/" + st.Path, "protection_for_this_url": protect, "pairs_quoted": quotePairs(op.Pairs), "error_returned": fmt.Sprint(res.err)}
					var prev []string
					for pj := 0; pj <= si; pj++ {
						ps := c.Steps[pj]
						s := fmt.Sprintf("step %d: GetCredentialHelper(http://%s/%s) [protection %v]", pj, seqHosts[ps.Host], ps.Path, c.protectFor(ps.Host))
						if ps.Stale {
							s += fmt.Sprintf(", then GetCredentialHelper(http://%s/other/repo.git) [protection %v] before the wrapper is used", seqHosts[ps.InterHost], c.protectFor(ps.InterHost))
						}
						for _, o := range ps.Ops {
							s += "; " + o.Op
						}
						prev = append(prev, s)
					}
					d["steps"] = prev
					var rs []map[string]any
					for _, r := range recs {
						rs = append(rs, map[string]any{"argv": r.Argv, "stdin_quoted": strconv.Quote(sbxTrunc(string(r.Stdin)))})
					}
					d["recorded"] = rs
					out.Viols = append(out.Viols, violA{sym, trigger, what, d})
				}
				if res.panicVal != nil {
					viol("go-panic", fmt.Sprintf("panic in creds: %v", res.panicVal))
					continue
				}
				out.Counters["a_exchanges_recorded"] += int64(len(recs))
				if refuse {
					out.Counters["a_seq_refusal_cases"]++
					if len(recs) != 0 {
						viol("exchange-not-refused", fmt.Sprintf("`git credential %s` for http://%s was started although %s (protection for this URL: %v; earlier URLs in the same context: %s)", op.Op, host, why, protect, prior))
					} else if res.err == nil && !mayBeAbsent {
						viol("refusal-without-error", fmt.Sprintf("%s returned no error although %s", op.Op, why))
					} else {
						out.Counters["a_seq_refusals_observed"]++
					}
					if op.Op == "fill" && !mayBeAbsent {
						skipped = true // CredentialHelpers.Fill skips an erroring helper from now on (documented in creds.go)
					}
					continue
				}
				out.Counters["a_seq_passthrough_cases"]++
				switch {
				case len(recs) == 0 && mayBeAbsent:
					out.Counters["a_seq_no_exchange_modelled"]++
				case len(recs) == 0:
					viol("exchange-missing", fmt.Sprintf("no `git credential %s` for http://%s although no value has LF/NUL and %s; error: %v", op.Op, host, map[bool]string{true: "none has CR", false: "protection is off for this URL (CR allowed)"}[protect], res.err))
				case len(recs) > 1:
					viol("multiple-exchanges", fmt.Sprintf("%d git credential processes for one %s", len(recs), op.Op))
				default:
					r := recs[0]
					if len(r.Argv) != 2 || r.Argv[0] != "credential" || r.Argv[1] != op.Op {
						viol("argv-mismatch", fmt.Sprintf("argv %q for %s", r.Argv, op.Op))
						break
					}
					exp := expectedLines(op.Pairs)
					out.Counters["a_bytes_compared"] += int64(len(r.Stdin))
					out.Counters["a_lines_compared"] += int64(len(exp))
					if msg := compareStdin(r.Stdin, exp); msg != "" {
						viol("stdin-mismatch", msg)
					}
				}
			}
		}
	}
}
