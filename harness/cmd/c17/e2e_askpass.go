package main

// Part B, askpass shape: `git lfs locks` of the real binary while an askpass program is configured (GIT_ASKPASS,
// core.askpass or SSH_ASKPASS naming a real script that prints a value and logs its invocation) and
// credential.<url>.protectProtocol is set at several depths of the remote URL (global, scheme://host,
// scheme://host/<prefix>, scheme://host/<full path>) with opposite values, credential.useHttpPath on or off.
// Every recorded `git credential` exchange is judged by the most specific entry matching the remote URL
// (resolveProtect, askpass.go).
//
//	via=helper:           credential.helper is the recording helper, so the askpass program is never needed;
//	via=askpass-answers:  no helper; the askpass script answers and no exchange is demanded (counted only).
//	loc=url-user:         percent-encoded token in the user name of the remote URL (exec mode: real git + helper);
//	loc=helper-answer-crlf: the first fill is answered with CRLF line ends, so the credentials git-lfs approves
//	                      afterwards end in CR (answer mode).

import (
	"fmt"
	"os"
	"path/filepath"
	"strconv"
	"strings"
	"time"

	"verif/harness/evid"
	"verif/harness/sbx"
)

type caseK struct {
	Idx     int
	Kind    string // none | GIT_ASKPASS | core.askpass | SSH_ASKPASS
	Via     string // helper | askpass-answers
	UsePath bool
	Shape   scopeShape
	Loc     string // url-user | helper-answer-crlf
	Tok     string
	tokS    string
	UserDec string
	UserEnc string
	Seg1    string
	Seg2    string
	Deep    bool // the prefix entry names two path elements
}

func shapeByName(n string) scopeShape {
	for _, s := range scopeShapes {
		if s.name() == n {
			return s
		}
	}
	panic("no scope shape " + n)
}

func (c *caseK) class() string {
	return fmt.Sprintf("B/askpass/%s/%s/usehttppath=%s/%s/%s/%s", c.Kind, c.Via, onoff(c.UsePath), c.Shape.name(), c.Loc, c.Tok)
}

func (c *caseK) trigger() string {
	if c.Kind == "none" {
		return "askpass-none/" + c.Shape.trig()
	}
	return "askpass-set/" + c.Shape.trig()
}

var askE2ETokens = []token{{"cr", "\r"}, {"cr", "\r"}, {"cr", "\r"}, {"cr", "\r"}, {"lf", "\n"}, {"nul", "\x00"}, {"crlf", "\r\n"}, {"tab", "\t"}}

func genCaseK(seed int64, idx int) *caseK {
	r := caseRand(seed, 40_000_000+idx)
	c := &caseK{Idx: idx}
	type sh struct {
		kind, via string
		usePath   bool
		shape     string
		loc, tok  string
	}
	sys := []sh{
		{"GIT_ASKPASS", "helper", false, "prefix:on>host:off", "url-user", "cr"},
		{"core.askpass", "helper", false, "prefix:on>host:off", "url-user", "cr"},
		{"SSH_ASKPASS", "helper", false, "full:on>global:off", "url-user", "cr"},
		{"none", "helper", false, "prefix:on>host:off", "url-user", "cr"},
		{"GIT_ASKPASS", "helper", true, "prefix:on>host:off", "url-user", "cr"},
		{"GIT_ASKPASS", "helper", false, "prefix:off>host:on", "url-user", "cr"}, // CR must pass through
		{"core.askpass", "helper", false, "full:off>default", "url-user", "cr"},  // CR must pass through
		{"GIT_ASKPASS", "helper", false, "full:on>prefix:off", "helper-answer-crlf", "crlf-endings"},
		{"SSH_ASKPASS", "helper", false, "prefix:on>global:off", "helper-answer-crlf", "crlf-endings"},
		{"GIT_ASKPASS", "askpass-answers", false, "prefix:on>host:off", "url-user", "cr"},
		{"core.askpass", "askpass-answers", true, "host:off>default", "url-user", "cr"},
		{"GIT_ASKPASS", "helper", false, "prefix:on>host:off", "url-user", "lf"},
		{"SSH_ASKPASS", "helper", true, "host:off>global:on", "url-user", "nul"},
		{"GIT_ASKPASS", "helper", false, "host:on>global:off", "url-user", "cr"},
		{"core.askpass", "helper", false, "prefix:off>host:on", "helper-answer-crlf", "crlf-endings"}, // CR may pass
		{"GIT_ASKPASS", "helper", false, "prefix:on>host:off", "url-user", "tab"},
	}
	if idx < len(sys) {
		s := sys[idx]
		c.Kind, c.Via, c.UsePath, c.Shape, c.Loc, c.Tok = s.kind, s.via, s.usePath, shapeByName(s.shape), s.loc, s.tok
	} else {
		c.Kind = askKinds[idx%len(askKinds)]
		c.Via = "helper"
		if c.Kind != "none" && r.Intn(5) == 0 {
			c.Via = "askpass-answers"
		}
		c.UsePath = r.Intn(2) == 0
		c.Shape = scopeShapes[r.Intn(len(scopeShapes))]
		c.Loc, c.Tok = "url-user", askE2ETokens[r.Intn(len(askE2ETokens))].Name
		if c.Via == "helper" && r.Intn(4) == 0 {
			c.Loc, c.Tok = "helper-answer-crlf", "crlf-endings"
		}
	}
	for _, t := range askE2ETokens {
		if t.Name == c.Tok {
			c.tokS = t.S
		}
	}
	c.Seg1, c.Seg2 = "s"+randAlnum(r, 2, 5), "t"+randAlnum(r, 1, 4)
	c.Deep = r.Intn(3) == 0
	c.UserDec = "alice"
	if c.Loc == "url-user" {
		c.UserDec = place(r, "alice", c.tokS+"host=evil.example", positions[r.Intn(3)])
	}
	c.UserEnc = pctEncode(r, c.UserDec)
	return c
}

func runCaseK(sh *e2eShared, c *caseK) {
	run := sh.run
	const realm = `Basic realm="verif askpass"`
	answerMode := c.Loc == "helper-answer-crlf"
	srv, err := startRawServer([]byte("WWW-Authenticate: "+realm+"\r\n"), 0)
	if err != nil {
		run.Inconclusive("cannot listen: " + err.Error())
		return
	}
	defer srv.ln.Close()
	port := strconv.Itoa(srv.port())
	hostport := "127.0.0.1:" + port
	base := "http://" + hostport
	pathDec := c.Seg1 + "/" + c.Seg2 + "/repo.git"
	cleanURL := base + "/" + pathDec
	rurl := "http://" + c.UserEnc + "@" + hostport + "/" + pathDec
	prefix := base + "/" + c.Seg1
	if c.Deep {
		prefix += "/" + c.Seg2
	}
	urls := []string{"", base, prefix, cleanURL}
	var entries []scopeEntry
	if s := c.Shape; s.Win >= 0 {
		entries = append(entries, scopeEntry{urls[s.Win], boolStr(s.On)})
		if s.Broader >= 0 {
			entries = append(entries, scopeEntry{urls[s.Broader], boolStr(!s.On)})
		}
	}
	entries = append(entries, scopeEntry{"http://localhost:" + port + "/" + c.Seg1, boolStr(c.Idx%2 == 0)}) // another host: matches nothing
	protect, _ := resolveProtect(entries, cleanURL)
	if c.Shape.Win >= 0 && protect != c.Shape.On {
		run.Inconclusive(fmt.Sprintf("generator bug: e2e askpass case %d: resolver says %v for shape %s", c.Idx, protect, c.Shape.name()))
		return
	}

	env := sbx.New()
	defer env.Cleanup()
	env.Timeout = 3 * time.Minute
	logdir := env.Dir("c17log")
	answers := env.Dir("c17answers")
	mode := "exec"
	if answerMode {
		mode = "answer"
		os.WriteFile(filepath.Join(answers, "fill.0"), []byte("protocol=http\r\nhost="+hostport+"\r\nusername=stage\r\npassword=p1\r\n"), 0o644)
	}
	askLog := filepath.Join(env.Root, "askpass.log")
	askProg := filepath.Join(env.Root, "askpass.sh")
	os.WriteFile(askProg, []byte("#!/bin/sh\nprintf '%s\\n' \"$1\" >>'"+askLog+"'\ncase \"$1\" in Username*) echo verifuser;; *) echo verifpass;; esac\n"), 0o755)
	env.Extra = append(env.Extra, "PATH="+sh.shimDir+":"+sbx.BinDir+":/usr/local/bin:/usr/bin:/bin", "VERIF_C17_LOG="+logdir, "VERIF_C17_MODE="+mode, "VERIF_C17_ANSWERS="+answers)
	repo := env.InitRepo("repo")
	env.MustGit(repo, "config", "remote.origin.url", rurl)
	env.MustGit(repo, "config", "remote.origin.fetch", "+refs/heads/*:refs/remotes/origin/*")
	var cfgLines []string
	set := func(k, v string) {
		env.MustGit(repo, "config", k, v)
		cfgLines = append(cfgLines, k+"="+v)
	}
	if c.Via == "helper" {
		set("credential.helper", filepath.Join(sh.shimDir, "git-credential-verifc17"))
	}
	if c.UsePath {
		set("credential.useHttpPath", "true")
	}
	for _, e := range entries {
		if e.URL == "" {
			set("credential.protectProtocol", e.Val)
		} else {
			set("credential."+e.URL+".protectProtocol", e.Val)
		}
	}
	// the sandbox sets GIT_ASKPASS and SSH_ASKPASS to the empty string (an empty GIT_ASKPASS would hide core.askpass):
	// remove both, then set the one the case is about
	argv := []string{"-u", "GIT_ASKPASS", "-u", "SSH_ASKPASS"}
	switch c.Kind {
	case "GIT_ASKPASS", "SSH_ASKPASS":
		argv = append(argv, c.Kind+"="+askProg)
		cfgLines = append(cfgLines, "env "+c.Kind+"="+askProg)
	case "core.askpass":
		set("core.askpass", askProg)
	}
	argv = append(argv, "git-lfs", "locks")
	res := env.Run(sbx.RunOpt{Dir: repo}, "env", argv...)
	run.Count("e2e_runs", 1)
	run.Count("e2e_askpass_runs", 1)
	run.Count("e2e_askpass_kind_"+c.Kind, 1)
	run.Count("e2e_askpass_scope_"+c.Shape.name(), 1)
	all, err := readRecords(logdir, false)
	if err != nil {
		run.Inconclusive("cannot read shim log: " + err.Error())
		return
	}
	var recs []record
	for _, r := range all {
		if r.Kind == "git" {
			recs = append(recs, r)
		} else {
			run.Count("e2e_helper_records", 1)
		}
	}
	askRuns := 0
	if b, err := os.ReadFile(askLog); err == nil {
		askRuns = strings.Count(string(b), "\n")
	}
	run.Count("e2e_askpass_program_runs", int64(askRuns))
	srv.mu.Lock()
	nreq, nauth, reqLines := srv.requests, srv.authorized, append([]string{}, srv.reqLines...)
	srv.mu.Unlock()
	run.Count("e2e_http_requests", int64(nreq))
	run.Count("e2e_http_requests_authorized", int64(nauth))
	run.Count("e2e_git_credential_records", int64(len(recs)))
	summary := map[string]any{"class": c.class(), "url": rurl, "config": cfgLines, "protection_for_url": protect, "git_lfs_exit": res.Code, "credential_ops": opsOf(recs), "askpass_program_runs": askRuns, "http_requests": nreq, "stderr_tail": lastLine(res.Stderr)}
	run.Case(c.class(), summary)
	sh.mu.Lock()
	if len(sh.summaries) < 200 {
		sh.summaries = append(sh.summaries, summary)
	}
	sh.mu.Unlock()

	detail := func() map[string]any {
		d := map[string]any{"class": c.class(), "idx": c.Idx, "remote_url": rurl, "config": cfgLines, "protection_that_applies": fmt.Sprintf("%v (%s)", protect, c.Shape.name()), "mode": mode,
			"askpass": c.Kind, "askpass_program_runs": askRuns, "git_lfs_exit": res.Code, "git_lfs_stderr": sbx.Trunc(res.Stderr, 2000), "http": reqLines,
			"repro": fmt.Sprintf("git init r && cd r && git config remote.origin.url '%s' && set the config above (env = environment variable naming a script that prints a value) && git lfs locks   # server: 401 + WWW-Authenticate: %s, 200 once Authorization is present; `git` shim first on PATH records `git credential` stdin", rurl, realm)}
		var rs []map[string]any
		for _, r := range recs {
			rs = append(rs, map[string]any{"argv": r.Argv, "stdin_quoted": strconv.Quote(sbxTrunc(string(r.Stdin))), "stdout_quoted": strconv.Quote(sbxTrunc(string(r.Stdout))), "exit": r.Exit})
		}
		d["git_credential_records"] = rs
		return d
	}
	sig := func(sym string) evid.Sig { return evid.Sig{Symptom: sym, Trigger: c.trigger()} }
	if res.TimedOut {
		run.Inconclusive(fmt.Sprintf("e2e askpass case %d (%s): watchdog fired", c.Idx, c.class()))
		return
	}
	if res.GoCrash() {
		sh.viol(sig("go-panic"), "git-lfs crashed: "+sbx.Trunc(res.Stderr, 300), detail())
		return
	}
	allowed := map[string]bool{"capability[]=authtype": true, "capability[]=state": true, "protocol=http": true, "host=" + hostport: true,
		"username=" + c.UserDec: true, "path=" + pathDec: true, "wwwauth[]=" + realm: true}
	fillOut := map[string]bool{}
	nfill := 0
	for _, r := range recs {
		if r.Op == "fill" {
			nfill++
			ls, _ := splitLines(r.Stdout)
			for _, l := range ls {
				fillOut[l] = true
			}
		}
	}
	for _, r := range recs {
		run.Count("e2e_bytes_compared", int64(len(r.Stdin)))
		run.Count("e2e_op_"+r.Op, 1)
		if strings.Contains(string(r.Stdin), "\x00") {
			sh.viol(sig("e2e-forbidden-byte-in-stdin"), fmt.Sprintf("NUL byte in the stdin of git credential %s", r.Op), detail())
			return
		}
		if protect && strings.Contains(string(r.Stdin), "\r") {
			sh.viol(sig("e2e-forbidden-byte-in-stdin"), fmt.Sprintf("CR byte in the stdin of git credential %s although protection is on for the remote URL (%s; askpass program: %s; useHttpPath: %v)", r.Op, c.Shape.name(), c.Kind, c.UsePath), detail())
			return
		}
		lines, term := splitLines(r.Stdin)
		if !term {
			sh.viol(sig("e2e-unterminated-line"), "stdin of git credential "+r.Op+" does not end with LF", detail())
			return
		}
		if n := len(lines); n > 0 && lines[n-1] == "" {
			lines = lines[:n-1]
		}
		seen := map[string]int{}
		for _, l := range lines {
			run.Count("e2e_lines_checked", 1)
			if !(allowed[l] || (r.Op != "fill" && fillOut[l])) {
				sh.viol(sig("e2e-underivable-line"), fmt.Sprintf("git credential %s received line %s, which is not one key=value pair derivable from the URL, the WWW-Authenticate header or the helper's answer", r.Op, strconv.Quote(sbxTrunc(l))), detail())
				return
			}
			if i := strings.IndexByte(l, '='); i > 0 {
				seen[l[:i]]++
			}
		}
		for _, k := range singleKeys {
			if seen[k] > 1 {
				sh.viol(sig("e2e-duplicate-key"), fmt.Sprintf("key %s sent %d times to git credential %s", k, seen[k], r.Op), detail())
				return
			}
		}
	}
	if c.Via == "askpass-answers" {
		// the askpass helper answers Fill and swallows Approve/Reject: no exchange is demanded
		if len(recs) == 0 {
			run.Count("e2e_askpass_answered_no_exchange", 1)
		}
		return
	}
	if answerMode {
		if nfill == 0 {
			run.Inconclusive(fmt.Sprintf("e2e askpass case %d (%s): no credential fill, scenario did not run: %s", c.Idx, c.class(), lastLine(res.Stderr)))
			return
		}
		// the credentials handed back for approval end in CR: refused iff protection is on for the URL (checked above
		// on every record); with protection off the approve must take place
		napprove := 0
		for _, r := range recs {
			if r.Op == "approve" || r.Op == "reject" {
				napprove++
			}
		}
		if !protect && napprove == 0 && nauth > 0 {
			sh.viol(sig("e2e-exchange-missing"), "no git credential approve/reject of the filled credentials although protection is off for the remote URL (CR allowed)", detail())
			return
		}
		if protect {
			run.Count("e2e_refusals_observed", 1)
		} else {
			run.Count("e2e_passthrough_observed", 1)
		}
		return
	}
	pairs := []kv{{"username", []string{c.UserDec}}}
	refuse, why := mustRefuse(pairs, protect)
	if refuse {
		if len(recs) != 0 {
			sh.viol(sig("e2e-exchange-not-refused"), "git credential "+strings.Join(opsOf(recs), ",")+" took place although the URL's "+why, detail())
			return
		}
		if res.Code == 0 {
			sh.viol(sig("e2e-refusal-without-error"), "git lfs locks succeeded although the URL's "+why, detail())
			return
		}
		run.Count("e2e_refusals_observed", 1)
		return
	}
	if nfill == 0 {
		sh.viol(sig("e2e-exchange-missing"), "no git credential fill although no value contains a forbidden byte for this URL", detail())
		return
	}
	run.Count("e2e_passthrough_observed", 1)
}
