package main

// Part B — end to end: the real git-lfs binary (`git lfs locks`) against a raw
// TCP server that answers 401 with chosen WWW-Authenticate bytes, remote URLs
// with percent-encoded control bytes, the `git` shim first on PATH.

import (
	"bufio"
	"encoding/base64"
	"fmt"
	"math/rand"
	"net"
	"os"
	"path/filepath"
	"strconv"
	"strings"
	"sync"
	"time"

	"verif/harness/evid"
	"verif/harness/sbx"
)

type caseE struct {
	Idx     int    `json:"idx"`
	Loc     string `json:"loc"` // url-user, url-path, url-host, url-password, wwwauth-header, lfsauth-header, helper-state
	Tok     string `json:"tok"`
	tokS    string
	Pos     string `json:"pos"`
	Protect string `json:"protect"` // unset | true | false
	Mode    string `json:"mode"`    // exec (real git + recording helper) | answer (shim answers; multistage)

	// derived
	UserDec, PathDec string // decoded (what the URL means)
	URL              string // remote.origin.url, port filled in later (%PORT%)
	Headers          []rawHeader
	Fill0            string // answer-mode: helper output of the first fill
	LfsURL           bool   // token-carrying URL is lfs.url (remote.origin.url names another host), as in t/t-credentials-protect.sh
}

type rawHeader struct {
	Name, Value string // written verbatim: Name ": " Value CRLF
}

func (c *caseE) class() string {
	s := fmt.Sprintf("B/%s/%s/%s/p=%s", c.Loc, c.Tok, c.Pos, c.Protect)
	if c.LfsURL {
		s += "/lfsurl"
	}
	return s
}
func (c *caseE) trigger() string { return c.Loc + "-" + c.Tok }

// pctEncode: token bytes and everything outside [A-Za-z0-9._/-] are percent-encoded.
func pctEncode(r *rand.Rand, s string) string {
	var b strings.Builder
	for i := 0; i < len(s); i++ {
		ch := s[i]
		if ch >= 'a' && ch <= 'z' || ch >= 'A' && ch <= 'Z' || ch >= '0' && ch <= '9' || ch == '.' || ch == '_' || ch == '-' || ch == '/' {
			b.WriteByte(ch)
			continue
		}
		if r.Intn(2) == 0 {
			fmt.Fprintf(&b, "%%%02x", ch)
		} else {
			fmt.Fprintf(&b, "%%%02X", ch)
		}
	}
	return b.String()
}

var urlForbidden = []token{{"lf", "\n"}, {"cr", "\r"}, {"nul", "\x00"}, {"crlf", "\r\n"}, {"lf-kv", "\nhost=evil.example"}}
var urlHarmless = []token{{"tab", "\t"}, {"del", "\x7f"}, {"pct0a", "%0a"}, {"equals", "="}, {"space", " "}, {"utf8", "ä漢"}, {"vt", "\x0b"}, {"u2028", "\u2028"}}

var hdrTokens = []token{
	{"cr", "\r"}, {"nul", "\x00"},
	{"crlf-fold", "\r\n "}, {"lf-fold", "\n\t"},
	{"crlf-newhdr", "\r\nX-Evil: host=evil.example"}, {"lf-kv", "\nhost=evil.example"},
	{"crlf-wwwauth", "\r\nWWW-Authenticate: Bearer x"},
	{"tab", "\t"}, {"del", "\x7f"}, {"vt", "\x0b"}, {"rawff", "\xff"}, {"utf8", "ä漢"}, {"equals", "=="}, {"pct0a", "%0a"}, {"none", ""},
}

var stateTokens = []token{{"crlf-endings", ""}, {"cr", "\r"}, {"nul", "\x00"}, {"tab", "\t"}, {"equals", "="}, {"utf8", "ä漢"}, {"none", ""}}

// systematic list first (covers every location x forbidden byte), then PRNG draws.
func genCaseE(seed int64, idx int) *caseE {
	r := caseRand(seed, 1_000_000+idx)
	c := &caseE{Idx: idx, Mode: "exec", Protect: "unset"}
	type combo struct {
		loc string
		t   token
		p   string
	}
	var sys []combo
	for _, loc := range []string{"url-user", "url-path"} {
		for _, t := range urlForbidden {
			sys = append(sys, combo{loc, t, "middle"})
		}
		for _, t := range urlHarmless[:4] {
			sys = append(sys, combo{loc, t, "middle"})
		}
	}
	sys = append(sys, combo{"url-host", urlForbidden[0], "end"}, combo{"url-host", urlForbidden[2], "middle"}, combo{"url-password", urlForbidden[0], "middle"})
	for _, t := range hdrTokens {
		sys = append(sys, combo{"wwwauth-header", t, "middle"})
	}
	sys = append(sys, combo{"lfsauth-header", hdrTokens[0], "end"}, combo{"lfsauth-header", hdrTokens[1], "start"})
	for _, t := range stateTokens {
		sys = append(sys, combo{"helper-state", t, "middle"})
	}
	if idx < len(sys) {
		c.Loc, c.Tok, c.tokS, c.Pos = sys[idx].loc, sys[idx].t.Name, sys[idx].t.S, sys[idx].p
		if idx%3 == 2 {
			c.Protect = "true"
		}
	} else {
		c.Loc = []string{"url-user", "url-path", "url-path", "url-user", "wwwauth-header", "wwwauth-header", "lfsauth-header", "helper-state", "url-host", "url-password"}[r.Intn(10)]
		var t token
		switch c.Loc {
		case "wwwauth-header", "lfsauth-header":
			t = hdrTokens[r.Intn(len(hdrTokens))]
		case "helper-state":
			t = stateTokens[r.Intn(len(stateTokens))]
		default:
			if r.Intn(3) == 0 {
				t = urlHarmless[r.Intn(len(urlHarmless))]
			} else {
				t = urlForbidden[r.Intn(len(urlForbidden))]
			}
		}
		c.Tok, c.tokS = t.Name, t.S
		c.Pos = positions[r.Intn(4)]
		c.Protect = []string{"unset", "false", "true", "false"}[r.Intn(4)]
	}
	// the CR cases with protection off belong to the systematic part too
	if idx < len(sys) && c.Tok == "cr" && idx%2 == 1 {
		c.Protect = "false"
	}

	user, path, host, pass := "alice", "org/proj"+randAlnum(r, 0, 3), "127.0.0.1", ""
	switch c.Loc {
	case "url-user":
		user = place(r, user, c.tokS, c.Pos)
	case "url-path":
		path = place(r, path, c.tokS, c.Pos)
	case "url-host":
		host = place(r, host, c.tokS, c.Pos)
	case "url-password":
		pass = place(r, "secret", c.tokS, c.Pos)
	default:
		if r.Intn(2) == 0 {
			user = ""
		}
	}
	c.UserDec, c.PathDec = user, path+"/repo.git"
	if (c.Loc == "url-user" || c.Loc == "url-path") && idx >= len(sys) && r.Intn(3) == 0 {
		c.LfsURL = true
		c.PathDec += "/info/lfs"
	}
	ui := ""
	if user != "" {
		ui = pctEncode(r, user)
		if pass != "" {
			ui += ":" + pctEncode(r, pass)
		}
		ui += "@"
	}
	c.URL = "http://" + ui + pctEncode(r, host) + ":%PORT%/" + pctEncode(r, path) + "/repo.git"

	basic := `Basic realm="verif ` + randAlnum(r, 3, 8) + `"`
	switch c.Loc {
	case "wwwauth-header":
		c.Headers = []rawHeader{{"WWW-Authenticate", place(r, basic, c.tokS, c.Pos)}}
		if r.Intn(2) == 0 {
			c.Headers = append(c.Headers, rawHeader{"Www-Authenticate", `Bearer realm="second"`})
		}
	case "lfsauth-header":
		c.Headers = []rawHeader{{"Lfs-Authenticate", place(r, basic, c.tokS, c.Pos)}, {"WWW-Authenticate", basic}}
	default:
		c.Headers = []rawHeader{{"WWW-Authenticate", basic}}
	}
	if c.Loc == "helper-state" {
		c.Mode = "answer"
		s := place(r, "st"+randAlnum(r, 2, 6), c.tokS, c.Pos)
		nl := "\n"
		if c.Tok == "crlf-endings" {
			nl = "\r\n"
		}
		c.Fill0 = "username=stage" + nl + "password=p1" + nl + "continue=1" + nl + "state[]=" + s + nl + "state[]=second" + nl
	}
	return c
}

// ---- raw TCP server ----

type rawServer struct {
	ln         net.Listener
	mu         sync.Mutex
	block      []byte // raw header block of the 401 answer
	authed401  int    // number of authorized requests still to be answered with 401 (multistage)
	requests   int
	authorized int
	reqLines   []string
	// ok200, when set, produces the complete answer to an authorized request (first = request line)
	ok200 func(first string) []byte
}

func (s *rawServer) port() int { return s.ln.Addr().(*net.TCPAddr).Port }

func startRawServer(block []byte, authed401 int) (*rawServer, error) {
	ln, err := net.Listen("tcp", "127.0.0.1:0")
	if err != nil {
		return nil, err
	}
	s := &rawServer{ln: ln, block: block, authed401: authed401}
	go func() {
		for {
			c, err := ln.Accept()
			if err != nil {
				return
			}
			go s.serve(c)
		}
	}()
	return s, nil
}

func (s *rawServer) serve(c net.Conn) {
	defer c.Close()
	c.SetDeadline(time.Now().Add(60 * time.Second)) // watchdog only
	br := bufio.NewReader(c)
	first := ""
	hasAuth := false
	clen := 0
	for {
		line, err := br.ReadString('\n')
		if err != nil {
			return
		}
		line = strings.TrimRight(line, "\r\n")
		if first == "" {
			first = line
			continue
		}
		if line == "" {
			break
		}
		l := strings.ToLower(line)
		if strings.HasPrefix(l, "authorization:") {
			// only credentials that came from the helper count (Go's client sends the URL's userinfo by itself)
			f := strings.Fields(line[14:])
			if len(f) == 2 && strings.EqualFold(f[0], "basic") {
				if dec, err := base64.StdEncoding.DecodeString(f[1]); err == nil {
					for _, pw := range []string{":verifpass", ":p1", ":p2"} {
						if strings.Contains(string(dec), pw) { // Contains: a CRLF-speaking helper leaves a CR behind the password
							hasAuth = true
						}
					}
				}
			}
		}
		if strings.HasPrefix(l, "content-length:") {
			clen, _ = strconv.Atoi(strings.TrimSpace(line[15:]))
		}
	}
	if clen > 0 {
		br.Discard(clen)
	}
	s.mu.Lock()
	s.requests++
	if len(s.reqLines) < 40 {
		s.reqLines = append(s.reqLines, fmt.Sprintf("%s auth=%v", first, hasAuth))
	}
	n := s.requests
	send401 := !hasAuth
	if hasAuth {
		s.authorized++
		if s.authed401 > 0 {
			s.authed401--
			send401 = true
		}
	}
	s.mu.Unlock()
	const ct = "Content-Type: application/vnd.git-lfs+json\r\n"
	switch {
	case n > 30:
		body := `{"message":"verif: too many requests"}`
		fmt.Fprintf(c, "HTTP/1.1 500 Internal Server Error\r\n%sContent-Length: %d\r\nConnection: close\r\n\r\n%s", ct, len(body), body)
	case send401:
		body := `{"message":"verif: credentials needed"}`
		c.Write([]byte("HTTP/1.1 401 Unauthorized\r\n"))
		c.Write(s.block)
		fmt.Fprintf(c, "%sContent-Length: %d\r\nConnection: close\r\n\r\n%s", ct, len(body), body)
	case s.ok200 != nil:
		c.Write(s.ok200(first))
	default:
		body := `{"locks":[]}`
		fmt.Fprintf(c, "HTTP/1.1 200 OK\r\n%sContent-Length: %d\r\nConnection: close\r\n\r\n%s", ct, len(body), body)
	}
}

// parseHeaderBlock: the driver's own reading of the raw bytes it sent (RFC 7230 §3.2: lines end at LF,
// an optional CR before it is dropped, obs-fold continues the previous value with one SP, OWS trimmed).
// Returns the values of (WWW|Lfs)-Authenticate fields.
func parseHeaderBlock(block []byte) []string {
	trim := func(s string) string { return strings.Trim(s, " \t") }
	type fld struct{ name, val string }
	var flds []fld
	for _, line := range strings.Split(string(block), "\n") {
		line = strings.TrimSuffix(line, "\r")
		if line == "" {
			continue
		}
		if (line[0] == ' ' || line[0] == '\t') && len(flds) > 0 {
			// obs-fold: joined with one SP; OWS around the whole value is not part of it
			flds[len(flds)-1].val = trim(flds[len(flds)-1].val + " " + trim(line))
			continue
		}
		i := strings.IndexByte(line, ':')
		if i < 0 {
			continue
		}
		flds = append(flds, fld{strings.ToLower(line[:i]), trim(line[i+1:])})
	}
	var out []string
	for _, f := range flds {
		if f.name == "www-authenticate" || f.name == "lfs-authenticate" {
			out = append(out, f.val)
		}
	}
	return out
}

func splitLines(b []byte) (lines []string, terminated bool) {
	s := string(b)
	if s == "" {
		return nil, true
	}
	terminated = strings.HasSuffix(s, "\n")
	s = strings.TrimSuffix(s, "\n")
	return strings.Split(s, "\n"), terminated
}

var singleKeys = []string{"protocol", "host", "path", "username", "password"}

type e2eShared struct {
	shimDir string
	run     *evid.Run
	mu      sync.Mutex
	seen    map[string]int

	summaries []map[string]any
	sampled   int
}

func lastLine(b []byte) string {
	ls := strings.Split(strings.TrimSpace(string(b)), "\n")
	l := ls[len(ls)-1]
	if len(l) > 240 {
		l = l[:240]
	}
	return l
}

// viol reports one witness per signature (the others are counted).
func (sh *e2eShared) viol(sig evid.Sig, what string, detail any) {
	sh.mu.Lock()
	if sh.seen == nil {
		sh.seen = map[string]int{}
	}
	sh.seen[sig.String()]++
	first := sh.seen[sig.String()] == 1
	sh.mu.Unlock()
	sh.run.Count("e2e_violating_cases", 1)
	if first {
		sh.run.Violation(sig, what, detail)
	}
}

func runCaseE(sh *e2eShared, c *caseE) {
	run := sh.run
	var block []byte
	for _, h := range c.Headers {
		block = append(block, []byte(h.Name+": "+h.Value+"\r\n")...)
	}
	authed401 := 0
	if c.Mode == "answer" {
		authed401 = 1
	}
	srv, err := startRawServer(block, authed401)
	if err != nil {
		run.Inconclusive("cannot listen: " + err.Error())
		return
	}
	defer srv.ln.Close()
	port := srv.port()

	env := sbx.New()
	defer env.Cleanup()
	env.Timeout = 3 * time.Minute
	logdir := env.Dir("c17log")
	answers := env.Dir("c17answers")
	if c.Mode == "answer" {
		os.WriteFile(filepath.Join(answers, "fill.0"), []byte(c.Fill0), 0o644)
		os.WriteFile(filepath.Join(answers, "fill.1"), []byte("username=stage\npassword=p2\n"), 0o644)
	}
	env.Extra = append(env.Extra,
		"PATH="+sh.shimDir+":"+sbx.BinDir+":/usr/local/bin:/usr/bin:/bin",
		"VERIF_C17_LOG="+logdir, "VERIF_C17_MODE="+c.Mode, "VERIF_C17_ANSWERS="+answers)
	repo := env.InitRepo("repo")
	rurl := strings.Replace(c.URL, "%PORT%", strconv.Itoa(port), 1)
	if c.LfsURL {
		env.MustGit(repo, "config", "remote.origin.url", "http://localhost:"+strconv.Itoa(port)+"/elsewhere/repo.git")
		env.MustGit(repo, "config", "lfs.url", rurl+"/info/lfs")
	} else {
		env.MustGit(repo, "config", "remote.origin.url", rurl)
	}
	env.MustGit(repo, "config", "remote.origin.fetch", "+refs/heads/*:refs/remotes/origin/*")
	env.MustGit(repo, "config", "credential.helper", filepath.Join(sh.shimDir, "git-credential-verifc17"))
	env.MustGit(repo, "config", "credential.useHttpPath", "true")
	if c.Protect != "unset" {
		env.MustGit(repo, "config", "credential.protectProtocol", c.Protect)
	}
	// nothing recorded by the set-up (it uses the real git directly)
	res := env.Run(sbx.RunOpt{Dir: repo}, "git-lfs", "locks")
	run.Count("e2e_runs", 1)
	all, err := readRecords(logdir, false)
	if err != nil {
		run.Inconclusive("cannot read shim log: " + err.Error())
		return
	}
	var recs, helperRecs []record
	for _, r := range all {
		if r.Kind == "git" {
			recs = append(recs, r)
		} else {
			helperRecs = append(helperRecs, r)
		}
	}
	srv.mu.Lock()
	nreq, nauth, reqLines := srv.requests, srv.authorized, append([]string{}, srv.reqLines...)
	srv.mu.Unlock()
	run.Count("e2e_http_requests", int64(nreq))
	run.Count("e2e_http_requests_authorized", int64(nauth))
	run.Count("e2e_git_credential_records", int64(len(recs)))
	run.Count("e2e_helper_records", int64(len(helperRecs)))
	summary := map[string]any{"class": c.class(), "url": rurl, "headers_quoted": strconv.Quote(string(block)), "git_lfs_exit": res.Code, "credential_ops": opsOf(recs), "http_requests": nreq}
	run.Case(c.class(), summary)
	sh.mu.Lock()
	if len(sh.summaries) < 120 {
		summary["stderr_tail"] = lastLine(res.Stderr)
		sh.summaries = append(sh.summaries, summary)
	}
	if sh.sampled < 3 && len(recs) > 0 {
		sh.sampled++
		run.Sample(map[string]any{"class": c.class(), "url": rurl, "first_git_credential_stdin_quoted": strconv.Quote(sbxTrunc(string(recs[0].Stdin)))})
	}
	sh.mu.Unlock()

	protect := c.Protect != "false"
	detail := func() map[string]any {
		d := map[string]any{"class": c.class(), "idx": c.Idx, "remote_url": rurl, "header_block_quoted": strconv.Quote(string(block)), "protect": c.Protect, "mode": c.Mode,
			"git_lfs_exit": res.Code, "git_lfs_stderr": sbx.Trunc(res.Stderr, 2000), "http": reqLines, "fill0_quoted": strconv.Quote(c.Fill0),
			"repro": fmt.Sprintf("git init r && cd r && git config remote.origin.url '%s' && git config credential.useHttpPath true && git config credential.helper <recording helper> && git lfs locks   # server: 401 + header block above, 200 once Authorization is present; `git` shim first on PATH records `git credential` stdin", rurl)}
		var rs []map[string]any
		for _, r := range recs {
			rs = append(rs, map[string]any{"argv": r.Argv, "stdin_quoted": strconv.Quote(sbxTrunc(string(r.Stdin))), "stdout_quoted": strconv.Quote(sbxTrunc(string(r.Stdout))), "exit": r.Exit})
		}
		d["git_credential_records"] = rs
		return d
	}
	if res.TimedOut {
		run.Inconclusive(fmt.Sprintf("e2e case %d (%s): watchdog fired", c.Idx, c.class()))
		return
	}
	if res.GoCrash() {
		sh.viol(evid.Sig{Symptom: "go-panic", Trigger: c.trigger()}, "git-lfs crashed: "+sbx.Trunc(res.Stderr, 300), detail())
		return
	}

	// what can legitimately appear
	hostport := "127.0.0.1:" + strconv.Itoa(port)
	allowed := map[string]bool{"capability[]=authtype": true, "capability[]=state": true, "protocol=http": true}
	if c.Loc != "url-host" {
		allowed["host="+hostport] = true
	} else {
		// raw authority text and its percent-decoding; an LF inside can never match a single line
		au := rurl[len("http://"):]
		au = au[:strings.IndexByte(au, '/')]
		if i := strings.LastIndexByte(au, '@'); i >= 0 {
			au = au[i+1:]
		}
		allowed["host="+au] = true
		allowed["host="+pctDecode(au)] = true
	}
	if c.UserDec != "" {
		allowed["username="+c.UserDec] = true
	}
	allowed["path="+c.PathDec] = true
	for _, v := range parseHeaderBlock(block) {
		allowed["wwwauth[]="+v] = true
	}
	if c.Mode == "answer" {
		ls, _ := splitLines([]byte(c.Fill0))
		for _, l := range ls {
			if strings.HasPrefix(l, "state[]=") {
				allowed[l] = true
			}
		}
	}
	fillOut := map[string]bool{}
	for _, r := range recs {
		if r.Op == "fill" {
			ls, _ := splitLines(r.Stdout)
			for _, l := range ls {
				fillOut[l] = true
			}
		}
	}

	bad := false
	for _, r := range recs {
		run.Count("e2e_bytes_compared", int64(len(r.Stdin)))
		run.Count("e2e_op_"+r.Op, 1)
		if strings.Contains(string(r.Stdin), "\x00") {
			sh.viol(evid.Sig{Symptom: "e2e-forbidden-byte-in-stdin", Trigger: c.trigger()}, fmt.Sprintf("NUL byte in the stdin of git credential %s", r.Op), detail())
			bad = true
			break
		}
		if protect && strings.Contains(string(r.Stdin), "\r") {
			sh.viol(evid.Sig{Symptom: "e2e-forbidden-byte-in-stdin", Trigger: c.trigger()}, fmt.Sprintf("CR byte in the stdin of git credential %s while protection is on", r.Op), detail())
			bad = true
			break
		}
		lines, term := splitLines(r.Stdin)
		if !term {
			sh.viol(evid.Sig{Symptom: "e2e-unterminated-line", Trigger: c.trigger()}, "stdin of git credential "+r.Op+" does not end with LF", detail())
			bad = true
			break
		}
		if n := len(lines); n > 0 && lines[n-1] == "" {
			lines = lines[:n-1]
		}
		seen := map[string]int{}
		for _, l := range lines {
			run.Count("e2e_lines_checked", 1)
			ok := allowed[l] || (r.Op != "fill" && fillOut[l])
			if v, isw := strings.CutPrefix(l, "wwwauth[]="); !ok && isw {
				// optional whitespace around a (folded) field value is not part of the value (RFC 7230); either form is derivable
				ok = allowed["wwwauth[]="+strings.Trim(v, " \t")]
			}
			if !ok {
				sh.viol(evid.Sig{Symptom: "e2e-underivable-line", Trigger: c.trigger()}, fmt.Sprintf("git credential %s received line %s, which is not one key=value pair derivable from the URL, the WWW-Authenticate headers or the helper's answer", r.Op, strconv.Quote(sbxTrunc(l))), detail())
				bad = true
				break
			}
			if i := strings.IndexByte(l, '='); i > 0 {
				seen[l[:i]]++
			}
		}
		if bad {
			break
		}
		for _, k := range singleKeys {
			if seen[k] > 1 {
				sh.viol(evid.Sig{Symptom: "e2e-duplicate-key", Trigger: c.trigger()}, fmt.Sprintf("key %s sent %d times to git credential %s", k, seen[k], r.Op), detail())
				bad = true
			}
		}
		if bad {
			break
		}
	}
	if bad {
		return
	}
	// refusal clause on what the URL decodes to
	if c.Loc == "url-user" || c.Loc == "url-path" {
		refuse, why := mustRefuse([]kv{{"username", []string{c.UserDec}}, {"path", []string{c.PathDec}}}, protect)
		if refuse {
			if len(recs) != 0 {
				sh.viol(evid.Sig{Symptom: "e2e-exchange-not-refused", Trigger: c.trigger()}, "git credential "+strings.Join(opsOf(recs), ",")+" took place although the URL's "+why, detail())
				return
			}
			if res.Code == 0 {
				sh.viol(evid.Sig{Symptom: "e2e-refusal-without-error", Trigger: c.trigger()}, "git lfs locks succeeded although the URL's "+why, detail())
				return
			}
			run.Count("e2e_refusals_observed", 1)
		} else {
			nfill := 0
			for _, r := range recs {
				if r.Op == "fill" {
					nfill++
				}
			}
			if nfill == 0 {
				sh.viol(evid.Sig{Symptom: "e2e-exchange-missing", Trigger: c.trigger()}, "no git credential fill although no value contains a forbidden byte", detail())
				return
			}
			run.Count("e2e_passthrough_observed", 1)
		}
	}
	if len(recs) == 0 {
		run.Count("e2e_runs_without_exchange", 1)
	}
}

func opsOf(recs []record) []string {
	var o []string
	for _, r := range recs {
		o = append(o, r.Op)
	}
	return o
}

// pctDecode: the driver's own percent-decoder (bytes; malformed escapes stay literal).
func pctDecode(s string) string {
	var b strings.Builder
	for i := 0; i < len(s); i++ {
		if s[i] == '%' && i+2 < len(s) {
			if v, err := strconv.ParseUint(s[i+1:i+3], 16, 8); err == nil {
				b.WriteByte(byte(v))
				i += 2
				continue
			}
		}
		b.WriteByte(s[i])
	}
	return b.String()
}
