package main

// Part A — in-process volume part. Runs inside worker processes (one per CPU)
// so that every worker has its own shim log directory and exchanges are
// attributed exactly: a worker runs its cases sequentially and inspects the
// log directory after every call.

import (
	"encoding/json"
	"fmt"
	"net/url"
	"os"
	"sort"
	"strconv"
	"strings"

	"github.com/git-lfs/git-lfs/v3/config"
	"github.com/git-lfs/git-lfs/v3/creds"
)

type violA struct {
	Symptom string         `json:"symptom"`
	Trigger string         `json:"trigger"`
	What    string         `json:"what"`
	Detail  map[string]any `json:"detail"`
}

type workerOut struct {
	Classes  map[string]int    `json:"classes"`
	Samples  map[string]any    `json:"samples"`
	Counters map[string]int64  `json:"counters"`
	Viols    []violA           `json:"viols"`
	Inconcl  []string          `json:"inconclusive"`
	Done     bool              `json:"done"`
	Notes    map[string]string `json:"notes"`
	perSig   map[string]int
}

// admit: at most two witnesses per signature and worker, so that a frequently reproduced (known) finding
// can never crowd out a different one.
func (o *workerOut) admit(sym, trigger string) bool {
	if o.perSig == nil {
		o.perSig = map[string]int{}
	}
	o.Counters["a_violating_calls"]++
	o.perSig[sym+"/"+trigger]++
	return o.perSig[sym+"/"+trigger] <= 2 && len(o.Viols) < 2000
}

func quotePairs(pairs []kv) []string {
	var out []string
	for _, p := range truncPairs(pairs) {
		for _, v := range p.V {
			out = append(out, p.K+"="+strconv.Quote(v))
		}
	}
	return out
}

// expectedLines: preamble documented by creds.go (capability[]=authtype, capability[]=state)
// plus one key=value line per supplied pair.
func expectedLines(pairs []kv) []string {
	exp := []string{"capability[]=authtype", "capability[]=state"}
	for _, p := range pairs {
		for _, v := range p.V {
			exp = append(exp, p.K+"="+v)
		}
	}
	return exp
}

// compareStdin: weakest reading — multiset equality of LF-terminated lines (any order);
// one optional terminating blank line is tolerated; nothing else.
func compareStdin(stdin []byte, exp []string) string {
	s := string(stdin)
	if len(s) == 0 {
		return "stdin is empty"
	}
	if !strings.HasSuffix(s, "\n") {
		return "stdin does not end with LF (last line unterminated)"
	}
	got := strings.Split(s[:len(s)-1], "\n")
	if len(got) == len(exp)+1 && got[len(got)-1] == "" {
		got = got[:len(got)-1] // terminating blank line
	}
	if len(got) != len(exp) {
		return fmt.Sprintf("stdin has %d lines, %d pairs (incl. 2 capability lines) were supplied", len(got), len(exp))
	}
	g := append([]string{}, got...)
	e := append([]string{}, exp...)
	sort.Strings(g)
	sort.Strings(e)
	for i := range g {
		if g[i] != e[i] {
			return fmt.Sprintf("line %s is not a supplied pair (expected e.g. %s)", strconv.Quote(sbxTrunc(g[i])), strconv.Quote(sbxTrunc(e[i])))
		}
	}
	return ""
}

func sbxTrunc(s string) string {
	if len(s) > 300 {
		return s[:150] + "…" + s[len(s)-150:]
	}
	return s
}

type callResult struct {
	err      error
	panicVal any
	filled   creds.Creds
}

// runExchange drives the real code. direct: CredentialHelpers{netrc(no file), [cache], command}.Fill/Approve/Reject(map);
// context: URL + WWW-Authenticate headers + state through GetCredentialHelper(nil,u) and FillCreds.
func runExchange(c *caseA) (res callResult) {
	defer func() {
		if x := recover(); x != nil {
			res.panicVal = x
		}
	}()
	cfg := protectConfig(c.Protect)
	if c.CacheOff {
		cfg["lfs.cachecredentials"] = []string{"false"}
	}
	osEnv := config.EnvironmentOf(config.MapFetcher(map[string][]string{})) // no HOME: no netrc; no askpass
	if c.Family == "direct" {
		gitEnv := config.EnvironmentOf(config.MapFetcher(cfg))
		ctx := creds.NewCredentialHelperContext(gitEnv, osEnv)
		u, _ := url.Parse(directURL)
		h := ctx.GetCredentialHelper(nil, u).CredentialHelper
		m := creds.Creds{}
		for _, p := range c.Pairs {
			m[p.K] = append([]string{}, p.V...)
		}
		switch c.Op {
		case "fill":
			res.filled, res.err = h.Fill(m)
		case "approve":
			res.err = h.Approve(m)
		default:
			res.err = h.Reject(m)
		}
		return
	}
	u := &url.URL{}
	var www, state []string
	for _, p := range c.Pairs {
		switch p.K {
		case "protocol":
			u.Scheme = p.V[0]
		case "host":
			u.Host = p.V[0]
		case "username":
			u.User = url.User(p.V[0])
		case "path":
			u.Path = "/" + p.V[0]
		case "wwwauth[]":
			www = p.V
		case "state[]":
			state = p.V
		}
	}
	if c.UsePath {
		cfg["credential.usehttppath"] = []string{"true"}
	}
	gitEnv := config.EnvironmentOf(config.MapFetcher(cfg))
	ctx := creds.NewCredentialHelperContext(gitEnv, osEnv)
	ctx.SetWWWAuthHeaders(www)
	ctx.SetStateFields(state)
	w := ctx.GetCredentialHelper(nil, u)
	res.err = w.FillCreds()
	res.filled = w.Creds
	return
}

func workerMain(args []string) {
	// args: w W seed nPass nRefuse logdir outfile nSeq nAsk
	if len(args) != 9 {
		fmt.Fprintln(os.Stderr, "bad worker args")
		os.Exit(2)
	}
	atoi := func(s string) int { n, _ := strconv.Atoi(s); return n }
	w, W, nPass, nRefuse := atoi(args[0]), atoi(args[1]), atoi(args[3]), atoi(args[4])
	seed, _ := strconv.ParseInt(args[2], 10, 64)
	logdir, outfile := args[5], args[6]
	nSeq, nAsk := atoi(args[7]), atoi(args[8])
	if cwd, _ := os.Getwd(); strings.HasPrefix(cwd, "/verif") || strings.HasPrefix(cwd, "/repo") {
		fmt.Fprintln(os.Stderr, "worker must not run inside /verif or /repo")
		os.Exit(2)
	}
	out := &workerOut{Classes: map[string]int{}, Samples: map[string]any{}, Counters: map[string]int64{}, Notes: map[string]string{}}
	flush := func() {
		b, _ := json.Marshal(out)
		os.WriteFile(outfile+".tmp", b, 0o644)
		os.Rename(outfile+".tmp", outfile)
	}
	addViol := func(c *caseA, sym, what string, recs []record, res callResult) {
		if !out.admit(sym, c.trigger()) {
			return
		}
		d := map[string]any{"case": c.class(), "idx": c.Idx, "op": c.Op, "family": c.Family, "protect": c.Protect, "pairs_quoted": quotePairs(c.Pairs), "error_returned": fmt.Sprint(res.err)}
		var rs []map[string]any
		for _, r := range recs {
			rs = append(rs, map[string]any{"argv": r.Argv, "stdin_quoted": strconv.Quote(sbxTrunc(string(r.Stdin)))})
		}
		d["recorded"] = rs
		out.Viols = append(out.Viols, violA{sym, c.trigger(), what, d})
	}
	if recs, err := readRecords(logdir, true); err != nil || len(recs) != 0 {
		fmt.Fprintln(os.Stderr, "log directory not empty/readable at start", err)
		os.Exit(2)
	}
	total := nPass + nRefuse
	for idx := w; idx < total; idx += W {
		c := genCaseA(seed, idx, nPass)
		if c.Family == "context" {
			for i, p := range c.Pairs {
				if p.K == "protocol" && p.V[0] == "cert" { // scheme cert forces a path entry; keep the mapping simple
					c.Pairs[i].V[0] = "https"
				}
			}
		}
		class := c.class()
		out.Classes[class]++
		if _, ok := out.Samples[class]; !ok && len(out.Samples) < 3 {
			out.Samples[class] = map[string]any{"class": class, "pairs": quotePairs(c.Pairs)}
		}
		refuse, why := mustRefuse(c.Pairs, protectOn(c.Protect))
		if refuse != (c.Kind == "refuse") {
			out.Inconcl = append(out.Inconcl, fmt.Sprintf("generator bug: case %d kind %s but refusal clause says %v", idx, c.Kind, refuse))
			continue
		}
		res := runExchange(c)
		recs, err := readRecords(logdir, true)
		if err != nil {
			out.Inconcl = append(out.Inconcl, "cannot read shim log: "+err.Error())
			continue
		}
		out.Counters["a_calls_"+c.Op]++
		if res.panicVal != nil {
			addViol(c, "go-panic", fmt.Sprintf("panic in creds: %v", res.panicVal), recs, res)
			continue
		}
		if refuse {
			out.Counters["a_refusal_cases"]++
			if len(recs) != 0 {
				out.Counters["a_exchanges_recorded"] += int64(len(recs))
				addViol(c, "exchange-not-refused", fmt.Sprintf("`git credential %s` was started although %s", c.Op, why), recs, res)
				continue
			}
			if res.err == nil {
				addViol(c, "refusal-without-error", fmt.Sprintf("%s returned no error although %s", c.Op, why), recs, res)
				continue
			}
			out.Counters["a_refusals_observed"]++
			continue
		}
		out.Counters["a_passthrough_cases"]++
		out.Counters["a_exchanges_recorded"] += int64(len(recs))
		if len(recs) == 0 {
			addViol(c, "exchange-missing", fmt.Sprintf("no `git credential %s` took place for a map without LF/NUL%s; error: %v", c.Op, map[bool]string{true: "/CR", false: " (CR allowed: protection off)"}[protectOn(c.Protect)], res.err), recs, res)
			continue
		}
		if len(recs) > 1 {
			addViol(c, "multiple-exchanges", fmt.Sprintf("%d git credential processes for one %s", len(recs), c.Op), recs, res)
			continue
		}
		r := recs[0]
		if len(r.Argv) != 2 || r.Argv[0] != "credential" || r.Argv[1] != c.Op {
			addViol(c, "argv-mismatch", fmt.Sprintf("argv %q for %s", r.Argv, c.Op), recs, res)
			continue
		}
		exp := expectedLines(c.Pairs)
		out.Counters["a_bytes_compared"] += int64(len(r.Stdin))
		out.Counters["a_lines_compared"] += int64(len(exp))
		if msg := compareStdin(r.Stdin, exp); msg != "" {
			addViol(c, "stdin-mismatch", msg, recs, res)
			continue
		}
		if res.err != nil {
			out.Counters["a_passthrough_call_errors"]++ // not judged by the property
			if _, ok := out.Notes["call_error"]; !ok {
				out.Notes["call_error"] = class + ": " + res.err.Error()
			}
		}
		if c.Op == "fill" && res.err == nil {
			// not judged: the shim echoes its input; count how often the echo came back intact
			ok := res.filled != nil
			for _, p := range c.Pairs {
				if !ok {
					break
				}
				var nonEmpty []string
				for _, v := range p.V {
					if v != "" {
						nonEmpty = append(nonEmpty, v)
					}
				}
				got := res.filled[p.K]
				if p.K == "capability[]" {
					continue
				}
				if strings.Join(got, "\x00") != strings.Join(nonEmpty, "\x00") {
					ok = false
				}
			}
			if ok {
				out.Counters["a_fill_echo_roundtrips"]++
			} else {
				out.Counters["a_fill_echo_differs_not_judged"]++
			}
		}
		if idx%512 == w {
			flush()
		}
	}
	flush()
	runSeqCases(out, seed, w, W, nSeq, logdir)
	flush()
	runAskCases(out, seed, w, W, nAsk, logdir)
	// nothing may arrive late
	if recs, _ := readRecords(logdir, true); len(recs) != 0 {
		out.Viols = append(out.Viols, violA{"stray-exchange", "unattributed", fmt.Sprintf("%d git credential records appeared after their call had returned", len(recs)), map[string]any{"argv": recs[0].Argv, "stdin_quoted": strconv.Quote(sbxTrunc(string(recs[0].Stdin)))}})
	}
	out.Done = true
	flush()
}
