package main

// Part A, askpass family: an askpass program (GIT_ASKPASS | core.askpass | SSH_ASKPASS | none) is part of the
// CredentialHelperContext while credential.protectProtocol is set at several depths of ONE URL
// (global; scheme://host; scheme://host/<path prefix>; scheme://host/<full path>) with opposite values at different
// depths, credential.useHttpPath on or off. The protection that must apply to the exchange is the most specific
// matching entry per Git's urlmatch rules (resolveProtect below), whatever credential helpers take part.
//
// How the command helper (`git credential`) is reached although an askpass program is set ("via"):
//   - helper-global|helper-host|helper-path: credential[.<url>].helper is configured, so the askpass helper is left out
//     of the chain (creds.go: GetCredentialHelper);
//   - askpass-fails: no helper configured, the askpass program cannot be run: CredentialHelpers.Fill goes on to the
//     command helper and skips the askpass helper from then on;
//   - askpass-answers: no helper configured, a real script prints a value: Fill/Approve/Reject end at the askpass
//     helper; no exchange is demanded (modelled, never flagged), but one that happens is judged like any other.
//
// Modelled legitimate behaviour: a refused Fill puts the command helper on the wrapper's skip list (as in seq.go).

import (
	"fmt"
	"net/url"
	"os"
	"path/filepath"
	"strconv"
	"strings"

	"github.com/git-lfs/git-lfs/v3/config"
	"github.com/git-lfs/git-lfs/v3/creds"
)

// ---- resolver: which credential.<url>.protectProtocol applies to a URL ----

type scopeEntry struct {
	URL string `json:"url"` // "" = the global credential.protectProtocol
	Val string `json:"val"` // "true" | "false"
}

func splitURL(raw string) (scheme, hostport, path string, ok bool) {
	i := strings.Index(raw, "://")
	if i <= 0 {
		return
	}
	scheme, rest := raw[:i], raw[i+3:]
	if j := strings.IndexByte(rest, '/'); j >= 0 {
		hostport, path = rest[:j], rest[j:]
	} else {
		hostport = rest
	}
	if hostport == "" || strings.ContainsAny(hostport, "@*") {
		return // user parts and wildcards are not generated; an entry that has one is not interpreted here
	}
	if !strings.Contains(hostport, ":") {
		switch scheme {
		case "http":
			hostport += ":80"
		case "https":
			hostport += ":443"
		}
	}
	return scheme, hostport, strings.TrimRight(path, "/"), true
}

// resolveProtect: the most specific matching credential.<url>.protectProtocol per Git's urlmatch rules, for the entry
// forms the generators emit (no user part, no wildcard): scheme and host equal, port equal after default-port
// normalisation, the entry's path equal to the URL's path or a prefix of it ending at a '/' boundary; the longest
// matching path wins; any URL-scoped match beats the global entry; default on. depth = length of the winning path
// (-1 global, -2 default).
func resolveProtect(entries []scopeEntry, rawurl string) (on bool, depth int) {
	on, depth = true, -2
	us, uh, up, ok := splitURL(rawurl)
	for _, e := range entries {
		if e.URL == "" {
			if depth < -1 {
				on, depth = e.Val != "false", -1
			}
			continue
		}
		if !ok {
			continue
		}
		es, eh, ep, eok := splitURL(e.URL)
		if !eok || es != us || eh != uh {
			continue
		}
		if !(ep == "" || up == ep || strings.HasPrefix(up, ep+"/")) {
			continue
		}
		if len(ep) > depth || depth < 0 {
			on, depth = e.Val != "false", len(ep)
		}
	}
	return
}

// ---- generator ----

var askKinds = []string{"none", "GIT_ASKPASS", "core.askpass", "SSH_ASKPASS"}
var askKeys = []string{"username", "password", "path", "wwwauth[]", "state[]"}
var askTokens = []token{{"cr", "\r"}, {"cr", "\r"}, {"cr", "\r"}, {"cr", "\r"}, {"cr", "\r"}, {"cr", "\r"}, {"lf", "\n"}, {"nul", "\x00"}, {"crlf", "\r\n"}, {"tab", "\t"}, {"none", ""}}
var askHosts = []string{"verif.example", "127.0.0.1:8080", "git.verif.example:8443"}

// depth indices of a scope shape
const (
	dGlobal = iota
	dHost
	dPrefix
	dFull
)

var depthNames = []string{"global", "host", "prefix", "full"}

// scope shapes: winner depth and value, next broader depth that is set (opposite value) or -1 for none.
type scopeShape struct {
	Win     int // -1: nothing set at all
	On      bool
	Broader int // -1: nothing broader is set (the default, on, is what would apply without the winner)
}

func (s scopeShape) name() string {
	if s.Win < 0 {
		return "default"
	}
	n := depthNames[s.Win] + ":" + onoff(s.On)
	if s.Broader >= 0 {
		return n + ">" + depthNames[s.Broader] + ":" + onoff(!s.On)
	}
	if s.Win == dGlobal {
		return n
	}
	return n + ">default"
}

// trig: the scope part of a signature, e.g. path-scoped-on-host-off
func (s scopeShape) trig() string {
	if s.Win < 0 {
		return "default"
	}
	w := []string{"global", "host-scoped", "path-scoped", "path-scoped"}[s.Win] + "-" + onoff(s.On)
	if s.Broader >= 0 {
		return w + "-" + depthNames[s.Broader] + "-" + onoff(!s.On)
	}
	if s.Win == dGlobal {
		return w
	}
	return w + "-default"
}

var scopeShapes = func() []scopeShape {
	out := []scopeShape{{Win: -1, Broader: -1}}
	for win := dGlobal; win <= dFull; win++ {
		for _, on := range []bool{true, false} {
			for br := -1; br < win; br++ {
				if br == -1 && on && win != dGlobal {
					continue // a scoped "true" over the default "true": nothing opposite; covered by global:on
				}
				out = append(out, scopeShape{win, on, br})
			}
		}
	}
	return out
}()

type caseAsk struct {
	Idx      int          `json:"idx"`
	Kind     string       `json:"askpass"`
	Via      string       `json:"via"`
	UsePath  bool         `json:"usehttppath"`
	CacheOff bool         `json:"cache_off"`
	Host     string       `json:"host"`
	Path     string       `json:"path"` // decoded URL path without the leading slash (token included when Key is path)
	Shape    scopeShape   `json:"-"`
	Entries  []scopeEntry `json:"entries"` // every credential[.<url>].protectProtocol entry (incl. distractors)
	Key      string       `json:"key"`
	Tok      string       `json:"tok"`
	Pos      string       `json:"pos"`
	Ops      []seqOp      `json:"ops"`
	CleanURL string       `json:"clean_url"` // the URL named by the deepest ("full") entry; a token in the path goes into one more element behind it
	WinURL   string       `json:"deciding_entry"`
}

func boolStr(b bool) string {
	if b {
		return "true"
	}
	return "false"
}

func genCaseAsk(seed int64, idx int) *caseAsk {
	r := caseRand(seed, 20_000_000+idx)
	c := &caseAsk{Idx: idx, CacheOff: r.Intn(2) == 0}
	j := idx
	c.Kind = askKinds[j%len(askKinds)]
	j /= len(askKinds)
	c.UsePath = j%2 == 0
	j /= 2
	c.Shape = scopeShapes[j%len(scopeShapes)]
	j /= len(scopeShapes)
	c.Key = askKeys[j%len(askKeys)]
	t := askTokens[r.Intn(len(askTokens))]
	c.Tok, c.Pos = t.Name, positions[r.Intn(4)]
	if c.Kind == "none" {
		c.Via = []string{"helper-global", "no-helper"}[r.Intn(2)]
	} else {
		c.Via = []string{"helper-global", "helper-global", "helper-global", "helper-host", "helper-path", "helper-path", "askpass-fails", "askpass-fails", "askpass-fails", "askpass-answers"}[r.Intn(10)]
	}
	c.Host = askHosts[r.Intn(len(askHosts))]
	seg1, seg2 := "s"+randAlnum(r, 2, 6), "t"+randAlnum(r, 0, 5)
	clean := seg1 + "/" + seg2 + "/repo" + strconv.Itoa(r.Intn(10)) + ".git"
	base := "http://" + c.Host
	c.CleanURL = base + "/" + clean
	prefix := base + "/" + seg1
	if r.Intn(3) == 0 {
		prefix += "/" + seg2
	}
	urls := []string{"", base, prefix, c.CleanURL}
	if c.Shape.Win >= 0 {
		c.WinURL = urls[c.Shape.Win]
	}

	// the entries of the shape: winner, the next broader one with the opposite value, anything broader than that random
	if s := c.Shape; s.Win >= 0 {
		c.Entries = append(c.Entries, scopeEntry{urls[s.Win], boolStr(s.On)})
		if s.Broader >= 0 {
			c.Entries = append(c.Entries, scopeEntry{urls[s.Broader], boolStr(!s.On)})
			for d := s.Broader - 1; d >= 0; d-- {
				if r.Intn(3) == 0 {
					c.Entries = append(c.Entries, scopeEntry{urls[d], boolStr(r.Intn(2) == 0)})
				}
			}
		}
	}
	// distractors that match nothing: other host, other port, other scheme, a sibling path, a prefix that does not end at
	// a '/' boundary, a path longer than the URL's
	ds := []string{"http://other.example", "http://" + c.Host + "9", "https://" + c.Host, base + "/" + seg1 + "x", base + "/" + seg1[:len(seg1)-1], c.CleanURL + "/extra", base + "/" + seg2}
	for n := r.Intn(3); n > 0; n-- {
		d := ds[r.Intn(len(ds))]
		dup := false
		for _, e := range c.Entries {
			if e.URL == d {
				dup = true
			}
		}
		if !dup {
			c.Entries = append(c.Entries, scopeEntry{d, boolStr(r.Intn(2) == 0)})
		}
	}
	r.Shuffle(len(c.Entries), func(a, b int) { c.Entries[a], c.Entries[b] = c.Entries[b], c.Entries[a] })

	// the values
	c.Path = clean
	if c.Key == "path" && c.Tok != "none" {
		// in one more element behind the deepest entry's path, so that every entry names clean elements (the key of an
		// entry with a control byte in it is a coordinate of its own)
		c.Path = clean + "/" + place(r, "info", t.S, c.Pos)
	}
	pairs := []kv{{"protocol", []string{"http"}}, {"host", []string{c.Host}}}
	for _, k := range []string{"username", "path", "wwwauth[]", "state[]"} {
		if k == "path" {
			if c.UsePath {
				pairs = append(pairs, kv{k, []string{c.Path}})
			}
			continue
		}
		if k != c.Key && r.Intn(2) == 0 {
			continue
		}
		nv := 1
		if isMulti(k) {
			nv = 1 + r.Intn(3)
		}
		vals := make([]string, nv)
		for i := range vals {
			vals[i] = baseValue(r, k)
		}
		if k == c.Key && c.Tok != "none" {
			e := r.Intn(nv)
			vals[e] = place(r, vals[e], t.S, c.Pos)
		}
		pairs = append(pairs, kv{k, vals})
	}
	c.Ops = []seqOp{{"fill", pairs}}
	if c.Key == "password" || r.Intn(3) == 0 {
		// lfsapi approves/rejects what it filled, on the same wrapper
		pw := "verifpass"
		if c.Key == "password" && c.Tok != "none" {
			pw = place(r, baseValue(r, "password"), t.S, c.Pos)
		}
		fp := append(append([]kv{}, pairs...), kv{"password", []string{pw}})
		if firstOf(fp, "username") == "" {
			fp = append(fp, kv{"username", []string{"verifuser"}})
		}
		c.Ops = append(c.Ops, seqOp{[]string{"approve", "reject"}[r.Intn(2)], fp})
	}
	return c
}

func (c *caseAsk) url() string { return "http://" + c.Host + "/" + c.Path }

// config: the Git configuration of the case (keys as Git reports them) and the OS environment.
func (c *caseAsk) config(failProg, realProg string) (git, osenv map[string][]string) {
	git, osenv = map[string][]string{}, map[string][]string{}
	for _, e := range c.Entries {
		if e.URL == "" {
			git["credential.protectprotocol"] = []string{e.Val}
		} else {
			git["credential."+e.URL+".protectprotocol"] = []string{e.Val}
		}
	}
	if c.UsePath {
		git["credential.usehttppath"] = []string{"true"}
	}
	if c.CacheOff {
		git["lfs.cachecredentials"] = []string{"false"}
	}
	base := "http://" + c.Host
	switch c.Via {
	case "helper-global":
		git["credential.helper"] = []string{"verifc17"}
	case "helper-host":
		git["credential."+base+".helper"] = []string{"verifc17"}
	case "helper-path":
		git["credential."+base+"/"+strings.SplitN(c.Path, "/", 2)[0]+".helper"] = []string{"verifc17"}
	}
	prog := failProg
	if c.Via == "askpass-answers" {
		prog = realProg
	}
	switch c.Kind {
	case "GIT_ASKPASS", "SSH_ASKPASS":
		osenv[c.Kind] = []string{prog}
	case "core.askpass":
		git["core.askpass"] = []string{prog}
	}
	return
}

func runAskCases(out *workerOut, seed int64, w, W, nAsk int, logdir string) {
	if nAsk == 0 {
		return
	}
	root := filepath.Dir(logdir)
	realProg := filepath.Join(root, "askpass-answers.sh")
	askLog := filepath.Join(root, "askpass.log")
	failProg := filepath.Join(root, "no-such-askpass-program")
	if err := os.WriteFile(realProg, []byte("#!/bin/sh\necho x >>'"+askLog+"'\necho verifaskpass\n"), 0o755); err != nil {
		out.Inconcl = append(out.Inconcl, "cannot write the askpass script: "+err.Error())
		return
	}
	for idx := w; idx < nAsk; idx += W {
		c := genCaseAsk(seed, idx)
		protect, depth := resolveProtect(c.Entries, c.url())
		// the generator's intent and the resolver must agree (two derivations of the expected setting)
		wantOn, wantDepth := true, -2
		switch {
		case c.Shape.Win == dGlobal:
			wantOn, wantDepth = c.Shape.On, -1
		case c.Shape.Win > dGlobal:
			_, _, p, _ := splitURL(c.WinURL)
			wantOn, wantDepth = c.Shape.On, len(p)
		}
		if protect != wantOn || depth != wantDepth {
			out.Inconcl = append(out.Inconcl, fmt.Sprintf("generator bug: askpass case %d shape %s: resolver says %v at depth %d, intended %v at %d", idx, c.Shape.name(), protect, depth, wantOn, wantDepth))
			continue
		}
		// what applies when every URL-scoped entry is lost (the recorded finding for control bytes in the URL path)
		globalOn, _ := resolveProtect(c.Entries, "")
		lostScope := c.Key == "path" && c.Tok == "cr" && protect != globalOn

		gitCfg, osCfg := c.config(failProg, realProg)
		ctx := creds.NewCredentialHelperContext(config.EnvironmentOf(config.MapFetcher(gitCfg)), config.EnvironmentOf(config.MapFetcher(osCfg)))
		out.Counters["a_askpass_contexts"]++
		out.Counters["a_askpass_kind_"+c.Kind]++
		out.Counters["a_askpass_via_"+c.Via]++
		out.Counters["a_askpass_scope_"+c.Shape.name()]++
		out.Counters["a_askpass_usehttppath_"+onoff(c.UsePath)]++

		p0 := c.Ops[0].Pairs
		u := &url.URL{Scheme: "http", Host: c.Host, Path: "/" + c.Path}
		if un := firstOf(p0, "username"); un != "" {
			u.User = url.User(un)
		}
		var www, state []string
		for _, p := range p0 {
			if p.K == "wwwauth[]" {
				www = p.V
			}
			if p.K == "state[]" {
				state = p.V
			}
		}
		ctx.SetWWWAuthHeaders(www)
		ctx.SetStateFields(state)
		wr := ctx.GetCredentialHelper(nil, u)

		trigger := "askpass-set/" + c.Shape.trig()
		if c.Kind == "none" {
			trigger = "askpass-none/" + c.Shape.trig()
		}
		if lostScope {
			trigger = "urlscoped-setting-lost-path-cr"
		}
		answers := c.Via == "askpass-answers"
		skipped := false
		for oi, op := range c.Ops {
			class := fmt.Sprintf("A/askpass/%s/%s/usehttppath=%s/%s/%s/%s/%s", c.Kind, c.Via, onoff(c.UsePath), c.Shape.name(), op.Op, keyShort(c.Key), c.Tok)
			if lostScope {
				class += "+ctl-in-url-path,scoped!=global"
			}
			if oi > 0 {
				class += "/followup"
			}
			out.Classes[class]++
			if _, ok := out.Samples[class]; !ok && c.Tok == "cr" && c.Kind != "none" && c.Shape.Win >= dPrefix && len(out.Samples) < 7 {
				out.Samples[class] = map[string]any{"class": class, "url": c.url(), "entries": c.Entries, "pairs": quotePairs(op.Pairs)}
			}
			refuse, why := mustRefuse(op.Pairs, protect)
			mayBeAbsent := skipped || answers
			res := seqDo(&wr, "context", oi == 0, op)
			recs, err := readRecords(logdir, true)
			if err != nil {
				out.Inconcl = append(out.Inconcl, "cannot read shim log: "+err.Error())
				continue
			}
			out.Counters["a_askpass_calls"]++
			viol := func(sym, what string) {
				if !out.admit(sym, trigger) {
					return
				}
				var cfgLines []string
				for k, v := range gitCfg {
					cfgLines = append(cfgLines, k+"="+v[0])
				}
				for k, v := range osCfg {
					cfgLines = append(cfgLines, "env "+k+"="+v[0])
				}
				d := map[string]any{"case": class, "idx": 30_000_000 + c.Idx, "askpass": c.Kind, "via": c.Via, "usehttppath": c.UsePath, "url": c.url(), "config": cfgLines,
					"protection_for_this_url": protect, "deciding_entry_path_length": depth, "op": op.Op, "op_index": oi, "pairs_quoted": quotePairs(op.Pairs), "error_returned": fmt.Sprint(res.err)}
				var rs []map[string]any
				for _, r := range recs {
					rs = append(rs, map[string]any{"argv": r.Argv, "stdin_quoted": strconv.Quote(sbxTrunc(string(r.Stdin)))})
				}
				d["recorded"] = rs
				out.Viols = append(out.Viols, violA{sym, trigger, what, d})
			}
			if res.panicVal != nil {
				viol("go-panic", fmt.Sprintf("panic in creds: %v", res.panicVal))
				continue
			}
			out.Counters["a_exchanges_recorded"] += int64(len(recs))
			scope := fmt.Sprintf("protection for %s: %v (%s), askpass program: %s, useHttpPath: %v", c.url(), protect, c.Shape.name(), c.Kind, c.UsePath)
			if refuse {
				out.Counters["a_askpass_refusal_cases"]++
				if len(recs) != 0 {
					viol("exchange-not-refused", fmt.Sprintf("`git credential %s` was started although %s; %s", op.Op, why, scope))
				} else if mayBeAbsent {
					out.Counters["a_askpass_no_exchange_modelled"]++
				} else if res.err == nil {
					viol("refusal-without-error", fmt.Sprintf("%s returned no error although %s; %s", op.Op, why, scope))
				} else {
					out.Counters["a_askpass_refusals_observed"]++
				}
				if op.Op == "fill" && !mayBeAbsent {
					skipped = true
				}
				continue
			}
			out.Counters["a_askpass_passthrough_cases"]++
			switch {
			case len(recs) == 0 && mayBeAbsent:
				out.Counters["a_askpass_no_exchange_modelled"]++
			case len(recs) == 0:
				viol("exchange-missing", fmt.Sprintf("no `git credential %s` although no value has LF/NUL and %s; %s; error: %v", op.Op, map[bool]string{true: "none has CR", false: "protection is off for this URL (CR allowed)"}[protect], scope, res.err))
			case len(recs) > 1:
				viol("multiple-exchanges", fmt.Sprintf("%d git credential processes for one %s", len(recs), op.Op))
			default:
				r := recs[0]
				if len(r.Argv) != 2 || r.Argv[0] != "credential" || r.Argv[1] != op.Op {
					viol("argv-mismatch", fmt.Sprintf("argv %q for %s", r.Argv, op.Op))
					break
				}
				exp := expectedLines(op.Pairs)
				out.Counters["a_bytes_compared"] += int64(len(r.Stdin))
				out.Counters["a_lines_compared"] += int64(len(exp))
				if msg := compareStdin(r.Stdin, exp); msg != "" {
					viol("stdin-mismatch", msg)
					break
				}
				out.Counters["a_askpass_passthrough_observed"]++
				if strings.Contains(string(r.Stdin), "\r") {
					out.Counters["a_askpass_cr_passed_protection_off"]++
				}
			}
		}
	}
	if b, err := os.ReadFile(askLog); err == nil {
		out.Counters["a_askpass_program_runs"] += int64(strings.Count(string(b), "\n"))
	}
}
