package main

import (
	"fmt"
	"math/rand"
	"strings"
)

// ---- tokens: the byte (sequence) whose treatment a case examines ----

type token struct {
	Name string
	S    string
}

// forbidden by the property statement (cr only while protection is on)
var forbiddenTokens = []token{
	{"lf", "\n"},
	{"nul", "\x00"},
	{"crlf", "\r\n"},
	{"cr", "\r"},
}

// harmless look-alikes: must be passed through byte-exactly
var harmlessTokens = []token{
	{"tab", "\t"},
	{"vt", "\x0b"},
	{"ff", "\x0c"},
	{"del", "\x7f"},
	{"esc", "\x1b"},
	{"bs", "\x08"},
	{"soh", "\x01"},
	{"u2028", "\u2028"},
	{"u2029", "\u2029"},
	{"nel", "\u0085"},
	{"raw85", "\x85"},
	{"rawff", "\xff"},
	{"pct0a", "%0a"},
	{"pct0d", "%0D"},
	{"pct00", "%00"},
	{"bsn", `\n`},
	{"equals", "="},
	{"space", " "},
	{"kvtext", "host=evil.example"},
	{"utf8", "pä漢🔑"},
}

var positions = []string{"start", "middle", "end", "alone"}

// attribute names of the git-credential protocol (gitcredentials / git-credential docs)
var allKeys = []string{"protocol", "host", "path", "username", "password", "wwwauth[]", "state[]", "authtype", "credential", "capability[]",
	"password_expiry_utc", "oauth_refresh_token", "ephemeral", "continue"}

func isMulti(k string) bool { return strings.HasSuffix(k, "[]") }

func keyShort(k string) string { return strings.TrimSuffix(k, "[]") }

// keys that CredentialHelperContext.GetCredentialHelper derives from a URL / server state
var contextKeys = map[string]bool{"protocol": true, "host": true, "path": true, "username": true, "wwwauth[]": true, "state[]": true}

const alnum = "abcdefghijklmnopqrstuvwxyzABCDEFGHIJKLMNOPQRSTUVWXYZ0123456789"

func randAlnum(r *rand.Rand, min, max int) string {
	n := min
	if max > min {
		n += r.Intn(max - min + 1)
	}
	b := make([]byte, n)
	for i := range b {
		b[i] = alnum[r.Intn(len(alnum))]
	}
	return string(b)
}

// baseValue: an unremarkable value (never contains LF, CR, NUL).
func baseValue(r *rand.Rand, key string) string {
	switch key {
	case "protocol":
		return []string{"https", "http", "cert", "ssh"}[r.Intn(4)]
	case "host":
		return []string{"example.com", "git.example.com:8443", "127.0.0.1:8080", "[::1]:99", "xn--bcher-kva.example"}[r.Intn(5)]
	case "path":
		return []string{"org/repo.git", "a/b c/d.git/info/lfs", "r.git"}[r.Intn(3)] + randAlnum(r, 0, 3)
	case "wwwauth[]":
		return []string{`Basic realm="x y"`, `Bearer realm="r", error="invalid_token"`, `Negotiate`, `Digest qop="auth", nonce="` + randAlnum(r, 8, 8) + `"`}[r.Intn(4)]
	case "password_expiry_utc":
		return fmt.Sprint(1700000000 + r.Intn(100000))
	case "ephemeral", "continue":
		return []string{"1", "0", "true"}[r.Intn(3)]
	case "authtype":
		return []string{"Bearer", "Basic", "Multistage"}[r.Intn(3)]
	case "capability[]":
		return []string{"authtype", "state"}[r.Intn(2)]
	}
	switch r.Intn(5) {
	case 0:
		return randAlnum(r, 1, 12) + " " + randAlnum(r, 1, 6)
	case 1:
		return randAlnum(r, 1, 5) + "=" + randAlnum(r, 0, 5) + "=="
	case 2:
		return "p@ss:" + randAlnum(r, 2, 9) + "/&?#"
	default:
		return randAlnum(r, 1, 20)
	}
}

// place puts tok into base at pos.
func place(r *rand.Rand, base, tok, pos string) string {
	switch pos {
	case "start":
		return tok + base
	case "end":
		return base + tok
	case "alone":
		return tok
	default:
		if len(base) < 2 {
			base += "xy"
		}
		m := 1 + r.Intn(len(base)-1)
		return base[:m] + tok + base[m:]
	}
}

// whole-value shapes (class name, generator); all harmless
var wholeShapes = []string{"empty", "long", "randbytes", "blank-edges", "only-equals"}

func wholeValue(r *rand.Rand, shape string) string {
	switch shape {
	case "empty":
		return ""
	case "long":
		n := []int{4095, 4096, 65535, 65536, 65537, 200000}[r.Intn(6)]
		b := make([]byte, n)
		for i := range b {
			b[i] = alnum[r.Intn(len(alnum))]
		}
		return string(b)
	case "randbytes":
		n := 1 + r.Intn(300)
		b := make([]byte, n)
		for i := range b {
			c := byte(r.Intn(256))
			for c == '\n' || c == '\r' || c == 0 {
				c = byte(r.Intn(256))
			}
			b[i] = c
		}
		return string(b)
	case "blank-edges":
		return "  \t" + randAlnum(r, 1, 6) + " \t "
	default:
		return "==="
	}
}

type kv struct {
	K string   `json:"k"`
	V []string `json:"v"`
}

var protectModes = []string{"unset", "true", "false", "urlfalse", "otherurlfalse", "gfalse-urltrue"}

// protectOn: is protocol protection enabled (credential.protectProtocol unset or true for the URL)?
func protectOn(mode string) bool {
	switch mode {
	case "false", "urlfalse":
		return false
	}
	return true
}

const directURL = "http://verif.example/org/repo"

// protectConfig returns the Git configuration entries of a protect mode (keys as Git reports them:
// section and variable lower-cased, subsection verbatim).
func protectConfig(mode string) map[string][]string {
	m := map[string][]string{}
	switch mode {
	case "true":
		m["credential.protectprotocol"] = []string{"true"}
	case "false":
		m["credential.protectprotocol"] = []string{"false"}
	case "urlfalse":
		m["credential.http://verif.example.protectprotocol"] = []string{"false"}
	case "otherurlfalse":
		m["credential.http://other.example.protectprotocol"] = []string{"false"}
	case "gfalse-urltrue":
		m["credential.protectprotocol"] = []string{"false"}
		m["credential.http://verif.example.protectprotocol"] = []string{"true"}
	}
	return m
}

type caseA struct {
	Idx      int    `json:"idx"`
	Kind     string `json:"kind"`   // "pass" | "refuse"
	Family   string `json:"family"` // "direct": helper.Fill/Approve/Reject(map); "context": URL+headers+state through GetCredentialHelper/FillCreds
	Op       string `json:"op"`
	Protect  string `json:"protect"`
	Key      string `json:"key"` // key carrying the token
	Elem     int    `json:"elem"`
	Tok      string `json:"tok"`
	Pos      string `json:"pos"`
	Pairs    []kv   `json:"pairs"` // the supplied pairs
	UsePath  bool   `json:"usehttppath"`
	CacheOff bool   `json:"cache_off"`
}

func (c *caseA) class() string {
	return fmt.Sprintf("A/%s/%s/p=%s/%s/%s/%s", c.Family, c.Op, c.Protect, keyShort(c.Key), c.Tok, c.Pos)
}

func (c *caseA) trigger() string { return keyShort(c.Key) + "-value-" + c.Tok }

func caseRand(seed int64, idx int) *rand.Rand {
	return rand.New(rand.NewSource(seed*1_000_003 + int64(idx)*7919 + 17))
}

// genCaseA: case idx of the volume part. Cases [0,nPass) must be passed through, the rest must be refused.
// key, token and position are enumerated systematically from the index; the rest is drawn from the PRNG.
func genCaseA(seed int64, idx, nPass int) *caseA {
	r := caseRand(seed, idx)
	c := &caseA{Idx: idx}
	var tokS string
	if idx < nPass {
		c.Kind = "pass"
		j := idx
		c.Key = allKeys[j%len(allKeys)]
		j /= len(allKeys)
		// every 4th: CR with protection off; every 8th: whole-value shape; otherwise a harmless look-alike
		switch {
		case j%4 == 3:
			c.Tok, tokS = "cr", "\r"
			c.Protect = []string{"false", "urlfalse"}[r.Intn(2)]
			c.Pos = positions[(j/4)%4]
		case j%8 == 1:
			c.Tok = wholeShapes[(j/8)%len(wholeShapes)]
			c.Pos = "whole"
			c.Protect = protectModes[r.Intn(len(protectModes))]
		default:
			t := harmlessTokens[(j/2)%len(harmlessTokens)]
			c.Tok, tokS = t.Name, t.S
			c.Pos = positions[r.Intn(4)]
			c.Protect = protectModes[r.Intn(len(protectModes))]
		}
	} else {
		c.Kind = "refuse"
		j := idx - nPass
		c.Key = allKeys[j%len(allKeys)]
		j /= len(allKeys)
		t := forbiddenTokens[j%len(forbiddenTokens)]
		j /= len(forbiddenTokens)
		c.Tok, tokS = t.Name, t.S
		c.Pos = positions[j%4]
		if c.Tok == "cr" {
			c.Protect = []string{"unset", "true", "otherurlfalse", "gfalse-urltrue"}[r.Intn(4)]
		} else {
			c.Protect = protectModes[r.Intn(len(protectModes))]
		}
	}
	c.Family = "direct"
	if contextKeys[c.Key] && r.Intn(2) == 0 {
		c.Family = "context"
	}
	c.CacheOff = r.Intn(2) == 0
	if c.Family == "context" {
		c.Op = "fill"
		if !protectOn(c.Protect) {
			c.Protect = "false"
		} else if c.Protect != "unset" {
			c.Protect = "true"
		}
	} else {
		c.Op = []string{"fill", "approve", "reject"}[r.Intn(3)]
	}

	// the value carrying the token
	var special string
	if c.Pos == "whole" {
		special = wholeValue(r, c.Tok)
	} else {
		base := baseValue(r, c.Key)
		if r.Intn(6) == 0 {
			base += ";host=evil.example" // what an injected line would look like, minus the LF
		}
		special = place(r, base, tokS, c.Pos)
	}

	// the map
	var keys []string
	if c.Family == "context" {
		keys = []string{"protocol", "host"}
		for _, k := range []string{"username", "path", "wwwauth[]", "state[]"} {
			if k == c.Key || r.Intn(2) == 0 {
				keys = append(keys, k)
			}
		}
	} else {
		for _, k := range allKeys {
			switch {
			case k == c.Key, k == "protocol", k == "host":
				keys = append(keys, k)
			case len(k) > 12 || k == "ephemeral" || k == "continue":
				if r.Intn(8) == 0 {
					keys = append(keys, k)
				}
			default:
				if r.Intn(2) == 0 {
					keys = append(keys, k)
				}
			}
		}
	}
	for _, k := range keys {
		n := 1
		if isMulti(k) {
			n = 1 + r.Intn(4)
		}
		vals := make([]string, n)
		for i := range vals {
			vals[i] = baseValue(r, k)
		}
		if k == c.Key {
			c.Elem = r.Intn(n)
			vals[c.Elem] = special
		}
		c.Pairs = append(c.Pairs, kv{k, vals})
	}
	if c.Family == "context" {
		// an empty username is not sent by GetCredentialHelper (documented: only when the URL has one)
		for i, p := range c.Pairs {
			if p.K == "username" && p.V[0] == "" {
				c.Pairs = append(c.Pairs[:i], c.Pairs[i+1:]...)
				break
			}
		}
		for _, p := range c.Pairs {
			if p.K == "path" {
				c.UsePath = true
			}
		}
	}
	return c
}

// mustRefuse is the refusal clause of the property, evaluated on the supplied values only.
func mustRefuse(pairs []kv, protect bool) (bool, string) {
	for _, p := range pairs {
		for _, v := range p.V {
			if strings.Contains(v, "\n") {
				return true, p.K + " contains LF"
			}
			if strings.Contains(v, "\x00") {
				return true, p.K + " contains NUL"
			}
			if protect && strings.Contains(v, "\r") {
				return true, p.K + " contains CR (protection on)"
			}
		}
	}
	return false, ""
}

func truncPairs(pairs []kv) []kv {
	out := make([]kv, len(pairs))
	for i, p := range pairs {
		out[i].K = p.K
		for _, v := range p.V {
			if len(v) > 200 {
				v = v[:100] + fmt.Sprintf("…[%d bytes]…", len(v)-200) + v[len(v)-100:]
			}
			out[i].V = append(out[i].V, v)
		}
	}
	return out
}
