// C17 — credential values cannot inject lines into the git-credential protocol.
//
// Runtime monitor. Observation point: the driver binary installed as `git` first on PATH
// (shim.go) records argv and the exact stdin bytes of every `git credential <op>`.
//
//	(A) volume part (parta.go): generated credential maps through the real
//	    creds.CredentialHelperContext -> CredentialHelpers -> commandCredentialHelper
//	    (Fill/Approve/Reject, and URL+headers+state through GetCredentialHelper/FillCreds),
//	    in worker processes so that every recorded exchange is attributed to its call.
//	(B) end to end (e2e.go): the real git-lfs binary against a raw TCP server and
//	    remote URLs with percent-encoded control bytes.
//
// Oracle (independent of creds.go): the recorded stdin is split at LF by the driver and
// compared as a multiset with the capability preamble plus the supplied pairs; a supplied
// value with LF/NUL (or CR while credential.protectProtocol is unset/true) must leave the
// shim log empty and make the call fail.
package main

import (
	"context"
	"encoding/json"
	"fmt"
	"os"
	"os/exec"
	"path/filepath"
	"runtime"
	"sort"
	"strconv"
	"sync"
	"time"

	"verif/harness/evid"
	"verif/harness/sbx"
)

func main() {
	switch filepath.Base(os.Args[0]) {
	case "git":
		shimMain()
		return
	case "git-credential-verifc17":
		helperMain()
		return
	}
	if len(os.Args) > 1 && os.Args[1] == "__worker" {
		workerMain(os.Args[2:])
		return
	}
	driver()
}

func driver() {
	run := evid.New("C17", "exploration")
	run.Rule = "Part A: credential maps over the protocol's attribute names (protocol, host, path, username, password, wwwauth[], state[], authtype, credential, capability[], password_expiry_utc, oauth_refresh_token, ephemeral, continue); one value of one key carries a token (forbidden: LF, NUL, CRLF, CR; harmless look-alikes: TAB, VT, FF, DEL, ESC, BS, SOH, U+2028/2029/0085, raw 0x85/0xff, literal %0a/%0D/%00, backslash-n, '=', space, 'host=evil' text, UTF-8; whole-value shapes empty/long(4k..200k)/random bytes/blank edges) at position start/middle/end/alone; key x token x position are enumerated from the case index, operation (fill/approve/reject), family (direct map | URL+headers+state through GetCredentialHelper/FillCreds), credential.protectProtocol mode (unset,true,false,url-scoped false, other-url false, global false + url true), other keys/values and multi-value counts are PRNG-drawn. Part B: `git lfs locks` of the real binary, remote URL with percent-encoded token in userinfo/host/path/password, raw WWW-Authenticate/Lfs-Authenticate bytes from a TCP server, multistage helper answers (state[]) with CR/NUL/CRLF line ends. Sequence family (seq.go): ONE CredentialHelperContext reused for 2-4 look-ups over 4 hosts with credential.<url>.protectProtocol per host in {unset,true,false} plus the global setting; each exchange judged by the setting of ITS url; coordinates: style, op, protection for the url, whether an earlier url of the context had protection off (prior), fresh wrapper | wrapper used after another GetCredentialHelper (stale-wrapper, last step only) | control byte in the URL path with a URL-scoped setting that differs from the global one; the skip list after a refused Fill and the credential cache are modelled, never flagged. Part B also: `git lfs smudge` whose batch answer points at another host with the token in the href's userinfo/path, per-host protectProtocol (e2e_href.go), and a redirect shape (approve of the first URL's credentials after a look-up for a second URL). Askpass family (askpass.go, e2e_askpass.go): askpass program {none, GIT_ASKPASS, core.askpass, SSH_ASKPASS} (enumerated) x credential.useHttpPath on/off (enumerated) x protectProtocol scope shape (enumerated: which of global | scheme://host | scheme://host/<path prefix> | scheme://host/<full path> decides, its value, and the next broader entry holding the opposite value or the default; plus non-matching distractor entries) x key carrying the token {username from the URL, password (approve/reject after the fill), path, wwwauth[], state[]} (enumerated) x token (cr weighted, lf, nul, crlf, tab, none) x how `git credential` is reached although an askpass program is set (credential.helper at global/host/path scope displaces it | the program cannot be run | a real script answers: no exchange demanded); in process one context per case with fill then optional approve/reject on the same wrapper; end to end `git lfs locks` with a real askpass script that prints a value and logs its invocations, token in the URL user name or CRLF line ends in the helper answer. Expected protection = most specific matching credential.<url>.protectProtocol per Git urlmatch rules (driver-side resolver). class = (part, family|location, op, protect mode, key, token, position)."
	run.Assumptions = []string{
		"the `git` shim first on PATH sees exactly what git-lfs passes to `git credential` (git-lfs resolves `git` through PATH: subprocess.LookPath)",
		"protocol protection is on when credential.protectProtocol is unset or true for the URL (creds.go GetCredentialHelper; docs of Git's credential.protectProtocol)",
		"weakest reading of 'exactly the pairs supplied': multiset equality of LF-terminated key=value lines in any order, preceded/accompanied by the two capability lines git-lfs documents sending (capability[]=authtype, capability[]=state); one optional terminating blank line tolerated",
		"protection 'is enabled' for an exchange means: enabled for the URL the credential wrapper was obtained for (URL-scoped credential.<url>.protectProtocol wins over the global one, default on), whatever other URLs the same process looked up before or in between",
		"keys are the fixed attribute names of the protocol; only values are hostile (the statement quantifies over values)",
		"askpass family: which credential.<url>.protectProtocol applies is decided by the URL alone (Git applies credential.<url>.* before it drops the path of an http(s) URL for useHttpPath=false), not by which credential helpers (askpass program, credential.helper) take part; entries are generated without user part and wildcards; a URL path with a control byte is labelled with the recorded trigger urlscoped-setting-lost-path-cr",
		"end to end: what Go's HTTP client delivers is what is judged; a header value is derivable if the driver's own RFC 7230 field parser yields it from the raw bytes sent",
		"return value of a passed-through call (e.g. parsing of the helper's answer) is not judged",
	}
	self, err := os.Executable()
	if err != nil {
		run.Infra("os.Executable: %v", err)
	}
	if _, err := os.Stat(realGit); err != nil {
		run.Infra("real git not found at %s", realGit)
	}
	base := sbx.Base()
	shimDir := filepath.Join(base, "shim")
	os.MkdirAll(shimDir, 0o755)
	for _, n := range []string{"git", "git-credential-verifc17"} {
		if err := os.Symlink(self, filepath.Join(shimDir, n)); err != nil {
			sbx.RemoveBase()
			run.Infra("symlink: %v", err)
		}
	}

	nPass := run.N(4_000, 40_000)
	nRefuse := run.N(20_000, 1_000_000)
	nSeq := run.N(3_000, 60_000) // sequences of 2-4 steps sharing one context
	nE2E := run.N(56, 1_500)
	run.SetMinEvaluations(nPass + nRefuse)

	nAsk := run.N(2_400, 60_000) // askpass program x protectProtocol scope depths x useHttpPath (askpass.go)
	partA(run, self, shimDir, nPass, nRefuse, nSeq, nAsk)
	partB(run, shimDir, nE2E, run.N(12, 300), run.N(16, 400))
	sbx.RemoveBase() // Finish exits the process: deferred calls do not run
	run.Finish()
}

func partA(run *evid.Run, self, shimDir string, nPass, nRefuse, nSeq, nAsk int) {
	W := runtime.NumCPU()
	if W > 32 {
		W = 32
	}
	base := sbx.Base()
	outs := make([]*workerOut, W)
	var wg sync.WaitGroup
	var mu sync.Mutex
	for w := 0; w < W; w++ {
		wg.Add(1)
		go func(w int) {
			defer wg.Done()
			root := filepath.Join(base, fmt.Sprintf("wa%d", w))
			logdir := filepath.Join(root, "log")
			home := filepath.Join(root, "home")
			cwd := filepath.Join(root, "cwd")
			for _, d := range []string{logdir, home, cwd} {
				os.MkdirAll(d, 0o755)
			}
			outfile := filepath.Join(root, "out.json")
			ctx, cancel := context.WithTimeout(context.Background(), 40*time.Minute) // watchdog only
			defer cancel()
			cmd := exec.CommandContext(ctx, self, "__worker", strconv.Itoa(w), strconv.Itoa(W), strconv.FormatInt(run.Seed, 10), strconv.Itoa(nPass), strconv.Itoa(nRefuse), logdir, outfile, strconv.Itoa(nSeq), strconv.Itoa(nAsk))
			cmd.Dir = cwd
			cmd.Env = []string{"HOME=" + home, "XDG_CONFIG_HOME=" + filepath.Join(root, "xdg"), "TMPDIR=" + root, "PATH=" + shimDir + ":/usr/bin:/bin",
				"GIT_CONFIG_NOSYSTEM=1", "GIT_CEILING_DIRECTORIES=" + root, "GIT_TERMINAL_PROMPT=0", "LANG=C", "LC_ALL=C",
				"VERIF_C17_LOG=" + logdir, "VERIF_C17_MODE=answer"}
			stderr, err := cmd.CombinedOutput()
			var o workerOut
			if b, rerr := os.ReadFile(outfile); rerr == nil {
				json.Unmarshal(b, &o)
			}
			mu.Lock()
			defer mu.Unlock()
			outs[w] = &o
			if ctx.Err() != nil {
				run.Inconclusive(fmt.Sprintf("part A worker %d: watchdog fired", w))
				return
			}
			if err != nil || !o.Done {
				// a worker that dies takes the code under test with it: Go crash inside creds?
				s := string(stderr)
				res := sbx.Result{Stderr: stderr}
				if res.GoCrash() {
					run.Violation(evid.Sig{Symptom: "go-panic", Trigger: "worker-crash"}, "part A worker crashed: "+sbx.Trunc(stderr, 400), map[string]any{"stderr": s, "worker": w})
				} else {
					run.Inconclusive(fmt.Sprintf("part A worker %d failed: %v: %s", w, err, sbx.Trunc(stderr, 400)))
				}
			}
		}(w)
	}
	wg.Wait()
	classes := map[string]int{}
	samples := map[string]any{}
	seen := map[string]bool{}
	for _, o := range outs {
		if o == nil {
			continue
		}
		for k, n := range o.Classes {
			classes[k] += n
		}
		for k, s := range o.Samples {
			if _, ok := samples[k]; !ok {
				samples[k] = s
			}
		}
		for k, n := range o.Counters {
			run.Count(k, n)
		}
		for _, s := range o.Inconcl {
			run.Inconclusive("part A: " + s)
		}
		for k, v := range o.Notes {
			run.Set("note_"+k, v)
		}
	}
	var ks []string
	for k := range classes {
		ks = append(ks, k)
	}
	sort.Strings(ks)
	nsamp := 0
	for _, k := range ks {
		if samples[k] != nil {
			if nsamp++; nsamp > 3 {
				samples[k] = nil
			}
		}
		run.Case(k, samples[k])
		run.Evals(classes[k] - 1)
	}
	// violations: one per signature (first witness), deterministic order
	var vs []violA
	for _, o := range outs {
		if o != nil {
			vs = append(vs, o.Viols...)
		}
	}
	sort.SliceStable(vs, func(i, j int) bool {
		a, _ := vs[i].Detail["idx"].(float64)
		b, _ := vs[j].Detail["idx"].(float64)
		return a < b
	})
	for _, v := range vs {
		key := v.Symptom + "/" + v.Trigger
		if seen[key] {
			continue
		}
		seen[key] = true
		run.Violation(evid.Sig{Symptom: v.Symptom, Trigger: v.Trigger}, v.What, v.Detail)
	}
	run.Set("part_a_violating_cases_reported_by_workers", len(vs))
}

func partB(run *evid.Run, shimDir string, n, nHref, nAskE int) {
	if _, err := os.Stat(filepath.Join(sbx.BinDir, "git-lfs")); err != nil {
		sbx.RemoveBase()
		run.Infra("git-lfs binary missing in %s", sbx.BinDir)
	}
	sh := &e2eShared{shimDir: shimDir, run: run}
	jobs := make(chan int)
	var wg sync.WaitGroup
	W := runtime.NumCPU()
	for w := 0; w < W; w++ {
		wg.Add(1)
		go func() {
			defer wg.Done()
			for i := range jobs {
				func() {
					defer func() {
						if x := recover(); x != nil {
							run.Inconclusive(fmt.Sprintf("e2e case %d: harness panic: %v", i, x))
						}
					}()
					if i >= n+nHref+2 {
						runCaseK(sh, genCaseK(run.Seed, i-n-nHref-2))
						return
					}
					if i >= n+nHref {
						runCaseR(sh, i-n-nHref)
						return
					}
					if i >= n {
						runCaseH(sh, genCaseH(run.Seed, i-n))
						return
					}
					runCaseE(sh, genCaseE(run.Seed, i))
				}()
			}
		}()
	}
	for i := 0; i < n+nHref+2+nAskE; i++ {
		jobs <- i
	}
	close(jobs)
	wg.Wait()
	sort.Slice(sh.summaries, func(i, j int) bool { return sh.summaries[i]["class"].(string) < sh.summaries[j]["class"].(string) })
	run.Set("e2e_case_summaries", sh.summaries)
}
