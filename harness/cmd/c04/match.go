package main

// Independent include/exclude matcher (gitignore semantics, as documented in
// docs/man/git-lfs-fetch.adoc "Paths are matched using wildcard matching as per
// gitignore(5)") restricted to the pattern forms the generator emits, plus the
// cross-check of that matcher against `git check-ignore --no-index`.
//
// No git-lfs code is involved.

import (
	"bytes"
	"fmt"
	"math/rand"
	"os"
	"path/filepath"
	"sort"
	"strings"
	"sync"

	"verif/harness/sbx"
)

type pat struct {
	Text string
	Form string // name of the generated pattern form
}

func patTexts(ps []pat) []string {
	out := make([]string, 0, len(ps))
	for _, p := range ps {
		out = append(out, p.Text)
	}
	return out
}

func patForms(ps ...[]pat) string {
	set := map[string]bool{}
	for _, l := range ps {
		for _, p := range l {
			set[p.Form] = true
		}
	}
	var fs []string
	for f := range set {
		fs = append(fs, f)
	}
	sort.Strings(fs)
	return strings.Join(fs, "+")
}

// glob matches one path component against a pattern component made of
// literals, '*' and '?' (the only metacharacters the generator uses).
func glob(p, s string) bool {
	if p == "" {
		return s == ""
	}
	switch p[0] {
	case '*':
		for i := 0; i <= len(s); i++ {
			if glob(p[1:], s[i:]) {
				return true
			}
		}
		return false
	case '?':
		return s != "" && glob(p[1:], s[1:])
	default:
		return s != "" && s[0] == p[0] && glob(p[1:], s[1:])
	}
}

func matchComps(pc, cs []string) bool {
	if len(pc) == 0 {
		return len(cs) == 0
	}
	if pc[0] == "**" {
		if len(pc) == 1 { // trailing "/**": everything inside, not the directory itself
			return len(cs) >= 1
		}
		for k := 0; k <= len(cs); k++ { // "**/" = zero or more directories
			if matchComps(pc[1:], cs[k:]) {
				return true
			}
		}
		return false
	}
	if len(cs) == 0 {
		return false
	}
	return glob(pc[0], cs[0]) && matchComps(pc[1:], cs[1:])
}

// matchGI: does gitignore pattern `pattern` exclude the FILE `path`
// (slash-separated, relative to the repository root)? A path is excluded when
// the pattern matches the path itself or one of its parent directories.
func matchGI(pattern, path string) bool {
	p := pattern
	dirOnly := false
	if strings.HasSuffix(p, "/") {
		dirOnly = true
		p = strings.TrimSuffix(p, "/")
	}
	anchored := false
	if strings.HasPrefix(p, "/") {
		anchored = true
		p = p[1:]
	}
	if strings.Contains(p, "/") {
		anchored = true
	}
	comps := strings.Split(path, "/")
	if !anchored {
		for i, c := range comps {
			isDir := i < len(comps)-1
			if dirOnly && !isDir {
				continue
			}
			if glob(p, c) {
				return true
			}
		}
		return false
	}
	pc := strings.Split(p, "/")
	for n := 1; n <= len(comps); n++ {
		isDir := n < len(comps)
		if dirOnly && !isDir {
			continue
		}
		if matchComps(pc, comps[:n]) {
			return true
		}
	}
	return false
}

// selected: documented selection rule (git-lfs-fetch.adoc INCLUDE AND EXCLUDE):
// fetched iff (no include list or the path matches one of it) and the path
// matches nothing in the exclude list.
func selected(inc, exc []pat, path string) bool {
	if len(inc) > 0 {
		ok := false
		for _, p := range inc {
			if matchGI(p.Text, path) {
				ok = true
				break
			}
		}
		if !ok {
			return false
		}
	}
	for _, p := range exc {
		if matchGI(p.Text, path) {
			return false
		}
	}
	return true
}

// ---------- cross-check against git check-ignore ----------

type crossChecker struct {
	mu      sync.Mutex
	env     *sbx.Env
	dir     string                     // scratch repository holding every path as a real file
	have    map[string]bool            // files created in dir
	cache   map[string]map[string]bool // pattern -> path -> git's verdict
	checks  int64
	badness []string
}

func newCrossChecker(env *sbx.Env, paths []string) *crossChecker {
	c := &crossChecker{env: env, have: map[string]bool{}, cache: map[string]map[string]bool{}}
	c.dir = env.InitRepo("ignore-scratch")
	c.ensure(paths)
	return c
}

func (c *crossChecker) ensure(paths []string) {
	for _, p := range paths {
		if c.have[p] {
			continue
		}
		full := filepath.Join(c.dir, filepath.FromSlash(p))
		os.MkdirAll(filepath.Dir(full), 0o755)
		if err := os.WriteFile(full, []byte("x"), 0o644); err == nil {
			c.have[p] = true
		}
	}
}

// check compares matchGI with git for every (pattern, path) pair not compared
// before; returns the disagreements.
func (c *crossChecker) check(pattern string, paths []string) []string {
	c.mu.Lock()
	defer c.mu.Unlock()
	m := c.cache[pattern]
	if m == nil {
		m = map[string]bool{}
		c.cache[pattern] = m
	}
	var todo []string
	for _, p := range paths {
		if _, ok := m[p]; !ok {
			todo = append(todo, p)
		}
	}
	if len(todo) == 0 {
		return nil
	}
	c.ensure(todo)
	pf := filepath.Join(c.env.Root, "tmp", fmt.Sprintf("excl-%d", rand.Int63()))
	os.WriteFile(pf, []byte(pattern+"\n"), 0o644)
	defer os.Remove(pf)
	in := strings.Join(todo, "\x00") + "\x00"
	res := c.env.Run(sbx.RunOpt{Dir: c.dir, Stdin: strings.NewReader(in)}, "git", "-c", "core.excludesFile="+pf, "check-ignore", "--no-index", "-z", "--stdin")
	if res.Code != 0 && res.Code != 1 {
		return []string{"check-ignore failed: " + res.String()}
	}
	ign := map[string]bool{}
	for _, p := range bytes.Split(res.Stdout, []byte{0}) {
		if len(p) > 0 {
			ign[string(p)] = true
		}
	}
	var bad []string
	for _, p := range todo {
		m[p] = ign[p]
		c.checks++
		if mine := matchGI(pattern, p); mine != ign[p] {
			bad = append(bad, fmt.Sprintf("pattern %q path %q: driver matcher=%v git check-ignore=%v", pattern, p, mine, ign[p]))
		}
	}
	c.badness = append(c.badness, bad...)
	return bad
}

// ---------- pattern generator ----------

const nForms = 11

// genPatterns draws n patterns of the supported forms. paths = pointer paths of
// the commit the scenario works on (used for exact-file / basename forms).
// force >= 0 fixes the form of the first pattern (rotated by the caller so that
// every form occurs in every context of a run). A candidate that matches none
// of paths is redrawn a few times: patterns that split the path set are the
// discriminating ones.
func genPatterns(r *rand.Rand, n int, paths []string, force int) []pat {
	var out []pat
	for len(out) < n {
		form := r.Intn(nForms)
		if len(out) == 0 && force >= 0 {
			form = force % nForms
		}
		var p pat
		for try := 0; try < 6; try++ {
			p = genPattern(r, form, paths)
			if p.Text == "" {
				continue
			}
			hit := false
			for _, f := range paths {
				if matchGI(p.Text, f) {
					hit = true
					break
				}
			}
			if hit || len(paths) == 0 {
				break
			}
		}
		if p.Text == "" {
			p = pat{"*.bin", "glob-basename"}
		}
		out = append(out, p)
	}
	return out
}

func genPattern(r *rand.Rand, form int, paths []string) pat {
	dirset := map[string]bool{}
	for _, p := range paths {
		d := p
		for {
			i := strings.LastIndexByte(d, '/')
			if i < 0 {
				break
			}
			d = d[:i]
			dirset[d] = true
		}
	}
	var dirs []string
	for d := range dirset {
		dirs = append(dirs, d)
	}
	sort.Strings(dirs)
	if len(dirs) == 0 {
		dirs = []string{"a"}
	}
	pick := func(l []string) string { return l[r.Intn(len(l))] }
	var p pat
	switch form {
	case 0: // literal directory, trailing slash
		p = pat{pick(dirs) + "/", "dir-slash"}
	case 1: // the form of the man page examples
		p = pat{pick(dirs), "dir"}
	case 2: // last component of a directory: matches at any level
		d := pick(dirs)
		p = pat{d[strings.LastIndexByte(d, '/')+1:], "dir-basename"}
	case 3:
		p = pat{pick([]string{"*.bin", "*.dat", "f*.bin", "moved*", "copy*", "*1.bin", "f?.bin"}), "glob-basename"}
	case 4:
		p = pat{pick(dirs) + "/**", "dir-doublestar"}
	case 5:
		p = pat{"/" + pick(dirs), "rooted-dir"}
	case 6:
		p = pat{pick([]string{"/*.bin", "/f*.bin", "/*.dat"}), "rooted-glob"}
	case 7:
		if len(paths) == 0 {
			return pat{}
		}
		f := pick(paths)
		if strings.Contains(f, "/") {
			p = pat{f, "exact-file"}
		} else if r.Intn(2) == 0 {
			p = pat{"/" + f, "rooted-file"}
		} else {
			p = pat{f, "file-basename"}
		}
	case 8:
		if len(paths) == 0 {
			return pat{}
		}
		f := pick(paths)
		p = pat{f[strings.LastIndexByte(f, '/')+1:], "file-basename"}
	case 9:
		p = pat{pick(dirs) + "/" + pick([]string{"*.bin", "f*", "*.dat"}), "dir-glob"}
	default:
		if r.Intn(2) == 0 {
			d := pick(dirs)
			p = pat{"**/" + d[strings.LastIndexByte(d, '/')+1:], "leading-doublestar-dir"}
		} else {
			p = pat{"**/" + pick([]string{"*.bin", "f1.bin", "*.dat"}), "leading-doublestar-glob"}
		}
	}
	// comma is the list separator of lfs.fetchinclude / -I; never part of a pattern
	if strings.Contains(p.Text, ",") {
		return pat{}
	}
	return p
}
