// C04 — fetch, pull and checkout materialise exact content and never clobber edits.
//
// Monitor: histgen repositories are pushed (real pre-push hook) to a local bare
// repository + the in-driver fake LFS server. Seeded consumer scenarios then
// clone / fetch / pull / checkout them in fresh isolated environments:
// GIT_LFS_SKIP_SMUDGE on/off, lfs.fetchinclude/lfs.fetchexclude from config,
// -I/-X on the command line, objects pre-seeded locally or reachable through an
// alternates reference store (git clone --reference), filter-process or the
// one-shot smudge filter, and working-tree files edited / deleted / replaced /
// made read-only before `git lfs pull` and `git lfs checkout`. In one scenario
// out of three the server misbehaves for one or two objects (faults.go): 503s
// within / beyond / far beyond lfs.transfer.maxretries, connection resets, cut
// bodies, a batch answer that reports the object missing once. Commands that
// exit 0 are judged as always; commands that fail under faults are counted.
// A sample of the scenarios ends with a rare command shape (shapes.go):
// fetch --all / --recent / --refetch / --dry-run / --json / several refs, and
// checkout --to --base|--ours|--theirs during a merge conflict. Template 8
// (refstore.go): objects only in a reference store that nothing has linked yet.
// Template 9 (wide.go): wide trees with duplicated content, small transfer batches.
//
// Oracle (no git-lfs code): reference model (ls-tree / cat-file with filters
// disabled + ptrspec) for the pointers of the checked-out commit, Git's own
// check-attr for "LFS-tracked", an independent gitignore matcher (match.go,
// cross-checked against `git check-ignore`) for the include/exclude selection,
// SHA-256 of every working-tree file before and after each command, SHA-256 of
// local object files.
package main

import (
	"fmt"
	"math/rand"
	"os"
	"path/filepath"
	"runtime"
	"sort"
	"strings"
	"sync"
	"sync/atomic"
	"time"

	"verif/harness/evid"
	"verif/harness/fakelfs"
	"verif/harness/histgen"
	"verif/harness/ptrspec"
	"verif/harness/sbx"
)

// pinfo: one canonical non-empty pointer in a commit's tree.
type pinfo struct {
	Path    string
	Oid     string
	Size    int64
	Mode    string // tree mode 100644 / 100755
	Blob    string
	Tracked bool // filter=lfs according to git check-attr on that commit's attributes
}

func (p pinfo) ptrText() string {
	return ptrspec.Canonical(ptrspec.Pointer{Oid: p.Oid, Size: p.Size})
}

type refInfo struct {
	Name string
	Kind string // branch | tag
	Sha  string
	Ptrs []pinfo
}

type source struct {
	idx   int
	env   *sbx.Env
	srv   *fakelfs.Server
	g     *histgen.Repo
	bare  string
	refs  []refInfo
	cc    *crossChecker
	oids  []string // every oid the generator created
	paths []string // every path of every ref
	// fault scripts of the scenarios that run with a misbehaving server, keyed by the scenario's server repository
	scripts sync.Map
	// dated: commit dates are drawn from datedAges relative to the start of the run (recent-window shapes)
	dated bool
	// wide: template 9 (wide.go); delays: per scenario, how long storage GETs are held back
	wide   bool
	delays sync.Map
	dmu    sync.Mutex
	// per-commit reference data (shapes.go)
	cmu     sync.Mutex
	cmodel  *histgen.Model
	commits map[string]*commitData
}

var tmpSeq int64

var startTime = time.Now()

// trackedAt evaluates Git's own attribute machinery on rev's tree: which of paths have filter=lfs.
func trackedAt(env *sbx.Env, dir, rev string, paths []string) map[string]bool {
	out := map[string]bool{}
	if len(paths) == 0 {
		return out
	}
	idx := filepath.Join(env.Root, "tmp", fmt.Sprintf("attr-index-%d", atomic.AddInt64(&tmpSeq, 1)))
	defer os.Remove(idx)
	e := []string{"GIT_INDEX_FILE=" + idx}
	if res := env.Run(sbx.RunOpt{Dir: dir, Env: e}, "git", "read-tree", rev); !res.OK() {
		panic("read-tree failed: " + res.String())
	}
	in := strings.Join(paths, "\x00") + "\x00"
	res := env.Run(sbx.RunOpt{Dir: dir, Env: e, Stdin: strings.NewReader(in)}, "git", "check-attr", "--cached", "--stdin", "-z", "filter")
	if !res.OK() {
		panic("check-attr failed: " + res.String())
	}
	f := strings.Split(string(res.Stdout), "\x00")
	for i := 0; i+2 < len(f); i += 3 {
		if f[i+1] == "filter" && f[i+2] == "lfs" {
			out[f[i]] = true
		}
	}
	return out
}

func ptrsAt(env *sbx.Env, m *histgen.Model, rev string) []pinfo {
	prs := m.PointersAt(rev)
	var paths []string
	for _, p := range prs {
		paths = append(paths, p.Path)
	}
	tr := trackedAt(env, m.Dir, rev, paths)
	var out []pinfo
	for _, p := range prs {
		if len(p.Ptr.Exts) > 0 {
			continue // the generator creates no extension pointers
		}
		out = append(out, pinfo{Path: p.Path, Oid: p.Ptr.Oid, Size: p.Ptr.Size, Mode: p.Mode, Blob: p.Blob, Tracked: tr[p.Path]})
	}
	return out
}

func genSource(run *evid.Run, i int) *source {
	r := rand.New(rand.NewSource(run.Seed*7919 + int64(i)))
	env := sbx.New()
	srv := fakelfs.New()
	src := &source{idx: i, env: env, srv: srv}
	hopts := histgen.Options{Commits: 8 + r.Intn(10), Merges: true, Tags: true, TrackToggles: true, Symlinks: true, ExecBits: true, EmptyFiles: true}
	if isDated(run.Seed, i) {
		src.dated = true
		hopts.Dates, hopts.Now = datedAges, startTime
		// longer histories that rewrite paths more often: previous versions inside the commits window
		hopts.Commits += 6
		hopts.TwoLFSPerCommit = true
		run.Count("source_repos_with_recent_commit_dates", 1)
	}
	src.g = histgen.New(env, "work", run.Seed*7919+int64(i), hopts)
	src.extend(rand.New(rand.NewSource(run.Seed*5000011 + int64(i))))
	src.publish(run)
	return src
}

// publish pushes the source through the pre-push hook to a bare repository + the fake server and records the reference data of every ref.
func (src *source) publish(run *evid.Run) {
	env, srv, g := src.env, src.srv, src.g
	src.bare = env.InitBare("origin.git")
	env.MustGit(g.Dir, "remote", "add", "origin", src.bare)
	env.MustGit(g.Dir, "config", "lfs.url", srv.Endpoint("origin"))
	env.MustGit(g.Dir, "config", "lfs.locksverify", "false")
	if up := env.Run(sbx.RunOpt{Dir: g.Dir}, "git-lfs", "update"); !up.OK() {
		panic("git lfs update failed: " + up.String())
	}
	for _, args := range [][]string{{"push", "-q", "--all", "origin"}, {"push", "-q", "--tags", "origin"}} {
		if res := env.Git(g.Dir, args...); !res.OK() {
			panic("source push failed: " + res.String())
		}
	}
	run.Count("source_repos", 1)
	// from here on the server may misbehave, but only for scenarios that registered a script
	srv.SetHook(func(rq *fakelfs.Request) *fakelfs.Fault {
		if d, ok := src.delays.Load(rq.Repo); ok {
			src.dmu.Lock()
			wait := d.(func(*fakelfs.Request) time.Duration)(rq)
			src.dmu.Unlock()
			if wait > 0 {
				time.Sleep(wait)
				run.Count("server_get_answers_delayed", 1)
			}
		}
		if fs, ok := src.scripts.Load(rq.Repo); ok {
			return fs.(*faultScript).answer(rq)
		}
		return nil
	})
	m := histgen.NewModel(env, g.Dir)
	refs := histgen.NewModel(env, src.bare).Refs()
	pathset := map[string]bool{}
	for _, name := range histgen.SortedKeys(refs) {
		ri := refInfo{}
		switch {
		case strings.HasPrefix(name, "refs/heads/"):
			ri.Name, ri.Kind = strings.TrimPrefix(name, "refs/heads/"), "branch"
		case strings.HasPrefix(name, "refs/tags/"):
			ri.Name, ri.Kind = strings.TrimPrefix(name, "refs/tags/"), "tag"
		default:
			continue
		}
		if strings.HasPrefix(ri.Name, tagOnlyName) {
			continue // never cloned or checked out by name: it only has to be found by fetch --all
		}
		ri.Sha = strings.TrimSpace(env.MustPlainGit(g.Dir, "rev-parse", name+"^{commit}"))
		ri.Ptrs = ptrsAt(env, m, ri.Sha)
		for _, e := range histgen.LsTree(env, g.Dir, ri.Sha) {
			pathset[e.Path] = true
		}
		src.refs = append(src.refs, ri)
	}
	src.paths = histgen.SortedKeys(pathset)
	src.oids = histgen.SortedKeys(g.Contents)
	src.cc = newCrossChecker(env, src.paths)
}

func (src *source) close() {
	src.srv.Close()
	src.env.Cleanup()
}

// ---------- plans ----------

type opPlan struct {
	Kind    string // lfs-fetch | lfs-pull | lfs-checkout | git-checkout
	Inc     *[]pat // -I (nil = option absent)
	Exc     *[]pat // -X
	Refs    []string
	Paths   []pat  // lfs-checkout arguments
	Ref     string // git-checkout target
	SkipEnv bool   // git-checkout under GIT_LFS_SKIP_SMUDGE=1
	Mutate  bool
	Subdir  bool // run with cwd = a sub-directory of the working tree (no patterns on the command line)
	// rare shapes, run as the last operation of a scenario (shapes.go)
	Shape        string `json:",omitempty"`
	All          bool   `json:",omitempty"`
	Recent       bool   `json:",omitempty"`
	RecentAlways bool   `json:",omitempty"` // lfs.fetchrecentalways=true instead of --recent
	Refetch      bool   `json:",omitempty"`
	DryRun       bool   `json:",omitempty"`
	JSON         bool   `json:",omitempty"`
	RefsDays     int    // lfs.fetchrecentrefsdays (-1 = unset: 7)
	CommitsDays  int    // lfs.fetchrecentcommitsdays (-1 = unset: 0)
	RemoteRefs   string `json:",omitempty"` // lfs.fetchrecentremoterefs ("" = unset: true)
	// lfs-checkout-to: git lfs checkout --to <file> --<stage> <path> during a merge conflict
	ToInside  bool     `json:",omitempty"` // --to path inside the working tree
	BaseLocal bool     `json:",omitempty"` // make sure the base stage's object is in the local store
	NewFile   bool     `json:",omitempty"` // conflict on a new file instead of a path of the history
	Stages    []string `json:",omitempty"`
	// template 10 (recentfault.go)
	AlwaysViaC  bool   `json:",omitempty"` // lfs.fetchrecentalways=true through git -c instead of the repository configuration
	FaultVictim string `json:",omitempty"` // recent-ref-tip | recent-previous-version: a persistent GET fault is armed for one such object
	// refetch shapes in otherwise fault-free scenarios: the server fails for good for one or two objects
	FaultTail bool   `json:",omitempty"`
	FaultKind string `json:",omitempty"`
}

type plan struct {
	Kind       int
	Ref        string
	RefKind    string
	URLVia     string // dash-c | clone-config | home
	Skip       bool
	NoCheckout bool
	Driver     string // process | smudge
	CfgInc     []pat
	CfgExc     []pat
	CfgVia     string // home | dash-c | clone-config
	Store      string // empty | preseed-subset | reference-full | reference-subset
	BatchSize  int    `json:",omitempty"` // template 9: lfs.transfer.batchsize
	Concurrent int    `json:",omitempty"` // template 9: lfs.concurrenttransfers
	Delay      string `json:",omitempty"` // template 9: none | all-2ms | random-0-5ms | later-gets-slow
	ExhaustFault bool `json:",omitempty"` // template 9: fault kind exhausted-object-in-failed-batch (faults.go)
	RefHow     string `json:",omitempty"` // template 8 (refstore.go): how the clone came to borrow from a reference store that git-lfs has not looked at yet
	Ops        []opPlan
	Fault      *faultPlan `json:",omitempty"` // transient server faults (nil = the server behaves)
}

func (src *source) pickRef(r *rand.Rand, not string) refInfo {
	var good []refInfo
	for _, ri := range src.refs {
		if ri.Name != not && len(ri.Ptrs) > 0 {
			good = append(good, ri)
		}
	}
	if len(good) == 0 || r.Intn(10) == 0 {
		for _, ri := range src.refs {
			if ri.Name != not {
				good = append(good, ri)
			}
		}
	}
	if len(good) == 0 {
		return src.refs[r.Intn(len(src.refs))]
	}
	return good[r.Intn(len(good))]
}

func ptrPaths(ps []pinfo) []string {
	var out []string
	for _, p := range ps {
		out = append(out, p.Path)
	}
	return out
}

func optPats(r *rand.Rand, paths []string, probSet, probEmpty, force int) *[]pat {
	k := r.Intn(100)
	switch {
	case k < probSet:
		l := genPatterns(r, 1+r.Intn(2), paths, force)
		return &l
	case k < probSet+probEmpty:
		l := []pat{}
		return &l // option given with an empty string: clears the configured value
	}
	return nil
}

func genPlan(r *rand.Rand, src *source, k int) plan {
	ref := src.pickRef(r, "")
	paths := ptrPaths(ref.Ptrs)
	p := plan{Kind: k % 8, Ref: ref.Name, RefKind: ref.Kind, Store: "empty"}
	p.URLVia = []string{"dash-c", "clone-config", "home"}[r.Intn(3)]
	p.Driver = []string{"process", "process", "smudge"}[r.Intn(3)]
	p.CfgVia = []string{"home", "dash-c", "clone-config"}[r.Intn(3)]
	// rotation of the pattern form forced into each context (configuration, -I/-X, checkout arguments)
	force := src.idx + k/8
	cfgFilters := func(prob int) {
		if r.Intn(100) < prob {
			switch r.Intn(3) {
			case 0:
				p.CfgInc = genPatterns(r, 1+r.Intn(2), paths, force)
			case 1:
				p.CfgExc = genPatterns(r, 1+r.Intn(2), paths, force)
			default:
				p.CfgInc = genPatterns(r, 1+r.Intn(2), paths, force)
				p.CfgExc = genPatterns(r, 1, paths, -1)
			}
		}
	}
	other := src.pickRef(r, ref.Name)
	gitCheckout := func() opPlan {
		return opPlan{Kind: "git-checkout", Ref: other.Name, SkipEnv: r.Intn(4) == 0}
	}
	fetchOp := func() opPlan {
		o := opPlan{Kind: "lfs-fetch", Inc: optPats(r, paths, 40, 8, force+3), Exc: optPats(r, paths, 30, 8, force+5)}
		switch r.Intn(3) {
		case 1:
			o.Refs = []string{other.revName()}
		case 2:
			o.Refs = []string{other.revName(), ref.revNameCurrent()}
		}
		return o
	}
	pullOp := func(mut bool, probSet int) opPlan {
		o := opPlan{Kind: "lfs-pull", Inc: optPats(r, paths, probSet, 8, force+7), Exc: optPats(r, paths, probSet*3/4, 8, force+9), Mutate: mut}
		if o.Inc == nil && o.Exc == nil && r.Intn(3) == 0 {
			o.Subdir = true
		}
		return o
	}
	forceArgs := false
	lfsCheckout := func(mut bool) opPlan {
		o := opPlan{Kind: "lfs-checkout", Mutate: mut}
		if forceArgs || r.Intn(2) == 0 {
			for _, c := range genPatterns(r, 1+r.Intn(2), paths, force) {
				// arguments are path specs: a leading "/" would be an absolute file name
				if !strings.HasPrefix(c.Text, "/") {
					o.Paths = append(o.Paths, c)
				}
			}
		} else if r.Intn(3) == 0 {
			o.Subdir = true
		}
		return o
	}
	clearAll := func() opPlan {
		e1, e2 := []pat{}, []pat{}
		return opPlan{Kind: "lfs-pull", Inc: &e1, Exc: &e2}
	}
	switch p.Kind {
	case 0: // smudging clone
		cfgFilters(50)
		if r.Intn(2) == 0 {
			p.Store = []string{"reference-full", "reference-subset"}[r.Intn(2)]
		}
		if len(src.refs) > 1 && r.Intn(2) == 0 {
			p.Ops = append(p.Ops, gitCheckout())
		}
		if r.Intn(2) == 0 {
			p.Ops = append(p.Ops, pullOp(false, 20))
		}
	case 1: // skip-smudge clone, fetch, lfs checkout
		p.Skip = true
		cfgFilters(25)
		forceArgs = true
		p.Ops = append(p.Ops, fetchOp(), lfsCheckout(true))
		forceArgs = false
		if r.Intn(2) == 0 {
			p.Ops = append(p.Ops, lfsCheckout(false))
		}
	case 2: // skip-smudge clone, edits, pull
		p.Skip = true
		p.Ops = append(p.Ops, pullOp(true, 35))
		if r.Intn(2) == 0 {
			p.Ops = append(p.Ops, clearAll())
		}
	case 3: // configured include/exclude overridden on the command line
		p.Skip = true
		cfgFilters(100)
		p.Ops = append(p.Ops, pullOp(r.Intn(2) == 0, 60))
		if r.Intn(2) == 0 {
			p.Ops = append(p.Ops, fetchOp())
		}
	case 4: // alternates reference store
		p.Skip = r.Intn(3) != 0
		p.Store = []string{"reference-full", "reference-subset"}[r.Intn(2)]
		cfgFilters(25)
		if p.Skip {
			if r.Intn(2) == 0 {
				p.Ops = append(p.Ops, lfsCheckout(r.Intn(2) == 0))
			}
			if r.Intn(3) == 0 {
				p.Ops = append(p.Ops, fetchOp())
			}
			p.Ops = append(p.Ops, pullOp(r.Intn(2) == 0, 25))
		} else {
			if len(src.refs) > 1 {
				p.Ops = append(p.Ops, gitCheckout())
			}
		}
	case 5: // objects pre-seeded in the clone's store
		p.Skip = true
		p.Store = "preseed-subset"
		p.Ops = append(p.Ops, lfsCheckout(true), pullOp(r.Intn(2) == 0, 25))
	case 6: // clone --no-checkout, seed, check out through the filters, switch ref, complete
		p.NoCheckout = true
		p.Store = []string{"preseed-subset", "empty"}[r.Intn(2)]
		cfgFilters(60)
		if len(src.refs) > 1 {
			p.Ops = append(p.Ops, gitCheckout())
		}
		p.Ops = append(p.Ops, clearAll())
	default: // free mix
		p.Skip = r.Intn(2) == 0
		cfgFilters(40)
		p.Store = []string{"empty", "empty", "preseed-subset", "reference-subset", "reference-full"}[r.Intn(5)]
		if !p.Skip && p.Store == "preseed-subset" {
			p.NoCheckout = true
		}
		if r.Intn(3) == 0 {
			p.Ops = append(p.Ops, fetchOp())
		}
		if len(src.refs) > 1 && r.Intn(3) == 0 {
			p.Ops = append(p.Ops, gitCheckout())
		}
		n := 1 + r.Intn(2)
		for i := 0; i < n; i++ {
			if r.Intn(2) == 0 {
				p.Ops = append(p.Ops, pullOp(i == 0, 30))
			} else {
				p.Ops = append(p.Ops, lfsCheckout(i == 0))
			}
		}
	}
	return p
}

// revName: how a consumer clone names this ref (branches exist as origin/<name> only).
func (ri refInfo) revName() string {
	if ri.Kind == "branch" {
		return "origin/" + ri.Name
	}
	return ri.Name
}

func (ri refInfo) revNameCurrent() string { return ri.revName() }

func filterClass(inc, exc []pat) string {
	switch {
	case len(inc) > 0 && len(exc) > 0:
		return "inc+exc"
	case len(inc) > 0:
		return "inc"
	case len(exc) > 0:
		return "exc"
	}
	return "nofilter"
}

func optClass(o opPlan) string {
	s := o.Kind
	if o.Inc != nil {
		if len(*o.Inc) == 0 {
			s += "-Iempty"
		} else {
			s += "-I"
		}
	}
	if o.Exc != nil {
		if len(*o.Exc) == 0 {
			s += "-Xempty"
		} else {
			s += "-X"
		}
	}
	if len(o.Refs) > 0 {
		s += fmt.Sprintf("-refs%d", len(o.Refs))
	}
	if o.Shape != "" {
		s += "-shape:" + o.Shape
		if o.Recent || o.RecentAlways {
			s += fmt.Sprintf("[refs%dd,commits%dd,remoterefs=%s]", o.RefsDays, o.CommitsDays, o.RemoteRefs)
		}
		if o.Kind == "lfs-checkout-to" {
			s += fmt.Sprintf("[inside=%v,newfile=%v,%s]", o.ToInside, o.NewFile, strings.Join(o.Stages, ">"))
		}
	}
	if len(o.Paths) > 0 {
		s += "-paths"
	}
	if o.SkipEnv {
		s += "-skipenv"
	}
	if o.Mutate {
		s += "-mut"
	}
	if o.Subdir {
		s += "-subdir"
	}
	return s
}

func (p plan) class() string {
	mode := "smudge"
	if p.Skip {
		mode = "skip"
	}
	if p.NoCheckout {
		mode = "nocheckout"
	}
	var ops []string
	for _, o := range p.Ops {
		ops = append(ops, optClass(o))
	}
	store := p.Store
	if p.RefHow != "" {
		store += "-unlinked:" + p.RefHow
	}
	if p.Kind == 9 {
		store += fmt.Sprintf("/wide-batch%d-conc%d-delay:%s", p.BatchSize, p.Concurrent, p.Delay)
	}
	return fmt.Sprintf("clone-%s-%s/%s/%s/cfg-%s/%s/%s", mode, p.RefKind, p.Driver, store, filterClass(p.CfgInc, p.CfgExc), strings.Join(ops, ","), p.Fault.class())
}

// ---------- main ----------

func main() {
	run := evid.New("C04", "exploration")
	defer sbx.RemoveBase()
	run.Rule = "per source repository (histgen: branches, merges, orphan branches, tags, add/modify/delete/rename/duplicate, files moving in and out of LFS tracking, nested .gitattributes, exec bits, empty files, symlinks; pushed through the pre-push hook to a bare repository + fake LFS server) 8 consumer scenario templates: {smudging clone, skip-smudge clone + fetch + lfs checkout, skip clone + edits + pull, configured include/exclude overridden by -I/-X, alternates reference store, pre-seeded local objects, clone --no-checkout + seed + checkout + ref switch, free mix} x random {branch|tag, lfs.url via -c/--config/HOME, filter-process|one-shot smudge, lfs.fetchinclude/exclude via HOME/-c/--config, 11 pattern forms, -I/-X given/empty/absent, fetch refs, lfs checkout path arguments, GIT_LFS_SKIP_SMUDGE on git checkout, 9 working-tree mutation kinds before pull / lfs checkout} x transient server faults in one scenario out of three: for one or two victim objects that the step reached first (clone, first checkout, git checkout, lfs fetch, lfs pull) is about to download, the storage GET is answered {503 k times with k <= lfs.transfer.maxretries, 503 maxretries+1 times, 503 for ever, connection reset once or twice, body cut short once or twice} or the batch API reports the object missing once; lfs.transfer.maxretries in {1,2,8} delivered via HOME/-c/--config; later steps (incl. lfs checkout) run with what is left of the script and with the objects a failed step left behind. A command that exits 0 is judged exactly as without faults; a command that exits non-zero while faults were injected is counted, not judged (except never-clobber / fetch-leaves-worktree-alone, which hold for failures too). Rare command shapes run as the LAST operation of a sample of the scenarios (every second scenario, rotating by seed; every scenario of the source repositories with recent commit dates = one in four, commit ages from {0.3,1.5,2.5,5,9,12,30} days plus three 7-9 h old commits on main that rewrite the same two paths; every source also has a commit reachable from a tag only): fetch --all [origin [refs|sha]] (also --json / --dry-run), fetch --recent and lfs.fetchrecentalways with lfs.fetchrecentrefsdays / lfs.fetchrecentcommitsdays in {unset,0,1,3,7} and lfs.fetchrecentremoterefs in {unset,true,false} (+ -I/-X, refs, --json), fetch origin with three arguments incl. a raw commit id, fetch --refetch (in two of three cases with a server that fails for good for 1-2 of the objects), fetch --dry-run, fetch --json, and `git lfs checkout --to <file inside|outside the work tree> --base|--ours|--theirs <path>` in every stage order during a real modify/modify merge conflict on an LFS path of the history or a new file, followed by the usage errors (--to without a stage, two stages). Besides the 8 templates every source repository runs 2 (thorough: 3) scenarios of template 8 (refstore.go), 'objects only in the reference store, nothing linked yet': {clone --reference with the lfs filters unset, GIT_LFS_SKIP_SMUDGE clone --reference, alternates entry appended after the clone, reference repository receives its LFS objects after the clone, clone --no-checkout --reference + git reset --hard} x {full, partial reference store} x first operation {lfs checkout, lfs checkout <paths>, lfs pull, lfs fetch (+ lfs checkout), git checkout <other ref>}, rotating by seed, against a well-behaved server. Template 9 (wide.go): 2 (thorough: 10) dedicated source repositories whose single tree holds 30-150 LFS files with content deliberately duplicated across paths far apart in tree order (the first paths and the last ones, different directories, triples), each with 8 (12) skip-smudge consumers: git lfs pull (plain, with a working-tree mutation, restricted by -I/-X and then completed) or lfs fetch + lfs checkout, with lfs.transfer.batchsize in {1,2,3} x lfs.concurrenttransfers in {1,8} x local store {middle half of the tree local, random half local, empty} x storage GET answers delayed {not, 2 ms each, 0-5 ms pseudo-randomly, 4 ms from the third on}, so that downloads complete while the tree scan of the same pull is still running; two consumers in six meet the fault kind exhausted-object-in-failed-batch instead (faults.go): lfs.transfer.maxretries 1 or 2, batchsize 2 or 3, maxretrydelay 1, at least six objects to download, the GETs of the first one or two objects in tree order answered 503 until their retry budget is spent, batch answers delayed 10 ms, and the batch request that lists such an exhausted object together with other objects answered 429 (once per exhausted object). Template 10 (recentfault.go), two scenarios per source with recent commit dates and one per every second other source, in both tiers: skip-smudge clone of a ref other than main, in half of them a plain fetch, then `git lfs fetch --recent origin <that ref>` or the same with lfs.fetchrecentalways=true (repository configuration or git -c), with and without --json / an empty -I, with lfs.fetchrecentrefsdays in {3,7} (dated sources) or 100000 (every branch is recent), while the storage GET of exactly one object that only a recent ref needs (not in the named ref's tree, not local) fails every time (503 or 404, lfs.transfer.maxretries 1-2); second scenario of the dated sources: lfs.fetchrecentcommitsdays in {1,3,7} and the failing object is a previous version that no fetched tip tree holds. Class = (clone mode, ref kind, filter driver, store incl. how it came to be unlinked / the wide-tree coordinates, configured filter shape, sequence of operations with their option shapes incl. the tail shape and its windows, fault kind + maxretries + step at which it was armed)."
	run.Assumptions = []string{
		"selection by include/exclude follows gitignore(5) as documented in git-lfs-fetch(1); the driver's matcher is restricted to the generated pattern forms and cross-checked against git check-ignore",
		"-I / -X each override only their own configuration key (documented: 'override the respective configuration settings')",
		"LFS-tracked = filter=lfs according to git check-attr on the commit's own .gitattributes; canonical pointers at untracked paths are not judged (only never-clobber applies to them)",
		"git lfs checkout does not download: it must materialise selected files whose object is hash-valid in the local store or in a reference store the clone borrows from (objects/info/alternates -> <alternate>/../lfs/objects; the pinned tree links or copies such an object into the local store first: 'intact local store' is read as including the stores Git itself borrows from), and leaves the pointer when the object is in neither",
		"a deleted working-tree file is treated like a pointer file (docs: 'where a file is either missing in the working copy, or contains placeholder pointer content'); a read-only file still holding the recorded pointer is replaced by content",
		"git checkout <ref> only rewrites paths whose blob differs between the two commits; untouched paths keep their state",
		"git 2.39.5: git lfs pull / checkout scan the tree of HEAD (index == HEAD in every scenario)",
		"the driver runs as root: read-only files are still writable for git-lfs",
		"fetch --all: demanded = every LFS-tracked canonical pointer in the tree of every commit reachable from all refs (git rev-list --all in the clone) or from the given arguments; configured include/exclude are ignored as documented",
		"fetch --recent / lfs.fetchrecentalways: only a lower bound is judged (shapes.go, recentDemands): tip trees of local branches and, unless lfs.fetchrecentremoterefs=false, of origin's remote-tracking branches whose tip is younger than the refs window minus half a day; previous versions = pointers at tracked, selected paths replaced by another pointer or deleted by a non-merge commit reachable from a fetched or recent tip through commits inside (tip date - commits window + 12 h), whose object is nowhere in that commit's tree. Extra objects are never judged. Commit dates are relative to the start of the run; the guard bands make the verdict independent of how long the run takes",
		"fetch --dry-run and the form of the --json output are outside the property: counted only (dry_run_objects_gained, fetch_json_*). For every tail fetch and any exit status: working tree untouched and every object that was hash-valid in lfs/objects before is hash-valid afterwards",
		"checkout --to: git-lfs-checkout(1) 'Does not download any content': a stage whose object is not in the local store may fail (counted); with the object local the command must exit 0 and the --to file must hold exactly that stage's bytes (stages read with git ls-files -u + ptrspec); no other working-tree file, the conflicted file included, may change; the usage errors must not create the --to file",
		"faulty scenarios: back-off sleeps of the transfer queue are scaled by 0.02 through the verif-tagged hook (VERIF_RETRY_SCALE) and the verif-tagged event trace (VERIF_TRACE) is read for counters only (queue retries, delayed-smudge fallbacks); neither takes part in a verdict",
		"faulty scenarios: after a git clone / git checkout / git reset that exits non-zero the scenario ends (index and HEAD may disagree); after a failed lfs fetch / pull it goes on, and every later expectation is computed from the state observed right before the command (working-tree snapshot, hash-valid local objects)",
	}
	nrepos := run.N(12, 150)
	nbase := run.N(8, 16)
	nextra := run.N(2, 3) // template 8: reference store not linked yet
	nscen := nbase + nextra
	nwide := run.N(2, 10)  // template 9: wide trees with duplicated content
	nwscen := run.N(8, 12) // scenarios per wide source
	run.SetMinEvaluations((nrepos*nscen + nwide*nwscen) / 2)

	cpus := runtime.NumCPU()
	sem := make(chan struct{}, cpus)
	slots := make(chan struct{}, cpus)
	var wg sync.WaitGroup
	var order []int
	for i := nrepos; i < nrepos+nwide; i++ {
		order = append(order, i) // the wide sources first: they take longest
	}
	for i := 0; i < nrepos; i++ {
		order = append(order, i)
	}
	for _, i := range order {
		slots <- struct{}{}
		wg.Add(1)
		go func(i int) {
			defer wg.Done()
			defer func() { <-slots }()
			var src *source
			func() {
				sem <- struct{}{}
				defer func() { <-sem }()
				defer func() {
					if x := recover(); x != nil {
						run.Inconclusive(fmt.Sprintf("repo %d: source generation failed: %v", i, x))
						src = nil
					}
				}()
				if i >= nrepos {
					src = genWideSource(run, i)
				} else {
					src = genSource(run, i)
				}
			}()
			if src == nil {
				return
			}
			defer src.close()
			var w2 sync.WaitGroup
			ns := nscen + recentFaultScenarios(src, run.Seed)
			if src.wide {
				ns = nwscen
			}
			for k := 0; k < ns; k++ {
				w2.Add(1)
				go func(k int) {
					defer w2.Done()
					sem <- struct{}{}
					defer func() { <-sem }()
					runScenario(run, src, k, nbase, nextra)
				}(k)
			}
			w2.Wait()
			src.cc.mu.Lock()
			run.Count("matcher_crosschecks_vs_git_check_ignore", src.cc.checks)
			bad := src.cc.badness
			src.cc.mu.Unlock()
			for _, b := range bad {
				run.Inconclusive("driver matcher disagrees with git check-ignore (driver bug): " + b)
			}
			for _, rq := range src.srv.Log() {
				run.Count("server_requests_"+rq.Kind, 1)
			}
		}(i)
	}
	wg.Wait()
	run.Finish()
}

func sortedKeys(m map[string]bool) []string {
	var ks []string
	for k := range m {
		ks = append(ks, k)
	}
	sort.Strings(ks)
	return ks
}
