package main

// Template 10: `git lfs fetch --recent <remote> <one ref>` (or lfs.fetchrecentalways=true) where a branch OTHER than
// the named ref counts as recent and needs an object that the named ref does not need, that is not local, and whose
// storage GET fails every time (503 or 404; lfs.transfer.maxretries 1 or 2). Sibling: lfs.fetchrecentcommitsdays > 0
// with such a fault on a previous-version object. The command's own selection covers that object (reference model:
// recentDemands), so exit 0 is only correct if it is in the local store; a non-zero exit is simply counted.
//
// Sources with recent commit dates run two of these (recent-ref tip, previous version), every second other source
// one (refs window of 100000 days: every branch is recent).

import (
	"fmt"
	"math/rand"
	"sort"
)

func recentFaultScenarios(src *source, seed int64) int {
	switch {
	case src.wide:
		return 0
	case src.dated:
		return 2
	case (src.idx+int(seed%2))%2 == 0:
		return 1
	}
	return 0
}

func genRecentFaultPlan(r *rand.Rand, src *source, j int, seed int64) plan {
	ref := src.pickRef(r, "main") // a ref other than main: main is the branch that is recent in dated sources
	p := plan{Kind: 10, Ref: ref.Name, RefKind: ref.Kind, Skip: true, Store: "empty"}
	p.URLVia = []string{"dash-c", "clone-config", "home"}[r.Intn(3)]
	p.Driver = []string{"process", "process", "smudge"}[r.Intn(3)]
	p.CfgVia = []string{"home", "dash-c", "clone-config"}[r.Intn(3)]
	n := src.idx/2 + j + int(seed%1000)
	o := opPlan{Kind: "lfs-fetch", Shape: "recent-fault", RefsDays: 100000, CommitsDays: 0, Refs: []string{ref.revName()}, FaultVictim: "recent-ref-tip"}
	if src.dated {
		o.RefsDays = []int{7, 3}[n%2]
		if j == 1 {
			o.FaultVictim = "recent-previous-version"
			o.CommitsDays = []int{1, 3, 7}[n%3]
		}
	}
	switch n % 4 {
	case 0:
		o.Recent = true
	case 1:
		o.RecentAlways, o.AlwaysViaC, o.JSON = true, true, true
	case 2:
		o.Recent, o.JSON = true, true
	default:
		o.RecentAlways = true
	}
	if n%3 == 0 {
		e := []pat{}
		o.Inc = &e // -I "" as in the first witness of the defect this template pins down
	}
	if r.Intn(2) == 0 {
		p.Ops = append(p.Ops, opPlan{Kind: "lfs-fetch"}) // the named ref's objects are local already
	}
	p.Ops = append(p.Ops, o)
	return p
}

// armRecentVictim arms a persistent GET fault for exactly one object that only a recent ref (or only the commits
// window) makes the command need: in the reference model's demands, not in the tree of any named ref, not local.
func (s *scn) armRecentVictim(c *opCtx, o opPlan) {
	if s.fs == nil {
		return
	}
	named := map[string]bool{}
	for _, rev := range o.Refs {
		for _, pi := range ptrsAt(s.env, s.model, rev) {
			named[pi.Oid] = true
		}
	}
	tips := map[string]bool{}
	ds := s.recentDemands(c, o, o.Refs)
	for _, d := range ds {
		if d.shape == "recent-ref-tip" {
			tips[d.pi.Oid] = true
		}
	}
	var cands []string
	seen := map[string]bool{}
	for _, d := range ds {
		oid := d.pi.Oid
		if d.shape != o.FaultVictim || named[oid] || seen[oid] || (o.FaultVictim == "recent-previous-version" && tips[oid]) {
			continue
		}
		seen[oid] = true
		if _, has := s.src.srv.Get(s.srvRepo, oid); !has || s.localValid(oid) {
			continue
		}
		cands = append(cands, oid)
	}
	if len(cands) == 0 {
		s.run.Count("recent_fault_scenarios_without_a_victim_"+o.FaultVictim, 1)
		return
	}
	sort.Strings(cands)
	oid := cands[s.fr.Intn(len(cands))]
	s.fs.mu.Lock()
	s.fs.victims[oid] = &victimState{n: 1 << 30, size: len(s.src.g.Contents[oid])}
	s.fs.mu.Unlock()
	s.fp.ArmedAt = "lfs-fetch"
	s.fp.Script = map[string]int{oid: 1 << 30}
	s.fp.armings++
	s.run.Count("fault_scripts_armed", 1)
	s.run.Count("fault_scripts_armed_at_lfs-fetch", 1)
	if o.FaultVictim == "recent-ref-tip" {
		s.run.Count("recent_ref_fetches_with_fault_on_object_only_the_recent_ref_needs", 1)
	} else {
		s.run.Count("recent_fetches_with_fault_on_a_previous_version_object", 1)
	}
	s.run.Count(fmt.Sprintf("recent_fault_fetches_%s", s.fp.Kind), 1)
}
