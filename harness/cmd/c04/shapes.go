package main

// Rare shapes of `git lfs fetch` and `git lfs checkout`, appended as the LAST
// operation of a sample of the scenarios (own random stream: everything before
// the tail is what it was without it).
//
//	fetch --all [origin [refs]]     every object referenced by any commit reachable from all refs / the given refs;
//	                                configured include/exclude are ignored (git-lfs-fetch(1), --all)
//	fetch --recent / fetchrecentalways   lower bound of git-lfs-fetch(1) "Recent changes" (see recentDemands)
//	fetch origin refA refB <sha>    union of the trees of the arguments, selected by include/exclude
//	fetch --refetch                 as the plain form; objects already present are fetched again
//	fetch --dry-run                 nothing demanded (not in the property), counted
//	fetch --json                    as the plain form, output counted
//	checkout --to F --base|--ours|--theirs P   during a real merge conflict on the LFS path P
//
// For every tail fetch, whatever its exit status: the working tree is untouched
// and every object that was hash-valid in lfs/objects before the command still is
// ("an intact local store stays intact").

import (
	"encoding/json"
	"fmt"
	"math/rand"
	"os"
	"path/filepath"
	"strconv"
	"strings"
	"time"

	"verif/harness/histgen"
	"verif/harness/ptrspec"
	"verif/harness/sbx"
)

// commit ages of the dated source repositories (days); windows are {0,1,3,7} days and the oracle keeps a
// guard band of half a day, so an age is either clearly inside or not demanded
var datedAges = []time.Duration{7 * time.Hour, 36 * time.Hour, 60 * time.Hour, 5 * 24 * time.Hour, 9 * 24 * time.Hour, 12 * 24 * time.Hour, 30 * 24 * time.Hour}

func isDated(seed int64, idx int) bool { return (idx+int(seed%4))%4 == 2 }

// ---------- per-commit reference data of a source repository (cached; commits have the same ids in every clone) ----------

type commitData struct {
	ptrs   []pinfo
	byPath map[string]pinfo
	paths  map[string]bool // every path of the tree
	oids   map[string]bool
}

func (src *source) commit(sha string) *commitData {
	src.cmu.Lock()
	defer src.cmu.Unlock()
	if cd := src.commits[sha]; cd != nil {
		return cd
	}
	if src.cmodel == nil {
		src.cmodel = histgen.NewModel(src.env, src.g.Dir)
		src.commits = map[string]*commitData{}
	}
	cd := &commitData{byPath: map[string]pinfo{}, paths: map[string]bool{}, oids: map[string]bool{}}
	cd.ptrs = ptrsAt(src.env, src.cmodel, sha)
	for _, pi := range cd.ptrs {
		cd.byPath[pi.Path] = pi
		cd.oids[pi.Oid] = true
	}
	for _, e := range histgen.LsTree(src.env, src.g.Dir, sha) {
		cd.paths[e.Path] = true
	}
	src.commits[sha] = cd
	return cd
}

// ---------- additions to the generated history ----------

const tagOnlyName = "verif-tagonly"

// extend adds to the histgen history what the rare shapes need:
//   - a commit that is reachable from a tag only (annotated or not), with an LFS object of its own: fetch --all must find it;
//   - dated sources: three commits on main, 7-9 hours old, each rewriting the same two LFS paths with fresh content, so
//     that previous versions exist that are in no tip tree (only the commits window of fetch --recent reaches them).
func (src *source) extend(r *rand.Rand) {
	g, env := src.g, src.env
	cur := strings.TrimSpace(env.MustGit(g.Dir, "rev-parse", "--abbrev-ref", "HEAD"))
	fresh := func(rel string) {
		b := make([]byte, 200+r.Intn(2500))
		r.Read(b)
		full := filepath.Join(g.Dir, filepath.FromSlash(rel))
		os.MkdirAll(filepath.Dir(full), 0o755)
		os.Remove(full)
		if err := os.WriteFile(full, b, 0o644); err != nil {
			panic(err)
		}
	}
	commit := func(msg string, when time.Time) {
		d := when.Format(time.RFC3339)
		env.MustGit(g.Dir, "add", "-A")
		if res := env.Run(sbx.RunOpt{Dir: g.Dir, Env: []string{"GIT_AUTHOR_DATE=" + d, "GIT_COMMITTER_DATE=" + d}}, "git", "commit", "-q", "-m", msg); !res.OK() {
			panic("extend: commit failed: " + res.String())
		}
	}
	if src.dated {
		env.MustGit(g.Dir, "checkout", "-q", "main")
		var files []string
		for _, f := range strings.Split(env.MustGit(g.Dir, "ls-files", "-z", "--", "*.bin"), "\x00") {
			if fi, err := os.Lstat(filepath.Join(g.Dir, filepath.FromSlash(f))); f != "" && err == nil && fi.Mode().IsRegular() {
				files = append(files, f)
			}
		}
		r.Shuffle(len(files), func(i, j int) { files[i], files[j] = files[j], files[i] })
		if len(files) > 2 {
			files = files[:2]
		}
		if len(files) == 0 {
			files = []string{"churn.bin"}
		}
		for j := 0; j < 3; j++ {
			for _, f := range files {
				fresh(f)
			}
			commit(fmt.Sprintf("churn %d: rewrite %q", j, files), startTime.Add(-time.Duration(9-j)*time.Hour))
		}
		g.Log = append(g.Log, fmt.Sprintf("extend: 3 recent commits on main rewriting %q", files))
	}
	env.MustGit(g.Dir, "checkout", "-q", "--detach")
	fresh("tag only/only.bin")
	when := time.Date(2024, 6, 1, 12, 0, 0, 0, time.UTC)
	if src.dated {
		when = startTime.Add(-60 * time.Hour)
	}
	commit("reachable from a tag only", when)
	if r.Intn(2) == 0 {
		env.MustGit(g.Dir, "tag", tagOnlyName)
	} else {
		env.MustGit(g.Dir, "tag", "-a", "-m", "annotated", tagOnlyName)
	}
	g.Log = append(g.Log, "extend: commit reachable only from tag "+tagOnlyName)
	if cur == "HEAD" || cur == "" {
		cur = "main"
	}
	env.MustGit(g.Dir, "checkout", "-q", cur)
	g.IndexContents()
}

// ---------- generation ----------

var tailShapes = []string{"all", "refetch", "checkout-to", "json", "dry-run", "all-refs", "recent", "multi", "refetch-refs", "recent-commits", "json-all", "recent-always", "dry-run-all", "recent-commits"}
var tailShapesDated = []string{"recent", "recent-always", "all", "recent-commits", "checkout-to", "recent-json", "refetch", "recent-always", "recent"}

// genTail: the tail operation of scenario k of source src (nil = none). Undated sources: every second scenario,
// rotating through tailShapes; dated sources: every scenario, mostly the recent shapes.
func genTail(seed int64, src *source, k, nscen int, p plan) *opPlan {
	slot := src.idx*nscen + k + int(seed%1009)
	var shape string
	if src.dated {
		shape = tailShapesDated[slot%len(tailShapesDated)]
	} else {
		if slot%2 != 0 {
			return nil
		}
		shape = tailShapes[(slot/2)%len(tailShapes)]
	}
	r := rand.New(rand.NewSource(seed*4000037 + int64(src.idx)*1021 + int64(k)*13 + 9))
	var ref refInfo
	for _, ri := range src.refs {
		if ri.Name == p.Ref && ri.Kind == p.RefKind {
			ref = ri
		}
	}
	paths := ptrPaths(ref.Ptrs)
	force := src.idx + k + 1
	o := &opPlan{Kind: "lfs-fetch", Shape: shape, RefsDays: -1, CommitsDays: -1}
	filters := func(prob int) {
		o.Inc = optPats(r, paths, prob, 5, force+11)
		o.Exc = optPats(r, paths, prob*3/4, 5, force+13)
	}
	someRefs := func(n int, withSha bool) {
		seen := map[string]bool{}
		for i := 0; i < 8 && len(o.Refs) < n; i++ {
			ri := src.pickRef(r, "")
			name := ri.revName()
			if withSha && len(o.Refs) == n-1 {
				// a commit that need not be the tip of anything
				name = ri.Sha
				if r.Intn(2) == 0 && src.env.PlainGit(src.g.Dir, "rev-parse", "-q", "--verify", ri.Sha+"~1^{commit}").OK() {
					name = ri.Sha + "~1"
				}
			}
			if !seen[name] {
				seen[name] = true
				o.Refs = append(o.Refs, name)
			}
		}
	}
	windows := []int{0, 1, 3, 7}
	recent := func() {
		o.RefsDays = windows[r.Intn(4)]
		o.CommitsDays = windows[r.Intn(4)]
		if r.Intn(5) == 0 {
			o.RefsDays = -1 // default: 7
		}
		if r.Intn(5) == 0 {
			o.CommitsDays = -1 // default: 0
		}
		o.RemoteRefs = []string{"", "", "true", "false"}[r.Intn(4)]
		filters(20)
		if r.Intn(4) == 0 {
			someRefs(1+r.Intn(2), false)
		}
	}
	switch shape {
	case "all":
		o.All = true
	case "all-refs":
		o.All = true
		someRefs(1+r.Intn(2), r.Intn(2) == 0)
	case "json-all":
		o.All, o.JSON = true, true
	case "dry-run-all":
		o.All, o.DryRun = true, true
	case "refetch":
		o.Refetch = true
		filters(12)
		o.FaultTail = r.Intn(3) != 0
	case "refetch-refs":
		o.Refetch = true
		someRefs(1+r.Intn(2), false)
		o.FaultTail = r.Intn(3) != 0
	case "json":
		o.JSON = true
		filters(30)
		if r.Intn(2) == 0 {
			someRefs(1+r.Intn(2), false)
		}
	case "dry-run":
		o.DryRun = true
		filters(30)
		if r.Intn(2) == 0 {
			someRefs(1+r.Intn(2), false)
		}
	case "multi":
		filters(35)
		someRefs(3, true)
	case "recent":
		o.Recent = true
		recent()
	case "recent-commits":
		// previous versions: a non-zero commits window
		o.Recent = true
		recent()
		o.CommitsDays = []int{1, 3, 7}[r.Intn(3)]
	case "recent-json":
		o.Recent, o.JSON = true, true
		recent()
	case "recent-always":
		o.RecentAlways = true
		recent()
	case "checkout-to":
		o.Kind = "lfs-checkout-to"
		o.ToInside = r.Intn(2) == 0
		o.BaseLocal = r.Intn(4) != 0
		o.NewFile = r.Intn(3) == 0
		o.Stages = []string{"base", "ours", "theirs"}
		r.Shuffle(3, func(i, j int) { o.Stages[i], o.Stages[j] = o.Stages[j], o.Stages[i] })
	}
	if o.FaultTail {
		o.FaultKind = []string{"get-503-beyond-retries", "get-503-persistent", "batch-404-once", "get-503-beyond-retries"}[r.Intn(4)]
	}
	return o
}

func shapeArgs(o opPlan) []string {
	var a []string
	if o.All {
		a = append(a, "--all")
	}
	if o.Recent {
		a = append(a, "--recent")
	}
	if o.Refetch {
		a = append(a, "--refetch")
	}
	if o.DryRun {
		a = append(a, "--dry-run")
	}
	if o.JSON {
		a = append(a, "--json")
	}
	return a
}

// shapeSetup writes the configuration of the recent shapes into the clone.
func (s *scn) shapeSetup(o opPlan) {
	set := func(k, v string) { s.mustSetup(s.git("setup", nil, "config", k, v)) }
	if o.RefsDays >= 0 {
		set("lfs.fetchrecentrefsdays", fmt.Sprint(o.RefsDays))
	}
	if o.CommitsDays >= 0 {
		set("lfs.fetchrecentcommitsdays", fmt.Sprint(o.CommitsDays))
	}
	if o.RemoteRefs != "" {
		set("lfs.fetchrecentremoterefs", o.RemoteRefs)
	}
	if o.RecentAlways && !o.AlwaysViaC {
		set("lfs.fetchrecentalways", "true")
	}
}

// validStore: oids whose file under lfs/objects hashes to its name.
func (s *scn) validStore() map[string]bool {
	out := map[string]bool{}
	for rel, e := range sbx.SnapshotLFS(s.gitDir) {
		if strings.HasPrefix(rel, "objects/") && filepath.Base(rel) == e.Sha {
			out[e.Sha] = true
		}
	}
	s.run.Count("store_snapshots", 1)
	return out
}

// ---------- oracle parts ----------

type demand struct {
	pi    pinfo
	why   string
	shape string // trigger coordinate
}

// allDemands: --all. Tracked pointers in the tree of every commit reachable from the given revisions (all refs if none).
func (s *scn) allDemands(revs []string) []demand {
	args := []string{"--all"}
	if len(revs) > 0 {
		args = revs
	}
	var out []demand
	seen := map[string]bool{}
	commits := s.model.RevList(args...)
	s.run.Count("fetch_all_commits_enumerated", int64(len(commits)))
	for _, cm := range commits {
		for _, pi := range s.src.commit(cm).ptrs {
			if !pi.Tracked {
				s.run.Count("untracked_pointer_paths_not_judged", 1)
				continue
			}
			if !seen[pi.Oid] {
				seen[pi.Oid] = true
				out = append(out, demand{pi, fmt.Sprintf("(commit %.10s)", cm), ""})
			}
		}
	}
	return out
}

type branchTip struct {
	name string
	sha  string
	age  float64 // days
}

// recentDemands: the lower bound of git-lfs-fetch(1), section "Recent changes".
//
//   - recent refs (lfs.fetchrecentrefsdays = N > 0, default 7): "includes branches which have commits within N days of
//     the current date. Only local refs are included unless lfs.fetchrecentremoterefs is true" (default true; "remote refs
//     (for the remote you're fetching)"). Weakest reading: local branches, and remote-tracking branches of origin unless
//     the option is false, whose TIP commit is younger than N days minus a guard band of half a day; their tip trees,
//     selected by include/exclude. Tags are not demanded.
//   - previous versions (lfs.fetchrecentcommitsdays = M > 0, default 0): "also fetches changes made within M days of the
//     latest commit on the branch", for the fetched refs and the recent refs. Weakest reading (as in the C05 oracle): a
//     pointer at an LFS-tracked, selected path that a NON-MERGE commit replaced by another pointer or deleted, where that
//     commit is reachable from the tip through commits that are all younger than (tip date - M days + 12 h), and the
//     object no longer occurs anywhere in that commit's tree.
func (s *scn) recentDemands(c *opCtx, o opPlan, fetched []string) []demand {
	refsDays, commitsDays := o.RefsDays, o.CommitsDays
	if refsDays < 0 {
		refsDays = 7
	}
	if commitsDays < 0 {
		commitsDays = 0
	}
	var out []demand
	if refsDays == 0 && commitsDays == 0 {
		return nil
	}
	tips := map[string]string{} // commit -> name
	for _, rev := range fetched {
		if res := s.env.PlainGit(s.clone, "rev-parse", "-q", "--verify", rev+"^{commit}"); res.OK() {
			tips[strings.TrimSpace(string(res.Stdout))] = rev
		}
	}
	if refsDays > 0 {
		pats := []string{"refs/heads"}
		if o.RemoteRefs != "false" {
			pats = append(pats, "refs/remotes/origin")
		}
		res := s.env.PlainGit(s.clone, append([]string{"for-each-ref", "--format=%(refname) %(objectname) %(committerdate:unix) %(symref)"}, pats...)...)
		now := time.Now().Unix()
		for _, l := range strings.Split(string(res.Stdout), "\n") {
			f := strings.Fields(l)
			if len(f) != 3 { // a 4th field = symbolic ref (refs/remotes/origin/HEAD)
				continue
			}
			ts, err := strconv.ParseInt(f[2], 10, 64)
			if err != nil {
				continue
			}
			s.run.Count("recent_branches_examined", 1)
			age := float64(now-ts) / 86400
			if age > float64(refsDays)-0.5 {
				continue
			}
			s.run.Count("recent_branches_in_window", 1)
			if _, dup := tips[f[1]]; !dup {
				tips[f[1]] = f[0]
			}
			for _, pi := range s.src.commit(f[1]).ptrs {
				if !pi.Tracked {
					continue
				}
				if selected(c.inc, c.exc, pi.Path) {
					out = append(out, demand{pi, fmt.Sprintf("(tip %.10s of %s, %.1f days old, lfs.fetchrecentrefsdays %d)", f[1], f[0], age, refsDays), "recent-ref-tip"})
				}
			}
		}
	}
	if commitsDays > 0 && len(tips) > 0 {
		var tl []string
		for t := range tips {
			tl = append(tl, t)
		}
		res := s.env.PlainGit(s.clone, append([]string{"rev-list", "--parents", "--timestamp"}, tl...)...)
		type ci struct {
			ts      int64
			parents []string
		}
		graph := map[string]ci{}
		for _, l := range strings.Split(string(res.Stdout), "\n") {
			f := strings.Fields(l)
			if len(f) >= 2 {
				ts, _ := strconv.ParseInt(f[0], 10, 64)
				graph[f[1]] = ci{ts, f[2:]}
			}
		}
		for _, tip := range sortedKeys(func() map[string]bool {
			m := map[string]bool{}
			for t := range tips {
				m[t] = true
			}
			return m
		}()) {
			ti, ok := graph[tip]
			if !ok {
				continue
			}
			limit := ti.ts - int64(commitsDays)*86400 + 43200
			seen := map[string]bool{}
			stack := []string{tip}
			for len(stack) > 0 {
				cm := stack[len(stack)-1]
				stack = stack[:len(stack)-1]
				if seen[cm] {
					continue
				}
				seen[cm] = true
				x, ok := graph[cm]
				if !ok || x.ts < limit {
					continue
				}
				stack = append(stack, x.parents...)
				if len(x.parents) != 1 {
					continue
				}
				s.run.Count("recent_commits_in_window_examined", 1)
				old, nw := s.src.commit(x.parents[0]), s.src.commit(cm)
				for _, opi := range old.ptrs {
					npi, has := nw.byPath[opi.Path]
					replaced := has && npi.Oid != opi.Oid
					deleted := !has && !nw.paths[opi.Path]
					if !replaced && !deleted {
						continue
					}
					s.run.Count("recent_previous_versions_seen", 1)
					switch {
					case !opi.Tracked:
						s.run.Count("recent_previous_versions_not_demanded_untracked_path", 1)
					case nw.oids[opi.Oid]:
						s.run.Count("recent_previous_versions_not_demanded_object_still_in_tree", 1)
					case !selected(c.inc, c.exc, opi.Path):
						s.run.Count("recent_previous_versions_not_demanded_excluded", 1)
					default:
						out = append(out, demand{opi, fmt.Sprintf("(previous version: replaced or deleted by commit %.10s, within %d days before tip %.10s of %s)", cm, commitsDays, tip, tips[tip]), "recent-previous-version"})
					}
				}
			}
		}
	}
	return out
}

// ---------- checkout --to during a merge conflict ----------

func (s *scn) runCheckoutTo(o opPlan) {
	skipEnv := []string{"GIT_LFS_SKIP_SMUDGE=1"}
	setup := func(args ...string) bool {
		res := s.git("setup-conflict", skipEnv, args...)
		return res.OK()
	}
	giveUp := func(why string) {
		s.run.Count("checkout_to_setup_abandoned_"+why, 1)
	}
	if !setup("reset", "-q", "--hard") {
		giveUp("reset")
		return
	}
	// the conflicted path: an LFS-tracked pointer path of HEAD, or a new *.bin file
	var cands []pinfo
	for _, pi := range ptrsAt(s.env, s.model, "HEAD") {
		if pi.Tracked {
			cands = append(cands, pi)
		}
	}
	tr := rand.New(rand.NewSource(s.r.Int63()))
	path := ""
	if len(cands) > 0 && !o.NewFile {
		path = cands[tr.Intn(len(cands))].Path
	} else {
		path = "verif conflict.bin"
		if res := s.env.PlainGit(s.clone, "check-attr", "filter", "--", path); !strings.HasSuffix(strings.TrimSpace(string(res.Stdout)), ": lfs") {
			giveUp("new-file-not-tracked")
			return
		}
		b := make([]byte, 1+tr.Intn(3000))
		tr.Read(b)
		os.WriteFile(filepath.Join(s.clone, path), b, 0o644)
		if !setup("add", "--", path) || !setup("commit", "-q", "-m", "base of the conflict") {
			giveUp("base-commit")
			return
		}
	}
	full := filepath.Join(s.clone, filepath.FromSlash(path))
	side := func(branch, from string) ([]byte, bool) {
		if !setup("checkout", "-q", "-b", branch, from) {
			return nil, false
		}
		b := make([]byte, 1+tr.Intn(3000))
		tr.Read(b)
		os.Remove(full)
		if err := os.WriteFile(full, b, 0o644); err != nil {
			return nil, false
		}
		return b, setup("add", "--", path) && setup("commit", "-q", "-m", branch+" modifies "+path)
	}
	theirs, ok1 := side("verif-theirs", "HEAD")
	ours, ok2 := []byte(nil), false
	if ok1 {
		ours, ok2 = side("verif-ours", "verif-theirs~1")
	}
	if !ok1 || !ok2 {
		giveUp("side-commits")
		return
	}
	mres := s.git("setup-conflict", skipEnv, "merge", "-q", "--no-edit", "verif-theirs")
	// the three stages according to plain git
	type stage struct {
		oid  string
		size int64
		want []byte
	}
	stages := map[string]*stage{}
	lres := s.env.PlainGit(s.clone, "ls-files", "-u", "-z", "--", path)
	for _, rec := range strings.Split(string(lres.Stdout), "\x00") {
		tab := strings.IndexByte(rec, '\t')
		if tab < 0 {
			continue
		}
		f := strings.Fields(rec[:tab])
		if len(f) != 3 {
			continue
		}
		p, ok := ptrspec.ParseCanonical(histgen.Blob(s.env, s.clone, f[1]))
		if !ok {
			continue
		}
		name := map[string]string{"1": "base", "2": "ours", "3": "theirs"}[f[2]]
		stages[name] = &stage{oid: p.Oid, size: p.Size}
	}
	if mres.OK() || len(stages) != 3 {
		giveUp("no-conflict")
		return
	}
	s.run.Count("merge_conflicts_on_lfs_paths_set_up", 1)
	stages["ours"].want, stages["theirs"].want = ours, theirs
	if b, ok := s.src.g.Contents[stages["base"].oid]; ok {
		stages["base"].want = b
	} else if b, err := os.ReadFile(sbx.ObjectPath(s.gitDir, stages["base"].oid)); err == nil {
		stages["base"].want = b // the new file's base, stored by the clean filter
	}
	for n, st := range stages {
		if st.want == nil || sbx.Sha256Hex(st.want) != st.oid {
			s.run.Inconclusive(fmt.Sprintf("repo %d scenario %d: checkout --to: the driver does not know the bytes of stage %s (driver bug)", s.src.idx, s.k, n))
			return
		}
	}
	if o.BaseLocal {
		s.seedObject(filepath.Join(s.gitDir, "lfs", "objects"), stages["base"].oid)
	}
	changedBut := func(pre, post map[string]fstate, except string) []string {
		all := map[string]bool{}
		for p := range pre {
			all[p] = true
		}
		for p := range post {
			all[p] = true
		}
		var bad []string
		for _, p := range sortedKeys(all) {
			a, aok := pre[p]
			b, bok := post[p]
			s.run.Count("files_compared", 1)
			if p != except && !sameState(a, aok, b, bok) {
				bad = append(bad, p)
			}
		}
		return bad
	}
	toDir := filepath.Join(s.env.Root, "conflict-out")
	os.MkdirAll(toDir, 0o755)
	run1 := func(label string, toName string, flags []string) (sbx.Result, string, string, map[string]fstate, map[string]fstate) {
		toArg, toFull, inside := filepath.Join(toDir, toName), filepath.Join(toDir, toName), ""
		if o.ToInside {
			toArg, toFull, inside = toName, filepath.Join(s.clone, toName), toName
		}
		pre := snapshot(s.clone)
		args := append([]string{"lfs", "checkout", "--to", toArg}, flags...)
		args = append(args, path)
		res := s.exec("lfs-checkout-to", s.clone, nil, "git", args...)
		return res, toFull, inside, pre, snapshot(s.clone)
	}
	for _, name := range o.Stages {
		if s.stop {
			return
		}
		st := stages[name]
		trig := "lfs-checkout-to-" + name
		local := s.localValid(st.oid)
		res, toFull, inside, pre, post := run1(name, "to "+name+".dat", []string{"--" + name})
		s.run.Count("scenario_ops_lfs-checkout-to", 1)
		s.run.Count("checkout_to_stage_"+name, 1)
		if bad := changedBut(pre, post, inside); len(bad) > 0 {
			s.viol("bystander-modified", trig, fmt.Sprintf("git lfs checkout --to … --%s %q changed other working-tree files: %q (exit %d)", name, path, bad, res.Code))
		}
		if !local {
			s.run.Count("checkout_to_object_not_local", 1)
			if !res.OK() {
				s.run.Count("checkout_to_object_not_local_exit_nonzero", 1)
				continue // checkout does not download: nothing promised
			}
		} else if !res.OK() {
			s.viol("checkout-to-failed", trig, fmt.Sprintf("during a merge conflict on %q with the object of stage %s (%s) in the local store: git lfs checkout --to --%s exited %d: %s", path, name, st.oid[:12], name, res.Code, sbx.Trunc(res.Stderr, 600)))
			continue
		}
		sha, n, err := sbx.Sha256File(toFull)
		s.run.Count("bytes_compared", n)
		if err != nil || sha != st.oid || n != st.size {
			which := "something else"
			for on, os2 := range stages {
				if err == nil && sha == os2.oid {
					which = "the object of stage " + on
				}
			}
			if err != nil {
				which = "nothing (" + err.Error() + ")"
			}
			s.viol("checkout-to-wrong-content", trig, fmt.Sprintf("git lfs checkout --to --%s %q exited 0; the --to file should hold the %d bytes of %s, holds %s", name, path, st.size, st.oid[:12], which))
		} else {
			s.run.Count("checkout_to_files_verified", 1)
		}
	}
	// usage errors must not write anything
	for _, e := range []struct {
		label string
		flags []string
	}{{"no-stage", nil}, {"two-stages", []string{"--ours", "--theirs"}}} {
		if s.stop {
			return
		}
		res, toFull, _, pre, post := run1(e.label, "to "+e.label+".dat", e.flags)
		s.run.Count("checkout_to_usage_error_"+e.label, 1)
		if res.OK() {
			s.run.Count("checkout_to_usage_error_exit_zero", 1)
		}
		if bad := changedBut(pre, post, ""); len(bad) > 0 {
			s.viol("bystander-modified", "lfs-checkout-to-usage-"+e.label, fmt.Sprintf("git lfs checkout --to with %v (usage error, exit %d) changed the working tree: %q", e.flags, res.Code, bad))
		} else if _, err := os.Lstat(toFull); err == nil {
			s.viol("checkout-to-wrote-on-usage-error", "lfs-checkout-to-usage-"+e.label, fmt.Sprintf("git lfs checkout --to with %v (usage error, exit %d) created %s", e.flags, res.Code, toFull))
		}
	}
}

// countJSON: --json output, counted only.
func (s *scn) countJSON(stdout []byte) {
	var d struct {
		Transfers []map[string]any `json:"transfers"`
	}
	if i := strings.IndexByte(string(stdout), '{'); i > 0 && json.Unmarshal(stdout[i:], &d) == nil {
		// e.g. "7 objects found, done." in front of the document (fetch --all --json): not in the property, counted
		s.run.Count("fetch_json_output_with_leading_text", 1)
		s.run.Count("fetch_json_transfers_listed", int64(len(d.Transfers)))
		return
	}
	if err := json.Unmarshal(stdout, &d); err != nil {
		if os.Getenv("VERIF_C04_DEBUG") != "" {
			fmt.Fprintf(os.Stderr, "JSON-UNPARSEABLE repo %d scen %d: %q\n", s.src.idx, s.k, sbx.Trunc(stdout, 600))
		}
		s.run.Count("fetch_json_output_not_parseable", 1)
		return
	}
	s.run.Count("fetch_json_outputs_parsed", 1)
	s.run.Count("fetch_json_transfers_listed", int64(len(d.Transfers)))
}
