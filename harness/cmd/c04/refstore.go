package main

// Template 8: "objects present only in the reference store, nothing linked yet".
//
// A clone borrows from a reference repository through objects/info/alternates; git-lfs looks for LFS objects in
// <alternate>/../lfs/objects and links or copies them into the local store when a command needs them. In the other
// templates the borrowed objects are usually linked by the clone's own smudge. Here the clone is made in a way that
// keeps git-lfs from looking at the reference store, and only then the operation under test runs:
//
//	nolfs-clone        git -c filter.lfs.smudge= -c filter.lfs.process= -c filter.lfs.required=false clone --reference R
//	                   (a clone made before Git LFS was set up for the user)
//	skip-smudge        GIT_LFS_SKIP_SMUDGE=1 git clone --reference R
//	alternates-after   GIT_LFS_SKIP_SMUDGE=1 git clone, then "R/objects" appended to .git/objects/info/alternates
//	ref-filled-later   GIT_LFS_SKIP_SMUDGE=1 git clone --reference R while R has no LFS objects; they arrive in R afterwards
//	no-checkout        git clone --no-checkout --reference R, then git reset --hard smudges from the unlinked store
//
// x {full, partial} reference store x first operation {lfs checkout, lfs checkout <paths>, lfs pull, lfs fetch,
// git checkout <other ref>}. Lower bound judged (what the pinned tree does, and the reading of "intact local store"
// that includes the stores Git itself borrows from): selected path + object hash-valid in the local store OR in the
// reference store => after exit 0 the file holds the original bytes and the local store holds a hash-valid object.
// `git lfs checkout` does not download: a path whose object is in neither store keeps its pointer.

import (
	"math/rand"
	"strings"
)

var refHows = []string{"nolfs-clone", "skip-smudge", "alternates-after", "ref-filled-later", "no-checkout"}
var refFirstOps = []string{"lfs-checkout", "lfs-checkout-paths", "lfs-pull", "lfs-fetch", "git-checkout"}

func genRefPlan(r *rand.Rand, src *source, k, base, extra int, seed int64) plan {
	ref := src.pickRef(r, "")
	paths := ptrPaths(ref.Ptrs)
	p := plan{Kind: 8, Ref: ref.Name, RefKind: ref.Kind}
	p.URLVia = []string{"dash-c", "clone-config", "home"}[r.Intn(3)]
	p.Driver = []string{"process", "process", "smudge"}[r.Intn(3)]
	p.CfgVia = []string{"home", "dash-c", "clone-config"}[r.Intn(3)]
	n := src.idx*extra + (k - base) + int(seed%1000)
	p.RefHow = refHows[n%len(refHows)]
	first := refFirstOps[(n/len(refHows))%len(refFirstOps)]
	p.Store = []string{"reference-full", "reference-subset"}[(n/7)%2]
	p.Skip = true
	if p.RefHow == "no-checkout" {
		p.Skip, p.NoCheckout = false, true
	}
	force := src.idx + k
	if r.Intn(4) == 0 {
		if r.Intn(2) == 0 {
			p.CfgInc = genPatterns(r, 1+r.Intn(2), paths, force)
		} else {
			p.CfgExc = genPatterns(r, 1+r.Intn(2), paths, force)
		}
	}
	other := src.pickRef(r, ref.Name)
	mut := r.Intn(3) == 0
	checkoutPaths := func() opPlan {
		o := opPlan{Kind: "lfs-checkout", Mutate: mut}
		for _, c := range genPatterns(r, 1+r.Intn(2), paths, force) {
			if !strings.HasPrefix(c.Text, "/") {
				o.Paths = append(o.Paths, c)
			}
		}
		return o
	}
	switch first {
	case "lfs-checkout":
		o := opPlan{Kind: "lfs-checkout", Mutate: mut}
		if r.Intn(4) == 0 {
			o.Subdir = true
		}
		p.Ops = append(p.Ops, o)
	case "lfs-checkout-paths":
		p.Ops = append(p.Ops, checkoutPaths())
	case "lfs-pull":
		p.Ops = append(p.Ops, opPlan{Kind: "lfs-pull", Inc: optPats(r, paths, 20, 5, force+7), Exc: optPats(r, paths, 15, 5, force+9), Mutate: mut})
	case "lfs-fetch":
		o := opPlan{Kind: "lfs-fetch", Inc: optPats(r, paths, 20, 5, force+3), Exc: optPats(r, paths, 15, 5, force+5)}
		if r.Intn(2) == 0 {
			o.Refs = []string{other.revName()}
		}
		p.Ops = append(p.Ops, o, opPlan{Kind: "lfs-checkout"})
	case "git-checkout":
		if len(src.refs) > 1 {
			p.Ops = append(p.Ops, opPlan{Kind: "git-checkout", Ref: other.Name})
		} else {
			p.Ops = append(p.Ops, opPlan{Kind: "lfs-checkout"})
		}
	}
	switch r.Intn(3) {
	case 0:
		e1, e2 := []pat{}, []pat{}
		p.Ops = append(p.Ops, opPlan{Kind: "lfs-pull", Inc: &e1, Exc: &e2})
	case 1:
		p.Ops = append(p.Ops, opPlan{Kind: "lfs-checkout"})
	}
	return p
}
