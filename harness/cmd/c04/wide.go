package main

// Template 9: wide trees with duplicated content.
//
// A dedicated source repository (not histgen) holds 30-150 LFS files in one tree, with content deliberately
// duplicated across paths that are far apart in tree order: the first and the last path, the same content in
// different directories, triples. Consumers clone it with GIT_LFS_SKIP_SMUDGE=1 and then run `git lfs pull` (or
// `git lfs fetch` + `git lfs checkout`) with lfs.transfer.batchsize in {1,2,3} and lfs.concurrenttransfers in
// {1,8}, with an empty or a half-filled local store, while the fake server delays some storage GETs by a few
// milliseconds. Inside one pull, downloads therefore complete while the tree scan is still running, in many
// different interleavings, and files later in tree order share their object with files handled earlier.
// The oracle is the usual one: after exit 0 every selected path holds its original bytes.

import (
	"fmt"
	"math/rand"
	"os"
	"path/filepath"
	"sort"
	"time"

	"verif/harness/evid"
	"verif/harness/fakelfs"
	"verif/harness/histgen"
	"verif/harness/sbx"
)

func genWideSource(run *evid.Run, i int) *source {
	r := rand.New(rand.NewSource(run.Seed*6000029 + int64(i)))
	env := sbx.New()
	srv := fakelfs.New()
	src := &source{idx: i, env: env, srv: srv, wide: true}
	dir := env.InitRepo("work")
	g := &histgen.Repo{Env: env, Dir: dir, GitDir: filepath.Join(dir, ".git"), Contents: map[string][]byte{}, Branches: []string{"main"}}
	src.g = g
	write := func(rel string, b []byte) {
		full := filepath.Join(dir, filepath.FromSlash(rel))
		os.MkdirAll(filepath.Dir(full), 0o755)
		if err := os.WriteFile(full, b, 0o644); err != nil {
			panic(err)
		}
	}
	write(".gitattributes", []byte("*.bin filter=lfs diff=lfs merge=lfs -text\n"))
	n := 30 + r.Intn(121)
	// paths in tree order: a_000.bin … at the top, the same count spread over directories, z_last.bin at the very end
	var paths []string
	dirs := []string{"", "", "b dir/", "m/sub/", "m/", "y/"}
	for j := 0; j < n-1; j++ {
		d := dirs[r.Intn(len(dirs))]
		if j < n/4 {
			d = "" // a dense run of early top-level files
		}
		paths = append(paths, fmt.Sprintf("%sa_%03d.bin", d, j))
	}
	paths = append(paths, "z_last.bin")
	sort.Strings(paths) // tree order (top-level a_*.bin, "b dir/", "m/", "m/sub/", "y/", z_last.bin)
	fresh := func() []byte {
		b := make([]byte, 20+r.Intn(1500))
		r.Read(b)
		return b
	}
	content := map[string][]byte{}
	for _, p := range paths {
		content[p] = fresh()
	}
	// duplicates: the last path shares the first path's content; more pairs and triples far apart
	content["z_last.bin"] = content[paths[0]]
	ndup := n/6 + 2
	for j := 0; j < ndup; j++ {
		early := paths[r.Intn(n/3)]
		if j%2 == 0 {
			// the very first paths are the ones whose download is over soonest, long before the scan arrives at the end
			early = paths[r.Intn(3)]
		}
		late := paths[n-1-r.Intn(n/3)]
		content[late] = content[early]
		if j%3 == 0 {
			content[paths[n/3+r.Intn(n/3)]] = content[early] // a triple
		}
	}
	half := paths
	if r.Intn(2) == 0 {
		half = paths[:n/2] // the rest arrives with a second commit; the tag keeps the first tree
	}
	commit := func(msg string) {
		env.MustGit(dir, "add", "-A")
		when := time.Date(2024, 3, 1, 12, len(g.Log), 0, 0, time.UTC).Format(time.RFC3339)
		if res := env.Run(sbx.RunOpt{Dir: dir, Env: []string{"GIT_AUTHOR_DATE=" + when, "GIT_COMMITTER_DATE=" + when}}, "git", "commit", "-q", "-m", msg); !res.OK() {
			panic("wide source: commit failed: " + res.String())
		}
		g.Log = append(g.Log, fmt.Sprintf("commit %q", msg))
	}
	for _, p := range half {
		write(p, content[p])
	}
	g.Log = append(g.Log, fmt.Sprintf("wide tree: %d LFS files, %d duplicate assignments", n, ndup))
	commit("wide tree, first part")
	env.MustGit(dir, "tag", "w1")
	if len(half) < len(paths) {
		for _, p := range paths[len(half):] {
			write(p, content[p])
		}
		commit("wide tree, second part")
	}
	g.IndexContents()
	run.Count("wide_source_repos", 1)
	run.Count("wide_source_files", int64(n))
	src.publish(run)
	return src
}

// genWidePlan: scenario k of a wide source.
func genWidePlan(r *rand.Rand, src *source, k int, seed int64) plan {
	var ref refInfo
	for _, ri := range src.refs {
		if ri.Name == "main" {
			ref = ri
		}
	}
	if k%5 == 4 {
		ref = src.pickRef(r, "")
	}
	paths := ptrPaths(ref.Ptrs)
	p := plan{Kind: 9, Ref: ref.Name, RefKind: ref.Kind, Skip: true}
	p.URLVia = []string{"dash-c", "clone-config", "home"}[r.Intn(3)]
	p.Driver = []string{"process", "process", "smudge"}[r.Intn(3)]
	p.CfgVia = []string{"home", "dash-c", "clone-config"}[r.Intn(3)]
	n := src.idx*7 + k + int(seed%1000)
	p.BatchSize = []int{1, 2, 3}[n%3]
	p.Concurrent = []int{1, 8}[(n/3)%2]
	// preseed-middle: the middle half of the tree (in path order) is local, so the scan spends its time checking
	// those files out while the first downloads complete; the early and the late paths, which share objects, are remote
	p.Store = []string{"preseed-middle", "preseed-subset", "preseed-middle", "empty"}[(n/2)%4]
	p.Delay = []string{"none", "all-2ms", "random-0-5ms", "later-gets-slow"}[(n/5)%4]
	force := src.idx + k
	if k%6 == 1 || k%6 == 4 {
		// an early object uses up its retry budget and is then listed, together with objects that still have theirs,
		// in a batch request that fails: many objects must be waiting, in batches of 2 or 3
		p.ExhaustFault = true
		p.BatchSize = 2 + n%2
		p.Store = []string{"empty", "preseed-middle"}[(n/2)%2]
		p.Delay = "none"
		if k%6 == 4 {
			p.Ops = append(p.Ops, opPlan{Kind: "lfs-fetch"}, opPlan{Kind: "lfs-checkout"})
		} else {
			p.Ops = append(p.Ops, opPlan{Kind: "lfs-pull"})
		}
		e1, e2 := []pat{}, []pat{}
		p.Ops = append(p.Ops, opPlan{Kind: "lfs-pull", Inc: &e1, Exc: &e2})
		return p
	}
	switch k % 6 {
	case 5: // fetch, then lfs checkout of everything (no download races; many files sharing objects)
		p.Ops = append(p.Ops, opPlan{Kind: "lfs-fetch"}, opPlan{Kind: "lfs-checkout"})
	case 3: // pull restricted by patterns, then the rest
		p.Ops = append(p.Ops, opPlan{Kind: "lfs-pull", Inc: optPats(r, paths, 60, 0, force+7), Exc: optPats(r, paths, 40, 0, force+9)})
		e1, e2 := []pat{}, []pat{}
		p.Ops = append(p.Ops, opPlan{Kind: "lfs-pull", Inc: &e1, Exc: &e2})
	default:
		p.Ops = append(p.Ops, opPlan{Kind: "lfs-pull", Mutate: k%6 == 2})
	}
	return p
}

// delayFor: how long the fake server holds back the answer to a storage GET of this scenario.
func delayFor(mode string, seed int64) func(rq *fakelfs.Request) time.Duration {
	n := int64(0)
	return func(rq *fakelfs.Request) time.Duration {
		if rq.Kind != "storage-get" {
			return 0
		}
		n++ // called under the source's delay mutex
		switch mode {
		case "all-2ms":
			return 2 * time.Millisecond
		case "random-0-5ms":
			x := uint64(seed)*0x9e3779b97f4a7c15 + uint64(n)*0xbf58476d1ce4e5b9
			x ^= x >> 29
			return time.Duration(x%6) * time.Millisecond
		case "later-gets-slow":
			if n > 2 {
				return 4 * time.Millisecond
			}
		}
		return 0
	}
}
