package main

// Transient-server-fault dimension (one scenario in three).
//
// The fake server misbehaves for ONE or TWO "victim" objects of the scenario:
// their storage GETs are answered 503 (fewer times than the queue retries,
// exactly once more than it retries, or for ever), the connection is reset,
// the body is cut short, or the batch API reports the object as missing once.
// Everything else is served normally. lfs.transfer.maxretries is 1, 2 or 8.
//
// The oracle is not touched by this: a command that exits 0 must satisfy the
// post-conditions of the property for every selected path; a command that
// exits non-zero while faults were being injected is only counted.

import (
	"bufio"
	"encoding/json"
	"fmt"
	"math/rand"
	"os"
	"sort"
	"strconv"
	"strings"
	"sync"
	"time"

	"verif/harness/evid"
	"verif/harness/fakelfs"
	"verif/harness/sbx"
)

// order matters: the kind of a faulty scenario rotates through this list, and
// every window of four consecutive kinds holds two that make the transfer queue
// give up on the object (beyond-retries, batch-404-once, persistent).
var faultKinds = []string{"get-503-beyond-retries", "get-503-within-retries", "batch-404-once", "get-reset", "get-503-persistent", "get-cut"}

// Scenarios whose first downloading step smudges through Git rotate through this list instead: faults that the
// queue's own retries absorb exercise the same code as under lfs fetch / pull, whereas the path that is peculiar to
// smudging (the delayed download gives up on an object and Git's follow-up smudge request must fetch it again, or
// fail) needs a fault that outlasts the queue.
var faultKindsSmudging = []string{"get-503-beyond-retries", "batch-404-once", "get-503-persistent", "get-503-within-retries", "get-503-beyond-retries", "get-reset", "batch-404-once", "get-cut"}

type faultPlan struct {
	Kind     string
	Retries  int    // lfs.transfer.maxretries
	Via      string // home | dash-c | clone-config
	Target   int    // victims are chosen at every step >= Target that is about to download something (0 = clone / first checkout, i = i-th operation), at most three times
	NVictims int    // per arming
	ArmedAt  string         `json:",omitempty"` // run time: step kinds at which victims were chosen
	Script   map[string]int `json:",omitempty"` // run time: victim oid -> number of faulty answers scripted
	TailOnly bool           `json:",omitempty"` // only the last operation (fetch --refetch) meets the faults; nothing else of the scenario is changed
	armings  int
}

// exhaustKind (wide trees only, wide.go): the storage GET of one or two EARLY objects fails with 503 until their
// per-object retry budget (lfs.transfer.maxretries = 1 or 2) is used up; with lfs.transfer.batchsize 2..3 and many
// objects waiting, the queue then lists such an exhausted object in a batch request together with objects that still
// have budget, and that batch request is answered 429 (once per exhausted object; batch answers are slightly delayed).
const exhaustKind = "exhausted-object-in-failed-batch"

type victimState struct {
	hit429   bool
	n        int // faulty answers scripted
	size     int
	gets     int // storage GETs seen
	batches  int // batch answers falsified
	injected int
}

type faultScript struct {
	mu       sync.Mutex
	run      *evid.Run
	kind     string
	victims  map[string]*victimState
	injected int
}

func (fs *faultScript) total() int {
	fs.mu.Lock()
	defer fs.mu.Unlock()
	return fs.injected
}

func (fs *faultScript) injectedFor(oid string) int {
	fs.mu.Lock()
	defer fs.mu.Unlock()
	if v := fs.victims[oid]; v != nil {
		return v.injected
	}
	return 0
}

func (fs *faultScript) summary() map[string]any {
	fs.mu.Lock()
	defer fs.mu.Unlock()
	out := map[string]any{}
	for oid, v := range fs.victims {
		out[oid] = map[string]int{"scripted": v.n, "gets": v.gets, "injected": v.injected}
	}
	return out
}

func (fs *faultScript) note(v *victimState) {
	v.injected++
	fs.injected++
	fs.run.Count("faults_injected", 1)
	fs.run.Count("faults_injected_"+fs.kind, 1)
}

// answer is called (through the per-source hook) for every request to this scenario's server repository.
func (fs *faultScript) answer(rq *fakelfs.Request) *fakelfs.Fault {
	if fs.kind == exhaustKind && rq.Kind == "batch" {
		time.Sleep(10 * time.Millisecond) // a retried object meets objects that were not sent yet
	}
	fs.mu.Lock()
	defer fs.mu.Unlock()
	if len(fs.victims) == 0 {
		return nil
	}
	switch rq.Kind {
	case "storage-get":
		v := fs.victims[rq.Oid]
		if v == nil {
			return nil
		}
		v.gets++
		if v.gets > v.n {
			return nil
		}
		switch fs.kind {
		case "get-503-beyond-retries", "get-503-within-retries", "get-503-persistent", exhaustKind:
			fs.note(v)
			return &fakelfs.Fault{Status: 503}
		case "get-404-persistent":
			fs.note(v)
			return &fakelfs.Fault{Status: 404}
		case "get-reset":
			fs.note(v)
			return &fakelfs.Fault{Reset: true}
		case "get-cut":
			// the body the server is about to send (a resumed download asks for "bytes=<from>-<to>")
			from, to := 0, v.size-1
			if rg := strings.TrimPrefix(rq.Header.Get("Range"), "bytes="); rg != "" && rg != rq.Header.Get("Range") {
				if i := strings.IndexByte(rg, '-'); i >= 0 {
					from, _ = strconv.Atoi(rg[:i])
					if rg[i+1:] != "" {
						if t, err := strconv.Atoi(rg[i+1:]); err == nil && t < to {
							to = t
						}
					}
				}
			}
			rem := to - from + 1
			if from < 0 || rem < 2 {
				return nil // nothing to cut
			}
			fs.note(v)
			return &fakelfs.Fault{CloseAfter: rem / 2}
		}
	case "batch":
		if fs.kind == exhaustKind {
			objs, _ := rq.JSON["objects"].([]any)
			fire := false
			for _, x := range objs {
				o, _ := x.(map[string]any)
				oid, _ := o["oid"].(string)
				if v := fs.victims[oid]; v != nil && v.gets >= v.n && !v.hit429 && len(objs) > 1 {
					v.hit429 = true
					fs.note(v)
					fire = true
				}
			}
			if fire {
				fs.run.Count("faults_batch_429_with_exhausted_and_other_objects", 1)
				return &fakelfs.Fault{Status: 429}
			}
			return nil
		}
		if fs.kind != "batch-404-once" {
			return nil
		}
		if op, _ := rq.JSON["operation"].(string); op != "download" {
			return nil
		}
		var f *fakelfs.Fault
		objs, _ := rq.JSON["objects"].([]any)
		for _, x := range objs {
			o, _ := x.(map[string]any)
			oid, _ := o["oid"].(string)
			v := fs.victims[oid]
			if v == nil || v.batches >= v.n {
				continue
			}
			v.batches++
			fs.note(v)
			if f == nil {
				f = &fakelfs.Fault{ObjErrors: map[string]int{}}
			}
			f.ObjErrors[oid] = 404
		}
		return f
	}
	return nil
}

// genFault: the fault coordinates of scenario k of source repository idx (nil = fault-free).
// It draws from its own random stream, so fault-free scenarios are what they were without this dimension.
func genFault(seed int64, idx, k int, p plan) *faultPlan {
	if (idx+k)%3 != 0 {
		return nil
	}
	// steps whose command may download
	var eligible []int
	if !p.Skip {
		eligible = append(eligible, 0)
	}
	for i, o := range p.Ops {
		if (o.Kind == "git-checkout" && !o.SkipEnv) || o.Kind == "lfs-fetch" || o.Kind == "lfs-pull" {
			eligible = append(eligible, i+1)
		}
	}
	fr := rand.New(rand.NewSource(seed*2000003 + int64(idx)*1013 + int64(k)*7 + 5))
	fp := &faultPlan{}
	rot := idx/3 + k + int(seed%24+24)
	fp.Kind = faultKinds[rot%len(faultKinds)]
	if !p.Skip {
		fp.Kind = faultKindsSmudging[rot%len(faultKindsSmudging)]
	}
	fp.Retries = []int{1, 1, 2, 8}[fr.Intn(4)]
	fp.Via = []string{"home", "dash-c", "clone-config"}[fr.Intn(3)]
	fp.NVictims = 1 + fr.Intn(2)
	if len(eligible) > 0 {
		fp.Target = eligible[0]
		if rot%4 == 3 {
			fp.Target = eligible[fr.Intn(len(eligible))] // a fault-free start, faults from a later step on
		}
	}
	return fp
}

// scriptedAnswers: how many faulty answers one victim gets.
func (fp *faultPlan) scriptedAnswers(fr *rand.Rand) int {
	switch fp.Kind {
	case "get-503-within-retries":
		return 1 + fr.Intn(fp.Retries)
	case "get-503-beyond-retries":
		return fp.Retries + 1
	case exhaustKind:
		return fp.Retries
	case "get-503-persistent", "get-404-persistent":
		return 1 << 30
	case "get-reset", "get-cut":
		return 1 + fr.Intn(2)
	}
	return 1 // batch-404-once
}

// maybeArm chooses the victims when the scenario reaches the first step >= Target whose command is about to
// download something (cands = oids that step needs and that are neither local nor in the reference store).
func (s *scn) maybeArm(step int, kind string, cands func() []string) {
	if s.fs == nil || step < s.fp.Target || s.fp.armings >= 3 || (s.fp.armings > 0 && (s.fp.Kind == "get-503-persistent" || s.fp.Kind == exhaustKind)) {
		return
	}
	var cs []string
	for _, oid := range cands() {
		if _, already := s.fp.Script[oid]; !already {
			cs = append(cs, oid)
		}
	}
	if s.fp.Kind == "get-cut" {
		var big []string
		for _, oid := range cs {
			if len(s.src.g.Contents[oid]) >= 2 {
				big = append(big, oid)
			}
		}
		cs = big
	}
	if len(cs) == 0 {
		return
	}
	if s.fp.Kind == exhaustKind {
		// keep the candidates in tree order: the victims are the objects the queue sees first
		if len(cs) < 6 {
			return
		}
	} else {
		sort.Strings(cs)
		s.fr.Shuffle(len(cs), func(i, j int) { cs[i], cs[j] = cs[j], cs[i] })
	}
	n := s.fp.NVictims
	if n > len(cs) {
		n = len(cs)
	}
	if s.fp.armings == 0 {
		s.fp.ArmedAt = kind
		s.fp.Script = map[string]int{}
		s.run.Count("fault_scenarios_armed", 1)
	} else {
		s.fp.ArmedAt += "+" + kind
	}
	s.fp.armings++
	s.fs.mu.Lock()
	for _, oid := range cs[:n] {
		k := s.fp.scriptedAnswers(s.fr)
		s.fs.victims[oid] = &victimState{n: k, size: len(s.src.g.Contents[oid])}
		s.fp.Script[oid] = k
	}
	s.fs.mu.Unlock()
	s.run.Count("fault_scripts_armed", 1)
	s.run.Count("fault_scripts_armed_at_"+kind, 1)
	s.run.Count("fault_victim_objects", int64(n))
}

// candidates: distinct oids of ps that are LFS-tracked, selected, not hash-valid locally and not in the reference store.
func (s *scn) candidates(ps []pinfo, inc, exc []pat, keep func(pinfo) bool) []string {
	seen := map[string]bool{}
	var out []string
	for _, pi := range ps {
		if !pi.Tracked || seen[pi.Oid] || !selected(inc, exc, pi.Path) || (keep != nil && !keep(pi)) {
			continue
		}
		seen[pi.Oid] = true
		if _, has := s.src.g.Contents[pi.Oid]; !has {
			continue
		}
		if sha, _, err := sha256File(s.gitDir, pi.Oid); err == nil && sha == pi.Oid {
			continue
		}
		if s.refHas(pi.Oid) {
			continue
		}
		out = append(out, pi.Oid)
	}
	return out
}

// ---------- verif-tagged trace (observation only): delayed-smudge fallbacks ----------

type traceEv struct {
	Pid  int    `json:"pid"`
	Kind string `json:"kind"`
	Oid  string `json:"oid"`
}

// scanTrace reads what the git-lfs processes of the last command appended to the VERIF_TRACE file and counts
// the objects that one filter process put into a batch of a queue, saw that queue finish (tq.wait.end) and
// then put into a batch again: the delayed download did not deliver the object and the non-delayed smudge
// request of Git downloads it once more.
func (s *scn) scanTrace() (fallbacks int) {
	if s.tracePath == "" {
		return 0
	}
	f, err := os.Open(s.tracePath)
	if err != nil {
		return 0
	}
	defer f.Close()
	if _, err := f.Seek(s.traceOff, 0); err != nil {
		return 0
	}
	type pstate struct {
		ended   bool
		batched map[string]bool
		counted map[string]bool
	}
	procs := map[int]*pstate{}
	sc := bufio.NewScanner(f)
	sc.Buffer(make([]byte, 1<<16), 1<<20)
	var read int64
	for sc.Scan() {
		read += int64(len(sc.Bytes())) + 1
		var e traceEv
		if json.Unmarshal(sc.Bytes(), &e) != nil {
			continue
		}
		p := procs[e.Pid]
		if p == nil {
			p = &pstate{batched: map[string]bool{}, counted: map[string]bool{}}
			procs[e.Pid] = p
		}
		switch e.Kind {
		case "tq.wait.end":
			p.ended = true
		case "tq.batch.obj":
			if p.ended && p.batched[e.Oid] && !p.counted[e.Oid] {
				p.counted[e.Oid] = true
				fallbacks++
			}
			if !p.ended {
				p.batched[e.Oid] = true
			}
		case "tq.retry":
			s.run.Count("queue_retries_observed", 1)
		}
	}
	s.traceOff += read
	return fallbacks
}

func sha256File(gitDir, oid string) (string, int64, error) {
	return sbx.Sha256File(sbx.ObjectPath(gitDir, oid))
}

func (fp *faultPlan) class() string {
	if fp == nil {
		return "nofault"
	}
	at := fp.ArmedAt
	if at == "" {
		at = "unarmed"
	}
	return fmt.Sprintf("fault-%s-r%d@%s", fp.Kind, fp.Retries, at)
}
