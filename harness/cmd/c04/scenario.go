package main

import (
	"fmt"
	"sort"
	"math/rand"
	"os"
	"path/filepath"
	"strings"

	"verif/harness/evid"
	"verif/harness/histgen"
	"verif/harness/ptrspec"
	"verif/harness/sbx"
)

type stepLog struct {
	Step   string
	Env    []string `json:",omitempty"`
	Args   []string
	Code   int
	Stderr string `json:",omitempty"`
}

type fstate struct {
	Sha  string
	Mode os.FileMode
	Size int64
	Link bool
}

// snapshot: SHA-256 + mode of every working-tree file (symlinks: hash of the target string).
func snapshot(root string) map[string]fstate {
	out := map[string]fstate{}
	filepath.Walk(root, func(p string, fi os.FileInfo, err error) error {
		if err != nil {
			return nil
		}
		rel, _ := filepath.Rel(root, p)
		if rel == ".git" {
			return filepath.SkipDir
		}
		if fi.IsDir() {
			return nil
		}
		rel = filepath.ToSlash(rel)
		if fi.Mode()&os.ModeSymlink != 0 {
			t, _ := os.Readlink(p)
			out[rel] = fstate{Sha: sbx.Sha256Hex([]byte(t)), Mode: fi.Mode(), Link: true}
			return nil
		}
		sha, n, err := sbx.Sha256File(p)
		if err != nil {
			sha = "unreadable:" + err.Error()
		}
		out[rel] = fstate{Sha: sha, Mode: fi.Mode(), Size: n}
		return nil
	})
	return out
}

type scn struct {
	run     *evid.Run
	src     *source
	k       int
	r       *rand.Rand
	env     *sbx.Env
	clone   string
	gitDir  string
	url     string
	srvRepo string
	plan    plan
	steps   []stepLog
	model   *histgen.Model
	refObjs string // lfs/objects directory of the reference repository ("" = none)
	seeded  []string
	stop    bool
	// transient server faults (nil = none in this scenario)
	fp        *faultPlan
	fs        *faultScript
	fr        *rand.Rand
	tracePath string
	traceOff  int64
}

func (s *scn) detail(extra map[string]any) map[string]any {
	d := map[string]any{"repo": s.src.idx, "scenario": s.k, "class": s.plan.class(), "plan": s.plan, "steps": s.steps, "history": s.src.g.Log, "seeded_oids": s.seeded}
	if s.fs != nil {
		d["fault_script_state"] = s.fs.summary()
	}
	for k, v := range extra {
		d[k] = v
	}
	return d
}

func (s *scn) viol(sym, trig, what string) {
	s.run.Violation(evid.Sig{Symptom: sym, Trigger: trig}, what, s.detail(map[string]any{"what": what}))
}

func (s *scn) exec(step, dir string, envExtra []string, name string, args ...string) sbx.Result {
	res := s.env.Run(sbx.RunOpt{Dir: dir, Env: envExtra}, name, args...)
	s.steps = append(s.steps, stepLog{Step: step, Env: envExtra, Args: append([]string{name}, args...), Code: res.Code, Stderr: sbx.Trunc(res.Stderr, 400)})
	s.run.Count("commands_run", 1)
	if res.GoCrash() {
		s.viol("go-panic", step, "git-lfs crashed during "+step+": "+sbx.Trunc(res.Stderr, 2500))
	}
	if res.TimedOut {
		s.run.Inconclusive(fmt.Sprintf("repo %d scenario %d: watchdog fired in %s", s.src.idx, s.k, step))
		s.stop = true
	}
	return res
}

func (s *scn) git(step string, envExtra []string, args ...string) sbx.Result {
	return s.exec(step, s.clone, envExtra, "git", args...)
}

func (s *scn) mustSetup(res sbx.Result) {
	if !res.OK() {
		panic("setup command failed: " + res.String())
	}
}

func (s *scn) localValid(oid string) bool {
	sha, _, err := sbx.Sha256File(sbx.ObjectPath(s.gitDir, oid))
	s.run.Count("objects_hashed", 1)
	return err == nil && sha == oid
}

func (s *scn) refHas(oid string) bool {
	if s.refObjs == "" {
		return false
	}
	sha, _, err := sbx.Sha256File(filepath.Join(s.refObjs, oid[0:2], oid[2:4], oid))
	return err == nil && sha == oid
}

func (s *scn) seedObject(dir, oid string) {
	b, ok := s.src.g.Contents[oid]
	if !ok {
		return
	}
	p := filepath.Join(dir, oid[0:2], oid[2:4], oid)
	if err := sbx.WriteReplace(p, b, 0o644); err != nil {
		panic(err)
	}
}

func (s *scn) countForms(ctx string, ps []pat) {
	for _, p := range ps {
		s.run.Count("pattern_"+ctx+"_"+p.Form, 1)
	}
}

func joinPats(ps []pat) string { return strings.Join(patTexts(ps), ",") }

func runScenario(run *evid.Run, src *source, k, nscen, nextra int) {
	s := &scn{run: run, src: src, k: k}
	s.r = rand.New(rand.NewSource(run.Seed*1000003 + int64(src.idx)*1009 + int64(k)))
	defer func() {
		if x := recover(); x != nil {
			run.Inconclusive(fmt.Sprintf("repo %d scenario %d: harness panic: %v", src.idx, k, x))
		}
	}()
	s.env = sbx.New()
	defer s.env.Cleanup()
	if src.wide {
		s.plan = genWidePlan(s.r, src, k, run.Seed)
		run.Count("wide_tree_scenarios", 1)
		if s.plan.Delay != "none" {
			src.delays.Store(fmt.Sprintf("s%d", k), delayFor(s.plan.Delay, run.Seed*31+int64(k)))
			defer src.delays.Delete(fmt.Sprintf("s%d", k))
		}
	} else if k >= nscen+nextra {
		s.plan = genRecentFaultPlan(s.r, src, k-nscen-nextra, run.Seed)
		run.Count("recent_fault_scenarios", 1)
	} else if k >= nscen {
		s.plan = genRefPlan(s.r, src, k, nscen, nextra, run.Seed)
		run.Count("reference_unlinked_scenarios_"+s.plan.RefHow, 1)
	} else {
		s.plan = genPlan(s.r, src, k)
	}
	s.srvRepo = fmt.Sprintf("s%d", k)
	tail := genTail(run.Seed, src, k, nscen, s.plan)
	if src.wide || s.plan.Kind == 10 {
		tail = nil
	}
	if tail != nil {
		s.plan.Ops = append(s.plan.Ops, *tail)
		run.Count("tail_shapes_planned_"+tail.Shape, 1)
	}
	fp := genFault(run.Seed, src.idx, k, s.plan)
	if s.plan.Kind == 8 || s.plan.Kind == 9 || s.plan.Kind == 10 {
		fp = nil // these templates run against a server that answers correctly …
	}
	if s.plan.Kind == 10 {
		// … and template 10: one object that only a recent ref / the commits window needs cannot be downloaded at all;
		// the victim is chosen right before the command (armRecentVictim), never by maybeArm
		fp = &faultPlan{Kind: []string{"get-503-persistent", "get-404-persistent"}[(src.idx/2+k)%2], Retries: 1 + (src.idx+k)%2, Via: []string{"home", "dash-c", "clone-config"}[(src.idx+k)%3], Target: 1 << 30, NVictims: 1, TailOnly: true}
	}
	if s.plan.ExhaustFault {
		// … except the wide-tree cases in which an object uses up its retries and is then listed in a failing batch call
		fp = &faultPlan{Kind: exhaustKind, Retries: 1 + (src.idx+k)%2, Via: []string{"home", "dash-c", "clone-config"}[(src.idx+k)%3], Target: 1, NVictims: 1 + (src.idx+k/3)%2, TailOnly: true}
	}
	if fp == nil && tail != nil && tail.FaultTail {
		// an otherwise fault-free scenario whose last command, fetch --refetch, meets a server that fails for one or
		// two objects for good: the command fails, the objects that were in the store must still be there and valid
		fp = &faultPlan{Kind: tail.FaultKind, Retries: 1, Via: "home", Target: len(s.plan.Ops), NVictims: 1 + k%2, TailOnly: true}
	}
	if fp != nil {
		s.fp = fp
		s.plan.Fault = fp
		s.fr = rand.New(rand.NewSource(run.Seed*3000017 + int64(src.idx)*1019 + int64(k)*11 + 3))
		// the faults are about downloads: keep some for the clone to make, and prefer the long-running filter
		if s.plan.Store == "reference-full" && !fp.TailOnly {
			s.plan.Store = "reference-subset"
		}
		if !fp.TailOnly && s.fr.Intn(5) != 0 {
			s.plan.Driver = "process"
		}
		s.fs = &faultScript{run: run, kind: fp.Kind, victims: map[string]*victimState{}}
		src.scripts.Store(s.srvRepo, s.fs)
		defer src.scripts.Delete(s.srvRepo)
		s.tracePath = filepath.Join(s.env.Root, "verif-trace.jsonl")
		s.env.Extra = append(s.env.Extra, "VERIF_RETRY_SCALE=0.02", "VERIF_TRACE="+s.tracePath)
		run.Count("scenarios_with_faulty_server", 1)
	}
	for _, oid := range src.srv.Oids("origin") {
		b, _ := src.srv.Get("origin", oid)
		src.srv.Put(s.srvRepo, b)
	}
	s.url = src.srv.Endpoint(s.srvRepo)
	s.clone = filepath.Join(s.env.Root, "clone")
	s.gitDir = filepath.Join(s.clone, ".git")
	s.runPlan()
	if s.fs != nil && os.Getenv("VERIF_C04_DEBUG") != "" {
		var st []string
		for _, x := range s.steps {
			if x.Step != "setup" {
				st = append(st, fmt.Sprintf("%s=%d", x.Step, x.Code))
			}
		}
		fmt.Fprintf(os.Stderr, "FAULTY repo %d scen %d kind %d %s target=%d script=%v injected=%d steps=%v\n", src.idx, k, s.plan.Kind, s.plan.class(), s.fp.Target, s.fp.Script, s.fs.total(), st)
	}
	if s.fs != nil && s.fp.armings == 0 {
		run.Count("fault_scripts_never_armed_nothing_to_download", 1)
	}
	for _, rq := range src.srv.Log() {
		if rq.Repo == s.srvRepo && rq.Kind == "storage-get" {
			run.Count("downloads_in_scenarios_store_"+s.plan.Store, 1)
		}
	}
	class := s.plan.class()
	run.Case(class, map[string]any{"repo": src.idx, "scenario": k, "class": class, "plan": s.plan, "steps": len(s.steps)})
}

func (s *scn) runPlan() {
	p := s.plan
	r := s.r
	home := func(args ...string) {
		s.mustSetup(s.exec("setup", s.env.Root, nil, "git", append([]string{"config", "--global"}, args...)...))
	}
	if p.Driver == "smudge" {
		home("--unset", "filter.lfs.process")
	}
	var dashC, cloneCfg []string
	deliver := func(via, key, val string) {
		switch via {
		case "home":
			home(key, val)
		case "dash-c":
			dashC = append(dashC, "-c", key+"="+val)
		default:
			cloneCfg = append(cloneCfg, "--config", key+"="+val)
		}
	}
	deliver(p.URLVia, "lfs.url", s.url)
	s.countForms("config-include", p.CfgInc)
	s.countForms("config-exclude", p.CfgExc)
	if len(p.CfgInc) > 0 {
		deliver(p.CfgVia, "lfs.fetchinclude", joinPats(p.CfgInc))
	}
	if len(p.CfgExc) > 0 {
		deliver(p.CfgVia, "lfs.fetchexclude", joinPats(p.CfgExc))
	}
	if p.BatchSize > 0 {
		deliver(p.CfgVia, "lfs.transfer.batchsize", fmt.Sprint(p.BatchSize))
		deliver(p.URLVia, "lfs.concurrenttransfers", fmt.Sprint(p.Concurrent))
	}
	if s.fp != nil && s.fp.Kind == exhaustKind {
		deliver(s.fp.Via, "lfs.transfer.maxretrydelay", "1")
	}
	if s.fp != nil {
		deliver(s.fp.Via, "lfs.transfer.maxretries", fmt.Sprint(s.fp.Retries))
		s.run.Count(fmt.Sprintf("fault_scenarios_maxretries_%d", s.fp.Retries), 1)
	}
	var refArgs []string
	var lateSeed []string // RefHow ref-filled-later: the reference repository receives these LFS objects after the clone
	altObjects := ""      // the reference repository's objects directory
	switch {
	case p.Store == "reference-full" && p.RefHow != "ref-filled-later":
		refArgs = []string{"--reference", s.src.g.Dir}
		s.refObjs = filepath.Join(s.src.g.GitDir, "lfs", "objects")
		altObjects = filepath.Join(s.src.g.GitDir, "objects")
	case p.Store == "reference-full" || p.Store == "reference-subset":
		refRepo := filepath.Join(s.env.Root, "refrepo.git")
		s.mustSetup(s.exec("setup", s.env.Root, nil, "git", "clone", "-q", "--bare", s.src.bare, refRepo))
		s.refObjs = filepath.Join(refRepo, "lfs", "objects")
		altObjects = filepath.Join(refRepo, "objects")
		var want []string
		for _, oid := range s.src.oids {
			if p.Store == "reference-full" || r.Intn(2) == 0 {
				want = append(want, oid)
				s.seeded = append(s.seeded, "ref:"+oid[:8])
			}
		}
		if p.RefHow == "ref-filled-later" {
			lateSeed = want
		} else {
			os.MkdirAll(s.refObjs, 0o755)
			for _, oid := range want {
				s.seedObject(s.refObjs, oid)
			}
		}
		refArgs = []string{"--reference", refRepo}
	}
	if p.RefHow == "alternates-after" {
		refArgs = nil
	}
	args := append([]string{}, dashC...)
	if p.RefHow == "nolfs-clone" {
		// a clone made while Git LFS was not set up: no lfs filter runs (not kept for the later commands)
		args = append(args, "-c", "filter.lfs.smudge=", "-c", "filter.lfs.process=", "-c", "filter.lfs.required=false")
	}
	args = append(args, "clone", "-q")
	args = append(args, cloneCfg...)
	if p.NoCheckout {
		args = append(args, "--no-checkout")
	}
	args = append(args, refArgs...)
	args = append(args, "-b", p.Ref, s.src.bare, s.clone)
	var cloneEnv []string
	if p.Skip && p.RefHow != "nolfs-clone" {
		cloneEnv = []string{"GIT_LFS_SKIP_SMUDGE=1"}
	}
	if !p.Skip && !p.NoCheckout {
		s.maybeArm(0, "clone", func() []string {
			for _, ri := range s.src.refs {
				if ri.Name == p.Ref && ri.Kind == p.RefKind {
					return s.candidates(ri.Ptrs, p.CfgInc, p.CfgExc, nil)
				}
			}
			return nil
		})
	}
	inj0 := s.injected()
	res := s.exec("clone", s.env.Root, cloneEnv, "git", args...)
	if s.stop {
		return
	}
	s.model = histgen.NewModel(s.env, s.clone)
	if !res.OK() {
		// a failed git clone removes the directory: nothing is left to judge
		s.opFailed("clone", res, s.injected()-inj0)
		s.observeSmudge("clone")
		return
	}
	// what was passed with -c must stay in force for the later commands
	for i := 1; i < len(dashC); i += 2 {
		kv := strings.SplitN(dashC[i], "=", 2)
		s.mustSetup(s.git("setup", nil, "config", kv[0], kv[1]))
	}
	if p.RefHow == "alternates-after" {
		alt := filepath.Join(s.gitDir, "objects", "info", "alternates")
		f, err := os.OpenFile(alt, os.O_WRONLY|os.O_APPEND|os.O_CREATE, 0o644)
		if err != nil {
			panic(err)
		}
		fmt.Fprintf(f, "%s\n", altObjects)
		f.Close()
	}
	if len(lateSeed) > 0 {
		os.MkdirAll(s.refObjs, 0o755)
		for _, oid := range lateSeed {
			s.seedObject(s.refObjs, oid)
		}
	}
	seed := func() {
		if p.Store == "preseed-middle" {
			ps := ptrsAt(s.env, s.model, "HEAD")
			sort.Slice(ps, func(i, j int) bool { return ps[i].Path < ps[j].Path })
			n := len(ps)
			outer := map[string]bool{}
			for i, pi := range ps {
				if i < n/4 || i >= 3*n/4 {
					outer[pi.Oid] = true
				}
			}
			dir := filepath.Join(s.gitDir, "lfs", "objects")
			for i, pi := range ps {
				if i >= n/4 && i < 3*n/4 && !outer[pi.Oid] {
					s.seedObject(dir, pi.Oid)
				}
			}
			s.seeded = append(s.seeded, fmt.Sprintf("middle half of %d paths", n))
			return
		}
		if p.Store != "preseed-subset" {
			return
		}
		dir := filepath.Join(s.gitDir, "lfs", "objects")
		for _, oid := range s.src.oids {
			if r.Intn(2) == 0 {
				s.seedObject(dir, oid)
				s.seeded = append(s.seeded, oid[:8])
			}
		}
	}
	if p.NoCheckout {
		seed()
		s.maybeArm(0, "checkout-after-no-checkout", func() []string {
			return s.candidates(ptrsAt(s.env, s.model, "HEAD"), p.CfgInc, p.CfgExc, nil)
		})
		inj0 = s.injected()
		var preStore0 map[string]bool
		logSeq0 := 0
		if s.refObjs != "" {
			preStore0, logSeq0 = s.validStore(), s.lastSeq()
		}
		res = s.git("checkout-after-no-checkout", nil, "reset", "-q", "--hard")
		if s.stop {
			return
		}
		s.run.Count("scenario_ops_checkout-after-no-checkout", 1)
		c0 := &opCtx{kind: "checkout-after-no-checkout", inc: p.CfgInc, exc: p.CfgExc, pre: map[string]fstate{}, post: snapshot(s.clone), res: res, injected: s.injected() - inj0, preStore: preStore0, logSeq: logSeq0}
		s.judge(c0)
		s.countFromReference(c0)
		s.observeSmudge("checkout-after-no-checkout")
		if !res.OK() && s.fs != nil {
			return // index and HEAD may disagree now
		}
	} else {
		s.run.Count("scenario_ops_clone", 1)
		s.judge(&opCtx{kind: "clone", skip: p.Skip, inc: p.CfgInc, exc: p.CfgExc, pre: map[string]fstate{}, post: snapshot(s.clone), res: res, injected: s.injected() - inj0})
		s.observeSmudge("clone")
		seed()
	}
	for i, o := range p.Ops {
		if s.stop {
			return
		}
		s.runOp(i+1, o)
	}
}

func (s *scn) lastSeq() int {
	if l := s.src.srv.Log(); len(l) > 0 {
		return l[len(l)-1].Seq
	}
	return 0
}

// countFromReference: after a successful command, selected objects that were not in the local store before, are
// hash-valid in the reference store and in the local store now, and were not requested from the server meanwhile.
func (s *scn) countFromReference(c *opCtx) {
	if s.refObjs == "" || c.preStore == nil || !c.res.OK() {
		return
	}
	got := map[string]bool{}
	for _, rq := range s.src.srv.Log() {
		if rq.Repo == s.srvRepo && rq.Kind == "storage-get" && rq.Seq > c.logSeq {
			got[rq.Oid] = true
		}
	}
	seen := map[string]bool{}
	for _, pi := range ptrsAt(s.env, s.model, "HEAD") {
		if seen[pi.Oid] || c.preStore[pi.Oid] || got[pi.Oid] || !s.refHas(pi.Oid) || !s.localValid(pi.Oid) {
			continue
		}
		seen[pi.Oid] = true
		s.run.Count("objects_linked_from_reference_store_"+c.kind, 1)
		if st, ok := c.post[pi.Path]; ok && c.kind != "lfs-fetch" && classify(st, ok, pi) == "content" {
			s.run.Count("files_materialised_from_reference_store_"+c.kind, 1)
		}
	}
}

func (s *scn) injected() int {
	if s.fs == nil {
		return 0
	}
	return s.fs.total()
}

// opFailed: a command that exits non-zero while the server was answering it with scripted faults is only
// counted; any other non-zero exit makes the scenario inconclusive, as before.
func (s *scn) opFailed(step string, res sbx.Result, injected int) {
	if s.fs != nil && injected > 0 {
		s.run.Count("ops_failed_under_faults", 1)
		s.run.Count("ops_failed_under_faults_"+step+"_"+s.fp.Kind, 1)
		return
	}
	s.failed(step, res)
}

// observeSmudge: counters from the verif-tagged trace after a command that smudges through Git (never part of a verdict).
func (s *scn) observeSmudge(step string) {
	if n := s.scanTrace(); n > 0 && s.plan.Driver == "process" {
		s.run.Count("delayed_smudge_fallbacks_observed", int64(n))
		s.run.Count("delayed_smudge_fallbacks_observed_"+step+"_"+s.fp.Kind, int64(n))
	}
}

func (s *scn) failed(step string, res sbx.Result) {
	s.run.Count("nonzero_exit_"+step, 1)
	s.run.Inconclusive(fmt.Sprintf("repo %d scenario %d (%s): fault-free %s exited %d: %s", s.src.idx, s.k, s.plan.class(), step, res.Code, sbx.Trunc(res.Stderr, 600)))
}

func (s *scn) headBlobs() map[string]string {
	out := map[string]string{}
	for _, e := range histgen.LsTree(s.env, s.clone, "HEAD") {
		out[e.Path] = e.Mode + " " + e.Sha
	}
	return out
}

func (s *scn) runOp(step int, o opPlan) {
	p := s.plan
	if o.Kind == "lfs-checkout-to" {
		s.runCheckoutTo(o)
		return
	}
	c := &opCtx{kind: o.Kind, mut: map[string]string{}, shape: o.Shape, op: o}
	if o.Mutate {
		c.mut = s.mutate()
	}
	eff := func(opt *[]pat, cfg []pat) []pat {
		if opt != nil {
			return *opt
		}
		return cfg
	}
	var args []string
	var envExtra []string
	switch o.Kind {
	case "git-checkout":
		c.oldHead = s.headBlobs()
		c.skip = o.SkipEnv
		c.inc, c.exc = p.CfgInc, p.CfgExc
		if o.SkipEnv {
			envExtra = []string{"GIT_LFS_SKIP_SMUDGE=1"}
		}
		args = []string{"checkout", "-q", o.Ref}
	case "lfs-fetch", "lfs-pull":
		c.inc, c.exc = eff(o.Inc, p.CfgInc), eff(o.Exc, p.CfgExc)
		args = []string{"lfs", strings.TrimPrefix(o.Kind, "lfs-")}
		if o.Shape != "" {
			s.shapeSetup(o)
			args = append(args, shapeArgs(o)...)
			if o.All {
				c.inc, c.exc = nil, nil // documented: configured include / exclude are ignored
			}
		}
		if o.Inc != nil {
			args = append(args, "-I", joinPats(*o.Inc))
			s.countForms("opt-I", *o.Inc)
		}
		if o.Exc != nil {
			args = append(args, "-X", joinPats(*o.Exc))
			s.countForms("opt-X", *o.Exc)
		}
		if len(o.Refs) > 0 {
			args = append(args, "origin")
			args = append(args, o.Refs...)
			c.fetchRefs = o.Refs
		}
	case "lfs-checkout":
		c.inc = o.Paths
		s.countForms("checkout-arg", o.Paths)
		args = append([]string{"lfs", "checkout"}, patTexts(o.Paths)...)
	}
	if o.FaultVictim != "" {
		s.armRecentVictim(c, o)
	}
	if o.AlwaysViaC {
		args = append([]string{"-c", "lfs.fetchrecentalways=true"}, args...)
	}
	if o.Shape != "" || s.refObjs != "" {
		c.preStore = s.validStore()
	}
	c.pre = snapshot(s.clone)
	c.preLocal = map[string]bool{}
	for _, pi := range ptrsAt(s.env, s.model, "HEAD") {
		if _, ok := c.preLocal[pi.Oid]; !ok {
			c.preLocal[pi.Oid] = s.localValid(pi.Oid)
		}
	}
	cwd := s.clone
	if o.Subdir {
		// a directory of the working tree that exists right now (deterministic choice)
		var ds []string
		for f := range c.pre {
			if i := strings.LastIndexByte(f, '/'); i > 0 {
				ds = append(ds, f[:i])
			}
		}
		if len(ds) > 0 {
			sort.Strings(ds)
			cwd = filepath.Join(s.clone, filepath.FromSlash(ds[s.r.Intn(len(ds))]))
			s.run.Count("ops_run_from_subdirectory", 1)
		}
	}
	s.maybeArm(step, o.Kind, func() []string {
		switch o.Kind {
		case "git-checkout":
			if o.SkipEnv {
				return nil
			}
			for _, ri := range s.src.refs {
				if ri.Name == o.Ref {
					return s.candidates(ri.Ptrs, c.inc, c.exc, func(pi pinfo) bool { return c.oldHead[pi.Path] != pi.Mode+" "+pi.Blob })
				}
			}
		case "lfs-fetch":
			if o.DryRun {
				return nil
			}
			revs := o.Refs
			if len(revs) == 0 {
				revs = []string{"HEAD"}
			}
			var ps []pinfo
			for _, rev := range revs {
				ps = append(ps, ptrsAt(s.env, s.model, rev)...)
			}
			if o.All {
				for _, d := range s.allDemands(o.Refs) {
					ps = append(ps, d.pi)
				}
			}
			if o.Refetch {
				// objects that are present are fetched again
				var out []string
				seen := map[string]bool{}
				for _, pi := range ps {
					if _, has := s.src.g.Contents[pi.Oid]; has && pi.Tracked && !seen[pi.Oid] && selected(c.inc, c.exc, pi.Path) {
						seen[pi.Oid] = true
						out = append(out, pi.Oid)
					}
				}
				return out
			}
			return s.candidates(ps, c.inc, c.exc, nil)
		case "lfs-pull":
			return s.candidates(ptrsAt(s.env, s.model, "HEAD"), c.inc, c.exc, nil)
		}
		return nil // lfs checkout never downloads
	})
	inj0 := s.injected()
	if o.Shape != "" || s.refObjs != "" || s.src.wide {
		c.logSeq = s.lastSeq()
	}
	c.res = s.exec(o.Kind, cwd, envExtra, "git", args...)
	if s.stop {
		return
	}
	c.injected = s.injected() - inj0
	c.post = snapshot(s.clone)
	s.run.Count("scenario_ops_"+o.Kind, 1)
	s.judge(c)
	s.countFromReference(c)
	if s.src.wide && o.Kind == "lfs-pull" {
		nb := 0
		for _, rq := range s.src.srv.Log() {
			if rq.Repo == s.srvRepo && rq.Kind == "batch" && rq.Seq > c.logSeq {
				nb++
			}
		}
		s.run.Count("wide_pulls", 1)
		s.run.Count("wide_pull_batch_requests_observed", int64(nb))
		if nb >= 10 {
			s.run.Count("wide_pulls_with_10_or_more_batches", 1)
		}
	}
	if o.Kind == "git-checkout" {
		s.observeSmudge(o.Kind)
		if !c.res.OK() && s.fs != nil {
			s.stop = true // index and HEAD may disagree now
		}
	} else {
		s.scanTrace() // skip what this command traced
	}
}

// ---------- mutations before pull / lfs checkout ----------

var mutKinds = []string{"edit-short", "edit-long", "deleted", "other-pointer", "empty", "readonly", "edit-pointer-prefix", "readonly-edited", "untouched"}

func (s *scn) mutate() map[string]string {
	out := map[string]string{}
	r := s.r
	for _, pi := range ptrsAt(s.env, s.model, "HEAD") {
		if !pi.Tracked || r.Intn(100) >= 60 {
			continue
		}
		full := filepath.Join(s.clone, filepath.FromSlash(pi.Path))
		st, err := os.Lstat(full)
		if err != nil || !st.Mode().IsRegular() {
			continue
		}
		cur, _ := os.ReadFile(full)
		mode := st.Mode().Perm()
		write := func(b []byte, m os.FileMode) {
			os.Remove(full)
			if err := os.WriteFile(full, b, m); err != nil {
				panic(err)
			}
			os.Chmod(full, m)
		}
		kind := mutKinds[r.Intn(len(mutKinds))]
		switch kind {
		case "edit-short":
			n := r.Intn(1000)
			b := make([]byte, n)
			r.Read(b)
			b = append([]byte(fmt.Sprintf("my edit %d\n", r.Intn(1000))), b...)
			if r.Intn(4) == 0 {
				b = []byte{byte('a' + r.Intn(26))}
			}
			write(b, mode)
		case "edit-long":
			b := make([]byte, 1024+r.Intn(5000))
			r.Read(b)
			write(b, mode)
		case "deleted":
			os.Remove(full)
		case "other-pointer":
			var other ptrspec.Pointer
			if r.Intn(3) == 0 { // an object nobody has
				b := make([]byte, 40)
				r.Read(b)
				other = ptrspec.Pointer{Oid: sbx.Sha256Hex(b), Size: int64(1 + r.Intn(5000))}
			} else {
				oid := s.src.oids[r.Intn(len(s.src.oids))]
				if oid == pi.Oid {
					continue
				}
				other = ptrspec.Pointer{Oid: oid, Size: int64(len(s.src.g.Contents[oid]))}
			}
			write([]byte(ptrspec.Canonical(other)), mode)
		case "empty":
			write(nil, mode)
		case "readonly":
			os.Chmod(full, mode&^0o222)
			if string(cur) == pi.ptrText() {
				kind = "readonly-pointer"
			} else {
				kind = "readonly-materialised"
			}
		case "edit-pointer-prefix":
			// starts like a pointer but is not one: user text
			write([]byte("version https://git-lfs.github.com/spec/v1\noid sha256:not-a-hash-"+fmt.Sprint(r.Intn(1000))+"\nsize 12\n"), mode)
		case "readonly-edited":
			b := make([]byte, 1+r.Intn(3000))
			r.Read(b)
			write(b, mode&^0o222)
		}
		out[pi.Path] = kind
		s.run.Count("mutations_applied_"+kind, 1)
	}
	return out
}

// ---------- oracle ----------

type opCtx struct {
	kind      string // clone | checkout-after-no-checkout | git-checkout | lfs-fetch | lfs-pull | lfs-checkout
	skip      bool   // smudge skipped through the environment (git-driven operations)
	inc, exc  []pat  // effective include / exclude
	oldHead   map[string]string
	fetchRefs []string
	pre, post map[string]fstate
	preLocal  map[string]bool
	mut       map[string]string
	res       sbx.Result
	injected  int // scripted server faults answered while the command ran
	shape     string          // tail shape ("" = ordinary operation)
	op        opPlan          // the operation (tail shapes)
	preStore  map[string]bool // tail shapes: oids hash-valid in lfs/objects before the command
	logSeq    int             // tail shapes: last server request before the command
	dups      map[string]int  // wide trees: oid -> number of tracked pointer paths of HEAD holding it
}

func classify(st fstate, ok bool, pi pinfo) string {
	switch {
	case !ok:
		return "missing"
	case st.Link:
		return "edited"
	case st.Sha == sbx.Sha256Hex([]byte(pi.ptrText())):
		return "pointer"
	case st.Sha == pi.Oid && st.Size == pi.Size:
		return "content"
	}
	return "edited"
}

func sameState(a fstate, aok bool, b fstate, bok bool) bool {
	if aok != bok {
		return false
	}
	return !aok || (a.Sha == b.Sha && a.Mode == b.Mode && a.Link == b.Link)
}

// trigger: the coordinate of the case that most plausibly decides the fate of
// this path, so that different defects get different signatures:
// patterns that decide the path's selection > working-tree mutation > exclude
// patterns that should not match > object source > nothing special.
func (s *scn) trigger(c *opCtx, pi pinfo) string {
	t := c.kind
	if c.shape != "" {
		t += "-" + c.shape
	}
	if s.fs != nil && s.fs.injectedFor(pi.Oid) > 0 {
		// the server misbehaved for this very object (now or in an earlier step)
		return t + "-fault-" + s.fp.Kind
	}
	if s.src.wide && c.dups[pi.Oid] > 1 {
		// several selected working-tree files of this wide tree share the object
		return t + "-duplicate-content-across-batches"
	}
	if s.plan.RefHow != "" && c.preStore != nil && !c.preStore[pi.Oid] && s.refHas(pi.Oid) {
		// the object was in the reference store only, and nothing in this clone had looked there yet
		return t + "-reference-store-unlinked/" + s.plan.RefHow
	}
	var incMatch, excMatch []pat
	for _, p := range c.inc {
		if matchGI(p.Text, pi.Path) {
			incMatch = append(incMatch, p)
		}
	}
	for _, p := range c.exc {
		if matchGI(p.Text, pi.Path) {
			excMatch = append(excMatch, p)
		}
	}
	switch {
	case len(excMatch) > 0:
		return t + "-exc[" + patForms(excMatch) + "]"
	case len(c.inc) > 0 && len(incMatch) == 0:
		return t + "-inc-nomatch[" + patForms(c.inc) + "]"
	case len(incMatch) > 0:
		return t + "-inc[" + patForms(incMatch) + "]"
	}
	if mk := c.mut[pi.Path]; mk != "" && mk != "untouched" {
		return t + "-after-" + mk
	}
	switch {
	case len(c.exc) > 0:
		return t + "-exc-nomatch[" + patForms(c.exc) + "]"
	case strings.HasPrefix(s.plan.Store, "reference"):
		return t + "-reference-store"
	case s.plan.Store == "preseed-subset":
		return t + "-preseeded-store"
	case c.skip:
		return t + "-skip-smudge"
	}
	return t + "-plain"
}

func describe(st fstate, ok bool, pi pinfo) string {
	if !ok {
		return "missing"
	}
	return fmt.Sprintf("%s (sha %s… size %d mode %v)", classify(st, ok, pi), st.Sha[:10], st.Size, st.Mode)
}

// crossCheck: every effective pattern x every path it is evaluated on is compared once with git check-ignore.
func (s *scn) crossCheck(c *opCtx, paths []string) bool {
	ok := true
	for _, l := range [][]pat{c.inc, c.exc} {
		for _, p := range l {
			if bad := s.src.cc.check(p.Text, paths); len(bad) > 0 {
				ok = false
			}
		}
	}
	return ok
}

func (s *scn) judge(c *opCtx) {
	ok := c.res.OK()
	head := ptrsAt(s.env, s.model, "HEAD")
	if !s.crossCheck(c, ptrPaths(head)) {
		return // driver matcher bug, reported by main
	}
	isPtrPath := map[string]bool{}
	for _, pi := range head {
		isPtrPath[pi.Path] = true
	}
	if s.src.wide {
		c.dups = map[string]int{}
		for _, pi := range head {
			if pi.Tracked {
				c.dups[pi.Oid]++
			}
		}
		if c.kind == "lfs-pull" || c.kind == "lfs-checkout" {
			for _, n := range c.dups {
				if n > 1 {
					s.run.Count("wide_files_sharing_an_oid", int64(n))
				}
			}
		}
	}
	if !ok {
		s.opFailed(c.kind, c.res, c.injected)
	} else if c.injected > 0 {
		s.run.Count("ops_succeeded_under_faults", 1)
		s.run.Count("ops_succeeded_under_faults_"+c.kind+"_"+s.fp.Kind, 1)
	}
	requireObject := func(pi pinfo, where string) {
		if _, has := s.src.srv.Get(s.srvRepo, pi.Oid); !has {
			s.run.Count("precondition_object_not_on_server", 1)
			s.run.Inconclusive(fmt.Sprintf("repo %d scenario %d: object %s of %q is not on the server (scenario not fault-free)", s.src.idx, s.k, pi.Oid[:10], pi.Path))
			return
		}
		s.run.Count("object_presence_checks", 1)
		if !s.localValid(pi.Oid) {
			s.viol("object-missing-or-corrupt", s.trigger(c, pi), fmt.Sprintf("after successful %s %s: selected path %q references %s (size %d) but lfs/objects has no hash-valid file for it", c.kind, where, pi.Path, pi.Oid, pi.Size))
		}
	}
	expectContent := func(pi pinfo, execFromTree bool) {
		post, pok := c.post[pi.Path]
		pre, preok := c.pre[pi.Path]
		s.run.Count("files_compared", 1)
		s.run.Count("bytes_compared", post.Size)
		s.run.Count("content_checks_store_"+s.plan.Store, 1)
		switch cls := classify(post, pok, pi); cls {
		case "content":
			wantExec := pi.Mode == "100755"
			if !execFromTree {
				if !preok {
					return
				}
				wantExec = pre.Mode&0o100 != 0
			}
			if (post.Mode&0o100 != 0) != wantExec {
				s.viol("exec-bit-changed", s.trigger(c, pi), fmt.Sprintf("after %s: %q has mode %v, expected exec bit %v (tree mode %s, before: %s)", c.kind, pi.Path, post.Mode, wantExec, pi.Mode, describe(pre, preok, pi)))
			}
		case "pointer":
			s.viol("selected-not-materialised", s.trigger(c, pi), fmt.Sprintf("after successful %s: selected LFS path %q (oid %s) still holds the pointer text (include=%q exclude=%q; before: %s)", c.kind, pi.Path, pi.Oid[:12], patTexts(c.inc), patTexts(c.exc), describe(pre, preok, pi)))
		case "missing":
			s.viol("selected-not-materialised", s.trigger(c, pi), fmt.Sprintf("after successful %s: selected LFS path %q (oid %s) does not exist in the working tree (include=%q exclude=%q; before: %s)", c.kind, pi.Path, pi.Oid[:12], patTexts(c.inc), patTexts(c.exc), describe(pre, preok, pi)))
		default:
			s.viol("content-mismatch", s.trigger(c, pi), fmt.Sprintf("after successful %s: selected LFS path %q should hold the %d original bytes of %s, holds %s", c.kind, pi.Path, pi.Size, pi.Oid[:12], describe(post, pok, pi)))
		}
	}
	expectPointer := func(pi pinfo, why string) {
		post, pok := c.post[pi.Path]
		s.run.Count("files_compared", 1)
		s.run.Count("pointer_files_checked", 1)
		if classify(post, pok, pi) != "pointer" {
			s.viol("unselected-not-pointer", s.trigger(c, pi), fmt.Sprintf("after %s: %s path %q should still be the recorded pointer, is %s (include=%q exclude=%q)", c.kind, why, pi.Path, describe(post, pok, pi), patTexts(c.inc), patTexts(c.exc)))
		}
	}
	expectUnchanged := func(path, sym, trig, why string) {
		pre, preok := c.pre[path]
		post, pok := c.post[path]
		s.run.Count("files_compared", 1)
		if !sameState(pre, preok, post, pok) {
			s.viol(sym, trig, fmt.Sprintf("%s changed %q (%s): before sha %.10s mode %v exists=%v, after sha %.10s mode %v exists=%v", c.kind, path, why, pre.Sha, pre.Mode, preok, post.Sha, post.Mode, pok))
		}
	}

	switch c.kind {
	case "lfs-fetch":
		// "This does not update the working copy." — judged whether or not the command succeeded
		all := map[string]bool{}
		for p := range c.pre {
			all[p] = true
		}
		for p := range c.post {
			all[p] = true
		}
		for _, p := range sortedKeys(all) {
			expectUnchanged(p, "worktree-changed-by-fetch", "lfs-fetch", "fetch must not touch the working tree")
		}
		if c.preStore != nil {
			// an intact local store stays intact, whatever the exit status
			lost := 0
			for _, oid := range sortedKeys(c.preStore) {
				s.run.Count("store_objects_rechecked_after_fetch_shape", 1)
				if !s.localValid(oid) {
					lost++
					if lost <= 3 {
						s.viol("store-object-lost-or-corrupted", "lfs-fetch-"+c.shape, fmt.Sprintf("object %s was hash-valid in lfs/objects before git %s (exit %d) and is not afterwards", oid, strings.Join(c.res.Args[1:], " "), c.res.Code))
					}
				}
			}
			if c.op.Refetch {
				n := 0
				for _, rq := range s.src.srv.Log() {
					if rq.Repo == s.srvRepo && rq.Kind == "storage-get" && c.preStore[rq.Oid] && rq.Seq > c.logSeq {
						n++
					}
				}
				s.run.Count("refetch_downloads_of_objects_already_present", int64(n))
			}
		}
		if !ok {
			return
		}
		if c.shape != "" {
			s.run.Count("tail_shapes_exit_zero_"+c.shape, 1)
		}
		if c.op.JSON {
			s.countJSON(c.res.Stdout)
		}
		if c.op.DryRun {
			// not in the property: counted only
			gained := 0
			for oid := range s.validStore() {
				if !c.preStore[oid] {
					gained++
				}
			}
			s.run.Count("dry_run_fetches", 1)
			s.run.Count("dry_run_objects_gained", int64(gained))
			return
		}
		if c.op.All {
			ds := s.allDemands(c.fetchRefs)
			s.run.Count("fetch_all_objects_demanded", int64(len(ds)))
			for _, d := range ds {
				s.run.Count("paths_selected", 1)
				requireObject(d.pi, d.why)
			}
			return
		}
		revs := c.fetchRefs
		if len(revs) == 0 {
			revs = []string{"HEAD"}
		}
		if c.op.Recent || c.op.RecentAlways {
			shape := c.shape
			doneR := map[string]bool{}
			for _, d := range s.recentDemands(c, c.op, revs) {
				if doneR[d.pi.Oid+d.shape] {
					continue
				}
				doneR[d.pi.Oid+d.shape] = true
				s.run.Count("recent_objects_demanded_"+d.shape, 1)
				c.shape = d.shape
				requireObject(d.pi, d.why)
			}
			c.shape = shape
		}
		done := map[string]bool{}
		for _, rev := range revs {
			ps := ptrsAt(s.env, s.model, rev)
			s.crossCheck(c, ptrPaths(ps))
			for _, pi := range ps {
				if !pi.Tracked {
					s.run.Count("untracked_pointer_paths_not_judged", 1)
					continue
				}
				if selected(c.inc, c.exc, pi.Path) {
					s.run.Count("paths_selected", 1)
					if !done[pi.Oid] {
						done[pi.Oid] = true
						requireObject(pi, "(ref "+rev+")")
					}
				} else {
					s.run.Count("paths_excluded", 1)
				}
			}
		}

	case "clone", "checkout-after-no-checkout", "git-checkout":
		if !ok {
			return
		}
		for _, pi := range head {
			touched := c.oldHead == nil
			if !touched {
				old, had := c.oldHead[pi.Path]
				touched = !had || old != pi.Mode+" "+pi.Blob
			}
			if !touched {
				expectUnchanged(pi.Path, "untouched-path-changed", s.trigger(c, pi), "blob identical in both commits")
				continue
			}
			if !pi.Tracked {
				s.run.Count("untracked_pointer_paths_not_judged", 1)
				continue
			}
			if !c.skip && selected(c.inc, c.exc, pi.Path) {
				s.run.Count("paths_selected", 1)
				expectContent(pi, true)
				requireObject(pi, "")
			} else {
				if c.skip {
					s.run.Count("paths_skipped_smudge", 1)
					expectPointer(pi, "skipped (GIT_LFS_SKIP_SMUDGE)")
				} else {
					s.run.Count("paths_excluded", 1)
					expectPointer(pi, "excluded")
				}
			}
		}

	case "lfs-pull", "lfs-checkout":
		// bystanders: files that are not pointer paths of HEAD must never change
		for _, p := range sortedKeys(func() map[string]bool {
			m := map[string]bool{}
			for p := range c.pre {
				if !isPtrPath[p] {
					m[p] = true
				}
			}
			return m
		}()) {
			s.run.Count("bystander_files_checked", 1)
			expectUnchanged(p, "bystander-modified", c.kind+"-bystander", "not an LFS pointer path of HEAD")
		}
		for _, pi := range head {
			pre, preok := c.pre[pi.Path]
			cls := classify(pre, preok, pi)
			mk := c.mut[pi.Path]
			if mk == "" {
				mk = "none"
			}
			sel := selected(c.inc, c.exc, pi.Path)
			if cls == "edited" || cls == "content" {
				// clause D: content before the command is not the recorded pointer => byte- and mode-identical afterwards
				label := mk
				if mk == "none" || mk == "untouched" {
					label = "edited-earlier"
					if cls == "content" {
						label = "already-materialised"
					}
				}
				s.run.Count("never_clobber_checked_"+label, 1)
				expectUnchanged(pi.Path, "clobbered", c.kind+"-after-"+label, "content before the command was "+cls+", not the recorded pointer")
				if ok && sel && pi.Tracked && c.kind == "lfs-pull" {
					requireObject(pi, "(path held "+cls+" content)")
				}
				continue
			}
			if !pi.Tracked {
				s.run.Count("untracked_pointer_paths_not_judged", 1)
				continue
			}
			if !ok {
				continue
			}
			// cls is "pointer" (possibly read-only) or "missing"
			s.run.Count("prestate_"+cls+"_"+mk, 1)
			post, pok := c.post[pi.Path]
			pcls := classify(post, pok, pi)
			lenient := func(allowed ...string) {
				s.run.Count("files_compared", 1)
				for _, a := range allowed {
					if pcls == a {
						return
					}
				}
				s.viol("unselected-not-pointer", s.trigger(c, pi), fmt.Sprintf("after %s: %q (before: %s, selected=%v) should be one of %v, is %s", c.kind, pi.Path, cls, sel, allowed, describe(post, pok, pi)))
			}
			switch {
			case !sel && cls == "pointer":
				s.run.Count("paths_excluded", 1)
				expectUnchanged(pi.Path, "unselected-not-pointer", s.trigger(c, pi), "excluded path holding the recorded pointer")
			case !sel:
				s.run.Count("paths_excluded", 1)
				lenient("missing", "pointer")
			case c.kind == "lfs-pull":
				s.run.Count("paths_selected", 1)
				expectContent(pi, false)
				requireObject(pi, "")
			case c.preLocal[pi.Oid]:
				s.run.Count("paths_selected", 1)
				s.run.Count("lfs_checkout_object_local", 1)
				expectContent(pi, false)
			case s.refHas(pi.Oid):
				// not local, but hash-valid in the store this clone borrows from (objects/info/alternates): the
				// pinned tree links or copies it into the local store and writes the file
				s.run.Count("paths_selected", 1)
				s.run.Count("lfs_checkout_object_in_reference_only", 1)
				expectContent(pi, false)
				s.run.Count("object_presence_checks", 1)
				if !s.localValid(pi.Oid) {
					s.viol("object-missing-or-corrupt", s.trigger(c, pi), fmt.Sprintf("after successful %s: selected path %q references %s, which is hash-valid in the reference store %s, but lfs/objects has no hash-valid file for it", c.kind, pi.Path, pi.Oid, s.refObjs))
				}
			default:
				s.run.Count("lfs_checkout_object_unavailable", 1)
				if cls == "missing" {
					lenient("missing", "pointer")
				} else {
					expectPointer(pi, "object-not-local")
				}
			}
		}
	}
}
