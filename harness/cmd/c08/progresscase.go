package main

// Environment coordinate GIT_LFS_PROGRESS for the clean side.
//
// With GIT_LFS_PROGRESS set to an absolute usable path `git lfs clean` (one-shot
// and filter-process) copies its input with a progress callback whose "total" is
// the size of whatever file sits at the named working-tree path. That size is a
// hint only: Git may stream other bytes for the path (git hash-object --path, a
// renormalising merge, a file rewritten while being added, a pointer file left by
// a checkout with smudging skipped while the real / look-alike content is
// streamed). The oracles are the unchanged ones of filtercase.go (P: output ==
// input, nothing stored; N: canonical pointer to a stored object equal to the
// WHOLE input, smudge(clean(x)) == x). This file only generates the sample of
// (input, working-tree state, driver) combinations that run with the variable
// set; the sample rotates with seed and round, and every seed has several
// (class N, smaller working-tree file, variable set) cases per driver.

type pinput struct {
	Kind string
	Base string // N-a-*: spelling of the base pointer ("" = rotate)
	Size int
}

// class-N inputs that begin with a pointer text (working-tree state "ptrbase" is possible)
var progWithPtr = []pinput{
	{Kind: "N-a-x"}, {Kind: "N-a-pay1025"}, {Kind: "N-nl3000"}, {Kind: "N-c-ptrprefix", Size: 4096},
	{Kind: "N-a-line"}, {Kind: "N-a-pay5000"}, {Kind: "N-comment3000"}, {Kind: "N-c-ptrprefix", Size: 70000},
	{Kind: "N-a-hash"}, {Kind: "N-a-pay1023"}, {Kind: "N-sp2000"}, {Kind: "N-c-ptrprefix", Size: 1023},
	{Kind: "N-commentafter1024"}, {Kind: "N-a-pay1024"}, {Kind: "N-nl1024x"}, {Kind: "N-c-ptrprefix", Size: 1025},
}

// class-N inputs without a leading pointer text
var progNoPtr = []pinput{
	{Kind: "N-c-random", Size: 70000}, {Kind: "N-c-textlf", Size: 4096}, {Kind: "N-c-zero", Size: 1025}, {Kind: "N-c-lookalike", Size: 1023},
	{Kind: "N-c-textcrlf", Size: 1024}, {Kind: "N-c-whitespace", Size: 4096}, {Kind: "N-c-random", Size: 100}, {Kind: "N-c-lookalike", Size: 70000},
}

// inputs longer than 5000 bytes: the 5000-byte working-tree file is the smaller one
var progBig = []pinput{{Kind: "N-c-random", Size: 70000}, {Kind: "N-c-ptrprefix", Size: 70000}, {Kind: "N-c-textlf", Size: 70000}, {Kind: "N-c-lookalike", Size: 70000}}

func progressCases(round int, seed int64, thorough bool) []fcase {
	rot := int(seed%9973) + round*3
	if rot < 0 {
		rot = -rot
	}
	m := 1
	if thorough {
		m = 2
	}
	oneshotD := []string{"whole", "cptr", "c512", "crand", "cmid", "c1024"}
	processD := []string{"pk65516", "pkptr", "pk100", "pkrand"}
	var out []fcase
	n := 0
	mk := func(mode string, in pinput, wt string, progress bool) {
		n++
		c := fcase{Mode: mode, Kind: in.Kind, Size: in.Size, NExt: (n + rot) % 4, Wt: wt, Progress: progress}
		if len(in.Kind) > 4 && in.Kind[:4] == "N-a-" {
			c.Base = pSpellings[(n+rot)%(len(pSpellings)-1)] // never "empty"
		}
		switch mode {
		case "oneshot":
			c.Delivery = oneshotD[(n+rot)%len(oneshotD)]
		case "process":
			c.Delivery = processD[(n+rot)%len(processD)]
		default:
			c.Delivery = "stdin"
		}
		out = append(out, c)
	}
	// ---- class N, variable set, one-shot clean and filter-process clean
	for mi, mode := range []string{"oneshot", "process"} {
		for i := 0; i < 4*m; i++ { // the skip-smudge pointer sits at the path, the stream extends it
			mk(mode, progWithPtr[(rot+mi*5+i*3)%len(progWithPtr)], "ptrbase", true)
		}
		for i := 0; i < 2*m; i++ { // 10 bytes at the path
			mk(mode, progNoPtr[(rot+mi*3+i*5)%len(progNoPtr)], "short10", true)
		}
		for i := 0; i < m; i++ {
			mk(mode, progWithPtr[(rot+mi*7+i*5+1)%len(progWithPtr)], "short10", true)
			mk(mode, progBig[(rot+mi+i)%len(progBig)], "big5000", true) // 5000 bytes at the path, more streamed
		}
		// working-tree file of the same size, larger, or absent
		mk(mode, progNoPtr[(rot+mi*3+1)%len(progNoPtr)], "same", true)
		mk(mode, progWithPtr[(rot+mi*3+2)%len(progWithPtr)], []string{"absent", "big5000"}[(rot+mi)%2], true)
		if thorough {
			mk(mode, progWithPtr[(rot+mi*3+4)%len(progWithPtr)], "same", true)
			mk(mode, progNoPtr[(rot+mi*3+4)%len(progNoPtr)], []string{"big5000", "absent"}[(rot+mi)%2], true)
		}
	}
	// ---- class P, variable set
	wtsProg := []string{"same", "big5000", "short10", "absent"}
	for si, sp := range pSpellings {
		for mi, mode := range []string{"oneshot", "process"} {
			if !thorough && (si+mi+rot)%2 == 1 {
				continue
			}
			wt := wtsProg[(si+mi+rot)%len(wtsProg)]
			if sp == "empty" && wt == "same" {
				wt = "big5000"
			}
			mk(mode, pinput{Kind: "P-" + sp}, wt, true)
		}
	}
	// ---- Git level: git hash-object -w --path --stdin, process filter and one-shot filters
	for gi, mode := range []string{"githash-process", "githash-oneshot"} {
		mk(mode, progWithPtr[(rot+gi*3)%len(progWithPtr)], "ptrbase", true)
		mk(mode, progNoPtr[(rot+gi*3)%len(progNoPtr)], "short10", true)
		mk(mode, progBig[(rot+gi)%len(progBig)], "big5000", true)
		mk(mode, progWithPtr[(rot+gi*3+1)%len(progWithPtr)], "same", true)
		mk(mode, pinput{Kind: "P-" + pSpellings[(rot+gi)%(len(pSpellings)-1)]}, wtsProg[(rot+gi)%len(wtsProg)], true)
		// the driver is new: the same route with the variable unset
		mk(mode, progWithPtr[(rot+gi*3+2)%len(progWithPtr)], "ptrbase", false)
		mk(mode, progNoPtr[(rot+gi*3+2)%len(progNoPtr)], []string{"short10", "absent"}[(rot+gi)%2], false)
		mk(mode, pinput{Kind: "P-" + pSpellings[(rot+gi+3)%(len(pSpellings)-1)]}, wtsProg[(rot+gi+1)%len(wtsProg)], false)
	}
	return out
}
