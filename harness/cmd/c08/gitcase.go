package main

// Git-level scenario: a working tree that holds pointer files (checked out with
// smudging skipped) is re-added / stashed / committed / renormalised through
// the real Git + LFS filters. Reference model: `git ls-files -s`, `git ls-tree`
// and `git cat-file` with the LFS filters disabled (env.PlainGit), ptrspec and
// SHA-256 computed here.

import (
	"bytes"
	"fmt"
	"math/rand"
	"os"
	"path/filepath"
	"sort"
	"strings"
	"time"

	"verif/harness/filt"
	"verif/harness/ptrspec"
	"verif/harness/sbx"
)

type gcase struct {
	Idx        int
	FilterMode string // process | oneshot
	Setup      string // clone | recheckout
	Skip       string // env (GIT_LFS_SKIP_SMUDGE=1 on every command) | config (git lfs install --skip-smudge style filter config)
	Progress   bool   // GIT_LFS_PROGRESS names an absolute usable path on every command of the scenario
	Ref        string // Setup clone only: the origin's store is a reference store of the clone (refstore.go); "" = none
}

// fm: filter mode plus the environment coordinate, as used in classes and triggers
func (c gcase) fm() string {
	m := c.FilterMode
	if c.Progress {
		m += "+progress-env"
	}
	if c.Ref != refNone {
		m += "+reference-store/" + c.Ref
	}
	return m
}

func (c gcase) class() string {
	return fmt.Sprintf("git/%s/%s/skip-%s", c.fm(), c.Setup, c.Skip)
}

type gfile struct {
	Path string
	Kind string // lfs-content-<sizeclass> | lookalike-content | blob-P-<spelling>
	Wt   []byte // bytes written to the origin working tree
	Blob []byte // expected blob = expected working-tree bytes after a checkout with smudging skipped
}

var gitContentSizes = []int{0, 1, 100, 1023, 1024, 1025, 5000, 70000}

const notesPath = "notes.txt"

func lsFiles(env *sbx.Env, dir string) (map[string]string, error) {
	res := env.PlainGit(dir, "ls-files", "-s", "-z")
	if !res.OK() {
		return nil, fmt.Errorf("%s", res.String())
	}
	out := map[string]string{}
	for _, rec := range strings.Split(string(res.Stdout), "\x00") {
		if rec == "" {
			continue
		}
		tab := strings.IndexByte(rec, '\t')
		if tab < 0 {
			return nil, fmt.Errorf("unparsable ls-files record %q", rec)
		}
		out[rec[tab+1:]] = rec[:tab] // "mode blob stage"
	}
	return out, nil
}

func lsTree(env *sbx.Env, dir, rev string) (map[string]string, error) {
	res := env.PlainGit(dir, "ls-tree", "-r", "-z", rev)
	if !res.OK() {
		return nil, fmt.Errorf("%s", res.String())
	}
	out := map[string]string{}
	for _, rec := range strings.Split(string(res.Stdout), "\x00") {
		if rec == "" {
			continue
		}
		tab := strings.IndexByte(rec, '\t')
		f := strings.Fields(rec[:tab])
		out[rec[tab+1:]] = f[0] + " " + f[2] + " 0" // same shape as ls-files -s
	}
	return out, nil
}

func countTrace(p string, needle string) int64 {
	b, _ := os.ReadFile(p)
	return int64(bytes.Count(b, []byte(needle)))
}

// execGit runs one Git-level scenario. Violations are reported through report(sym, trigger, what, extra).
func execGit(c gcase, seed int64, o obs, report func(sym, trigger, what string, extra map[string]any), inconclusive func(string)) {
	r := rand.New(rand.NewSource(seed))
	var opts []sbx.Opt
	if c.FilterMode == "oneshot" {
		opts = append(opts, sbx.OneShotFilters())
	}
	env := sbx.New(opts...)
	defer env.Cleanup()
	origin := env.InitRepo("origin")
	must := func(err error) {
		if err != nil {
			panic(err)
		}
	}
	must(os.WriteFile(filepath.Join(origin, ".gitattributes"), []byte("*.bin filter=lfs diff=lfs merge=lfs -text\n"), 0o644))
	must(os.WriteFile(filepath.Join(origin, notesPath), []byte("plain notes\n"), 0o644))

	var files []gfile
	for i, sz := range gitContentSizes {
		b := make([]byte, sz)
		r.Read(b)
		p := fmt.Sprintf("data/c%d.bin", sz)
		if i%3 == 1 {
			p = fmt.Sprintf("c%d.bin", sz)
		}
		files = append(files, gfile{Path: p, Kind: "lfs-content-" + filt.SizeClass(sz), Wt: b, Blob: []byte(ptrspec.Canonical(ptrspec.Pointer{Oid: sbx.Sha256Hex(b), Size: int64(sz)}))})
	}
	{ // look-alike content: a pointer text followed by one byte / padded with blank lines beyond 1024
		t, _ := spell("canon", randPointer(r, 0))
		b := []byte(t + "x")
		files = append(files, gfile{Path: "data/look.bin", Kind: "lookalike-content", Wt: b, Blob: []byte(ptrspec.Canonical(ptrspec.Pointer{Oid: sbx.Sha256Hex(b), Size: int64(len(b))}))})
		b2 := longInput(t, "nl3000")
		files = append(files, gfile{Path: "data/padded.bin", Kind: "lookalike-content", Wt: b2, Blob: []byte(ptrspec.Canonical(ptrspec.Pointer{Oid: sbx.Sha256Hex(b2), Size: int64(len(b2))}))})
	}
	for _, f := range files {
		must(os.MkdirAll(filepath.Dir(filepath.Join(origin, f.Path)), 0o755))
		must(os.WriteFile(filepath.Join(origin, f.Path), f.Wt, 0o644))
	}
	var originEnv []string
	if c.Progress { // the first `git add` of the content runs with the progress callback as well
		originEnv = []string{"GIT_LFS_PROGRESS=" + filepath.Join(env.Root, "lfs-progress.log")}
	}
	if res := env.Run(sbx.RunOpt{Dir: origin, Env: originEnv}, "git", "add", "-A"); !res.OK() {
		if res.GoCrash() {
			report("go-panic", c.class()+"/setup", "git add in the origin repository crashed: "+sbx.Trunc(res.Stderr, 1500), nil)
			return
		}
		inconclusive(fmt.Sprintf("git case %d: git add in origin failed (C01's subject): %s", c.Idx, sbx.Trunc(res.Stderr, 300)))
		return
	}
	// blobs that are class-P pointer texts in every frozen spelling (objects not available anywhere),
	// written to the index with the LFS filters disabled
	var blobPaths []string
	for _, sp := range pSpellings {
		if sp == "empty" {
			continue // covered by data/c0.bin
		}
		t, _ := spell(sp, randPointer(r, r.Intn(3)))
		p := "ptr/" + sp + ".bin"
		must(os.MkdirAll(filepath.Join(origin, "ptr"), 0o755))
		must(os.WriteFile(filepath.Join(origin, p), []byte(t), 0o644))
		files = append(files, gfile{Path: p, Kind: "blob-P-" + sp, Wt: []byte(t), Blob: []byte(t)})
		blobPaths = append(blobPaths, p)
	}
	env.MustPlainGit(origin, append([]string{"add", "--"}, blobPaths...)...)
	env.MustPlainGit(origin, "commit", "-q", "-m", "initial")

	// precondition (reference model): HEAD holds exactly the expected pointer blobs
	for _, f := range files {
		blob := env.PlainGit(origin, "cat-file", "blob", "HEAD:"+f.Path)
		if f.Kind == "lookalike-content" && (!blob.OK() || !bytes.Equal(blob.Stdout, f.Blob)) {
			// content that merely begins like a pointer must be stored in full: C08's own subject
			report("lookalike-not-stored-in-full", fmt.Sprintf("git-%s/origin-add/%s", c.fm(), f.Path), fmt.Sprintf("git add of %s (%d bytes beginning with a pointer text) committed %q instead of the pointer to the full content %q", f.Path, len(f.Wt), sbx.Trunc(blob.Stdout, 300), sbx.Trunc(f.Blob, 300)), nil)
			return
		}
		if !blob.OK() || !bytes.Equal(blob.Stdout, f.Blob) {
			inconclusive(fmt.Sprintf("git case %d: origin blob of %s is not the expected pointer (C01's subject)", c.Idx, f.Path))
			return
		}
	}

	skipEnv := []string{"GIT_LFS_SKIP_SMUDGE=1"}
	work := origin
	switch c.Setup {
	case "clone":
		work = filepath.Join(env.Root, "clone")
		cloneArgs := []string{"clone", "-q"}
		if c.Ref == refCloneRef {
			cloneArgs = append(cloneArgs, "--reference", origin)
		}
		res := env.Run(sbx.RunOpt{Dir: env.Root, Env: skipEnv}, "git", append(cloneArgs, origin, work)...)
		if res.GoCrash() {
			report("go-panic", c.class()+"/clone", "git clone crashed: "+sbx.Trunc(res.Stderr, 1500), nil)
			return
		}
		if !res.OK() {
			inconclusive(fmt.Sprintf("git case %d: clone with GIT_LFS_SKIP_SMUDGE=1 failed: %s", c.Idx, sbx.Trunc(res.Stderr, 300)))
			return
		}
	case "recheckout":
		for _, f := range files {
			os.Remove(filepath.Join(origin, f.Path))
		}
		res := env.Run(sbx.RunOpt{Dir: origin, Env: skipEnv}, "git", "checkout", "--", ".")
		if res.GoCrash() {
			report("go-panic", c.class()+"/recheckout", "git checkout crashed: "+sbx.Trunc(res.Stderr, 1500), nil)
			return
		}
		if !res.OK() {
			inconclusive(fmt.Sprintf("git case %d: checkout with GIT_LFS_SKIP_SMUDGE=1 failed: %s", c.Idx, sbx.Trunc(res.Stderr, 300)))
			return
		}
	}
	gitDir := filepath.Join(work, ".git")
	var cmdEnv []string
	if c.Skip == "env" {
		cmdEnv = skipEnv
	} else {
		// what `git lfs install --skip-smudge` writes (docs/man/git-lfs-install.adoc)
		env.MustGit(work, "config", "filter.lfs.smudge", "git-lfs smudge --skip -- %f")
		if c.FilterMode == "process" {
			env.MustGit(work, "config", "filter.lfs.process", "git-lfs filter-process --skip")
		}
	}
	if c.Ref != refNone {
		if c.Setup != "clone" {
			panic("reference-store scenarios need Setup clone")
		}
		originObjects := filepath.Join(origin, ".git", "objects")
		switch c.Ref {
		case refAlternates:
			appendAlternate(gitDir, originObjects)
		case refAltEnv:
			cmdEnv = append(append([]string{}, cmdEnv...), "GIT_ALTERNATE_OBJECT_DIRECTORIES="+originObjects)
		case refCloneRef:
			if _, err := os.Stat(filepath.Join(gitDir, "objects", "info", "alternates")); err != nil {
				panic("git clone --reference left no alternates file")
			}
			// the checkout with smudging skipped may have borrowed objects from the reference store: remove them again
			o.add("refstore_borrowed_objects_removed_before_clean", removeLocalObjects(gitDir))
		default:
			panic("unknown reference-store kind " + c.Ref)
		}
		// monitor's own evidence: pointer files whose object sits hash-valid in the reference store only
		var n int64
		for _, f := range files {
			if strings.HasPrefix(f.Kind, "lfs-content-") || f.Kind == "lookalike-content" {
				if len(f.Wt) > 0 && onlyInReference(filepath.Join(origin, ".git"), gitDir, sbx.Sha256Hex(f.Wt), int64(len(f.Wt))) {
					n++
				}
			}
		}
		if n == 0 {
			panic("reference-store scenario: no pointer file has its object only in the reference store")
		}
		o.add("refstore_git_scenarios_"+c.FilterMode+"_"+c.Ref, 1)
		o.add("refstore_git_pointer_files_object_only_in_reference_store", n)
	}
	if c.Progress {
		cmdEnv = append(append([]string{}, cmdEnv...), "GIT_LFS_PROGRESS="+filepath.Join(env.Root, "lfs-progress.log"))
		o.add("progress_env_cases_git-scenario-"+c.FilterMode, 1)
	}
	// precondition: the working tree holds the pointer files
	for _, f := range files {
		got, err := os.ReadFile(filepath.Join(work, f.Path))
		if err == nil && !bytes.Equal(got, f.Blob) && strings.HasPrefix(f.Kind, "blob-P-") && f.Kind != "blob-P-canon" {
			// `smudge --skip` re-encodes a non-canonical pointer canonically (command_smudge.go:
			// ptr.Encode). Whether it should is not C08's subject (its smudge clause speaks about
			// non-pointers only); the scenario continues with the blob's own bytes in the working
			// tree, as a checkout without the filter (or any tool writing pointer files) leaves them.
			o.add("skip_smudge_reencoded_noncanonical_pointer", 1)
			continue // dirty() below puts the blob's own bytes there
		}
		if err != nil || !bytes.Equal(got, f.Blob) {
			inconclusive(fmt.Sprintf("git case %d: after the skip-smudge checkout %s does not hold its pointer text (not C08's subject)", c.Idx, f.Path))
			return
		}
	}
	before, err := lsFiles(env, work)
	if err != nil {
		panic(err)
	}
	count0 := filt.CountObjects(gitDir)
	set0 := objSet(gitDir)
	kindOf := map[string]string{}
	for _, f := range files {
		kindOf[f.Path] = f.Kind
	}

	traceFile := filepath.Join(env.Root, "git-trace.log")
	git := func(args ...string) sbx.Result {
		os.Remove(traceFile)
		res := env.Run(sbx.RunOpt{Dir: work, Env: append(append([]string{}, cmdEnv...), "GIT_TRACE="+traceFile)}, "git", args...)
		o.add("git_commands", 1)
		o.add("git_oneshot_clean_invocations_traced", countTrace(traceFile, "git-lfs clean"))
		o.add("git_filter_process_starts_traced", countTrace(traceFile, "git-lfs filter-process"))
		return res
	}
	// Make every pointer file stat-dirty (new inode, other mtime, same size) so that Git has to run
	// the clean filter again to decide whether it changed. Non-canonical pointer blobs need one more
	// step: whenever Git re-creates such a file it does so through `smudge --skip`, which re-encodes
	// it canonically, so the size recorded in the index is that of the canonical text and Git would
	// call the file modified on the size alone, without consulting the filter. Their index entry is
	// therefore first refreshed with the filters disabled (same blob id, checked), then dirtied.
	var nonCanon []string
	for _, f := range files {
		if strings.HasPrefix(f.Kind, "blob-P-") && f.Kind != "blob-P-canon" {
			nonCanon = append(nonCanon, f.Path)
		}
	}
	dirty := func(step int) {
		t := time.Unix(1_000_000_000+int64(step)*1000, 0)
		for _, f := range files {
			p := filepath.Join(work, f.Path)
			must(sbx.WriteReplace(p, f.Blob, 0o644))
			must(os.Chtimes(p, t, t))
		}
		env.MustPlainGit(work, append([]string{"add", "--"}, nonCanon...)...)
		now, err := lsFiles(env, work)
		if err != nil {
			panic(err)
		}
		for _, p := range nonCanon {
			if now[p] != before[p] {
				panic(fmt.Sprintf("harness: plain git add of %s changed its index entry %q -> %q", p, before[p], now[p]))
			}
		}
		t = t.Add(7 * time.Second)
		for _, f := range files {
			p := filepath.Join(work, f.Path)
			must(sbx.WriteReplace(p, f.Blob, 0o644))
			must(os.Chtimes(p, t, t))
		}
	}
	trig := func(step, path string) string {
		k := kindOf[path]
		if k == "" {
			k = "other"
		}
		return fmt.Sprintf("git-%s/%s/%s", c.fm(), step, k)
	}
	ok := true
	check := func(step string, res sbx.Result, allowNotesModified bool, compareHead bool) {
		if res.GoCrash() {
			report("go-panic", trig(step, ""), fmt.Sprintf("%s crashed: %s", strings.Join(res.Args, " "), sbx.Trunc(res.Stderr, 1500)), nil)
			ok = false
			return
		}
		if !res.OK() {
			report("git-command-failed", trig(step, ""), fmt.Sprintf("step %s on a tree of pointer files failed: %s", step, res.String()), nil)
			ok = false
			return
		}
		// nothing is added to local storage by cleaning pointers: the SET of object files after every step
		o.add("object_set_checks", 1)
		if d := objSetDiff(set0, objSet(gitDir)); d != "" {
			ok = false
			report("object-added-for-pointer", fmt.Sprintf("git-%s/%s/%s", c.fm(), step, c.Setup), fmt.Sprintf("after %s the set of files under lfs/objects changed although only pointer files were re-added: %s", step, d), nil)
			return
		}
		after, err := lsFiles(env, work)
		if err != nil {
			panic(err)
		}
		var paths []string
		for p := range before {
			paths = append(paths, p)
		}
		sort.Strings(paths)
		for _, p := range paths {
			if p == notesPath {
				continue
			}
			o.add("index_entries_compared", 1)
			if after[p] != before[p] {
				ok = false
				extra := map[string]any{"path": p, "before": before[p], "after": after[p]}
				if f := strings.Fields(after[p]); len(f) >= 2 {
					nb := env.PlainGit(work, "cat-file", "blob", f[1])
					extra["new_blob"] = sbx.Trunc(nb.Stdout, 600)
				}
				report("index-blob-changed-after-readd", trig(step, p), fmt.Sprintf("after %s the index entry of %s (a pointer file checked out with smudging skipped) is %q, was %q", step, p, after[p], before[p]), extra)
			}
		}
		for p := range after {
			if _, known := before[p]; !known {
				ok = false
				report("index-entry-appeared", trig(step, p), fmt.Sprintf("after %s the index has an unexpected entry %s", step, p), nil)
			}
		}
		if compareHead {
			head, err := lsTree(env, work, "HEAD")
			if err != nil {
				panic(err)
			}
			for _, p := range paths {
				if p == notesPath {
					continue
				}
				o.add("head_tree_entries_compared", 1)
				if head[p] != before[p] {
					ok = false
					report("committed-blob-changed-after-readd", trig(step, p), fmt.Sprintf("after %s HEAD has %q for %s, the original pointer blob was %q", step, head[p], p, before[p]), nil)
				}
			}
		}
		st := env.Run(sbx.RunOpt{Dir: work, Env: cmdEnv}, "git", "status", "--porcelain", "-z", "--untracked-files=all")
		o.add("git_commands", 1)
		o.add("status_checks", 1)
		if st.GoCrash() || !st.OK() {
			ok = false
			report("git-command-failed", trig(step+"+status", ""), "git status failed: "+st.String(), nil)
			return
		}
		for _, rec := range strings.Split(string(st.Stdout), "\x00") {
			if len(rec) < 4 {
				continue
			}
			p := rec[3:]
			if p == notesPath && allowNotesModified {
				continue
			}
			ok = false
			report("status-shows-modification", trig(step, p), fmt.Sprintf("after %s `git status --porcelain` reports %q although only byte-identical pointer files were rewritten", step, rec), nil)
		}
	}

	dirty(1)
	res := git("status", "--porcelain")
	check("status", res, false, false)
	if !ok {
		return
	}
	dirty(2)
	res = git("add", "-A")
	if c.FilterMode == "oneshot" && countTrace(traceFile, "git-lfs clean") == 0 || c.FilterMode == "process" && countTrace(traceFile, "git-lfs filter-process") == 0 {
		inconclusive(fmt.Sprintf("git case %d: git add -A did not run the LFS clean filter (monitor observed nothing)", c.Idx))
	}
	check("add-A", res, false, false)
	if !ok {
		return
	}
	must(os.WriteFile(filepath.Join(work, notesPath), []byte("plain notes\nedited\n"), 0o644))
	dirty(3)
	res = git("stash")
	check("stash", res, false, false)
	if !ok {
		return
	}
	dirty(4)
	res = git("stash", "pop")
	check("stash-pop", res, true, false)
	if !ok {
		return
	}
	dirty(5)
	res = git("commit", "-q", "-a", "--allow-empty", "-m", "re-add everything")
	check("commit-a", res, false, true)
	if !ok {
		return
	}
	dirty(6)
	res = git("add", "--renormalize", ".")
	check("renormalize", res, false, false)
	if !ok {
		return
	}
	dirty(7)
	res = git("commit", "-q", "-a", "--allow-empty", "-m", "empty")
	check("commit-a-2", res, false, true)
	o.add("object_count_checks", 1)
	o.add("object_set_checks", 1)
	if d := objSetDiff(set0, objSet(gitDir)); d != "" && filt.CountObjects(gitDir) == count0 {
		report("object-added-for-pointer", fmt.Sprintf("git-%s/whole-scenario/%s", c.fm(), c.Setup), "the set of files under lfs/objects changed while only pointer files were re-added: "+d, nil)
	}
	if n := filt.CountObjects(gitDir); n != count0 {
		var names []string
		for rel, e := range sbx.SnapshotLFS(gitDir) {
			if strings.HasPrefix(rel, "objects/") {
				names = append(names, fmt.Sprintf("%s (%d bytes)", rel, e.Size))
			}
		}
		sort.Strings(names)
		report("object-added-for-pointer", fmt.Sprintf("git-%s/whole-scenario/%s", c.fm(), c.Setup), fmt.Sprintf("files under lfs/objects went from %d to %d while only pointer files were re-added", count0, n), map[string]any{"objects": names})
	}
	o.add("git_scenarios", 1)
}
